// Generates the stream dispatch table from the files present in src/streams/,
// so that adding a property's stream is adding one file.
use std::{env, fs, path::Path};

fn main() {
    let dir = Path::new("src/streams");
    let mut names: Vec<String> = fs::read_dir(dir)
        .unwrap()
        .filter_map(|e| {
            let p = e.unwrap().path();
            let n = p.file_name()?.to_str()?.to_string();
            n.strip_suffix(".rs").map(|s| s.to_string())
        })
        .collect();
    names.sort();
    let mut out = String::new();
    for n in &names {
        let abs = fs::canonicalize(dir.join(format!("{n}.rs"))).unwrap();
        out.push_str(&format!("#[path = {:?}]\npub mod {n};\n", abs.to_str().unwrap()));
    }
    out.push_str("pub fn dispatch(name: &str, ctx: &mut crate::ctx::Ctx) -> bool {\n    match name {\n");
    for n in &names {
        out.push_str(&format!("        {:?} => {{ {n}::run(ctx); true }}\n", n));
    }
    out.push_str("        _ => false,\n    }\n}\n");
    out.push_str(&format!("pub const STREAMS: &[&str] = &{:?};\n", names));
    let dest = Path::new(&env::var("OUT_DIR").unwrap()).join("streams.rs");
    fs::write(dest, out).unwrap();
    println!("cargo:rerun-if-changed=src/streams");
    println!("cargo:rerun-if-changed=build.rs");
}
