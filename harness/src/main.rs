//! fv-harness: runs the real fuel-vm crates on generated inputs and writes, per stream,
//! `ops.txt` (one request per line, also fed to the Lean driver), `impl.txt` (the implementation's
//! canonicalised answers, one per request), `oracle.jsonl` (property-oracle failures evaluated
//! directly on the implementation) and `coverage.json` (what was actually generated).
pub mod ctx;
pub mod gen;
pub mod util;
pub mod streams {
    include!(concat!(env!("OUT_DIR"), "/streams.rs"));
}

fn main() {
    let args: Vec<String> = std::env::args().collect();
    let mut stream = String::new();
    let mut tier = ctx::Tier::Quick;
    let mut seed: u64 = std::env::var("VERIF_SEED").ok().and_then(|s| s.parse().ok()).unwrap_or(1);
    let mut out = String::from("out");
    let mut scale: u64 = 1;
    let mut i = 1;
    while i < args.len() {
        match args[i].as_str() {
            "--tier" => { i += 1; tier = if args[i] == "thorough" { ctx::Tier::Thorough } else { ctx::Tier::Quick }; }
            "--seed" => { i += 1; seed = args[i].parse().expect("seed"); }
            "--out" => { i += 1; out = args[i].clone(); }
            "--scale" => { i += 1; scale = args[i].parse().expect("scale"); }
            "--list" => { for s in streams::STREAMS { println!("{s}"); } return; }
            s => stream = s.to_string(),
        }
        i += 1;
    }
    // keep panic output of caught panics out of the way; the payload is recorded by `guard`
    if std::env::var("FV_DEBUG_PANIC").is_ok() { std::panic::set_hook(Box::new(|i| eprintln!("{i}"))); } else { std::panic::set_hook(Box::new(|_| {})); }
    let mut c = ctx::Ctx::new(&out, tier, seed, scale);
    if !streams::dispatch(&stream, &mut c) {
        eprintln!("unknown stream {stream:?}; known: {:?}", streams::STREAMS);
        std::process::exit(2);
    }
    c.finish();
}
