//! C05 — in-VM transaction introspection. Real `Interpreter`s (script context for `Script`, predicate-verification
//! context for `Script`/`Create`/`Upgrade`/`Upload`/`Blob`) are initialised with generated transactions through the
//! public `init_script` / `init_predicate`; then `GTF` is single-stepped (`Interpreter::instruction`) for EVERY selector
//! of `GTFArgs` (plus unknown immediates) × index ∈ {0..n+1, 2^16, 2^32-1, 2^32, u64::MAX}, and `GM` for every selector.
//! Each answer (register or panic reason, and the memory at a returned pointer) is printed; the Lean driver
//! (`Drv/C05.lean`) predicts the same line from the model (Model/Gtf.lean).
//! Oracle (independent of the model): a table of what each selector means in terms of the accessors of the
//! transaction the VM holds — value selectors must return exactly that value, pointer selectors a pointer at which VM
//! memory holds exactly the field's canonical bytes, absent indices / other kinds the specified panic.
#[path = "../codec/mod.rs"]
mod codec;
use crate::{ctx::Ctx, util::hex};
use codec::*;
use fuel_asm::{op, GMArgs, GTFArgs, PanicReason, RegId};
use fuel_tx::{Finalizable as _, 
    field::{BlobId as _, BytecodeRoot as _, BytecodeWitnessIndex as _, Inputs, Outputs, ProofSet as _, ReceiptsRoot as _, Salt as _, Script as _, ScriptData as _, ScriptGasLimit as _,
        StorageSlots as _, SubsectionIndex as _, SubsectionsNumber as _, UpgradePurpose as _, Witnesses},
    policies::{Policies, PolicyType}, BlobBody, ConsensusParameters, Input, Output, StorageSlot, Transaction, TxParameters, UniqueIdentifier, UpgradePurpose, UploadBody, Witness,
};
use fuel_types::{canonical::Serialize, AssetId, ChainId};
use fuel_vm::{
    checked_transaction::{Checked, IntoChecked}, context::Context, error::InterpreterError, interpreter::{ExecutableTransaction, Interpreter, InterpreterParams, MemoryInstance},
    prelude::{MemoryStorage, RuntimePredicate}, state::ExecuteState,
};
use sha2::{Digest, Sha256};

type Vm<Tx> = Interpreter<MemoryInstance, MemoryStorage, Tx>;

fn pad(x: &[u8]) -> Vec<u8> { let mut v = x.to_vec(); while v.len() % 8 != 0 { v.push(0); } v }
fn sha(x: &[u8]) -> String { let mut h = Sha256::new(); h.update(x); hex(&h.finalize()) }

/// what a selector is specified to return
enum Expect { Value(u64), Bytes(Vec<u8>), Panic(PanicReason) }
use Expect::*;

fn input_expect(i: Option<&Input>, f: impl Fn(&Input) -> bool, g: impl Fn(&Input) -> Option<Expect>) -> Expect {
    i.filter(|x| f(x)).and_then(|x| g(x)).unwrap_or(Panic(PanicReason::InputNotFound))
}
fn v<T: Into<u64>>(x: T) -> Option<Expect> { Some(Value(x.into())) }
fn bs(x: &[u8]) -> Option<Expect> { Some(Bytes(x.to_vec())) }

/// the meaning of every selector, from the accessors of the transaction as the VM holds it
#[allow(deprecated)]
fn expected<Tx: ExecutableTransaction>(tx: &Tx, kind: usize, map: &std::collections::BTreeMap<u16, u16>, sel: GTFArgs, b: u64) -> Expect {
    use GTFArgs::*;
    if b > u32::MAX as u64 { return Panic(PanicReason::InvalidMetadataIdentifier); }
    let bi = b as usize;
    let inp = tx.inputs().get(bi);
    let out = tx.outputs().get(bi);
    let wit = tx.witnesses().get(bi);
    let pol = |t: PolicyType| tx.policies().get(t).map(Value).unwrap_or(Panic(PanicReason::PolicyIsNotSet));
    let coin = |i: &Input| i.is_coin();
    let msg = |i: &Input| i.is_message();
    let con = |i: &Input| i.is_contract();
    let other = Panic(PanicReason::InvalidMetadataIdentifier);
    match sel {
        Type => Value(kind as u64),
        ScriptGasLimit => Value(tx.as_script().map(|s| *s.script_gas_limit()).unwrap_or(0)),
        PolicyTypes => Value(tx.policies().bits() as u64),
        PolicyTip => pol(PolicyType::Tip), PolicyWitnessLimit => pol(PolicyType::WitnessLimit), PolicyMaturity => pol(PolicyType::Maturity),
        PolicyExpiration => pol(PolicyType::Expiration), PolicyMaxFee => pol(PolicyType::MaxFee), PolicyOwner => pol(PolicyType::Owner),
        ScriptInputsCount | CreateInputsCount | TxInputsCount => Value(tx.inputs().len() as u64),
        ScriptOutputsCount | CreateOutputsCount | TxOutputsCount => Value(tx.outputs().len() as u64),
        ScriptWitnessesCount | CreateWitnessesCount | TxWitnessesCount => Value(tx.witnesses().len() as u64),
        ScriptInputAtIndex | CreateInputAtIndex | TxInputAtIndex => inp.map(|i| Bytes(i.to_bytes())).unwrap_or(Panic(PanicReason::InputNotFound)),
        ScriptOutputAtIndex | CreateOutputAtIndex | TxOutputAtIndex => out.map(|i| Bytes(i.to_bytes())).unwrap_or(Panic(PanicReason::OutputNotFound)),
        ScriptWitnessAtIndex | CreateWitnessAtIndex | TxWitnessAtIndex => wit.map(|i| Bytes(i.to_bytes())).unwrap_or(Panic(PanicReason::WitnessNotFound)),
        TxLength => Value(tx.size() as u64),
        InputType => inp.map(|i| Value(match i { Input::CoinSigned(_) | Input::CoinPredicate(_) => 0, Input::Contract(_) => 1, _ => 2 })).unwrap_or(Panic(PanicReason::InputNotFound)),
        InputCoinTxId => input_expect(inp, coin, |i| i.utxo_id().and_then(|u| bs(u.tx_id().as_ref()))),
        InputCoinOutputIndex => input_expect(inp, coin, |i| i.utxo_id().and_then(|u| v(u.output_index()))),
        InputCoinOwner => input_expect(inp, coin, |i| i.input_owner().and_then(|a| bs(a.as_ref()))),
        InputCoinAmount => input_expect(inp, coin, |i| i.amount().map(Value)),
        InputCoinAssetId => input_expect(inp, coin, |i| i.asset_id(&AssetId::default()).and_then(|a| bs(a.as_ref()))),
        InputCoinTxPointer => input_expect(inp, coin, |i| i.tx_pointer().map(|t| Bytes(t.to_bytes()))),
        InputCoinWitnessIndex => input_expect(inp, coin, |i| i.witness_index().and_then(v)),
        InputCoinPredicateLength => input_expect(inp, coin, |i| Some(Value(i.input_predicate().map(|p| p.len()).unwrap_or(0) as u64))),
        InputCoinPredicateDataLength => input_expect(inp, coin, |i| Some(Value(i.input_predicate_data().map(|p| p.len()).unwrap_or(0) as u64))),
        InputCoinPredicateGasUsed => input_expect(inp, coin, |i| i.predicate_gas_used().map(Value)),
        InputCoinPredicate => input_expect(inp, coin, |i| i.input_predicate().map(|p| Bytes(pad(p)))),
        InputCoinPredicateData => input_expect(inp, coin, |i| i.input_predicate_data().map(|p| Bytes(pad(p)))),
        InputContractTxId => input_expect(inp, con, |i| i.utxo_id().and_then(|u| bs(u.tx_id().as_ref()))),
        InputContractOutputIndex => {
            if b > u16::MAX as u64 { Panic(PanicReason::InvalidMetadataIdentifier) }
            else { map.get(&(b as u16)).map(|x| Value(*x as u64)).unwrap_or(Panic(PanicReason::InputNotFound)) }
        }
        InputContractId => input_expect(inp, con, |i| i.contract_id().and_then(|a| bs(a.as_ref()))),
        InputMessageSender => input_expect(inp, msg, |i| i.sender().and_then(|a| bs(a.as_ref()))),
        InputMessageRecipient => input_expect(inp, msg, |i| i.recipient().and_then(|a| bs(a.as_ref()))),
        InputMessageAmount => input_expect(inp, msg, |i| i.amount().map(Value)),
        InputMessageNonce => input_expect(inp, msg, |i| i.nonce().and_then(|a| bs(a.as_ref()))),
        InputMessageWitnessIndex => input_expect(inp, msg, |i| i.witness_index().and_then(v)),
        InputMessageDataLength => input_expect(inp, msg, |i| Some(Value(i.input_data().map(|p| p.len()).unwrap_or(0) as u64))),
        InputMessagePredicateLength => input_expect(inp, msg, |i| Some(Value(i.input_predicate().map(|p| p.len()).unwrap_or(0) as u64))),
        InputMessagePredicateDataLength => input_expect(inp, msg, |i| Some(Value(i.input_predicate_data().map(|p| p.len()).unwrap_or(0) as u64))),
        InputMessagePredicateGasUsed => input_expect(inp, msg, |i| i.predicate_gas_used().map(Value)),
        InputMessageData => input_expect(inp, msg, |i| Some(Bytes(pad(i.input_data().unwrap_or(&[]))))),
        InputMessagePredicate => input_expect(inp, msg, |i| i.input_predicate().map(|p| Bytes(pad(p)))),
        InputMessagePredicateData => input_expect(inp, msg, |i| i.input_predicate_data().map(|p| Bytes(pad(p)))),
        OutputType => out.map(|o| Value(output_variant(o) as u64)).unwrap_or(Panic(PanicReason::OutputNotFound)),
        OutputCoinTo => out.filter(|o| o.is_coin() || o.is_change()).and_then(|o| o.to()).and_then(|a| bs(a.as_ref())).unwrap_or(Panic(PanicReason::OutputNotFound)),
        OutputCoinAmount => out.filter(|o| o.is_coin()).and_then(|o| o.amount()).map(Value).unwrap_or(Panic(PanicReason::OutputNotFound)),
        OutputCoinAssetId => out.filter(|o| o.is_coin() || o.is_change()).and_then(|o| o.asset_id()).and_then(|a| bs(a.as_ref())).unwrap_or(Panic(PanicReason::OutputNotFound)),
        // the implementation reports an absent contract output as InputNotFound
        OutputContractInputIndex => out.filter(|o| o.is_contract()).and_then(|o| o.input_index()).map(|x| Value(x as u64)).unwrap_or(Panic(PanicReason::InputNotFound)),
        OutputContractCreatedContractId => out.filter(|o| o.is_contract_created()).and_then(|o| o.contract_id()).and_then(|a| bs(a.as_ref())).unwrap_or(Panic(PanicReason::OutputNotFound)),
        OutputContractCreatedStateRoot => out.filter(|o| o.is_contract_created()).and_then(|o| o.state_root()).and_then(|a| bs(a.as_ref())).unwrap_or(Panic(PanicReason::OutputNotFound)),
        WitnessDataLength => wit.map(|w| Value(w.as_ref().len() as u64)).unwrap_or(Panic(PanicReason::WitnessNotFound)),
        WitnessData => wit.map(|w| Bytes(pad(w.as_ref()))).unwrap_or(Panic(PanicReason::WitnessNotFound)),
        ScriptLength => tx.as_script().map(|s| Value(s.script().len() as u64)).unwrap_or(other),
        ScriptDataLength => tx.as_script().map(|s| Value(s.script_data().len() as u64)).unwrap_or(other),
        Script => tx.as_script().map(|s| Bytes(pad(s.script()))).unwrap_or(other),
        ScriptData => tx.as_script().map(|s| Bytes(pad(s.script_data()))).unwrap_or(other),
        CreateBytecodeWitnessIndex => tx.as_create().map(|c| Value(*c.bytecode_witness_index() as u64)).unwrap_or(other),
        CreateStorageSlotsCount => tx.as_create().map(|c| Value(c.storage_slots().len() as u64)).unwrap_or(other),
        CreateSalt => tx.as_create().map(|c| Bytes(c.salt().to_vec())).unwrap_or(other),
        CreateStorageSlotAtIndex => tx.as_create().map(|c| c.storage_slots().get(bi).map(|s| Bytes(s.to_bytes())).unwrap_or(Panic(PanicReason::StorageSlotsNotFound))).unwrap_or(other),
        BlobId => tx.as_blob().map(|x| Bytes(x.blob_id().to_vec())).unwrap_or(other),
        BlobWitnessIndex => tx.as_blob().map(|x| Value(*x.bytecode_witness_index() as u64)).unwrap_or(other),
        UploadRoot => tx.as_upload().map(|x| Bytes(x.bytecode_root().to_vec())).unwrap_or(other),
        UploadWitnessIndex => tx.as_upload().map(|x| Value(*x.bytecode_witness_index() as u64)).unwrap_or(other),
        UploadSubsectionIndex => tx.as_upload().map(|x| Value(*x.subsection_index() as u64)).unwrap_or(other),
        UploadSubsectionsCount => tx.as_upload().map(|x| Value(*x.subsections_number() as u64)).unwrap_or(other),
        UploadProofSetCount => tx.as_upload().map(|x| Value(x.proof_set().len() as u64)).unwrap_or(other),
        UploadProofSetAtIndex => tx.as_upload().map(|x| x.proof_set().get(bi).map(|p| Bytes(p.to_vec())).unwrap_or(Panic(PanicReason::ProofInUploadNotFound))).unwrap_or(other),
        UpgradePurpose => tx.as_upgrade().map(|x| Bytes(x.upgrade_purpose().to_bytes())).unwrap_or(other),
    }
}

const RA: u8 = 0x10;
const RB: u8 = 0x11;

fn step<Tx: ExecutableTransaction>(vm: &mut Vm<Tx>, raw: u32, b: u64) -> Result<u64, String> {
    let pc = vm.registers()[RegId::PC];
    { let r = vm.registers_mut(); r[RB as usize] = b; r[RA as usize] = 0xDEAD_BEEF; r[RegId::GGAS] = 1 << 40; r[RegId::CGAS] = 1 << 40; }
    let res = vm.instruction::<u32, false>(raw);
    let out = match res {
        Ok(ExecuteState::Proceed) => Ok(vm.registers()[RA as usize]),
        Ok(_) => Err("OTHER-STATE".to_string()),
        Err(InterpreterError::PanicInstruction(pi)) => Err(format!("{:?}", pi.reason())),
        Err(InterpreterError::Panic(r)) => Err(format!("{:?}", r)),
        Err(_) => Err("OTHER-ERROR".to_string()),
    };
    vm.registers_mut()[RegId::PC] = pc;
    out
}

/// the indices asked for a selector: `InputContractOutputIndex` reads a VM-side table (not the transaction bytes), so it is asked for
/// every small index and for every key an EARLIER transaction on the same VM put into that table
fn idx_plan(sel: GTFArgs, base: &[u64], extra: &[u64]) -> Vec<u64> {
    let mut v = base.to_vec();
    if matches!(sel, GTFArgs::InputContractOutputIndex) { v.extend(0..34u64); v.extend_from_slice(extra); v.sort(); v.dedup(); }
    v
}

fn queries<Tx: ExecutableTransaction>(ctx: &mut Ctx, vm: &mut Vm<Tx>, kind: usize, ctxname: &str, setup: &str, thorough_idx: bool, extra: &[u64]) {
    let tx = vm.transaction().clone();
    let map: std::collections::BTreeMap<u16, u16> = tx.outputs().iter().enumerate()
        .filter_map(|(j, o)| match o { Output::Contract(c) => Some((c.input_index, j as u16)), _ => None }).collect();
    let n = tx.inputs().len().max(tx.outputs().len()).max(tx.witnesses().len()) as u64;
    let mut idxs: Vec<u64> = (0..=n + 1).collect();
    idxs.extend_from_slice(&[1 << 16, u32::MAX as u64, (u32::MAX as u64) + 1, u64::MAX]);
    if !thorough_idx { idxs.retain(|x| *x <= n + 1 || *x == u64::MAX || *x == 1 << 16); }
    let kname = TX_NAMES[kind];
    for sel in (0u16..4096).filter_map(|i| GTFArgs::try_from(i).ok()) {
        let imm = sel as u16;
        // selectors that ignore the index are asked once (and once with a huge index)
        let ignores = matches!(expected(&tx, kind, &map, sel, 0), Value(_)) && matches!(expected(&tx, kind, &map, sel, 12345), Value(_)) && !matches!(sel, GTFArgs::InputContractOutputIndex);
        for b in idx_plan(sel, &idxs, extra) {
            if ignores && b != 0 && b != u64::MAX { continue; }
            let exp = expected(&tx, kind, &map, sel, b);
            let nbytes = match &exp { Bytes(x) => x.len(), _ => 0 };
            let req = format!("gtf {imm} {b} {nbytes}");
            let got = step(vm, op::gtf(RA, RB, imm).into(), b);
            let ans = match &got {
                Ok(val) => { let m = if nbytes > 0 { vm.memory().read(*val, nbytes).map(|x| hex(x)).unwrap_or("unreadable".into()) } else { "-".into() }; format!("ok {val} {m}") }
                Err(r) => format!("panic {r}"),
            };
            ctx.emit(&req, &ans);
            let class = format!("{ctxname}-{kname}-{sel:?}");
            ctx.count(&format!("sel.{}", match &exp { Value(_) => "value", Bytes(_) => "pointer", Panic(_) => "panic" }));
            let full = format!("{setup} ;; {req}");
            match (&exp, &got) {
                (Value(e), Ok(g)) if e == g => {}
                (Bytes(e), Ok(g)) => {
                    let m = vm.memory().read(*g, e.len()).ok().map(|x| x.to_vec());
                    if m.as_deref() != Some(&e[..]) {
                        ctx.oracle_fail(&format!("gtf-pointer-{class}"), &full, &format!("memory at {g} is {} but the field's bytes are {}", m.map(|x| hex(&x)).unwrap_or("unreadable".into()), hex(e)));
                    }
                }
                (Panic(e), Err(g)) if format!("{e:?}") == *g => {}
                (Value(e), g) => ctx.oracle_fail(&format!("gtf-value-{class}"), &full, &format!("expected {e}, got {g:?}")),
                (Panic(e), g) => ctx.oracle_fail(&format!("gtf-panic-{class}"), &full, &format!("expected panic {e:?}, got {g:?}")),
                (Bytes(_), Err(g)) => ctx.oracle_fail(&format!("gtf-absent-{class}"), &full, &format!("field present but GTF panicked with {g}")),
            }
        }
    }
    // immediates that are no selector
    for imm in [0u16, 8, 15, 0x100, 0x208, 0x7ff, 0xfff] {
        if GTFArgs::try_from(imm).is_ok() { continue; }
        let got = step(vm, op::gtf(RA, RB, imm).into(), 0);
        ctx.emit(&format!("gtf {imm} 0 0"), &match &got { Ok(v) => format!("ok {v} -"), Err(r) => format!("panic {r}") });
        if got != Err("InvalidMetadataIdentifier".to_string()) { ctx.oracle_fail(&format!("gtf-unknown-selector-{ctxname}"), &format!("{setup} ;; gtf {imm}"), &format!("got {got:?}")); }
    }
}

/// every GTF (all selectors x the same index plan) and GM answer of a VM, without emitting: used to compare a REUSED VM with a fresh one
fn answers<Tx: ExecutableTransaction>(vm: &mut Vm<Tx>, extra: &[u64]) -> Vec<(String, String)> {
    let tx = vm.transaction().clone();
    let n = tx.inputs().len().max(tx.outputs().len()).max(tx.witnesses().len()) as u64;
    let mut idxs: Vec<u64> = (0..=n + 1).collect();
    idxs.extend_from_slice(&[1 << 16, u64::MAX]);
    let mut out = vec![];
    for sel in (0u16..4096).filter_map(|i| GTFArgs::try_from(i).ok()) {
        for b in idx_plan(sel, &idxs, extra) {
            let got = step(vm, op::gtf(RA, RB, sel as u16).into(), b);
            // a returned value that is an address inside the initialised memory is dereferenced (32 bytes)
            let ans = match &got { Ok(v) => format!("ok {v} {}", vm.memory().read(*v, 32usize).map(|x| hex(x)).unwrap_or("-".into())), Err(r) => format!("panic {r}") };
            out.push((format!("gtf {sel:?} {b}"), ans));
        }
    }
    for sel in (0u32..64).filter_map(|i| GMArgs::try_from(i).ok()) {
        let got = step(vm, op::gm(RA, sel as u32).into(), 0);
        out.push((format!("gm {sel:?}"), match &got { Ok(v) => format!("ok {v}"), Err(r) => format!("panic {r}") }));
    }
    out
}

struct Setup { max_inputs: u16, chain: u64, gas_price: u64, base: AssetId }

fn gm_queries<Tx: ExecutableTransaction>(ctx: &mut Ctx, vm: &mut Vm<Tx>, s: &Setup, pred: Option<usize>, ctxname: &str, setup: &str) {
    let tx = vm.transaction().clone();
    for sel in (0u32..64).filter_map(|i| GMArgs::try_from(i).ok()) {
        let imm = sel as u32;
        let got = step(vm, op::gm(RA, imm).into(), 0);
        let n = match sel { GMArgs::BaseAssetId | GMArgs::GetOwner => 32, _ => 0 };
        let ans = match &got { Ok(v) => format!("ok {v} {}", if n > 0 { vm.memory().read(*v, n).map(|x| hex(x)).unwrap_or("unreadable".into()) } else { "-".into() }), Err(r) => format!("panic {r}") };
        ctx.emit(&format!("gm {imm} {n}"), &ans);
        let full = format!("{setup} ;; gm {imm}");
        let fp = format!("gm-{ctxname}-{sel:?}");
        let mem32 = |vm: &Vm<Tx>, p: u64| vm.memory().read(p, 32usize).ok().map(|x| x.to_vec());
        match sel {
            GMArgs::GetChainId => if got != Ok(s.chain) { ctx.oracle_fail(&fp, &full, &format!("{got:?} vs chain id {}", s.chain)); },
            GMArgs::TxStart => {
                let ok = got.as_ref().ok().and_then(|p| vm.memory().read(*p, tx.size()).ok().map(|x| x == &tx.to_bytes()[..])).unwrap_or(false);
                if !ok { ctx.oracle_fail(&fp, &full, "the transaction's bytes are not at the returned address"); }
            }
            GMArgs::BaseAssetId => if got.as_ref().ok().and_then(|p| mem32(vm, *p)) != Some(s.base.to_vec()) { ctx.oracle_fail(&fp, &full, &format!("{got:?}: base asset id not there")); },
            GMArgs::GetGasPrice => {
                let want = if pred.is_some() { Err("CanNotGetGasPriceInPredicate".to_string()) } else { Ok(s.gas_price) };
                if got != want { ctx.oracle_fail(&fp, &full, &format!("{got:?} vs {want:?}")); }
            }
            GMArgs::GetVerifyingPredicate => {
                let want = match pred { Some(i) => Ok(i as u64), None => Err("TransactionValidity".to_string()) };
                if got != want { ctx.oracle_fail(&fp, &full, &format!("{got:?} vs {want:?}")); }
            }
            GMArgs::GetOwner => {
                // the owner: the input named by the owner policy, else the common owner of all inputs that have one
                let owners: Vec<_> = tx.inputs().iter().filter_map(|i| i.input_owner().copied()).collect();
                let want = match tx.policies().get(PolicyType::Owner) {
                    Some(ix) => tx.inputs().get(ix as usize).and_then(|i| i.input_owner().copied()),
                    None => if !owners.is_empty() && owners.iter().all(|o| *o == owners[0]) { Some(owners[0]) } else { None },
                };
                match (want, &got) {
                    (Some(a), Ok(p)) => if mem32(vm, *p) != Some(a.to_vec()) { ctx.oracle_fail(&fp, &full, "owner address not at the returned pointer"); },
                    (None, Err(r)) if r == "OwnerIsUnknown" => {}
                    (w, g) => ctx.oracle_fail(&fp, &full, &format!("owner {w:?} but GM answered {g:?}")),
                }
            }
            GMArgs::GetCaller | GMArgs::IsCallerExternal => if got != Err("ExpectedInternalContext".to_string()) { ctx.oracle_fail(&fp, &full, &format!("{got:?}")); },
        }
    }
}

fn params(s: &Setup) -> ConsensusParameters {
    let mut p = ConsensusParameters::standard();
    p.set_chain_id(ChainId::new(s.chain));
    p.set_base_asset_id(s.base);
    p.set_tx_params(TxParameters::default().with_max_inputs(s.max_inputs));
    p
}

fn setup_line<Tx: ExecutableTransaction + ToVal>(ctxname: &str, pred: Option<usize>, kind: usize, s: &Setup, balances: &str, tx: &Tx) -> String {
    format!("vm {ctxname} {} {} {} {} {} {} {balances} {}", pred.map(|x| x.to_string()).unwrap_or("-".into()), TX_NAMES[kind], s.max_inputs, s.chain, s.gas_price, hex(&*s.base), tx.vt())
}

fn after_init<Tx: ExecutableTransaction + ToVal>(ctx: &mut Ctx, vm: &mut Vm<Tx>, init_ok: bool, orig: &Tx, kind: usize, s: &Setup, pred: Option<usize>, ctxname: &str, extra: &[u64]) {
    if !init_ok { let setup = setup_line(ctxname, pred, kind, s, "-", orig); ctx.emit(&setup, "err"); ctx.count("init.err"); return; }
    let end = vm.tx_offset() + vm.transaction().size();
    let mem = vm.memory().read(0usize, end).map(|x| x.to_vec()).unwrap_or_default();
    // the balances area (between the base asset id and the size word) is handed to the model as it is
    let setup = setup_line(ctxname, pred, kind, s, &hex(&mem[64.min(mem.len())..(vm.tx_offset() - 8).min(mem.len())]), orig);
    ctx.emit(&setup, &format!("ok {} {} {} {}", vm.tx_offset(), vm.transaction().size(), hex(&mem[..64.min(mem.len())]), sha(&mem[64.min(mem.len())..])));
    ctx.count(&format!("init.{ctxname}.{}", TX_NAMES[kind]));
    ctx.distinct(setup.as_bytes());
    // memory layout oracle: id, base asset, size word, transaction bytes
    let t = vm.transaction().clone();
    let id = orig.id(&ChainId::new(s.chain));
    let off = vm.tx_offset();
    if mem.len() < end || mem[..32] != id[..] || mem[32..64] != s.base[..] || mem[off - 8..off] != (t.size() as u64).to_be_bytes() || mem[off..end] != t.to_bytes()[..] {
        ctx.oracle_fail(&format!("init-memory-layout-{ctxname}"), &setup, "id / base asset / size word / transaction bytes are not where specified");
    }
    let thorough = ctx.thorough();
    queries(ctx, vm, kind, ctxname, &setup, thorough, extra);
    gm_queries(ctx, vm, s, pred, ctxname, &setup);
}

fn run_script(ctx: &mut Ctx, tx: fuel_tx::Script, s: &Setup) {
    let p = params(s);
    let mut vm: Vm<fuel_tx::Script> = Interpreter::with_storage(MemoryInstance::new(), MemoryStorage::default(), InterpreterParams::new(s.gas_price, &p));
    // a `Checked` around an arbitrary (not necessarily valid) transaction: validity is not what C05 is about
    let dummy = fuel_tx::TransactionBuilder::script(vec![], vec![]).max_fee_limit(1000).add_fee_input().finalize();
    let mut checked: Checked<fuel_tx::Script> = dummy.into_checked_basic(Default::default(), &ConsensusParameters::standard()).expect("dummy script");
    *checked.as_mut() = tx.clone();
    let ok = std::panic::catch_unwind(std::panic::AssertUnwindSafe(|| vm.init_script(checked.test_into_ready()).is_ok())).unwrap_or(false);
    after_init(ctx, &mut vm, ok, &tx, 0, s, None, "script", &[]);
}

fn run_predicate<Tx: ExecutableTransaction + ToVal>(ctx: &mut Ctx, tx: Tx, kind: usize, s: &Setup, idx: usize) {
    let p = params(s);
    let mut vm: Vm<Tx> = Interpreter::with_storage(MemoryInstance::new(), MemoryStorage::default(), InterpreterParams::new(s.gas_price, &p));
    let Some(program) = RuntimePredicate::from_tx(&tx, p.tx_params().tx_offset(), idx) else { ctx.count("predicate.none"); return; };
    let context = if ctx.rng.chance(1, 2) { Context::PredicateVerification { program } } else { Context::PredicateEstimation { program } };
    let ok = std::panic::catch_unwind(std::panic::AssertUnwindSafe(|| vm.init_predicate(context, tx.clone(), 1_000_000).is_ok())).unwrap_or(false);
    after_init(ctx, &mut vm, ok, &tx, kind, s, Some(idx), "predicate", &[]);
}

fn init_on<Tx: ExecutableTransaction>(vm: &mut Vm<Tx>, tx: &Tx, p: &ConsensusParameters, pred: Option<(usize, bool)>, script_checked: Option<Checked<Tx>>) -> bool
where Tx: fuel_vm::checked_transaction::IntoChecked, <Tx as fuel_vm::checked_transaction::IntoChecked>::Metadata: fuel_vm::interpreter::CheckedMetadata {
    match pred {
        Some((idx, verify)) => {
            let Some(program) = RuntimePredicate::from_tx(tx, p.tx_params().tx_offset(), idx) else { return false; };
            let context = if verify { Context::PredicateVerification { program } } else { Context::PredicateEstimation { program } };
            std::panic::catch_unwind(std::panic::AssertUnwindSafe(|| vm.init_predicate(context, tx.clone(), 1_000_000).is_ok())).unwrap_or(false)
        }
        None => {
            let Some(mut checked) = script_checked else { return false; };
            *checked.as_mut() = tx.clone();
            std::panic::catch_unwind(std::panic::AssertUnwindSafe(|| vm.init_script(checked.test_into_ready()).is_ok())).unwrap_or(false)
        }
    }
}

fn dummy_checked() -> Checked<fuel_tx::Script> {
    let dummy = fuel_tx::TransactionBuilder::script(vec![], vec![]).max_fee_limit(1000).add_fee_input().finalize();
    dummy.into_checked_basic(Default::default(), &ConsensusParameters::standard()).expect("dummy script")
}

fn contract_keys<T: Outputs>(t: &T) -> Vec<u64> { t.outputs().iter().filter_map(|o| o.input_index().map(|x| x as u64)).collect() }

/// several transactions IN SEQUENCE on ONE interpreter (`init_inner` must replace every VM-side table: owner pointer, the
/// contract-input -> output index map, memory): each later transaction is queried like any other (model and meaning-table oracle see
/// a fresh VM), with the keys of all earlier transactions added to the index plan, and all answers are compared with a fresh VM's
fn run_sequence<Tx: ExecutableTransaction + ToVal>(ctx: &mut Ctx, txs: Vec<(Tx, Option<(usize, bool)>)>, kind: usize, s: &Setup, mk_checked: &dyn Fn() -> Option<Checked<Tx>>)
where Tx: fuel_vm::checked_transaction::IntoChecked, <Tx as fuel_vm::checked_transaction::IntoChecked>::Metadata: fuel_vm::interpreter::CheckedMetadata {
    let p = params(s);
    let new_vm = || -> Vm<Tx> { Interpreter::with_storage(MemoryInstance::new(), MemoryStorage::default(), InterpreterParams::new(s.gas_price, &p)) };
    let mut vm = new_vm();
    let mut earlier: Vec<u64> = vec![];
    for (n, (tx, pred)) in txs.iter().enumerate() {
        let ok = init_on(&mut vm, tx, &p, *pred, mk_checked());
        let ctxname = if pred.is_some() { "predicate" } else { "script" };
        after_init(ctx, &mut vm, ok, tx, kind, s, pred.map(|x| x.0), ctxname, &earlier);
        if ok && n > 0 {
            ctx.count(&format!("reuse.{ctxname}.{}", TX_NAMES[kind]));
            let mut fresh = new_vm();
            if init_on(&mut fresh, tx, &p, *pred, mk_checked()) {
                let (a, b) = (answers(&mut vm, &earlier), answers(&mut fresh, &earlier));
                if let Some(((req, x), (_, y))) = a.iter().zip(b.iter()).find(|(x, y)| x != y) {
                    let setup = setup_line(ctxname, pred.map(|x| x.0), kind, s, "-", tx);
                    let sel = req.split(' ').nth(1).unwrap_or("?");
                    ctx.oracle_fail(&format!("reused-vm-ne-fresh-vm-{ctxname}-{sel}"), &format!("transaction {} of a sequence on one VM ;; {setup} ;; {req}", n + 1), &format!("reused VM answers {x}, a fresh VM {y}"));
                }
            }
        }
        earlier.extend(contract_keys(tx));
    }
}

fn build(ctx: &mut Ctx, k: usize, pol: Policies, ins: Vec<Input>, outs: Vec<Output>, wits: Vec<Witness>) -> Transaction {
    let r = &mut ctx.rng;
    match k {
        0 => { let (a, c) = (len(r), len(r)); let mut t = Transaction::script(r.word(), r.bytes(a), r.bytes(c), pol, ins, outs, wits); *t.receipts_root_mut() = b32(r).into(); t.into() }
        1 => Transaction::create(u16b(r), pol, b32(r).into(), vec_of(r, |r| StorageSlot::new(b32(r).into(), b32(r).into())), ins, outs, wits).into(),
        3 => { let w = r.below(2) as usize; let p = purpose(r, w); Transaction::upgrade(p, pol, ins, outs, wits).into() }
        4 => Transaction::upload(UploadBody { root: b32(r).into(), witness_index: u16b(r), subsection_index: u16b(r), subsections_number: u16b(r), proof_set: vec_of(r, |r| b32(r).into()) }, pol, ins, outs, wits).into(),
        _ => Transaction::blob(BlobBody { id: b32(r).into(), witness_index: u16b(r) }, pol, ins, outs, wits).into(),
    }
}

fn case(ctx: &mut Ctx, t: Transaction) {
    let r = &mut ctx.rng;
    let s = Setup { max_inputs: *r.pick(&[1u16, 3, 8, 16, 255]), chain: match r.below(3) { 0 => 0, 1 => u64::MAX, _ => r.word() }, gas_price: r.word(), base: b32(r).into() };
    fn pred_idx<T: Inputs>(ctx: &mut Ctx, t: &T) -> Option<usize> {
        let c: Vec<usize> = t.inputs().iter().enumerate().filter(|(_, i)| i.predicate_offset().is_some()).map(|(j, _)| j).collect();
        if c.is_empty() { None } else { Some(*ctx.rng.pick(&c)) }
    }
    match t {
        Transaction::Script(x) => {
            run_script(ctx, x.clone(), &s);
            if let Some(i) = pred_idx(ctx, &x) { run_predicate(ctx, x, 0, &s, i); }
        }
        Transaction::Create(x) => if let Some(i) = pred_idx(ctx, &x) { run_predicate(ctx, x, 1, &s, i); },
        Transaction::Upgrade(x) => if let Some(i) = pred_idx(ctx, &x) { run_predicate(ctx, x, 3, &s, i); },
        Transaction::Upload(x) => if let Some(i) = pred_idx(ctx, &x) { run_predicate(ctx, x, 4, &s, i); },
        Transaction::Blob(x) => if let Some(i) = pred_idx(ctx, &x) { run_predicate(ctx, x, 5, &s, i); },
        Transaction::Mint(_) => {}
    }
}

const KINDS: [usize; 5] = [0, 1, 3, 4, 5];

pub fn run(ctx: &mut Ctx) {
    // 0. corpus: every kind with all seven input variants, all five output variants (two contract outputs naming the
    //    same input), three witnesses, every policy set (owner policy naming an input with an owner); an empty script
    for k in KINDS {
        let mut ins: Vec<Input> = (0..7).map(|v| { let r = &mut ctx.rng; let (p, d, x) = (nonzero_len(r), len(r), nonzero_len(r)); input_of(r, v, p, d, x) }).collect();
        ins.push(input_of(&mut ctx.rng, 2, 0, 0, 0));
        let mut outs: Vec<Output> = (0..5).map(|v| output_of(&mut ctx.rng, v)).collect();
        outs.push(Output::contract(2, [7u8; 32].into(), [8u8; 32].into()));
        outs.push(Output::contract(2, [9u8; 32].into(), [1u8; 32].into()));
        let wits: Vec<Witness> = (0..3).map(|_| witness(&mut ctx.rng)).collect();
        let mut pol = policies(&mut ctx.rng, 0b011111);
        pol.set(PolicyType::Owner, Some(1));
        let t = build(ctx, k, pol, ins, outs, wits);
        case(ctx, t);
    }
    let t = build(ctx, 0, Policies::new(), vec![], vec![], vec![]);
    case(ctx, t);
    // owner cases: all inputs owned by one address / two different owners / owner policy out of range or naming a contract input
    for which in 0..4 {
        let r = &mut ctx.rng;
        let a: [u8; 32] = b32(r);
        let mut ins = vec![Input::coin_signed(utxo(r), a.into(), 5, b32(r).into(), txptr(r), 0), input_of(r, 2, 0, 0, 0),
            Input::message_coin_predicate(b32(r).into(), (if which == 1 { [0x55u8; 32] } else { a }).into(), 9, b32(r).into(), 3, vec![0x24, 0, 0, 0], vec![1])];
        if which == 1 { ins.swap(0, 2); }
        let mut pol = Policies::new();
        if which == 2 { pol.set(PolicyType::Owner, Some(7)); }
        if which == 3 { pol.set(PolicyType::Owner, Some(1)); }
        let t = build(ctx, 0, pol, ins, vec![], vec![]);
        case(ctx, t);
    }
    // sequences on one VM: (a) contract outputs naming inputs 0, 2, 5 and an owner, then (b) a transaction with other inputs and NO
    // contract output / no common owner, then (c) one contract output naming input 1; script context, then mixed with predicate contexts
    {
        let r = &mut ctx.rng;
        let own: [u8; 32] = b32(r);
        let a = Transaction::script(1, vec![0x24, 0, 0, 0], vec![], Policies::new(),
            vec![input_of(r, 2, 0, 0, 0), Input::coin_signed(utxo(r), own.into(), 5, b32(r).into(), txptr(r), 0), input_of(r, 2, 0, 0, 0), input_of(r, 6, 4, 2, 9), input_of(r, 1, 5, 0, 0), input_of(r, 2, 0, 0, 0)],
            vec![Output::contract(0, b32(r).into(), b32(r).into()), output_of(r, 0), Output::contract(2, b32(r).into(), b32(r).into()), Output::contract(5, b32(r).into(), b32(r).into())], vec![witness(r)]);
        let b = Transaction::script(2, vec![1, 2, 3], vec![4], policies(r, 3), vec![input_of(r, 1, 9, 1, 0), input_of(r, 0, 0, 0, 0), input_of(r, 4, 3, 3, 0)], vec![output_of(r, 2), output_of(r, 3)], vec![]);
        let c = Transaction::script(3, vec![], vec![9; 9], Policies::new(), vec![input_of(r, 3, 0, 0, 0), input_of(r, 2, 0, 0, 0)], vec![Output::contract(1, b32(r).into(), b32(r).into())], vec![witness(r), witness(r)]);
        let s = Setup { max_inputs: 8, chain: 5, gas_price: 7, base: b32(r).into() };
        let mk = || Some(dummy_checked());
        run_sequence(ctx, vec![(a.clone(), None), (b.clone(), None), (c.clone(), None), (a.clone(), None)], 0, &s, &mk);
        run_sequence(ctx, vec![(a.clone(), Some((3, true))), (b.clone(), None), (a.clone(), None), (b.clone(), Some((2, false))), (c, None)], 0, &s, &mk);
    }
    // random sequences of 3 transactions of one kind on one VM (script contexts for Script, predicate contexts for every kind)
    for _ in 0..ctx.n(6, 400) {
        let k = *ctx.rng.pick(&KINDS);
        let mut txs = vec![];
        for _ in 0..3 {
            let r = &mut ctx.rng;
            let pol = policies(r, r.0 as u32 & 0b011111);
            let (mut ins, mut outs, wits) = (vec_of(r, input), vec_of(r, output), vec_of(r, witness));
            let pk = *r.pick(&[1usize, 4, 6]); ins.push(input_of(r, pk, 3, 2, 5));
            for _ in 0..r.below(3) { let ii = r.below(8) as u16; outs.push(Output::contract(ii, b32(r).into(), b32(r).into())); }
            txs.push(build(ctx, k, pol, ins, outs, wits));
        }
        let r = &mut ctx.rng;
        let s = Setup { max_inputs: *r.pick(&[8u16, 16]), chain: r.word(), gas_price: r.word(), base: b32(r).into() };
        fn pidx<T: Inputs>(t: &T) -> Option<usize> { t.inputs().iter().position(|i| i.predicate_offset().is_some()) }
        macro_rules! seq { ($variant:ident, $kind:expr, $script:expr) => {{
            let v: Vec<_> = txs.into_iter().filter_map(|t| match t { Transaction::$variant(x) => Some(x), _ => None }).collect();
            let mut plan = vec![];
            for x in v { let p = pidx(&x).map(|i| (i, ctx.rng.chance(1, 2))); let use_script = $script && ctx.rng.chance(1, 2); plan.push((x, if use_script { None } else { p })); }
            run_sequence(ctx, plan, $kind, &s, &|| None);
        }}; }
        match k {
            0 => {
                let v: Vec<_> = txs.into_iter().filter_map(|t| match t { Transaction::Script(x) => Some(x), _ => None }).collect();
                let mut plan = vec![];
                for x in v { let p = pidx(&x).map(|i| (i, ctx.rng.chance(1, 2))); let use_script = ctx.rng.chance(1, 2); plan.push((x, if use_script { None } else { p })); }
                run_sequence(ctx, plan, 0, &s, &|| Some(dummy_checked()));
            }
            1 => seq!(Create, 1, false), 3 => seq!(Upgrade, 3, false), 4 => seq!(Upload, 4, false), _ => seq!(Blob, 5, false),
        }
    }
    // 1. random compositions of the five executable kinds
    for _ in 0..ctx.n(40, 4_000) {
        let r = &mut ctx.rng;
        let k = *r.pick(&KINDS);
        let mask = r.below(64) as u32;
        let mut pol = policies(r, mask & 0b011111);
        let (ins, outs, wits) = (vec_of(r, input), vec_of(r, output), vec_of(r, witness));
        if mask & 0b100000 != 0 { pol.set(PolicyType::Owner, Some(if r.chance(1, 4) { r.word() } else { r.below(ins.len() as u64 + 1) })); }
        let t = build(ctx, k, pol, ins, outs, wits);
        case(ctx, t);
    }
}
