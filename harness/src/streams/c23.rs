//! C23 — VM memory behaves like a zero-initialised flat array with two regions.
//!
//! Histories of operations on ONE real `MemoryInstance` (owned by a real `Interpreter`, so that `memcopy`
//! — whose `OwnershipRegisters` argument is not nameable outside the crate — is reached through the `MCP`
//! instruction with free gas costs): grow_stack, grow_heap_by, verify, read, write_noownerchecks, memcopy,
//! reset, clone + collect_rollback_data + rollback.
//!
//! Every answer of the real code is (a) emitted for the line diff against the Lean model and (b) compared
//! in-process with `Flat`, an independent implementation of the property's own wording (a sparse flat byte
//! array, zero by default, with a stack extent `sl` and a heap pointer `hp`) — the property oracle.
use crate::ctx::Ctx;
use fuel_vm::{
    constraints::reg_key::{self, Reg, RegMut},
    consts::{MEM_SIZE, VM_MAX_RAM},
    fuel_asm::{op, PanicReason, RegId},
    fuel_tx::{GasCosts, Script},
    interpreter::{Interpreter, InterpreterParams, MemoryInstance},
    prelude::{InterpreterError, MemoryStorage},
};
use std::collections::BTreeMap;

/// lowercase hex, `-` for empty (same format as `util::hex`, table based)
pub fn hex(bs: &[u8]) -> String {
    if bs.is_empty() { return "-".to_string(); }
    const T: &[u8; 16] = b"0123456789abcdef";
    let mut s = Vec::with_capacity(bs.len() * 2);
    for b in bs { s.push(T[(b >> 4) as usize]); s.push(T[(b & 15) as usize]); }
    String::from_utf8(s).unwrap()
}

pub type Vm = Interpreter<MemoryInstance, MemoryStorage, Script>;

pub fn new_vm() -> Vm {
    let params = InterpreterParams { gas_costs: GasCosts::free(), ..Default::default() };
    Interpreter::with_storage(MemoryInstance::new(), MemoryStorage::default(), params)
}

pub fn reason_name(r: &PanicReason) -> String {
    match r {
        PanicReason::MemoryOverflow => "MemoryOverflow".into(),
        PanicReason::MemoryGrowthOverlap => "MemoryGrowthOverlap".into(),
        PanicReason::UninitalizedMemoryAccess => "UninitalizedMemoryAccess".into(),
        PanicReason::MemoryWriteOverlap => "MemoryWriteOverlap".into(),
        PanicReason::MemoryOwnership => "MemoryOwnership".into(),
        other => format!("{other:?}"),
    }
}

/// ownership registers as plain numbers
#[derive(Clone, Copy, Debug)]
pub struct Own { pub ssp: u64, pub sp: u64, pub hp: u64, pub prev_hp: u64 }

/// The property's ownership wording, independent of the implementation: a non-empty range is owned iff it
/// lies inside `[ssp, sp)` or inside `[hp, prev_hp)` (the latter only when the frame has a heap region at
/// all, `hp != prev_hp`); an empty range is owned iff its address is in `[ssp, sp)`, or is `ssp`, or is `hp`,
/// or lies in `[hp, prev_hp]` of a non-empty heap region.
pub fn spec_owned(o: &Own, s: u64, e: u64) -> bool {
    if s < e {
        (o.ssp <= s && e <= o.sp && e <= VM_MAX_RAM) || (o.hp <= s && e <= o.prev_hp && o.hp != o.prev_hp)
    } else {
        s == o.ssp || (o.ssp <= s && s < o.sp) || s == o.hp || (o.hp <= s && o.hp != o.prev_hp && s <= o.prev_hp)
    }
}

/// Run `MCP $0x10 $0x11 $0x12` on the VM with the given ownership-relevant registers.
pub fn vm_memcopy(vm: &mut Vm, dst: u64, src: u64, len: u64, o: &Own) -> Result<(), String> {
    let r = vm.registers_mut();
    r[RegId::SSP.to_u8() as usize] = o.ssp;
    r[RegId::SP.to_u8() as usize] = o.sp;
    r[RegId::HP.to_u8() as usize] = o.hp;
    r[RegId::GGAS.to_u8() as usize] = u64::MAX;
    r[RegId::CGAS.to_u8() as usize] = u64::MAX;
    r[RegId::PC.to_u8() as usize] = 0;
    r[0x10] = dst;
    r[0x11] = src;
    r[0x12] = len;
    match vm.instruction::<_, false>(op::mcp(0x10, 0x11, 0x12)) {
        Ok(_) => Ok(()),
        Err(InterpreterError::PanicInstruction(pi)) => Err(reason_name(pi.reason())),
        Err(e) => Err(format!("other-error:{e:?}")),
    }
}

/// Independent flat specification: sparse byte map (absent = 0), stack extent, heap pointer.
#[derive(Clone)]
pub struct Flat { pub bytes: BTreeMap<usize, u8>, pub sl: usize, pub hp: usize }

const M: usize = MEM_SIZE;

impl Flat {
    pub fn new() -> Self { Flat { bytes: BTreeMap::new(), sl: 0, hp: M } }
    fn zero(&mut self, a: usize, b: usize) {
        if a >= b { return; }
        let ks: Vec<usize> = self.bytes.range(a..b).map(|(k, _)| *k).collect();
        for k in ks { self.bytes.remove(&k); }
    }
    pub fn get(&self, a: usize) -> u8 { *self.bytes.get(&a).unwrap_or(&0) }
    fn set(&mut self, a: usize, v: u8) { if v == 0 { self.bytes.remove(&a); } else { self.bytes.insert(a, v); } }
    pub fn accessible(&self, a: u128, b: u128) -> bool { b <= M as u128 && (b <= self.sl as u128 || a >= self.hp as u128) }
    pub fn reset(&mut self) { self.sl = 0; self.hp = M; self.bytes.clear(); }
    pub fn grow_stack(&mut self, n: u64) -> Result<(), &'static str> {
        if n > M as u64 { return Err("MemoryOverflow"); }
        let n = n as usize;
        if n > self.sl {
            if n > self.hp { return Err("MemoryGrowthOverlap"); }
            let sl = self.sl;
            self.zero(sl, n);
            self.sl = n;
        }
        Ok(())
    }
    pub fn grow_heap(&mut self, sp: u64, amount: u64) -> Result<usize, &'static str> {
        if amount > self.hp as u64 { return Err("MemoryOverflow"); }
        let nh = self.hp - amount as usize;
        if (nh as u64) < sp { return Err("MemoryGrowthOverlap"); }
        let hp = self.hp;
        self.zero(nh, hp);
        self.hp = nh;
        if self.sl > nh { self.sl = nh; }
        Ok(nh)
    }
    pub fn verify(&self, a: u64, c: u64) -> Result<(usize, usize), &'static str> {
        if a > M as u64 || c > M as u64 || a as u128 + c as u128 > M as u128 { return Err("MemoryOverflow"); }
        if self.accessible(a as u128, a as u128 + c as u128) { Ok((a as usize, (a + c) as usize)) } else { Err("UninitalizedMemoryAccess") }
    }
    pub fn read(&self, a: u64, c: u64) -> Result<Vec<u8>, &'static str> {
        let (s, e) = self.verify(a, c)?;
        let mut v = vec![0u8; e - s];
        for (k, b) in self.bytes.range(s..e) { v[*k - s] = *b; }
        Ok(v)
    }
    pub fn write(&mut self, a: u64, data: &[u8]) -> Result<(), &'static str> {
        let (s, _) = self.verify(a, data.len() as u64)?;
        for (i, b) in data.iter().enumerate() { self.set(s + i, *b); }
        Ok(())
    }
    pub fn memcopy(&mut self, dst: u64, src: u64, len: u64, o: &Own) -> Result<(), &'static str> {
        let (ds, de) = self.verify(dst, len)?;
        let (ss, se) = self.verify(src, len)?;
        // the two ranges share a byte
        if len > 0 && ds < se && ss < de { return Err("MemoryWriteOverlap"); }
        if !spec_owned(o, ds as u64, de as u64) { return Err("MemoryOwnership"); }
        let moved: Vec<(usize, u8)> = self.bytes.range(ss..se).map(|(k, v)| (*k - ss + ds, *v)).collect();
        self.zero(ds, de);
        for (k, v) in moved { self.bytes.insert(k, v); }
        Ok(())
    }
    /// accessible contents equal (used for rollback): same extents and same bytes in the accessible part
    pub fn same_accessible(&self, other: &Flat) -> bool {
        self.sl == other.sl && self.hp == other.hp && {
            let f = |x: &Flat| -> Vec<(usize, u8)> {
                x.bytes.range(0..x.sl).chain(x.bytes.range(x.hp..M)).map(|(k, v)| (*k, *v)).collect()
            };
            f(self) == f(other)
        }
    }
}

fn res_str<T>(r: &Result<T, &'static str>, ok: impl Fn(&T) -> String) -> String {
    match r { Ok(v) => ok(v), Err(e) => e.to_string() }
}

/// One history: the real instance (inside the VM), the flat oracle, snapshots of both.
pub struct Hist {
    pub vm: Vm,
    pub hp_reg: u64,
    pub flat: Flat,
    /// snapshots: (clone of the instance, clone of the oracle, epoch = number of resets before it)
    pub snaps: Vec<(MemoryInstance, Flat, u64)>,
    pub epoch: u64,
    pub log: Vec<String>,
}

impl Hist {
    pub fn new(ctx: &mut Ctx) -> Self {
        let h = Hist { vm: new_vm(), hp_reg: VM_MAX_RAM, flat: Flat::new(), snaps: vec![], epoch: 0, log: vec![] };
        ctx.emit("new", "ok");
        h
    }
    fn fail(&mut self, ctx: &mut Ctx, fp: &str, line: &str, detail: &str) {
        // the history so far is the replay
        let hist = self.log.join("; ");
        let hist = if hist.len() > 6000 { format!("…{}", &hist[hist.len() - 6000..]) } else { hist };
        ctx.oracle_fail(fp, &format!("history: new; {hist}"), &format!("at `{line}`: {detail}"));
    }
    fn step(&mut self, ctx: &mut Ctx, line: String, out: String, expect: String, fp: &str) {
        self.log.push(line.clone());
        if out != expect {
            self.fail(ctx, fp, &line, &format!("implementation answered {out:?}, flat array specification says {expect:?}"));
        }
        ctx.emit(&line, &out);
    }

    pub fn reset(&mut self, ctx: &mut Ctx) {
        self.vm.memory_mut().reset();
        self.hp_reg = VM_MAX_RAM;
        self.flat.reset();
        self.epoch += 1;
        ctx.count("op.reset");
        self.step(ctx, "reset".into(), "ok".into(), "ok".into(), "reset");
    }
    pub fn grow_stack(&mut self, ctx: &mut Ctx, n: u64) {
        let r = self.vm.memory_mut().grow_stack(n);
        let out = match &r { Ok(()) => "ok".to_string(), Err(e) => reason_name(e) };
        let exp = res_str(&self.flat.grow_stack(n), |_| "ok".into());
        ctx.count(&format!("gs.{}", if r.is_ok() { "ok" } else { &out }));
        self.step(ctx, format!("gs {n}"), out, exp, "grow-stack-result");
    }
    pub fn grow_heap(&mut self, ctx: &mut Ctx, sp: u64, amount: u64) {
        let old_hp = self.hp_reg;
        let heap_len_before = self.vm.memory().heap_raw().len();
        let mut hp = self.hp_reg;
        let r = self.vm.memory_mut().grow_heap_by(Reg::<{ reg_key::SP }>::new(&sp), RegMut::<{ reg_key::HP }>::new(&mut hp), amount);
        let out = match &r { Ok(()) => format!("ok {hp}"), Err(e) => reason_name(e) };
        if r.is_ok() {
            self.hp_reg = hp;
            let realloc = self.vm.memory().heap_raw().len() != heap_len_before;
            ctx.count(if realloc { "gh.ok.realloc" } else { "gh.ok.inplace" });
        } else { ctx.count(&format!("gh.{out}")); }
        let exp = res_str(&self.flat.grow_heap(sp, amount), |h| format!("ok {h}"));
        let line = format!("gh {sp} {amount}");
        self.step(ctx, line.clone(), out, exp, "grow-heap-result");
        if r.is_ok() && amount > 0 {
            // property: newly allocated heap bytes read as zero — checked on the WHOLE new region in Rust
            let fresh = self.vm.memory().read(hp, old_hp - hp).map(|b| b.iter().position(|x| *x != 0));
            match fresh {
                Ok(None) => {}
                Ok(Some(i)) => self.fail(ctx, "fresh-heap-not-zero", &line, &format!("byte at {} of the newly allocated region is not zero", hp + i as u64)),
                Err(e) => self.fail(ctx, "fresh-heap-unreadable", &line, &format!("{e:?}")),
            }
            // and through the model: both ends of the new region
            let n = (old_hp - hp).min(96);
            self.read(ctx, hp, n);
            if old_hp - hp > n { self.read(ctx, old_hp - n, n); }
        }
    }
    pub fn verify(&mut self, ctx: &mut Ctx, a: u64, c: u64) {
        let r = self.vm.memory().verify(a, c);
        let out = match &r { Ok(rg) => format!("ok {} {}", rg.start(), rg.end()), Err(e) => reason_name(e) };
        let exp = res_str(&self.flat.verify(a, c), |(s, e)| format!("ok {s} {e}"));
        ctx.count(&format!("vf.{}", if r.is_ok() { "ok" } else { &out }));
        self.step(ctx, format!("vf {a} {c}"), out, exp, "verify-result");
    }
    pub fn read(&mut self, ctx: &mut Ctx, a: u64, c: u64) {
        // huge successful reads are answered through `verify` (same range logic) to keep the lines small
        if c > 4096 && self.flat.verify(a, c).is_ok() { return self.verify(ctx, a, c); }
        let r = self.vm.memory().read(a, c).map(|b| b.to_vec());
        let out = match &r { Ok(b) => format!("ok {}", hex(b)), Err(e) => reason_name(e) };
        let exp = res_str(&self.flat.read(a, c), |b| format!("ok {}", hex(b)));
        ctx.count(&format!("rd.{}", if r.is_ok() { if (a as usize) < self.flat.sl && c > 0 { "ok.stack" } else if c > 0 { "ok.heap" } else { "ok.empty" } } else { &out }));
        self.step(ctx, format!("rd {a} {c}"), out, exp, "read-result");
    }
    pub fn write(&mut self, ctx: &mut Ctx, a: u64, data: &[u8]) {
        let r = self.vm.memory_mut().write_noownerchecks(a, data.len()).map(|s| s.copy_from_slice(data));
        let out = match &r { Ok(()) => "ok".to_string(), Err(e) => reason_name(e) };
        let exp = res_str(&self.flat.write(a, data), |_| "ok".into());
        ctx.count(&format!("wr.{}", if r.is_ok() { if (a as usize) < self.flat.sl && !data.is_empty() { "ok.stack" } else if !data.is_empty() { "ok.heap" } else { "ok.empty" } } else { &out }));
        self.step(ctx, format!("wr {a} {}", hex(data)), out, exp, "write-result");
    }
    pub fn memcopy(&mut self, ctx: &mut Ctx, dst: u64, src: u64, len: u64, o: Own) {
        let r = vm_memcopy(&mut self.vm, dst, src, len, &o);
        let out = match &r { Ok(()) => "ok".to_string(), Err(e) => e.clone() };
        let exp = res_str(&self.flat.memcopy(dst, src, len, &o), |_| "ok".into());
        let kind = if r.is_ok() {
            let sl = self.flat.sl as u64;
            format!("ok.{}-to-{}{}", if src < sl { "stack" } else { "heap" }, if dst < sl { "stack" } else { "heap" }, if len == 0 { ".empty" } else { "" })
        } else { out.clone() };
        ctx.count(&format!("mc.{kind}"));
        self.step(ctx, format!("mc {dst} {src} {len} {} {} {} {}", o.ssp, o.sp, o.hp, o.prev_hp), out, exp, "memcopy-result");
    }
    pub fn state(&mut self, ctx: &mut Ctx) {
        let out = format!("{} {}", self.vm.memory().stack_raw().len(), self.hp_reg);
        let exp = format!("{} {}", self.flat.sl, self.flat.hp);
        self.step(ctx, "st".into(), out, exp, "extent-state");
    }
    pub fn snapshot(&mut self, ctx: &mut Ctx) {
        self.snaps.push((self.vm.memory().clone(), self.flat.clone(), self.epoch));
        ctx.count("op.snap");
        self.step(ctx, "snap".into(), "ok".into(), "ok".into(), "snapshot");
    }
    /// compare the whole accessible contents of the real instance with the flat oracle (Rust only)
    pub fn full_compare(&mut self, ctx: &mut Ctx, at: &str) {
        let mem = self.vm.memory();
        let sl = mem.stack_raw().len();
        let mut bad = None;
        if sl != self.flat.sl || self.hp_reg as usize != self.flat.hp { bad = Some(format!("extents ({sl},{}) vs spec ({},{})", self.hp_reg, self.flat.sl, self.flat.hp)); }
        if bad.is_none() {
            let chk = |base: usize, got: &[u8], flat: &Flat| -> Option<String> {
                // every non-zero spec byte matches, and the number of non-zero bytes matches
                let mut nz = 0usize;
                for (k, v) in flat.bytes.range(base..base + got.len()) { if got[*k - base] != *v { return Some(format!("byte {k}: {} vs spec {v}", got[*k - base])); } nz += 1; }
                let real_nz = got.iter().filter(|b| **b != 0).count();
                if real_nz != nz { return Some(format!("{real_nz} non-zero bytes vs spec {nz} in [{base},{})", base + got.len())); }
                None
            };
            if sl > 0 { bad = mem.read(0usize, sl).ok().and_then(|b| chk(0, b, &self.flat)); }
            if bad.is_none() && self.flat.hp < M { bad = mem.read(self.flat.hp, M - self.flat.hp).ok().and_then(|b| chk(self.flat.hp, b, &self.flat)); }
        }
        if let Some(d) = bad { self.fail(ctx, "accessible-contents-differ", at, &d); }
    }
    /// `cur.collect_rollback_data(&snap)` + `cur.rollback(..)`; returns false when the instance may be poisoned
    pub fn rollback(&mut self, ctx: &mut Ctx, k: usize, emit: bool) -> bool {
        let line = format!("rb {k}");
        if k >= self.snaps.len() {
            if emit { self.step(ctx, line, "noslot".into(), "noslot".into(), "rollback"); }
            return true;
        }
        let (snap, fsnap, sepoch) = (self.snaps[k].0.clone(), self.snaps[k].1.clone(), self.snaps[k].2);
        let cur = self.vm.memory().clone();
        let coll = ctx.guard(|| cur.collect_rollback_data(&snap));
        let mut alive = true;
        let out = match coll {
            Err(_) => "panic".to_string(),
            Ok(None) => "same".to_string(),
            Ok(Some(d)) => {
                let mem = self.vm.memory_mut();
                match ctx.guard(|| mem.rollback(&d)) { Ok(()) => "ok".to_string(), Err(_) => { alive = false; "panic".to_string() } }
            }
        };
        // specification: rolling back to an EARLIER snapshot (an ancestor of the current state: snapshots taken
        // after a snapshot that was rolled back to are discarded below) restores exactly its accessible
        // contents. Within one epoch (no reset in between) the heap pointer of an ancestor is never below the
        // current one, so nothing may be refused. Across a reset the documented refusal ("We only allow
        // shrinking of the heap during rollback", also hit through the stack slice when the old snapshot had
        // no heap) is accepted.
        let same = self.flat.same_accessible(&fsnap);
        let cross = sepoch != self.epoch;
        let exp = if same { "same" } else if cross && out == "panic" { "panic" } else { "ok" };
        ctx.count(&format!("rb.{out}{}", if cross { ".across-reset" } else { "" }));
        self.log.push(line.clone());
        if out != exp {
            let fp = if out == "panic" && fsnap.sl > self.flat.sl && fsnap.hp >= self.flat.hp { "rollback-panics-current-stack-shorter-than-snapshot" } else { "rollback-result" };
            self.fail(ctx, fp, &line, &format!(
                "implementation answered {out:?}, specification says {exp:?} (current sl={} hp={}, snapshot sl={} hp={}, same epoch)",
                self.flat.sl, self.flat.hp, fsnap.sl, fsnap.hp));
        }
        if out == "ok" {
            self.snaps.truncate(k + 1);
            self.flat = fsnap;
            self.hp_reg = self.flat.hp as u64;
            if *self.vm.memory() != snap { self.fail(ctx, "rollback-not-equal-snapshot", &line, "MemoryInstance != snapshot after rollback (PartialEq)"); }
            self.full_compare(ctx, &line);
        }
        if emit { ctx.emit(&line, &out); }
        alive
    }
}

// ---------------------------------------------------------------------------------------------
// generators

const SMALL_CAP: u64 = 40_000;
const SMALL: &[u64] = &[0, 1, 2, 7, 8, 9, 15, 16, 17, 31, 32, 33, 63, 64, 65, 255, 256, 257, 511, 512, 1023, 1024];

/// boundary-biased size; `cap` bounds the "valid" choices
fn size(ctx: &mut Ctx, cap: u64) -> u64 {
    match ctx.rng.below(10) {
        0..=3 => (*ctx.rng.pick(SMALL)).min(cap),
        4 => { let k = ctx.rng.below(27); (1u64 << k).min(cap) }
        5 => { let k = ctx.rng.below(27); ((1u64 << k) + 1 - 2 * ctx.rng.below(2)).min(cap) }
        6 => cap.saturating_sub(ctx.rng.below(4)),
        7 => ctx.rng.below(cap + 1),
        _ => ctx.rng.below(cap.min(600) + 1),
    }
}

/// extents of the two regions (copied out of the oracle so that generators do not clone the byte map)
#[derive(Clone, Copy)]
pub struct Ext { pub sl: usize, pub hp: usize }

/// an address near the edges of the regions
fn addr(ctx: &mut Ctx, f: &Ext) -> u64 {
    let (sl, hp, m) = (f.sl as u64, f.hp as u64, M as u64);
    let base = *ctx.rng.pick(&[0, sl, hp, m, sl / 2, hp + (m - hp) / 2]);
    let d = *ctx.rng.pick(&[0u64, 0, 1, 2, 7, 8, 9, 31, 32, 33, 255, 256, 257]);
    if ctx.rng.chance(1, 2) { base.saturating_sub(d) } else { base.saturating_add(d) }
}

/// a valid accessible range `(start, len)` with `len <= maxlen`, in the stack (`Some(true)`), the heap, or either
fn valid_range(ctx: &mut Ctx, f: &Ext, in_stack: Option<bool>, maxlen: u64) -> Option<(u64, u64)> {
    let (sl, hp, m) = (f.sl as u64, f.hp as u64, M as u64);
    let stack_ok = sl > 0;
    let heap_ok = hp < m;
    let st = match in_stack { Some(b) => b, None => if stack_ok && heap_ok { ctx.rng.chance(1, 2) } else { stack_ok } };
    let (lo, hi) = if st { if !stack_ok { return None; } (0, sl) } else { if !heap_ok { return None; } (hp, m) };
    let len = size(ctx, (hi - lo).min(maxlen));
    let room = hi - lo - len;
    let start = match ctx.rng.below(6) {
        0 => lo,
        1 => lo + room,
        2 => lo + room.min(*ctx.rng.pick(&[1u64, 7, 8, 9, 255, 256])),
        3 => lo + room - room.min(*ctx.rng.pick(&[1u64, 7, 8, 9, 255, 256])),
        _ => lo + ctx.rng.below(room + 1),
    };
    Some((start, len))
}

fn data(ctx: &mut Ctx, n: u64) -> Vec<u8> {
    // mostly non-zero bytes so that missing zeroing is visible
    (0..n).map(|_| if ctx.rng.chance(1, 16) { 0 } else { (ctx.rng.next() as u8) | 1 }).collect()
}

fn default_owner(f: &Ext) -> Own { Own { ssp: 0, sp: f.sl as u64, hp: f.hp as u64, prev_hp: VM_MAX_RAM } }

fn random_op(ctx: &mut Ctx, h: &mut Hist, big: bool) {
    let m = M as u64;
    let maxw: u64 = if big { 2048 } else { 512 };
    let f = Ext { sl: h.flat.sl, hp: h.flat.hp };
    // small histories keep both regions below SMALL_CAP so that the Lean driver can replay rollbacks
    let room_s = if big { u64::MAX } else { SMALL_CAP.saturating_sub(f.sl as u64) };
    let room_h = if big { u64::MAX } else { SMALL_CAP.saturating_sub(m - f.hp as u64) };
    match ctx.rng.below(100) {
        0..=9 => {
            // grow_stack: mostly small increments, sometimes up to hp / beyond
            let n = match ctx.rng.below(8) {
                0 if big => f.hp as u64 - ctx.rng.below(3).min(f.hp as u64),
                1 => f.hp as u64 + 1 + ctx.rng.below(3),
                2 => m + 1 + ctx.rng.below(2),
                3 => { let w = ctx.rng.word(); if big || w > m { w } else { f.sl as u64 } }
                4 => f.sl as u64 - ctx.rng.below(9).min(f.sl as u64),
                5 if big => { let gap = (f.hp - f.sl) as u64; f.sl as u64 + size(ctx, gap) }
                _ => { let gap = (f.hp - f.sl) as u64; f.sl as u64 + size(ctx, gap.min(4096).min(room_s)) }
            };
            h.grow_stack(ctx, n);
        }
        10..=21 => {
            let gap = (f.hp - f.sl) as u64;
            let (sp, amount) = match ctx.rng.below(10) {
                0 if big => (f.sl as u64, gap + ctx.rng.below(2)),           // up to / one past the stack extent
                0 => (f.sl as u64, gap + 1),
                1 if big => (0, f.hp as u64 + ctx.rng.below(2)),             // whole memory / one more
                1 => (0, f.hp as u64 + 1),
                2 if big => (ctx.rng.below(f.sl as u64 + 1), gap + (*ctx.rng.pick(&[1u64, 8, 255, 256])).min(f.sl as u64)), // overtake the stack extent (sp register lower)
                3 => { let (a, b) = (ctx.rng.word(), ctx.rng.word()); if big || b > f.hp as u64 || f.hp as u64 - b < a { (a, b) } else { (0, 0) } }
                4 if big => (ctx.rng.below(f.sl as u64 + 1), size(ctx, gap)),
                _ => (ctx.rng.below(f.sl as u64 + 1), size(ctx, gap.min(if big { 1 << 20 } else { 2048 }).min(room_h))),
            };
            h.grow_heap(ctx, sp, amount);
        }
        22..=43 => {
            if ctx.rng.chance(5, 6) {
                if let Some((s, l)) = valid_range(ctx, &f, None, maxw) { let d = data(ctx, l); h.write(ctx, s, &d); return; }
            }
            let a = addr(ctx, &f);
            let l = *ctx.rng.pick(&[0u64, 1, 2, 8, 9, 32, 33, 257]);
            let d = data(ctx, l);
            h.write(ctx, a, &d);
        }
        44..=63 => {
            if ctx.rng.chance(3, 4) {
                if let Some((s, l)) = valid_range(ctx, &f, None, maxw) { h.read(ctx, s, l); return; }
            }
            let a = addr(ctx, &f);
            let c = if ctx.rng.chance(1, 6) { ctx.rng.word() } else { *ctx.rng.pick(&[0u64, 1, 2, 8, 9, 32, 33, 257]) };
            h.read(ctx, a, c);
        }
        64..=69 => {
            let a = if ctx.rng.chance(1, 4) { ctx.rng.word() } else { addr(ctx, &f) };
            let c = if ctx.rng.chance(1, 3) { ctx.rng.word() } else { size(ctx, m) };
            h.verify(ctx, a, c);
        }
        70..=85 => {
            let mut o = default_owner(&f);
            let (dst, src, len) = match ctx.rng.below(12) {
                0..=5 => {
                    // two valid ranges of the same length; overlap decided by chance
                    let ds = ctx.rng.chance(1, 2);
                    let ss = ctx.rng.chance(1, 2);
                    match valid_range(ctx, &f, Some(ds), maxw) {
                        Some((d, l)) => {
                            let (lo, hi) = if ss { (0u64, f.sl as u64) } else { (f.hp as u64, m) };
                            if hi - lo >= l && (ss && f.sl > 0 || !ss && f.hp < M) {
                                let s = lo + ctx.rng.below(hi - lo - l + 1);
                                (d, s, l)
                            } else { (d, d, l) }
                        }
                        None => (addr(ctx, &f), addr(ctx, &f), 8),
                    }
                }
                6..=8 => {
                    // adjacent / overlapping by k bytes / identical
                    match valid_range(ctx, &f, None, maxw.min(256)) {
                        Some((d, l)) => {
                            let k = *ctx.rng.pick(&[0u64, 0, 1, 1, 2, 8]);
                            let s = match ctx.rng.below(4) { 0 => d + l - k.min(l), 1 => (d + k.min(l)).saturating_sub(l), 2 => d, _ => d.saturating_add(1) };
                            (d, s, l)
                        }
                        None => (0, 0, 0),
                    }
                }
                9 => (addr(ctx, &f), addr(ctx, &f), *ctx.rng.pick(&[0u64, 1, 8, 32])),
                10 => (addr(ctx, &f), addr(ctx, &f), ctx.rng.word()),
                _ => (ctx.rng.word(), ctx.rng.word(), size(ctx, m)),
            };
            // ownership variations: the destination is owned most of the time
            match ctx.rng.below(8) {
                0 => o.ssp = dst.saturating_add(1),
                1 => o.sp = dst.saturating_add(len).saturating_sub(1),
                2 => o.hp = dst.saturating_add(1),
                3 => { o.ssp = dst; o.sp = dst.saturating_add(len); }
                4 => { o.hp = dst; }
                _ => {}
            }
            h.memcopy(ctx, dst, src, len, o);
        }
        86..=88 => { h.reset(ctx); }
        89..=92 => { if !big { h.snapshot(ctx); } else { h.state(ctx); } }
        93..=97 => {
            if !big && !h.snaps.is_empty() {
                let k = ctx.rng.below(h.snaps.len() as u64 + 1) as usize;
                if !h.rollback(ctx, k, true) { h.log.push("(instance poisoned by a panic inside rollback)".into()); }
            } else { h.state(ctx); }
        }
        _ => h.state(ctx),
    }
}

/// fixed boundary histories and the historical regressions (run first)
fn corpus(ctx: &mut Ctx) {
    let m = M as u64;
    // 1. dirty heap reused in place after reset must read zero
    let mut h = Hist::new(ctx);
    h.grow_heap(ctx, 0, 64);
    h.write(ctx, m - 64, &[0xAA; 64]);
    h.reset(ctx);
    h.read(ctx, m - 8, 8);
    h.grow_heap(ctx, 0, 16);
    h.read(ctx, m - 16, 16);
    h.grow_heap(ctx, 0, 48);
    h.read(ctx, m - 64, 64);
    h.state(ctx);
    // 2. dirty heap, reset, partial regrow, then reallocation must not copy dirty bytes
    let mut h = Hist::new(ctx);
    h.grow_heap(ctx, 0, 256);
    h.write(ctx, m - 256, &[0xBB; 256]);
    h.reset(ctx);
    h.grow_heap(ctx, 0, 8);
    h.write(ctx, m - 8, &[0xCC; 8]);
    h.grow_heap(ctx, 0, 1000);
    h.read(ctx, m - 1008, 1008);
    h.state(ctx);
    // 3. heap overtakes the old stack extent; stack regrows zeroed
    let mut h = Hist::new(ctx);
    h.grow_stack(ctx, 100);
    h.write(ctx, 0, &[0xDD; 100]);
    h.grow_heap(ctx, 40, m - 50);
    h.state(ctx);
    h.read(ctx, 0, 50);
    h.read(ctx, 49, 2);
    h.read(ctx, 50, 50);
    h.reset(ctx);
    h.grow_stack(ctx, 100);
    h.read(ctx, 0, 100);
    h.grow_heap(ctx, 100, m - 100);
    h.read(ctx, 100, 64);
    h.verify(ctx, 0, m);
    h.verify(ctx, 0, m + 1);
    h.grow_stack(ctx, 101);
    h.grow_heap(ctx, 100, 1);
    // 4. limits
    let mut h = Hist::new(ctx);
    h.grow_stack(ctx, m);
    h.verify(ctx, 0, m);
    h.read(ctx, m - 8, 8);
    h.grow_heap(ctx, m, 0);
    h.grow_heap(ctx, m, 1);
    h.grow_stack(ctx, m + 1);
    h.grow_stack(ctx, u64::MAX);
    h.verify(ctx, u64::MAX, 0);
    h.verify(ctx, 0, u64::MAX);
    h.verify(ctx, m, 0);
    h.verify(ctx, m, 1);
    h.verify(ctx, m + 1, 0);
    h.reset(ctx);
    h.grow_heap(ctx, 0, m);
    h.read(ctx, 0, 32);
    h.read(ctx, m - 32, 32);
    h.grow_heap(ctx, 0, 1);
    h.state(ctx);
    // 5. memcopy edge cases
    let mut h = Hist::new(ctx);
    h.grow_stack(ctx, 64);
    h.grow_heap(ctx, 64, 64);
    h.write(ctx, 0, &(1..=64).collect::<Vec<u8>>());
    let o = Own { ssp: 0, sp: 64, hp: m - 64, prev_hp: m };
    h.memcopy(ctx, 0, 32, 32, o);
    h.memcopy(ctx, 0, 31, 32, o);
    h.memcopy(ctx, 32, 0, 32, o);
    h.memcopy(ctx, 31, 0, 32, o);
    h.memcopy(ctx, 8, 8, 0, o);
    h.memcopy(ctx, 8, 8, 1, o);
    h.memcopy(ctx, m - 64, 0, 64, o);
    h.memcopy(ctx, 0, m - 32, 32, o);
    h.memcopy(ctx, m - 64, m - 32, 32, o);
    h.memcopy(ctx, m - 64, m - 33, 32, o);
    h.memcopy(ctx, 60, 0, 8, o);
    h.memcopy(ctx, 64, 0, 0, o);
    h.memcopy(ctx, m, 0, 0, o);
    h.memcopy(ctx, m - 64, 0, 0, o);
    h.memcopy(ctx, 0, m - 8, 9, o);
    h.read(ctx, 0, 64);
    h.read(ctx, m - 64, 64);
    // 5b. the four memcopy arms while the heap VECTOR (not the heap) spans the whole memory: allocating more than half of
    // the memory rounds the vector's capacity up to MEM_SIZE, `reset` keeps it, and then heap_offset() = 0 — a dispatch
    // that looks at the vector instead of $hp sends a stack-to-stack copy into the hidden part of the heap buffer
    for with_reset in [true, false] {
        let mut h = Hist::new(ctx);
        h.grow_heap(ctx, 0, 40 << 20);
        let mut hp = m - (40 << 20);
        if with_reset { h.reset(ctx); hp = m; }
        h.grow_stack(ctx, 128);
        h.write(ctx, 0, &(1..=64).collect::<Vec<u8>>());
        let o = Own { ssp: 0, sp: 128, hp, prev_hp: m };
        h.memcopy(ctx, 64, 0, 32, o);
        h.memcopy(ctx, 100, 90, 20, o);
        h.read(ctx, 0, 128);
        h.grow_heap(ctx, 128, 64);
        hp -= 64;
        let o = Own { ssp: 0, sp: 128, hp, prev_hp: m };
        h.memcopy(ctx, hp, 0, 32, o);
        h.memcopy(ctx, hp + 32, hp, 32, o);
        h.read(ctx, hp, 64);
        h.memcopy(ctx, 96, hp + 32, 16, o);
        h.read(ctx, 0, 128);
    }
    // 6. rollback: plain, equal, heap regrown after reset (documented refusal), and the short-stack case
    let mut h = Hist::new(ctx);
    h.grow_stack(ctx, 100);
    h.write(ctx, 10, &[1, 2, 3, 4, 5]);
    h.grow_heap(ctx, 100, 32);
    h.write(ctx, m - 32, &[9; 32]);
    h.snapshot(ctx);
    h.rollback(ctx, 0, true);
    h.write(ctx, 12, &[7, 7]);
    h.grow_stack(ctx, 200);
    h.grow_heap(ctx, 200, 300);
    h.write(ctx, m - 332, &[5; 40]);
    h.rollback(ctx, 0, true);
    h.state(ctx);
    h.read(ctx, 0, 100);
    h.read(ctx, m - 32, 32);
    h.rollback(ctx, 3, true);
    h.reset(ctx);
    h.rollback(ctx, 0, true);
    // the stack vector of the CURRENT state is shorter than the snapshot's (heap overtook the old extent)
    let mut h = Hist::new(ctx);
    h.grow_stack(ctx, 100);
    h.write(ctx, 0, &[0xEE; 100]);
    h.snapshot(ctx);
    h.grow_heap(ctx, 0, m - 50);
    h.rollback(ctx, 0, true);
}

pub fn run(ctx: &mut Ctx) {
    if std::env::var("FV_DEBUG_PANICS").is_ok() { std::panic::set_hook(Box::new(|i| eprintln!("PANIC {i}"))); }
    let t0 = std::time::Instant::now();
    corpus(ctx);
    if std::env::var("FV_DEBUG_PANICS").is_ok() { eprintln!("corpus done {:?}", t0.elapsed()); }
    // small histories: everything near 0 and near M, with snapshots and rollbacks
    for i in 0..ctx.n(60, 300) {
        let mut h = Hist::new(ctx);
        let len = ctx.rng.range(50, 400);
        for _ in 0..len { random_op(ctx, &mut h, false); }
        if std::env::var("FV_DEBUG_PANICS").is_ok() { eprintln!("small {i} done {:?}", t0.elapsed()); }
        h.state(ctx);
        h.full_compare(ctx, "end of history");
        let _ = i; ctx.distinct(h.log.join(";").as_bytes());
    }
    // big histories: sizes up to the 64 MiB limit; rollback only as the final, Rust-only operation
    for i in 0..ctx.n(6, 30).min(60) {
        let mut h = Hist::new(ctx);
        let len = ctx.rng.range(40, 120);
        let snap_at = ctx.rng.below(len);
        for j in 0..len {
            if j == snap_at { h.snaps.push((h.vm.memory().clone(), h.flat.clone(), h.epoch)); h.log.push("snap".into()); }
            random_op(ctx, &mut h, true);
        }
        h.state(ctx);
        h.full_compare(ctx, "end of history");
        h.rollback(ctx, 0, false);
        if std::env::var("FV_DEBUG_PANICS").is_ok() { eprintln!("big {i} done {:?}", t0.elapsed()); }
        let _ = i; ctx.distinct(h.log.join(";").as_bytes());
    }
}
