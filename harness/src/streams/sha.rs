//! `sha`: cross-check of the Lean driver's executable SHA-256 (lean/FuelVerif/Basic/Sha256.lean)
//! against the `sha2` crate: FIPS 180-4 example vectors, every length 0..=300 (all padding cases
//! around the 55/56/64-byte boundaries), long runs, random inputs. The oracle checks the `sha2`
//! answers of the fixed vectors against their published digests.
use crate::{ctx::Ctx, util::hex};
use sha2::{Digest, Sha256};

fn emit(ctx: &mut Ctx, data: &[u8]) {
    let d: [u8; 32] = Sha256::digest(data).into();
    ctx.distinct(data);
    ctx.count(&format!("len-mod-64={}", data.len() % 64 / 8 * 8));
    ctx.emit(&format!("h {}", hex(data)), &hex(&d));
}

pub fn run(ctx: &mut Ctx) {
    let vectors: [(&[u8], &str); 3] = [
        (b"", "e3b0c44298fc1c149afbf4c8996fb92427ae41e4649b934ca495991b7852b855"),
        (b"abc", "ba7816bf8f01cfea414140de5dae2223b00361a396177a9cb410ff61f20015ad"),
        (b"abcdbcdecdefdefgefghfghighijhijkijkljklmklmnlmnomnopnopq", "248d6a61d20638b8e5c026930c3e6039a33ce45964ff2167f6ecedd419db06c1"),
    ];
    for (m, want) in vectors {
        let d: [u8; 32] = Sha256::digest(m).into();
        if hex(&d) != want { ctx.oracle_fail("sha2-vector", &hex(m), "sha2 crate disagrees with the FIPS 180-4 digest"); }
        emit(ctx, m);
    }
    for len in 0..=300usize { let b = ctx.rng.bytes(len); emit(ctx, &b); }
    for len in [511usize, 512, 513, 1000, 4095, 4096, 4097] { let b = ctx.rng.bytes(len); emit(ctx, &b); }
    for _ in 0..ctx.n(700, 5000) { let len = ctx.rng.below(200) as usize; let b = ctx.rng.bytes(len); emit(ctx, &b); }
    // long constant runs (one million 'a' is the third FIPS vector; quick tier uses shorter runs)
    let runs: &[(u64, u8)] = if ctx.thorough() { &[(1_000_000, 0x61), (65_536, 0), (100_000, 0xff)] } else { &[(65_536, 0), (100_000, 0x61)] };
    for (n, b) in runs {
        let data = vec![*b; *n as usize];
        let d: [u8; 32] = Sha256::digest(&data).into();
        if *n == 1_000_000 && hex(&d) != "cdc76e5c9914fb9281a1c7e284d73e67f1809a48a497200e046d39ccc7112cd0" {
            ctx.oracle_fail("sha2-vector", "1e6 x 'a'", "sha2 crate disagrees with the FIPS 180-4 digest");
        }
        ctx.count("long-run");
        ctx.emit(&format!("z {n} {b}"), &hex(&d));
    }
}
