//! C16 — the two secp256k1 backends (`fuel_crypto::verif_backends::{k256, secp256k1}`, the hook that
//! re-exports `secp256/backend/k1/{k256,secp256k1}.rs`) on the same inputs: `recover`, `verify`,
//! `sign`, `public_key`.  Every request line carries BOTH backends' answers, so the diff against the
//! Lean model (both wrappers over the executable curve) is a three-way comparison.
//!
//! Property oracle (independent of the model): the two backends give the same key or both fail;
//! `verify` succeeds on both or fails on both; `sign`/`public_key` give identical bytes; a recovered
//! key verifies the (low-s) signature on both backends.
use crate::{ctx::Ctx, gen::u256::*, util::hex};
use fuel_crypto::{
    verif_backends::{k256, secp256k1 as secp},
    Error, Message, SecretKey,
};
use fuel_types::Bytes32;

fn ename(e: &Error) -> &'static str {
    match e {
        Error::InvalidSignature => "InvalidSignature",
        Error::InvalidPublicKey => "InvalidPublicKey",
        Error::InvalidSecretKey => "InvalidSecretKey",
        Error::InvalidMessage => "InvalidMessage",
        _ => "OtherError",
    }
}

fn sig_of(r: &U, s: &U, odd: bool) -> [u8; 64] {
    let mut o = [0u8; 64];
    o[..32].copy_from_slice(r);
    o[32..].copy_from_slice(s);
    if odd { o[32] |= 0x80 }
    o
}
fn s_field(sig: &[u8; 64]) -> U { let mut s = [0u8; 32]; s.copy_from_slice(&sig[32..]); s[0] &= 0x7f; s }
fn r_field(sig: &[u8; 64]) -> U { let mut r = [0u8; 32]; r.copy_from_slice(&sig[..32]); r }

/// structural class of the `s` scalar (after the recovery bit is removed)
fn s_class(s: &U) -> &'static str {
    if is_zero(s) { "s-zero" } else if !lt(s, &K1_N) { "s-overflow" } else if lt(&K1_HALF, s) { "high-s" } else { "low-s" }
}
fn r_class(r: &U) -> &'static str {
    if is_zero(r) { "r-zero" } else if !lt(r, &K1_N) { "r-overflow" } else { "r-inrange" }
}

fn secret(ctx: &mut Ctx) -> SecretKey {
    loop {
        let mut b = match ctx.rng.below(8) {
            0 => small(ctx.rng.range(1, 4)),
            1 => sub_small(&K1_N, ctx.rng.range(1, 4)),
            2 => add_small(&K1_HALF, ctx.rng.below(3)),
            _ => ctx.rng.arr32(),
        };
        if ctx.rng.chance(1, 16) { b[0] = 0; b[1] = 0; }
        if let Ok(k) = SecretKey::try_from(Bytes32::from(b)) { return k }
    }
}

fn message(ctx: &mut Ctx) -> [u8; 32] {
    match ctx.rng.below(12) {
        0 => [0u8; 32],
        1 => MAX,
        2 => K1_N,
        3 => add_small(&K1_N, ctx.rng.range(1, 3)),
        4 => sub_small(&K1_N, ctx.rng.range(1, 3)),
        5 => small(ctx.rng.word()),
        _ => ctx.rng.arr32(),
    }
}

/// an x-coordinate of a curve point below n (the x of a public key)
fn liftable_r(ctx: &mut Ctx) -> U {
    let pk = secp::public_key(&secret(ctx));
    let mut r = [0u8; 32];
    r.copy_from_slice(&pk[..32]);
    r
}

fn boundary_scalar(ctx: &mut Ctx) -> U {
    match ctx.rng.below(16) {
        0 => [0u8; 32],
        1 => small(1),
        2 => sub_small(&K1_N, 1),
        3 => K1_N,
        4 => add_small(&K1_N, 1),
        5 => K1_P,
        6 => sub_small(&K1_P, 1),
        7 => MAX,
        8 => K1_HALF,
        9 => add_small(&K1_HALF, 1),
        10 => sub_small(&K1_HALF, 1),
        11 => sub_small(&TWO255, 1),
        12 => TWO255,
        13 => small(ctx.rng.word()),
        14 => sub(&K1_P, &K1_N).0, // p - n: r + n < p boundary of the verifier's second comparison
        _ => sub_small(&sub(&K1_P, &K1_N).0, 1),
    }
}

/// an `s` in the band (n/2, 2^255): the high-s values that survive the recovery-bit mask
fn band_s(ctx: &mut Ctx) -> U {
    let width = sub(&sub_small(&TWO255, 1), &K1_HALF).0; // 2^255 - 1 - n/2  (≈ 2^127.3)
    match ctx.rng.below(4) {
        0 => add_small(&K1_HALF, ctx.rng.range(1, 1000)),
        1 => sub_small(&TWO255, ctx.rng.range(1, 1000)),
        _ => {
            // n/2 + 1 + (random below width): mask a random 127-bit number (always < width)
            let mut off = [0u8; 32];
            let rb = ctx.rng.bytes(16);
            off[16..].copy_from_slice(&rb);
            off[16] &= 0x7f;
            let _ = width;
            add_small(&add(&K1_HALF, &off).0, 1)
        }
    }
}

fn key_str(r: &Result<[u8; 64], Error>) -> String {
    match r { Ok(k) => hex(k), Err(e) => ename(e).to_string() }
}

fn do_recover(ctx: &mut Ctx, class: &str, sig: [u8; 64], msg: [u8; 32]) {
    let m = Message::from_bytes(msg);
    let line = format!("rec {} {}", hex(&sig), hex(&msg));
    let a = ctx.guard(|| k256::recover(sig, &m).map(|k| *k));
    let b = ctx.guard(|| secp::recover(sig, &m).map(|k| *k));
    let (a, b) = match (a, b) {
        (Ok(a), Ok(b)) => (a, b),
        (a, b) => {
            ctx.oracle_fail("panic-recover", &line, &format!("k256 panicked={} secp panicked={}", a.is_err(), b.is_err()));
            ctx.emit(&line, "panic");
            return;
        }
    };
    let (rc, sc) = (r_class(&r_field(&sig)), s_class(&s_field(&sig)));
    ctx.count(&format!("rec.{class}"));
    ctx.count(&format!("rec.shape.{rc}.{sc}.{}", if b.is_ok() { "ok" } else { "err" }));
    if rc == "r-inrange" && (sc == "low-s" || sc == "high-s") { ctx.distinct(line.as_bytes()); }
    // ORACLE: same key, or both fail
    if a.as_ref().ok() != b.as_ref().ok() {
        let fp = format!("recover-differs-{rc}-{sc}-k256-{}-secp-{}", if a.is_ok() { "ok" } else { "err" }, if b.is_ok() { "ok" } else { "err" });
        ctx.oracle_fail(&fp, &line, &format!("k256={} secp={}", key_str(&a), key_str(&b)));
    }
    // ORACLE: a recovered key verifies the signature (when s is low: both verifiers are low-s only)
    if let Ok(pk) = &b {
        let va = k256::verify(sig, *pk, &m).is_ok();
        let vb = secp::verify(sig, *pk, &m).is_ok();
        let expect = sc == "low-s";
        if va != expect || vb != expect {
            ctx.oracle_fail(&format!("recovered-key-verify-{sc}"), &line, &format!("verify with recovered key: k256={va} secp={vb} expected={expect}"));
        }
    }
    ctx.emit(&line, &format!("k256={} secp={}", key_str(&a), key_str(&b)));
}

fn unit_str(r: &Result<(), Error>) -> String { match r { Ok(()) => "ok".into(), Err(e) => ename(e).to_string() } }

fn do_verify(ctx: &mut Ctx, class: &str, sig: [u8; 64], pk: [u8; 64], msg: [u8; 32]) {
    let m = Message::from_bytes(msg);
    let line = format!("ver {} {} {}", hex(&sig), hex(&pk), hex(&msg));
    let a = ctx.guard(|| k256::verify(sig, pk, &m));
    let b = ctx.guard(|| secp::verify(sig, pk, &m));
    let (a, b) = match (a, b) {
        (Ok(a), Ok(b)) => (a, b),
        _ => { ctx.oracle_fail("panic-verify", &line, "a backend panicked"); ctx.emit(&line, "panic"); return; }
    };
    ctx.count(&format!("ver.{class}.{}", if b.is_ok() { "ok" } else { "err" }));
    if a.is_ok() != b.is_ok() {
        ctx.oracle_fail(&format!("verify-differs-{}-{}", r_class(&r_field(&sig)), s_class(&s_field(&sig))), &line, &format!("k256={} secp={}", unit_str(&a), unit_str(&b)));
    }
    if a.is_ok() { ctx.distinct(line.as_bytes()); }
    ctx.emit(&line, &format!("k256={} secp={}", unit_str(&a), unit_str(&b)));
}

fn do_sign(ctx: &mut Ctx, sk: &SecretKey, msg: [u8; 32]) -> [u8; 64] {
    let m = Message::from_bytes(msg);
    let a = ctx.guard(|| k256::sign(sk, &m));
    let b = ctx.guard(|| secp::sign(sk, &m));
    let d: [u8; 32] = **sk;
    match (a, b) {
        (Ok(a), Ok(b)) => {
            let line = format!("sign {} {} {}", hex(&d), hex(&msg), hex(&b));
            if a != b { ctx.oracle_fail("sign-differs", &line, &format!("k256={} secp={}", hex(&a), hex(&b))); }
            if lt(&K1_HALF, &s_field(&b)) { ctx.oracle_fail("sign-not-normalized", &line, "s > n/2"); }
            ctx.count("sign");
            ctx.distinct(line.as_bytes());
            ctx.emit(&line, &format!("k256={} secp={}", hex(&a), hex(&b)));
            b
        }
        _ => {
            let line = format!("sign {} {} -", hex(&d), hex(&msg));
            ctx.oracle_fail("panic-sign", &line, "a backend panicked while signing");
            ctx.emit(&line, "panic");
            [0u8; 64]
        }
    }
}

fn do_pub(ctx: &mut Ctx, sk: &SecretKey) -> [u8; 64] {
    let a = *k256::public_key(sk);
    let b = *secp::public_key(sk);
    let d: [u8; 32] = **sk;
    let line = format!("pub {}", hex(&d));
    if a != b { ctx.oracle_fail("public-key-differs", &line, &format!("k256={} secp={}", hex(&a), hex(&b))); }
    ctx.count("pub");
    ctx.emit(&line, &hex(&b));
    b
}

/// regression corpus: boundary cases and the minimized F6 witness
fn corpus(ctx: &mut Ctx) {
    // F6: r = x(G), s = 0x7fff…ff0000 (high-s, below 2^255), both recovery bits, message 0x11…
    let gx = h("79be667ef9dcbbac55a06295ce870b07029bfcdb2dce28d959f2815b16f81798");
    let s_f6 = h("7fffffffffffffffffffffffffffffffffffffffffffffffffffffffffff0000");
    for odd in [false, true] {
        do_recover(ctx, "corpus-f6", sig_of(&gx, &s_f6, odd), [0x11; 32]);
        do_recover(ctx, "corpus-f6", sig_of(&gx, &add_small(&K1_HALF, 1), odd), [0x11; 32]);
        do_recover(ctx, "corpus-f6", sig_of(&gx, &sub_small(&TWO255, 1), odd), [0u8; 32]);
        do_recover(ctx, "corpus", sig_of(&gx, &K1_HALF, odd), [0x11; 32]);
        do_recover(ctx, "corpus", sig_of(&gx, &small(1), odd), [0x11; 32]);
        do_recover(ctx, "corpus", sig_of(&gx, &[0u8; 32], odd), [0x11; 32]);
        do_recover(ctx, "corpus", sig_of(&[0u8; 32], &small(1), odd), [0x11; 32]);
        do_recover(ctx, "corpus", sig_of(&K1_N, &small(1), odd), [0x11; 32]);
        do_recover(ctx, "corpus", sig_of(&sub_small(&K1_N, 1), &small(1), odd), [0x11; 32]);
        do_recover(ctx, "corpus", sig_of(&MAX, &MAX, odd), MAX);
        // z ≡ 0 and u1 = 0; recovered key = r⁻¹ s R
        do_recover(ctx, "corpus", sig_of(&gx, &small(7), odd), K1_N);
        // s chosen so that the recovered key would be the identity needs z = s·k: r = x(G), k = 1 ⇒ z = s
        do_recover(ctx, "corpus-identity", sig_of(&gx, &small(5), odd), small(5));
    }
    let sk = SecretKey::try_from(Bytes32::from(small(1))).unwrap();
    let pk = do_pub(ctx, &sk);
    let sig = do_sign(ctx, &sk, [0x22; 32]);
    do_verify(ctx, "corpus", sig, pk, [0x22; 32]);
    do_verify(ctx, "corpus", sig, [0u8; 64], [0x22; 32]);
    let mut bad = [0xffu8; 64];
    do_verify(ctx, "corpus", bad, bad, [0x22; 32]); // both signature and key invalid: error variants differ, verdict does not
    bad[..32].copy_from_slice(&K1_P);
    do_verify(ctx, "corpus", sig, bad, [0x22; 32]);
}

pub fn run(ctx: &mut Ctx) {
    corpus(ctx);

    // 1. valid signatures and their structured variants
    for _ in 0..ctx.n(60, 1500) {
        let sk = secret(ctx);
        let msg = message(ctx);
        let pk = do_pub(ctx, &sk);
        let sig = do_sign(ctx, &sk, msg);
        do_recover(ctx, "valid", sig, msg);
        do_verify(ctx, "valid", sig, pk, msg);
        // flipped recovery bit
        let mut f = sig; f[32] ^= 0x80;
        do_recover(ctx, "valid-flipped-bit", f, msg);
        // s ↦ n − s with flipped parity (the other encoding of the same signature; its top bit is set
        // for all but ~2^-128 of signatures, so it is read as recovery bit + a different s)
        let neg = neg_mod(&K1_N, &s_field(&sig));
        let mut g = sig; g[32..].copy_from_slice(&neg); if sig[32] & 0x80 == 0 { g[32] |= 0x80 } else { g[32] &= 0x7f }
        do_recover(ctx, "valid-negated-s", g, msg);
        do_verify(ctx, "valid-negated-s", g, pk, msg);
        // other message, other key
        let msg2 = message(ctx);
        do_recover(ctx, "valid-other-msg", sig, msg2);
        do_verify(ctx, "valid-other-msg", sig, pk, msg2);
        let pk2 = *secp::public_key(&secret(ctx));
        do_verify(ctx, "valid-other-key", sig, pk2, msg);
        // single bit flips
        let mut b = sig; let i = ctx.rng.below(512) as usize; b[i / 8] ^= 1 << (i % 8);
        do_recover(ctx, "valid-bitflip", b, msg);
        do_verify(ctx, "valid-bitflip", b, pk, msg);
        // public key damaged: coordinate flipped / swapped / ≥ p
        let mut q = pk; let i = ctx.rng.below(512) as usize; q[i / 8] ^= 1 << (i % 8);
        do_verify(ctx, "pk-bitflip", sig, q, msg);
        let mut q = pk; q[..32].copy_from_slice(&boundary_scalar(ctx));
        do_verify(ctx, "pk-boundary-x", sig, q, msg);
        // negated public key (x, p − y): a valid point, wrong key
        let mut q = pk; let y: U = q[32..].try_into().unwrap(); q[32..].copy_from_slice(&sub(&K1_P, &y).0);
        do_verify(ctx, "pk-negated", sig, q, msg);
    }

    // 2. crafted high-s band (n/2, 2^255) with liftable r: the F6 class
    for _ in 0..ctx.n(40, 1500) {
        let r = liftable_r(ctx);
        let s = band_s(ctx);
        let odd = ctx.rng.chance(1, 2);
        let msg = message(ctx);
        do_recover(ctx, "band-high-s", sig_of(&r, &s, odd), msg);
        if ctx.rng.chance(1, 4) {
            let pk = *secp::public_key(&secret(ctx));
            do_verify(ctx, "band-high-s", sig_of(&r, &s, odd), pk, msg);
        }
    }

    // 3. crafted low-s with liftable / random r (every such (r, s) is a valid signature for the key it recovers)
    for _ in 0..ctx.n(40, 1500) {
        let r = if ctx.rng.chance(1, 2) { liftable_r(ctx) } else { ctx.rng.arr32() };
        let mut s = ctx.rng.arr32();
        s[0] &= 0x7f;
        if ctx.rng.chance(1, 4) { s = sub_small(&K1_HALF, ctx.rng.below(4)); }
        let odd = ctx.rng.chance(1, 2);
        let msg = message(ctx);
        do_recover(ctx, "crafted-low-s", sig_of(&r, &s, odd), msg);
    }

    // 4. boundary scalars in r and s, both recovery bits
    for _ in 0..ctx.n(60, 2000) {
        let r = if ctx.rng.chance(1, 3) { liftable_r(ctx) } else { boundary_scalar(ctx) };
        let s = if ctx.rng.chance(1, 5) { band_s(ctx) } else { boundary_scalar(ctx) };
        let msg = message(ctx);
        for odd in [false, true] {
            do_recover(ctx, "boundary", sig_of(&r, &s, odd), msg);
        }
        if ctx.rng.chance(1, 3) {
            let pk = *secp::public_key(&secret(ctx));
            do_verify(ctx, "boundary", sig_of(&r, &s, false), pk, msg);
        }
    }

    // 5. malformed: uniformly random bytes (signature, key)
    for _ in 0..ctx.n(30, 1000) {
        let mut sig = [0u8; 64];
        sig.copy_from_slice(&ctx.rng.bytes(64));
        let msg = message(ctx);
        do_recover(ctx, "random", sig, msg);
        let mut pk = [0u8; 64];
        pk.copy_from_slice(&ctx.rng.bytes(64));
        do_verify(ctx, "random", sig, pk, msg);
    }
}
