//! C17 — sign / recover / verify consistency of the `fuel_crypto` API (secp256k1 through `Signature`,
//! secp256r1 through `secp256r1::{sign_prehashed, recover}`, Ed25519 through `ed25519::verify`) and of
//! the VM instructions ECK1 / ECR1 / ED19, single-stepped with `Interpreter::instruction`.
//!
//! Property oracle (independent of the Lean model), evaluated on the real code:
//!  * a produced signature is normalised (`s <= n/2`, so bit 255 of `s` is free for the recovery id),
//!    recovers exactly `public_key(d)`, verifies against it, and does not recover that key for another
//!    message (digest not congruent mod n), with a flipped recovery bit, or with any single bit flipped;
//!  * `ed25519::verify` accepts exactly what `ed25519_dalek::VerifyingKey::verify_strict` accepts;
//!  * ECK1/ECR1/ED19 set `$err` and the output bytes to what the library call returns on the bytes that
//!    are in memory, change nothing else, and panic exactly when a range is not readable / not owned.
use crate::{ctx::Ctx, gen::u256::*, util::hex};
use fuel_asm::{op, PanicReason, RegId};
use fuel_crypto::{Error, Message, PublicKey, SecretKey, Signature};
use fuel_tx::{field::*, ConsensusParameters, Finalizable, Script, TransactionBuilder, TxParameters};
use fuel_types::{Bytes32, Bytes64};
use fuel_vm::{
    checked_transaction::{IntoChecked, Ready},
    consts::MEM_SIZE,
    error::InterpreterError,
    interpreter::{Interpreter, InterpreterParams, MemoryInstance},
    storage::MemoryStorage,
};

fn ename(e: &Error) -> &'static str {
    match e {
        Error::InvalidSignature => "InvalidSignature",
        Error::InvalidPublicKey => "InvalidPublicKey",
        Error::InvalidSecretKey => "InvalidSecretKey",
        Error::InvalidMessage => "InvalidMessage",
        Error::FailedToSign => "FailedToSign",
        _ => "OtherError",
    }
}

#[derive(Clone, Copy, PartialEq)]
enum Curve { K1, R1 }
impl Curve {
    fn tag(self) -> &'static str { if self == Curve::K1 { "k1" } else { "r1" } }
    fn n(self) -> U { if self == Curve::K1 { K1_N } else { R1_N } }
    fn half(self) -> U { if self == Curve::K1 { K1_HALF } else { R1_HALF } }
}

fn secret_bytes(ctx: &mut Ctx, cv: Curve) -> U {
    loop {
        let b = match ctx.rng.below(8) {
            0 => small(ctx.rng.range(1, 4)),
            1 => sub_small(&cv.n(), ctx.rng.range(1, 4)),
            2 => add_small(&cv.half(), ctx.rng.below(3)),
            _ => ctx.rng.arr32(),
        };
        if !is_zero(&b) && lt(&b, &cv.n()) { return b }
    }
}

fn message(ctx: &mut Ctx, cv: Curve) -> [u8; 32] {
    match ctx.rng.below(12) {
        0 => [0u8; 32],
        1 => MAX,
        2 => cv.n(),
        3 => add_small(&cv.n(), ctx.rng.range(1, 3)),
        4 => sub_small(&cv.n(), ctx.rng.range(1, 3)),
        5 => small(ctx.rng.word()),
        _ => ctx.rng.arr32(),
    }
}

// ---------------------------------------------------------------- library API

fn sign(cv: Curve, d: &U, msg: &[u8; 32]) -> Result<[u8; 64], String> {
    let m = Message::from_bytes(*msg);
    match cv {
        Curve::K1 => {
            let sk = SecretKey::try_from(Bytes32::from(*d)).map_err(|e| ename(&e).to_string())?;
            Ok(*Signature::sign(&sk, &m))
        }
        Curve::R1 => {
            let sk = p256::ecdsa::SigningKey::from_slice(d).map_err(|_| "InvalidSecretKey".to_string())?;
            fuel_crypto::secp256r1::sign_prehashed(&sk, &m).map(|b| *b).map_err(|e| ename(&e).to_string())
        }
    }
}
fn public(cv: Curve, d: &U) -> [u8; 64] {
    match cv {
        Curve::K1 => *SecretKey::try_from(Bytes32::from(*d)).unwrap().public_key(),
        Curve::R1 => {
            let sk = p256::ecdsa::SigningKey::from_slice(d).unwrap();
            fuel_crypto::secp256r1::encode_pubkey(*sk.verifying_key())
        }
    }
}
fn recover(cv: Curve, sig: &[u8; 64], msg: &[u8; 32]) -> Result<[u8; 64], Error> {
    let m = Message::from_bytes(*msg);
    match cv {
        Curve::K1 => Signature::from_bytes(*sig).recover(&m).map(|k| *k),
        Curve::R1 => fuel_crypto::secp256r1::recover(&Bytes64::from(*sig), &m).map(|k| *k),
    }
}
fn key_str(r: &Result<[u8; 64], Error>) -> String { match r { Ok(k) => hex(k), Err(e) => ename(e).to_string() } }

fn do_recover(ctx: &mut Ctx, cv: Curve, class: &str, sig: [u8; 64], msg: [u8; 32]) -> Option<[u8; 64]> {
    let line = format!("{}rec {} {}", cv.tag(), hex(&sig), hex(&msg));
    let r = match ctx.guard(|| recover(cv, &sig, &msg)) {
        Ok(r) => r,
        Err(p) => { ctx.oracle_fail(&format!("panic-{}-recover", cv.tag()), &line, &p); ctx.emit(&line, "panic"); return None }
    };
    ctx.count(&format!("{}rec.{class}.{}", cv.tag(), if r.is_ok() { "ok" } else { "err" }));
    ctx.emit(&line, &key_str(&r));
    r.ok()
}

fn do_verify_k1(ctx: &mut Ctx, class: &str, sig: [u8; 64], pk: [u8; 64], msg: [u8; 32]) -> bool {
    let line = format!("k1ver {} {} {}", hex(&sig), hex(&pk), hex(&msg));
    // `Signature::verify` takes &PublicKey, which derefs to the 64 bytes that `k1::verify` receives
    let mut pkt = PublicKey::default();
    pkt.as_mut().copy_from_slice(&pk);
    let m = Message::from_bytes(msg);
    let r = match ctx.guard(|| Signature::from_bytes(sig).verify(&pkt, &m)) {
        Ok(r) => r,
        Err(p) => { ctx.oracle_fail("panic-k1-verify", &line, &p); ctx.emit(&line, "panic"); return false }
    };
    ctx.count(&format!("k1ver.{class}.{}", if r.is_ok() { "ok" } else { "err" }));
    ctx.emit(&line, &match &r { Ok(()) => "ok".to_string(), Err(e) => ename(e).to_string() });
    r.is_ok()
}

fn s_field(sig: &[u8; 64]) -> U { let mut s = [0u8; 32]; s.copy_from_slice(&sig[32..]); s[0] &= 0x7f; s }

/// reduce a 256-bit value mod n (n > 2^255, so at most one subtraction)
fn mod_n(x: &U, n: &U) -> U { if lt(x, n) { *x } else { sub(x, n).0 } }

/// sign + the whole round-trip oracle for one (key, message)
fn round_trip(ctx: &mut Ctx, cv: Curve) {
    let d = secret_bytes(ctx, cv);
    let msg = message(ctx, cv);
    let t = cv.tag();
    let sig = match ctx.guard(|| sign(cv, &d, &msg)) {
        Ok(Ok(s)) => s,
        Ok(Err(e)) => { ctx.oracle_fail(&format!("{t}-sign-error"), &format!("{t}sign {} {}", hex(&d), hex(&msg)), &e); return }
        Err(p) => { ctx.oracle_fail(&format!("panic-{t}-sign"), &format!("{t}sign {} {}", hex(&d), hex(&msg)), &p); return }
    };
    let line = format!("{t}sign {} {} {}", hex(&d), hex(&msg), hex(&sig));
    ctx.count(&format!("{t}sign"));
    ctx.distinct(line.as_bytes());
    ctx.emit(&line, &hex(&sig));
    let pk = public(cv, &d);
    ctx.emit(&format!("{t}pub {}", hex(&d)), &hex(&pk));

    // normalised: s <= n/2 (hence < 2^255: the recovery bit position is free)
    let s = s_field(&sig);
    if lt(&cv.half(), &s) || is_zero(&s) { ctx.oracle_fail(&format!("{t}-sign-not-normalized"), &line, "s not in (0, n/2]"); }
    // recovers exactly the signer's key
    let rec = do_recover(ctx, cv, "signed", sig, msg);
    if rec != Some(pk) { ctx.oracle_fail(&format!("{t}-recover-sign-mismatch"), &line, &format!("recovered {:?}", rec.map(|k| hex(&k)))); }
    // verifies (k1 only: the crate has no r1 verify)
    if cv == Curve::K1 && !do_verify_k1(ctx, "signed", sig, pk, msg) { ctx.oracle_fail("k1-verify-sign-fails", &line, "verify(sign) failed"); }
    // other message
    let msg2 = message(ctx, cv);
    if mod_n(&msg2, &cv.n()) != mod_n(&msg, &cv.n()) {
        let r2 = do_recover(ctx, cv, "other-msg", sig, msg2);
        if r2 == Some(pk) { ctx.oracle_fail(&format!("{t}-other-message-recovers-key"), &format!("{line} other={}", hex(&msg2)), "same key recovered for a different digest"); }
        if cv == Curve::K1 && do_verify_k1(ctx, "other-msg", sig, pk, msg2) { ctx.oracle_fail("k1-other-message-verifies", &line, "verify accepted another digest"); }
    }
    // a different 32-byte message with the same digest mod n (only exists for msg < 2^256 - n or msg >= n)
    let cong = if lt(&msg, &cv.n()) { let (v, carry) = add(&msg, &cv.n()); if carry { None } else { Some(v) } } else { Some(sub(&msg, &cv.n()).0) };
    if let Some(m3) = cong {
        let r3 = do_recover(ctx, cv, "congruent-msg", sig, m3);
        if r3 == Some(pk) {
            // literal reading of "fails to recover that key for any other message" is violated by construction of ECDSA
            ctx.oracle_fail("other-message-congruent-mod-n", &format!("{line} other={}", hex(&m3)), "a different 32-byte message congruent mod n recovers the same key");
        }
    }
    // flipped recovery bit
    let mut f = sig; f[32] ^= 0x80;
    let rf = do_recover(ctx, cv, "flipped-recid", f, msg);
    if rf == Some(pk) { ctx.oracle_fail(&format!("{t}-flipped-recid-recovers-key"), &line, ""); }
    // single bit flips anywhere
    for _ in 0..2 {
        let mut b = sig; let i = ctx.rng.below(512) as usize; b[i / 8] ^= 1 << (7 - i % 8);
        let rb = do_recover(ctx, cv, "bitflip", b, msg);
        if rb == Some(pk) { ctx.oracle_fail(&format!("{t}-bitflip-recovers-key"), &format!("{line} bit={i}"), ""); }
        if cv == Curve::K1 && i != 256 && do_verify_k1(ctx, "bitflip", b, pk, msg) { ctx.oracle_fail("k1-bitflip-verifies", &format!("{line} bit={i}"), ""); }
    }
    // re-encoded: (r, n - s) with the parity flipped — the other ECDSA encoding of the same signature.  Its top
    // bit collides with the recovery bit, so through this format it is a different (r, s', v).
    let neg = sub(&cv.n(), &s).0;
    let mut g = sig; g[32..].copy_from_slice(&neg); if sig[32] & 0x80 == 0 { g[32] |= 0x80 } else { g[32] &= 0x7f }
    let rg = do_recover(ctx, cv, "reencoded-high-s", g, msg);
    if lt(&neg, &TWO255) {
        // representable high-s form: must recover the same key (normalize_recover)
        if rg != Some(pk) { ctx.oracle_fail(&format!("{t}-reencoded-high-s-differs"), &line, ""); }
    } else if rg == Some(pk) { ctx.oracle_fail(&format!("{t}-reencoded-recovers-key"), &line, ""); }
}

// ---------------------------------------------------------------- Ed25519

fn ed_reference(pk: &[u8; 32], sig: &[u8; 64], msg: &[u8]) -> bool {
    match ed25519_dalek::VerifyingKey::from_bytes(pk) {
        Ok(vk) => vk.verify_strict(msg, &ed25519_dalek::Signature::from_bytes(sig)).is_ok(),
        Err(_) => false,
    }
}

/// encodings of the eight small-order points (and non-canonical variants) of Curve25519
const SMALL_ORDER: [&str; 8] = [
    "0100000000000000000000000000000000000000000000000000000000000000",
    "ecffffffffffffffffffffffffffffffffffffffffffffffffffffffffffff7f",
    "0000000000000000000000000000000000000000000000000000000000000080",
    "0000000000000000000000000000000000000000000000000000000000000000",
    "c7176a703d4dd84fba3c0b760d10670f2a2053fa2c39ccc64ec7fd7792ac037a",
    "c7176a703d4dd84fba3c0b760d10670f2a2053fa2c39ccc64ec7fd7792ac03fa",
    "26e8958fc2b227b045c3f489f2ef98f0d5dfac05d3c63339b13802886d53fc05",
    "26e8958fc2b227b045c3f489f2ef98f0d5dfac05d3c63339b13802886d53fc85",
];
/// group order L of Ed25519, little endian
const ED_L: [u8; 32] = [0xed, 0xd3, 0xf5, 0x5c, 0x1a, 0x63, 0x12, 0x58, 0xd6, 0x9c, 0xf7, 0xa2, 0xde, 0xf9, 0xde, 0x14, 0, 0, 0, 0, 0, 0, 0, 0, 0, 0, 0, 0, 0, 0, 0, 0x10];

struct EdCase { pk: [u8; 32], sig: [u8; 64], msg: Vec<u8>, class: &'static str }

fn ed_case(ctx: &mut Ctx) -> EdCase {
    use ed25519_dalek::Signer;
    let seed = ctx.rng.arr32();
    let sk = ed25519_dalek::SigningKey::from_bytes(&seed);
    let mlen = *ctx.rng.pick(&[0usize, 1, 31, 32, 33, 64, 100, 255]);
    let msg = ctx.rng.bytes(mlen);
    let mut pk = sk.verifying_key().to_bytes();
    let mut sig = sk.sign(&msg).to_bytes();
    let mut msg = msg;
    let class = match ctx.rng.below(11) {
        10 => {
            // accepted by a cofactorless *non-strict* verifier, rejected by verify_strict: A and R of small order
            // (identity / the order-2 point), S = 0:  [0]B = R + [k]A
            pk.copy_from_slice(&crate::util::unhex(SMALL_ORDER[ctx.rng.below(2) as usize]));
            sig = [0u8; 64];
            sig[..32].copy_from_slice(&crate::util::unhex(SMALL_ORDER[0]));
            "lax-valid-small-order"
        }
        0 | 1 | 2 => "valid",
        3 => { let i = ctx.rng.below(512) as usize; sig[i / 8] ^= 1 << (i % 8); "sig-bitflip" }
        4 => { let i = ctx.rng.below(256) as usize; pk[i / 8] ^= 1 << (i % 8); "pk-bitflip" }
        5 => { if msg.is_empty() { msg.push(1) } else { let i = ctx.rng.below(msg.len() as u64) as usize; msg[i] ^= 1 } "msg-changed" }
        6 => {
            // non-canonical S: S + L (same signature for a lax verifier)
            let mut c = 0u16;
            for i in 0..32 { let t = sig[32 + i] as u16 + ED_L[i] as u16 + c; sig[32 + i] = t as u8; c = t >> 8; }
            "s-plus-l"
        }
        7 => { pk.copy_from_slice(&crate::util::unhex(*ctx.rng.pick(&SMALL_ORDER[..]))); "small-order-pk" }
        8 => { sig[..32].copy_from_slice(&crate::util::unhex(*ctx.rng.pick(&SMALL_ORDER[..]))); "small-order-r" }
        _ => { pk = ctx.rng.arr32(); sig.copy_from_slice(&ctx.rng.bytes(64)); "random" }
    };
    EdCase { pk, sig, msg, class }
}

fn do_ed(ctx: &mut Ctx, c: &EdCase) -> bool {
    let line = format!("ed {} {} {}", hex(&c.pk), hex(&c.sig), hex(&c.msg));
    let got = match ctx.guard(|| fuel_crypto::ed25519::verify(&Bytes32::from(c.pk), &Bytes64::from(c.sig), &c.msg)) {
        Ok(r) => r,
        Err(p) => { ctx.oracle_fail("panic-ed25519-verify", &line, &p); return false }
    };
    let reference = ed_reference(&c.pk, &c.sig, &c.msg);
    if got.is_ok() != reference {
        ctx.oracle_fail(&format!("ed25519-differs-from-strict-{}", c.class), &line, &format!("fuel_crypto={} verify_strict={}", got.is_ok(), reference));
    }
    if c.class == "valid" && !reference { ctx.oracle_fail("ed25519-valid-rejected", &line, ""); }
    ctx.count(&format!("ed.{}.{}", c.class, if got.is_ok() { "ok" } else { "err" }));
    got.is_ok()
}

// ---------------------------------------------------------------- VM single steps

type Vm = Interpreter<MemoryInstance, MemoryStorage, Script>;

struct VmFix { vm: Vm, tx: Ready<Script> }

fn vm_fixture() -> VmFix {
    let tx_params = TxParameters::default().with_max_gas_per_tx(u64::MAX / 2);
    let mut cp = ConsensusParameters::default();
    cp.set_tx_params(tx_params);
    let vm = Interpreter::<_, _, Script>::with_storage(MemoryInstance::new(), MemoryStorage::default(), InterpreterParams::new(0, &cp));
    let tx = TransactionBuilder::script(op::ret(RegId::ONE).to_bytes().to_vec(), vec![])
        .script_gas_limit(1_000_000_000)
        .add_fee_input()
        .finalize()
        .into_checked(Default::default(), &cp)
        .expect("checked")
        .into_ready(0, cp.gas_costs(), cp.fee_params(), None)
        .expect("ready");
    VmFix { vm, tx }
}

#[derive(Clone, Copy)]
struct Layout { ssp: u64, sp: u64, hp: u64 }

/// initialise, grow the stack by `stack_extra` (CFEI) and the heap by `heap` (ALOC) through real instructions
fn vm_setup(f: &mut VmFix, stack_extra: u32, heap: u32) -> Layout {
    f.vm.init_script(f.tx.clone()).expect("init_script");
    if stack_extra > 0 { f.vm.instruction::<_, false>(op::cfei(stack_extra)).expect("cfei"); }
    if heap > 0 {
        f.vm.instruction::<_, false>(op::movi(0x10, heap)).expect("movi");
        f.vm.instruction::<_, false>(op::aloc(0x10)).expect("aloc");
    }
    let r = f.vm.registers();
    Layout { ssp: r[RegId::SSP.to_u8() as usize], sp: r[RegId::SP.to_u8() as usize], hp: r[RegId::HP.to_u8() as usize] }
}

/// an address for a `len`-byte operand, by class
fn pick_addr(ctx: &mut Ctx, l: &Layout, len: u64, writable: bool) -> (u64, &'static str) {
    let m = MEM_SIZE as u64;
    let k = if writable { ctx.rng.below(14) } else { 2 + ctx.rng.below(12) };
    match k {
        0 | 1 | 2 if l.sp - l.ssp >= len => (l.ssp + ctx.rng.below(l.sp - l.ssp - len + 1), "stack-owned"),
        3 | 4 if m - l.hp >= len => (l.hp + ctx.rng.below(m - l.hp - len + 1), "heap"),
        5 if l.ssp >= len => (ctx.rng.below(l.ssp - len + 1), "below-ssp"),
        6 => (l.ssp.saturating_sub(ctx.rng.range(1, (len - 1).max(1))), "straddle-ssp"),
        7 => (l.sp.saturating_sub(ctx.rng.below(len)), "straddle-sp"),
        8 => (l.hp.saturating_sub(ctx.rng.range(1, len)), "straddle-hp"),
        9 => (l.sp + ctx.rng.below((l.hp - l.sp).max(1)), "gap"),
        10 => (m - ctx.rng.below(len), "straddle-mem-end"),
        11 => (m + ctx.rng.below(3), "at-mem-size"),
        12 => (ctx.rng.word(), "boundary-word"),
        13 => (u64::MAX - ctx.rng.below(len + 1), "near-u64-max"),
        _ => if m - l.hp >= len { (m - len, "heap-end") } else { (l.ssp, "ssp") },
    }
}

/// an accessible address: owned (writable) when `owned`, otherwise any readable range
fn pick_good(ctx: &mut Ctx, l: &Layout, len: u64, owned: bool) -> (u64, &'static str) {
    let m = MEM_SIZE as u64;
    for _ in 0..8 {
        match ctx.rng.below(if owned { 6 } else { 8 }) {
            0 | 1 if l.sp - l.ssp >= len => return (l.ssp + ctx.rng.below(l.sp - l.ssp - len + 1), "stack-owned"),
            2 if l.sp - l.ssp >= len => return (l.sp - len, "stack-owned-top"),
            3 | 4 if m - l.hp >= len => return (l.hp + ctx.rng.below(m - l.hp - len + 1), "heap"),
            5 if m - l.hp >= len => return (m - len, "heap-end"),
            6 if l.ssp >= len => return (ctx.rng.below(l.ssp - len + 1), "below-ssp"),
            7 if l.sp >= len => return (l.ssp.saturating_sub(ctx.rng.below(len)).min(l.sp - len), "straddle-ssp"),
            _ => {}
        }
    }
    pick_addr(ctx, l, len, owned)
}

fn overlap(x: u64, lx: u64, y: u64, ly: u64) -> bool { x < y.saturating_add(ly) && y < x.saturating_add(lx) }

fn readable(l: &Layout, addr: u64, len: u64) -> bool {
    let m = MEM_SIZE as u64;
    addr <= m && len <= m && addr + len <= m && (addr + len <= l.sp || addr >= l.hp)
}

fn snapshot(vm: &Vm, l: &Layout) -> (Vec<u8>, Vec<u8>) {
    (vm.memory()[0..l.sp as usize].to_vec(), vm.memory()[l.hp as usize..MEM_SIZE].to_vec())
}

fn panic_name(e: &InterpreterError<std::convert::Infallible>) -> String {
    match e {
        InterpreterError::PanicInstruction(p) => format!("{:?}", p.reason()),
        InterpreterError::Panic(r) => format!("{:?}", r),
        _ => "OtherInterpreterError".to_string(),
    }
}

fn mem_fields(vm: &Vm, l: &Layout) -> String {
    // stack.len(), memory hp, $sp, $ssp, $hp, prev_hp (script context: VM_MAX_RAM)
    let _ = vm;
    format!("{} {} {} {} {} {}", l.sp, l.hp, l.sp, l.ssp, l.hp, MEM_SIZE)
}

fn vm_recover(ctx: &mut Ctx, f: &mut VmFix, cv: Curve, sig: [u8; 64], msg: [u8; 32], sig_class: &str) {
    let stack_extra = *ctx.rng.pick(&[0u32, 64, 96, 200, 200, 1024, 1024]);
    let heap = *ctx.rng.pick(&[0u32, 64, 96, 200, 200, 1024, 1024]);
    let l = vm_setup(f, stack_extra, heap);
    // mostly accessible operands; one deliberately bad operand in 3 of 10 cases
    let mode = ctx.rng.below(10);
    let (a, ac) = if mode == 7 { pick_addr(ctx, &l, 64, true) } else { pick_good(ctx, &l, 64, true) };
    let (mut b, mut bc) = if mode == 8 { pick_addr(ctx, &l, 64, false) } else { pick_good(ctx, &l, 64, false) };
    let (mut c, mut cc) = if mode == 9 { pick_addr(ctx, &l, 32, false) } else { pick_good(ctx, &l, 32, false) };
    // in 5 of 10 cases keep signature and message from overlapping (otherwise a valid signature is clobbered)
    if mode < 5 {
        for _ in 0..10 {
            if !overlap(b, 64, c, 32) { break }
            (b, bc) = pick_good(ctx, &l, 64, false);
            (c, cc) = pick_good(ctx, &l, 32, false);
        }
    }
    // place the operands (message last, so that it wins when the ranges overlap; what matters is what is in memory)
    if readable(&l, b, 64) { f.vm.memory_mut().write_noownerchecks(b, 64usize).unwrap().copy_from_slice(&sig); }
    if readable(&l, c, 32) { f.vm.memory_mut().write_noownerchecks(c, 32usize).unwrap().copy_from_slice(&msg); }
    let in_sig: Option<[u8; 64]> = if readable(&l, b, 64) { Some(f.vm.memory().read_bytes(b).unwrap()) } else { None };
    let in_msg: Option<[u8; 32]> = if readable(&l, c, 32) { Some(f.vm.memory().read_bytes(c).unwrap()) } else { None };
    {
        let r = f.vm.registers_mut();
        r[0x10] = a; r[0x11] = b; r[0x12] = c;
        r[RegId::ERR.to_u8() as usize] = ctx.rng.below(2); // stale value must be overwritten
    }
    let before = snapshot(&f.vm, &l);
    let regs_before: Vec<u64> = f.vm.registers().to_vec();
    let ins = if cv == Curve::K1 { op::eck1(0x10, 0x11, 0x12) } else { op::ecr1(0x10, 0x11, 0x12) };
    let opn = if cv == Curve::K1 { "eck1" } else { "ecr1" };
    let line = format!("{opn} {} {a} {b} {c} {} {}", mem_fields(&f.vm, &l),
        in_sig.map(|s| hex(&s)).unwrap_or("-".into()), in_msg.map(|m| hex(&m)).unwrap_or("-".into()));
    let res = match ctx.guard(|| f.vm.instruction::<_, false>(ins)) {
        Ok(r) => r,
        Err(p) => { ctx.oracle_fail(&format!("panic-{opn}"), &line, &p); ctx.emit(&line, "rust-panic"); return }
    };
    let after = snapshot(&f.vm, &l);
    let regs = f.vm.registers().to_vec();
    let (pc_i, err_i, cgas, ggas) = (RegId::PC.to_u8() as usize, RegId::ERR.to_u8() as usize, RegId::CGAS.to_u8() as usize, RegId::GGAS.to_u8() as usize);
    ctx.count(&format!("{opn}.a-{ac}")); ctx.count(&format!("{opn}.b-{bc}")); ctx.count(&format!("{opn}.c-{cc}"));
    match res {
        Ok(_) => {
            let out: [u8; 64] = f.vm.memory().read_bytes(a).unwrap();
            let err = regs[err_i];
            ctx.count(&format!("{opn}.ok.err{err}.{sig_class}"));
            ctx.distinct(line.as_bytes());
            // ORACLE: the instruction reports what the library reports on the bytes in memory
            match (in_sig, in_msg) {
                (Some(s), Some(m)) => {
                    let lib = recover(cv, &s, &m);
                    let (exp_err, exp_out) = match &lib { Ok(k) => (0u64, *k), Err(_) => (1u64, [0u8; 64]) };
                    if err != exp_err || out != exp_out {
                        ctx.oracle_fail(&format!("{opn}-differs-from-library"), &line, &format!("$err={err} out={} library={}", hex(&out), key_str(&lib)));
                    }
                }
                _ => ctx.oracle_fail(&format!("{opn}-succeeded-on-unreadable-input"), &line, ""),
            }
            // nothing else changes: memory outside [a, a+64), registers other than $err, $pc, gas
            let mut exp_stack = before.0.clone(); let mut exp_heap = before.1.clone();
            for i in 0..64u64 {
                let p = a + i;
                if p < l.sp { exp_stack[p as usize] = out[i as usize] } else if p >= l.hp { exp_heap[(p - l.hp) as usize] = out[i as usize] }
            }
            if exp_stack != after.0 || exp_heap != after.1 { ctx.oracle_fail(&format!("{opn}-writes-outside-output"), &line, ""); }
            for (i, (x, y)) in regs_before.iter().zip(regs.iter()).enumerate() {
                if x != y && i != pc_i && i != err_i && i != cgas && i != ggas { ctx.oracle_fail(&format!("{opn}-changes-register"), &line, &format!("register {i}")); }
            }
            if regs[pc_i] != regs_before[pc_i] + 4 { ctx.oracle_fail(&format!("{opn}-pc"), &line, "pc not advanced by 4"); }
            ctx.emit(&line, &format!("ok err={err} out={}", hex(&out)));
        }
        Err(e) => {
            let name = panic_name(&e);
            ctx.count(&format!("{opn}.panic.{name}"));
            // ORACLE: a panic leaves memory, $err and $pc untouched, and only happens for an inaccessible operand
            if before != after { ctx.oracle_fail(&format!("{opn}-panic-changes-memory"), &line, &name); }
            if regs[err_i] != regs_before[err_i] || regs[pc_i] != regs_before[pc_i] { ctx.oracle_fail(&format!("{opn}-panic-changes-err-or-pc"), &line, &name); }
            let owned = |x: u64| (x >= l.ssp && x < l.sp && x + 64 <= l.sp) || (x >= l.hp && l.hp != MEM_SIZE as u64 && x + 64 <= MEM_SIZE as u64);
            if in_sig.is_some() && in_msg.is_some() && readable(&l, a, 64) && owned(a) {
                ctx.oracle_fail(&format!("{opn}-panics-on-accessible-operands"), &line, &name);
            }
            ctx.emit(&line, &format!("panic {name}"));
        }
    }
}

fn vm_ed19(ctx: &mut Ctx, f: &mut VmFix, c: &EdCase) {
    let stack_extra = *ctx.rng.pick(&[0u32, 96, 400, 1024]);
    let heap = *ctx.rng.pick(&[0u32, 96, 400, 1024]);
    let l = vm_setup(f, stack_extra, heap);
    // length register: the real length, 0 (treated as 32), or a boundary value
    let len: u64 = match ctx.rng.below(8) {
        0 => 0,
        1 => ctx.rng.word() & 0xffff_ffff,
        2 => MEM_SIZE as u64 + ctx.rng.below(2),
        _ => c.msg.len() as u64,
    };
    let eff = if len == 0 { 32 } else { len };
    let mode = ctx.rng.below(10);
    let lc = eff.min(4096).max(1);
    let (mut a, mut ac) = if mode == 7 { pick_addr(ctx, &l, 32, false) } else { pick_good(ctx, &l, 32, false) };
    let (mut b, mut bc) = if mode == 8 { pick_addr(ctx, &l, 64, false) } else { pick_good(ctx, &l, 64, false) };
    let (mut cc_addr, mut cc) = if mode == 9 { pick_addr(ctx, &l, lc, false) } else { pick_good(ctx, &l, lc, false) };
    if mode < 5 {
        for _ in 0..20 {
            if !overlap(a, 32, b, 64) && !overlap(a, 32, cc_addr, lc) && !overlap(b, 64, cc_addr, lc) { break }
            (a, ac) = pick_good(ctx, &l, 32, false);
            (b, bc) = pick_good(ctx, &l, 64, false);
            (cc_addr, cc) = pick_good(ctx, &l, lc, false);
        }
    }
    if readable(&l, a, 32) { f.vm.memory_mut().write_noownerchecks(a, 32usize).unwrap().copy_from_slice(&c.pk); }
    if readable(&l, b, 64) { f.vm.memory_mut().write_noownerchecks(b, 64usize).unwrap().copy_from_slice(&c.sig); }
    if eff == c.msg.len() as u64 && readable(&l, cc_addr, eff) && eff > 0 {
        f.vm.memory_mut().write_noownerchecks(cc_addr, eff as usize).unwrap().copy_from_slice(&c.msg);
    }
    let all_readable = readable(&l, a, 32) && readable(&l, b, 64) && readable(&l, cc_addr, eff);
    // what the library says about the bytes that are in memory now
    let lib: Option<bool> = if all_readable && eff <= 1 << 20 {
        let pk: [u8; 32] = f.vm.memory().read_bytes(a).unwrap();
        let sg: [u8; 64] = f.vm.memory().read_bytes(b).unwrap();
        let m = f.vm.memory().read(cc_addr, eff).unwrap().to_vec();
        Some(fuel_crypto::ed25519::verify(&Bytes32::from(pk), &Bytes64::from(sg), &m).is_ok())
    } else { None };
    {
        let r = f.vm.registers_mut();
        r[0x10] = a; r[0x11] = b; r[0x12] = cc_addr; r[0x13] = len;
        r[RegId::ERR.to_u8() as usize] = ctx.rng.below(2);
    }
    let before = snapshot(&f.vm, &l);
    let regs_before: Vec<u64> = f.vm.registers().to_vec();
    let line = format!("ed19 {} {} {a} {b} {cc_addr} {len}", if lib == Some(true) { 1 } else { 0 }, mem_fields(&f.vm, &l));
    let res = match ctx.guard(|| f.vm.instruction::<_, false>(op::ed19(0x10, 0x11, 0x12, 0x13))) {
        Ok(r) => r,
        Err(p) => { ctx.oracle_fail("panic-ed19", &line, &p); ctx.emit(&line, "rust-panic"); return }
    };
    let after = snapshot(&f.vm, &l);
    let regs = f.vm.registers().to_vec();
    let (pc_i, err_i) = (RegId::PC.to_u8() as usize, RegId::ERR.to_u8() as usize);
    ctx.count(&format!("ed19.a-{ac}")); ctx.count(&format!("ed19.b-{bc}")); ctx.count(&format!("ed19.c-{cc}"));
    if before != after { ctx.oracle_fail("ed19-changes-memory", &line, ""); }
    match res {
        Ok(_) => {
            let err = regs[err_i];
            ctx.count(&format!("ed19.ok.err{err}.{}.len{}", c.class, if len == 0 { "0" } else if len == c.msg.len() as u64 { "=" } else { "x" }));
            ctx.distinct(line.as_bytes());
            match lib {
                Some(v) => if (err == 0) != v || err > 1 { ctx.oracle_fail("ed19-differs-from-library", &line, &format!("$err={err} library accepts={v}")); },
                None => if !all_readable { ctx.oracle_fail("ed19-succeeded-on-unreadable-input", &line, "") },
            }
            if regs[pc_i] != regs_before[pc_i] + 4 { ctx.oracle_fail("ed19-pc", &line, "pc not advanced by 4"); }
            ctx.emit(&line, &format!("ok err={err}"));
        }
        Err(e) => {
            let name = panic_name(&e);
            ctx.count(&format!("ed19.panic.{name}"));
            if regs[err_i] != regs_before[err_i] || regs[pc_i] != regs_before[pc_i] { ctx.oracle_fail("ed19-panic-changes-err-or-pc", &line, &name); }
            if all_readable { ctx.oracle_fail("ed19-panics-on-accessible-operands", &line, &name); }
            ctx.emit(&line, &format!("panic {name}"));
        }
    }
}

/// a signature for the VM cases: valid, damaged, crafted
fn vm_sig_case(ctx: &mut Ctx, cv: Curve) -> ([u8; 64], [u8; 32], &'static str) {
    let d = secret_bytes(ctx, cv);
    let msg = message(ctx, cv);
    let mut sig = sign(cv, &d, &msg).unwrap_or([0u8; 64]);
    let class = match ctx.rng.below(8) {
        0 | 1 | 2 => "valid",
        3 => { let i = ctx.rng.below(512) as usize; sig[i / 8] ^= 1 << (i % 8); "bitflip" }
        4 => { sig[32] ^= 0x80; "flipped-recid" }
        5 => { sig.copy_from_slice(&ctx.rng.bytes(64)); "random" }
        6 => { let z = [0u8; 32]; if ctx.rng.chance(1, 2) { sig[..32].copy_from_slice(&z) } else { sig[32..].copy_from_slice(&z) } "zero-scalar" }
        _ => {
            // high-s band (n/2, 2^255)
            let s = add_small(&cv.half(), ctx.rng.range(1, 1 << 40));
            sig[32..].copy_from_slice(&s); if ctx.rng.chance(1, 2) { sig[32] |= 0x80 }
            "high-s"
        }
    };
    (sig, msg, class)
}

pub fn run(ctx: &mut Ctx) {
    if std::env::var("FV_DEBUG_PANIC").is_ok() { std::panic::set_hook(Box::new(|i| eprintln!("{i}"))); }
    // corpus: fixed vectors first
    {
        let one = small(1);
        let m = [0x22u8; 32];
        for cv in [Curve::K1, Curve::R1] {
            let sig = sign(cv, &one, &m).unwrap();
            ctx.emit(&format!("{}sign {} {} {}", cv.tag(), hex(&one), hex(&m), hex(&sig)), &hex(&sig));
            do_recover(ctx, cv, "corpus", sig, m);
            do_recover(ctx, cv, "corpus", [0u8; 64], m);
            do_recover(ctx, cv, "corpus", [0xff; 64], m);
        }
    }
    for _ in 0..ctx.n(50, 1500) { round_trip(ctx, Curve::K1); }
    for _ in 0..ctx.n(50, 1500) { round_trip(ctx, Curve::R1); }

    let mut ed_cases = Vec::new();
    for _ in 0..ctx.n(400, 20000) { let c = ed_case(ctx); do_ed(ctx, &c); ed_cases.push(c); }

    // building the fixture checks a signed fee input through the real signature code: a panic here is a finding, not a crash
    let mut f = match ctx.guard(vm_fixture) {
        Ok(f) => f,
        Err(p) => { ctx.oracle_fail("panic-vm-fixture", "TransactionBuilder::script(..).add_fee_input().finalize().into_checked()", &p); return }
    };
    for _ in 0..ctx.n(150, 3000) {
        let cv = if ctx.rng.chance(1, 2) { Curve::K1 } else { Curve::R1 };
        let (sig, msg, class) = vm_sig_case(ctx, cv);
        vm_recover(ctx, &mut f, cv, sig, msg, class);
    }
    let n_ed = ctx.n(300, 6000) as usize;
    for i in 0..n_ed { let c = &ed_cases[i % ed_cases.len()]; vm_ed19(ctx, &mut f, c); }
}
