//! C35 — bytecode upload, blob, deployment and upgrade tables.
//!
//! Histories of REAL `Create` / `Blob` / `Upload` / `Upgrade` transactions (built with the repo's own
//! constructors, checked with `into_checked*`, valid Merkle proofs from `UploadSubsection::split_bytecode`)
//! are executed through `Transactor::{deploy, blob, upload, upgrade}` on one `MemoryStorage`: duplicates,
//! out-of-order and repeated subsections, several roots interleaved, uploads after completion, upgrades to
//! unknown / incomplete / complete roots and against taken versions, current versions moved forwards and
//! backwards between transactions. After every transaction the answer line carries the outcome and a
//! digest of every table.
//! Oracle (independent of the Lean model): the English statement kept as a small specification state
//! (created ids, accepted parts per root, version maps); it decides accept / reject and the expected
//! tables, and checks that a failed transaction leaves the digest unchanged.
use crate::{ctx::Ctx, util::hex};
use fuel_vm::{
    fuel_asm::op,
    fuel_crypto::Hasher,
    fuel_storage::{StorageAsRef, StorageInspect},
    fuel_tx::{
        policies::Policies, BlobIdExt, ConsensusParameters, Contract, Finalizable, Input, Output, StorageSlot, Transaction,
        TransactionBuilder, UpgradePurpose, UploadSubsection, Witness,
    },
    fuel_types::{AssetId, BlobId, Bytes32, ChainId, ContractId, Salt},
    interpreter::{InterpreterParams, MemoryInstance},
    prelude::{IntoChecked, Transactor},
    storage::{BlobData, ContractsRawCode, MemoryStorage, UploadedBytecode},
};
use fuel_vm::fuel_tx::Script;
use std::collections::BTreeMap;

const AMOUNT: u64 = 1000;

#[derive(Clone, Debug)]
enum Op {
    Deploy { salt: [u8; 32], code: Vec<u8>, slots: Vec<([u8; 32], [u8; 32])> },
    Blob { data: Vec<u8> },
    Upload { sub: UploadSubsection },
    UpgradeCp { chain: u64 },
    UpgradeSt { root: [u8; 32] },
    SetVersions { cp: u32, st: u32 },
}

fn predicate_input() -> (Input, fuel_vm::fuel_types::Address) {
    let predicate: Vec<u8> = [op::ret(1)].into_iter().collect();
    let owner = Input::predicate_owner(&predicate);
    (Input::coin_predicate(Default::default(), owner, AMOUNT, AssetId::BASE, Default::default(), Default::default(), predicate, vec![]), owner)
}

fn chain_params(chain: u64) -> ConsensusParameters {
    let mut cp = ConsensusParameters::standard();
    cp.set_chain_id(ChainId::new(chain));
    cp
}

struct World {
    tr: Transactor<MemoryInstance, MemoryStorage, Script>,
    cp: ConsensusParameters,
    /// ids ever submitted (contracts and blobs cannot be enumerated through the public storage API)
    contract_ids: Vec<[u8; 32]>,
    blob_ids: Vec<[u8; 32]>,
}

impl World {
    fn new() -> World {
        let (_, owner) = predicate_input();
        let mut cp = ConsensusParameters::standard();
        cp.set_privileged_address(owner);
        World { tr: Transactor::new(MemoryInstance::new(), MemoryStorage::default(), InterpreterParams::default()), cp, contract_ids: vec![], blob_ids: vec![] }
    }
    fn st(&mut self) -> &mut MemoryStorage { self.tr.as_mut() }

    /// canonical digest of every table
    fn digest(&mut self) -> String {
        let mut cids = self.contract_ids.clone(); cids.sort(); cids.dedup();
        let mut bids = self.blob_ids.clone(); bids.sort(); bids.dedup();
        let st: &MemoryStorage = self.tr.as_ref();
        let mut c = vec![];
        for id in &cids { if let Some(code) = StorageInspect::<ContractsRawCode>::get(st, &ContractId::from(*id)).unwrap() { c.push(format!("{}:{}", hex(id), hex(code.as_ref().as_ref()))); } }
        let mut s: Vec<String> = st.all_contract_state().map(|(k, v)| format!("{}/{}:{}", hex(k.contract_id().as_ref()), hex(k.state_key().as_ref()), hex(v.as_ref()))).collect();
        s.sort();
        let mut b = vec![];
        for id in &bids { if let Some(d) = StorageInspect::<BlobData>::get(st, &BlobId::from(*id)).unwrap() { b.push(format!("{}:{}", hex(id), hex(d.as_ref().as_ref()))); } }
        let (cur_cp, cur_st) = {
            use fuel_vm::storage::InterpreterStorage;
            (st.consensus_parameters_version().unwrap(), st.state_transition_version().unwrap())
        };
        let st = self.st();
        let u: Vec<String> = st.state_transition_bytecodes_mut().iter().map(|(r, v)| match v {
            UploadedBytecode::Uncompleted { bytecode, uploaded_subsections_number } => format!("{}:U{}:{}", hex(r.as_ref()), uploaded_subsections_number, hex(bytecode)),
            UploadedBytecode::Completed(bytecode) => format!("{}:C:{}", hex(r.as_ref()), hex(bytecode)),
        }).collect();
        let cpv: Vec<String> = st.consensus_parameters_versions_mut().iter().map(|(v, p)| format!("{v}:{}", u64::from(p.chain_id()))).collect();
        let stv: Vec<String> = st.state_transition_bytecodes_versions_mut().iter().map(|(v, r)| format!("{v}:{}", hex(r.as_ref()))).collect();
        let j = |v: Vec<String>| if v.is_empty() { "-".to_string() } else { v.join(",") };
        format!("C[{}] S[{}] B[{}] U[{}] CP[{}] ST[{}] cur={cur_cp},{cur_st}", j(c), j(s), j(b), j(u), j(cpv), j(stv))
    }

    /// executes the transaction; `Err(None)` = rejected by `into_checked` (never reached the executor)
    fn apply(&mut self, op_: &Op) -> Result<(), Option<String>> {
        let (input, owner) = predicate_input();
        let change = vec![Output::change(owner, 0, AssetId::BASE)];
        let pol = Policies::new().with_max_fee(AMOUNT);
        let name = |e: fuel_vm::error::InterpreterError<core::convert::Infallible>| Some(match &e {
            fuel_vm::error::InterpreterError::Bug(_) => "Bug".to_string(),
            _ => match e.panic_reason() { Some(r) => format!("{r:?}"), None => "NonPanicError".to_string() },
        });
        match op_ {
            Op::Deploy { salt, code, slots } => {
                let slots: Vec<StorageSlot> = slots.iter().map(|(k, v)| StorageSlot::new(Bytes32::from(*k), Bytes32::from(*v))).collect();
                let tx = TransactionBuilder::create(Witness::from(code.clone()), Salt::from(*salt), slots)
                    .add_fee_input().add_contract_created().finalize().into_checked(Default::default(), &self.cp).map_err(|_| None)?;
                self.tr.deploy(tx).map(|_| ()).map_err(name)
            }
            Op::Blob { data } => {
                let tx = Transaction::blob_from_bytes(data.clone(), pol, vec![input], change, vec![]).into_checked_basic(Default::default(), &self.cp).map_err(|_| None)?;
                self.tr.blob(tx).map(|_| ()).map_err(name)
            }
            Op::Upload { sub } => {
                let tx = Transaction::upload_from_subsection(sub.clone(), pol, vec![input], change, vec![]).into_checked_basic(Default::default(), &self.cp).map_err(|_| None)?;
                self.tr.upload(tx).map(|_| ()).map_err(name)
            }
            Op::UpgradeCp { chain } => {
                let tx = Transaction::upgrade_consensus_parameters(&chain_params(*chain), pol, vec![input], change, vec![]).map_err(|_| None)?
                    .into_checked_basic(Default::default(), &self.cp).map_err(|_| None)?;
                self.tr.upgrade(tx).map(|_| ()).map_err(name)
            }
            Op::UpgradeSt { root } => {
                let tx = Transaction::upgrade(UpgradePurpose::StateTransition { root: Bytes32::from(*root) }, pol, vec![input], change, vec![])
                    .into_checked_basic(Default::default(), &self.cp).map_err(|_| None)?;
                self.tr.upgrade(tx).map(|_| ()).map_err(name)
            }
            Op::SetVersions { cp, st } => { let s = self.st(); s.set_consensus_parameters_version(*cp); s.set_state_transition_version(*st); Ok(()) }
        }
    }
}

fn contract_id(salt: &[u8; 32], code: &[u8], slots: &[([u8; 32], [u8; 32])]) -> [u8; 32] {
    let slots: Vec<StorageSlot> = slots.iter().map(|(k, v)| StorageSlot::new(Bytes32::from(*k), Bytes32::from(*v))).collect();
    let sr = Contract::initial_state_root(slots.iter());
    let cr = Contract::root_from_code(code);
    *Contract::id(&Salt::from(*salt), &cr, &sr)
}

// ---------------------------------------------------------------------------------------------------
// the English statement as a specification state
// ---------------------------------------------------------------------------------------------------
#[derive(Default, Clone)]
struct Spec {
    contracts: BTreeMap<[u8; 32], (Vec<u8>, Vec<([u8; 32], [u8; 32])>)>,
    blobs: BTreeMap<[u8; 32], Vec<u8>>,
    /// root -> (accepted parts in order, complete?)
    uploads: BTreeMap<[u8; 32], (Vec<Vec<u8>>, bool)>,
    cp: BTreeMap<u32, u64>,
    st: BTreeMap<u32, [u8; 32]>,
    cur: (u32, u32),
}
impl Spec {
    /// `Ok` = the transaction must succeed (and the state is advanced), `Err(reason)` = must fail, state unchanged
    fn apply(&mut self, op_: &Op) -> Result<(), &'static str> {
        match op_ {
            Op::Deploy { salt, code, slots } => {
                let id = contract_id(salt, code, slots);
                if self.contracts.contains_key(&id) { return Err("ContractIdAlreadyDeployed") }
                self.contracts.insert(id, (code.clone(), slots.clone())); Ok(())
            }
            Op::Blob { data } => {
                let id = *BlobId::compute(data);
                if self.blobs.contains_key(&id) { return Err("BlobIdAlreadyUploaded") }
                self.blobs.insert(id, data.clone()); Ok(())
            }
            Op::Upload { sub } => {
                let e = self.uploads.entry(*sub.root).or_default();
                if e.1 { return Err("BytecodeAlreadyUploaded") }
                if sub.subsection_index as usize != e.0.len() { if e.0.is_empty() { self.uploads.remove(&*sub.root); } return Err("ThePartIsNotSequentiallyConnected") }
                e.0.push(sub.subsection.clone());
                if e.0.len() == sub.subsections_number as usize { e.1 = true; }
                Ok(())
            }
            Op::UpgradeCp { chain } => {
                let next = self.cur.0.saturating_add(1);
                if self.cp.contains_key(&next) { return Err("OverridingConsensusParameters") }
                self.cp.insert(next, *chain); Ok(())
            }
            Op::UpgradeSt { root } => {
                if !self.uploads.get(root).map(|e| e.1).unwrap_or(false) { return Err("UnknownStateTransactionBytecodeRoot") }
                let next = self.cur.1.saturating_add(1);
                if self.st.contains_key(&next) { return Err("OverridingStateTransactionBytecode") }
                self.st.insert(next, *root); Ok(())
            }
            Op::SetVersions { cp, st } => { self.cur = (*cp, *st); Ok(()) }
        }
    }
    fn digest(&self) -> String {
        let j = |v: Vec<String>| if v.is_empty() { "-".to_string() } else { v.join(",") };
        let c = self.contracts.iter().map(|(id, (code, _))| format!("{}:{}", hex(id), hex(code))).collect();
        let mut s: Vec<String> = self.contracts.iter().flat_map(|(id, (_, slots))| slots.iter().map(move |(k, v)| format!("{}/{}:{}", hex(id), hex(k), hex(v)))).collect();
        s.sort();
        let b = self.blobs.iter().map(|(id, d)| format!("{}:{}", hex(id), hex(d))).collect();
        let u = self.uploads.iter().map(|(r, (parts, done))| if *done { format!("{}:C:{}", hex(r), hex(&parts.concat())) } else { format!("{}:U{}:{}", hex(r), parts.len(), hex(&parts.concat())) }).collect();
        let cp = self.cp.iter().map(|(v, c)| format!("{v}:{c}")).collect();
        let st = self.st.iter().map(|(v, r)| format!("{v}:{}", hex(r))).collect();
        format!("C[{}] S[{}] B[{}] U[{}] CP[{}] ST[{}] cur={},{}", j(c), j(s), j(b), j(u), j(cp), j(st), self.cur.0, self.cur.1)
    }
}

fn op_line(op_: &Op) -> String {
    match op_ {
        Op::Deploy { salt, code, slots } => format!("deploy {} {} {}", hex(&contract_id(salt, code, slots)), hex(code),
            if slots.is_empty() { "-".to_string() } else { slots.iter().map(|(k, v)| format!("{}={}", hex(k), hex(v))).collect::<Vec<_>>().join(",") }),
        Op::Blob { data } => format!("blob {} {}", hex(&*BlobId::compute(data)), hex(data)),
        Op::Upload { sub } => format!("upload {} {} {} {}", hex(sub.root.as_ref()), sub.subsection_index, sub.subsections_number, hex(&sub.subsection)),
        Op::UpgradeCp { chain } => format!("upcp {chain}"),
        Op::UpgradeSt { root } => format!("upst {}", hex(root)),
        Op::SetVersions { cp, st } => format!("setv {cp} {st}"),
    }
}
fn op_name(op_: &Op) -> &'static str { match op_ { Op::Deploy { .. } => "deploy", Op::Blob { .. } => "blob", Op::Upload { .. } => "upload", Op::UpgradeCp { .. } => "upgrade-cp", Op::UpgradeSt { .. } => "upgrade-st", Op::SetVersions { .. } => "setv" } }

fn history(ctx: &mut Ctx, name: &str, ops: &[Op]) {
    let mut w = World::new();
    let mut spec = Spec::default();
    ctx.emit("reset", "unit");
    for (i, op_) in ops.iter().enumerate() {
        match op_ { Op::Deploy { salt, code, slots } => w.contract_ids.push(contract_id(salt, code, slots)), Op::Blob { data } => w.blob_ids.push(*BlobId::compute(data)), _ => {} }
        let line = op_line(op_);
        let input = format!("history {name} step {i}: {line}");
        let before = w.digest();
        let r = match ctx.guard(|| w.apply(op_)) {
            Ok(r) => r,
            Err(msg) => { ctx.oracle_fail(&format!("panic-{}", op_name(op_)), &input, &msg); ctx.emit(&line, "rust-panic"); return; }
        };
        if let Err(None) = r { ctx.count(&format!("{}.rejected-by-check", op_name(op_))); continue; }
        let after = w.digest();
        let outcome = match &r { Ok(()) => "ok".to_string(), Err(Some(e)) => e.clone(), Err(None) => unreachable!() };
        // ---- oracle -----------------------------------------------------------------------------
        let want = spec.apply(op_);
        match (&r, &want) {
            (Ok(()), Ok(())) => {}
            (Err(Some(e)), Err(w)) => if e != w { ctx.oracle_fail(&format!("{}-wrong-reason", op_name(op_)), &input, &format!("failed with {e}, expected {w}")); },
            (Ok(()), Err(w)) => ctx.oracle_fail(&format!("{}-accepted-but-must-fail", op_name(op_)), &input, &format!("expected {w}")),
            (Err(Some(e)), Ok(())) => ctx.oracle_fail(&format!("{}-rejected-but-must-succeed", op_name(op_)), &input, &format!("failed with {e}")),
            _ => {}
        }
        if r.is_err() && after != before {
            ctx.oracle_fail(&format!("failed-{}-changed-tables", op_name(op_)), &input, &format!("outcome {outcome}; before {before}; after {after}"));
            // keep the specification state comparable for the rest of the history: adopt what the failed upgrade left behind
            match op_ {
                Op::UpgradeCp { chain } => { spec.cp.insert(spec.cur.0.saturating_add(1), *chain); }
                Op::UpgradeSt { root } => { spec.st.insert(spec.cur.1.saturating_add(1), *root); }
                _ => {}
            }
            if after != spec.digest() { ctx.oracle_fail(&format!("failed-{}-changed-other-tables", op_name(op_)), &input, &format!("tables {after}; specified {}", spec.digest())); }
        } else if r.is_ok() && after != spec.digest() {
            ctx.oracle_fail(&format!("{}-tables-differ-from-spec", op_name(op_)), &input, &format!("tables {after}; specified {}", spec.digest()));
        }
        ctx.count(&format!("{}.{outcome}", op_name(op_)));
        if r.is_ok() && !matches!(op_, Op::SetVersions { .. }) { ctx.distinct(format!("{line}|{after}").as_bytes()); }
        ctx.emit(&line, &format!("{outcome} | {after}"));
    }
}

fn subsections(code: &[u8], size: usize) -> Vec<UploadSubsection> { UploadSubsection::split_bytecode(code, size).expect("split") }

pub fn run(ctx: &mut Ctx) {
    let code_a: Vec<u8> = (1..=23u8).collect();
    let code_b: Vec<u8> = (100..=140u8).collect();
    let a = subsections(&code_a, 5);      // 5 parts
    let b = subsections(&code_b, 41);     // 1 part
    let ra = *a[0].root; let rb = *b[0].root;
    let up = |s: &UploadSubsection| Op::Upload { sub: s.clone() };
    let slot = |k: u8, v: u8| ([k; 32], [v; 32]);
    // ---- corpus ---------------------------------------------------------------------------------------
    let corpus: Vec<(&str, Vec<Op>)> = vec![
        ("upload-order", vec![up(&a[1]), up(&a[0]), up(&a[0]), up(&a[2]), up(&a[1]), Op::UpgradeSt { root: ra }, up(&a[2]), up(&a[3]), up(&a[3]), up(&a[4]), up(&a[4]), up(&a[0]),
            Op::UpgradeSt { root: ra }, Op::UpgradeSt { root: ra }, Op::SetVersions { cp: 0, st: 1 }, Op::UpgradeSt { root: ra }]),
        ("interleaved-roots", vec![up(&a[0]), up(&b[0]), up(&a[1]), up(&b[0]), Op::UpgradeSt { root: rb }, Op::UpgradeSt { root: ra }, up(&a[2]), up(&a[3]), up(&a[4]),
            Op::SetVersions { cp: 0, st: 0 }, Op::UpgradeSt { root: ra }, Op::SetVersions { cp: 0, st: 1 }, Op::UpgradeSt { root: ra }, Op::SetVersions { cp: 0, st: 0 }, Op::UpgradeSt { root: [9; 32] }]),
        // F7: upgrade against a taken version
        ("upgrade-version-taken", vec![Op::UpgradeCp { chain: 11 }, Op::UpgradeCp { chain: 22 }, Op::SetVersions { cp: 1, st: 0 }, Op::UpgradeCp { chain: 33 }, Op::SetVersions { cp: 0, st: 0 }, Op::UpgradeCp { chain: 44 },
            Op::SetVersions { cp: u32::MAX, st: u32::MAX }, Op::UpgradeCp { chain: 55 }, Op::UpgradeCp { chain: 66 }, up(&b[0]), Op::UpgradeSt { root: rb }, Op::UpgradeSt { root: rb }]),
        ("create-and-blob-once", vec![Op::Deploy { salt: [1; 32], code: vec![1, 2, 3, 4], slots: vec![slot(1, 2), slot(3, 4)] }, Op::Deploy { salt: [1; 32], code: vec![1, 2, 3, 4], slots: vec![slot(1, 2), slot(3, 4)] },
            Op::Deploy { salt: [2; 32], code: vec![1, 2, 3, 4], slots: vec![slot(1, 2), slot(3, 4)] }, Op::Deploy { salt: [1; 32], code: vec![1, 2, 3, 4], slots: vec![slot(1, 2)] }, Op::Deploy { salt: [1; 32], code: vec![], slots: vec![] },
            Op::Blob { data: vec![7, 7, 7] }, Op::Blob { data: vec![7, 7, 7] }, Op::Blob { data: vec![] }, Op::Blob { data: vec![] }, Op::Blob { data: vec![7, 7] }]),
    ];
    for (name, ops) in &corpus { history(ctx, name, ops); }
    // ---- random histories --------------------------------------------------------------------------------
    let n = ctx.n(60, 1500);
    for h in 0..n {
        // a few bytecodes, each split into 1..6 parts
        let nroots = ctx.rng.range(1, 3) as usize;
        let mut subs: Vec<Vec<UploadSubsection>> = vec![];
        for _ in 0..nroots {
            let len = ctx.rng.range(1, 40) as usize;
            let code = ctx.rng.bytes(len);
            let size = ctx.rng.range(1.max(len as u64 / 6 + 1), len as u64) as usize;
            subs.push(subsections(&code, size));
        }
        let mut next: Vec<usize> = vec![0; nroots];
        let codes: Vec<Vec<u8>> = (0..3).map(|_| { let n = ctx.rng.below(12) as usize; ctx.rng.bytes(n) }).collect();
        let salts: Vec<[u8; 32]> = (0..2).map(|_| ctx.rng.arr32()).collect();
        let blobs: Vec<Vec<u8>> = (0..3).map(|_| { let n = ctx.rng.below(20) as usize; ctx.rng.bytes(n) }).collect();
        let mut ops = vec![];
        let len = ctx.rng.range(8, 40);
        for _ in 0..len {
            let r = &mut ctx.rng;
            let op_ = match r.below(20) {
                0..=8 => { // upload: mostly the next expected part, sometimes a repeat / a later one / any
                    let k = r.below(nroots as u64) as usize;
                    let total = subs[k].len();
                    let i = match r.below(10) { 0 => r.below(total as u64) as usize, 1 => next[k].saturating_sub(1), 2 => (next[k] + 1).min(total - 1), _ => next[k].min(total - 1) };
                    if i == next[k] && next[k] < total { next[k] += 1; }
                    Op::Upload { sub: subs[k][i].clone() }
                }
                9 | 10 => Op::UpgradeSt { root: if r.chance(1, 8) { r.arr32() } else { *subs[r.below(nroots as u64) as usize][0].root } },
                11 | 12 | 13 => Op::UpgradeCp { chain: r.range(1, 9) },
                14 | 15 => Op::SetVersions { cp: *r.pick(&[0u32, 1, 2, 3, u32::MAX - 1, u32::MAX]), st: *r.pick(&[0u32, 1, 2, 3, u32::MAX - 1, u32::MAX]) },
                16 | 17 => { let ns = r.below(3); Op::Deploy { salt: *r.pick(&salts), code: r.pick(&codes).clone(), slots: (0..ns).map(|i| ([i as u8 + 1; 32], [r.below(3) as u8; 32])).collect() } }
                _ => Op::Blob { data: r.pick(&blobs).clone() },
            };
            ops.push(op_);
        }
        history(ctx, &format!("r{h}"), &ops);
    }
}
