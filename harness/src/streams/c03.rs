//! C03 — the transaction id commits to exactly the non-malleable content. Calls the real
//! `UniqueIdentifier::id` / `cached_id`, `Cacheable::precompute`, `PrepareSign::prepare_sign` of fuel-tx on
//! structured transactions of all six kinds; the Lean driver (`Drv/C03.lean`) answers the same requests with
//! the model (Model/TxId.lean, SHA-256 instantiated).
//! Oracle (independent of the model): id = SHA-256(chain id BE ++ bytes of the clone prepared by hand from the
//! property's list of malleable fields, witnesses removed); cached id = fresh id; single-field mutations (every
//! canonical single-bit flip of the encoding that decodes to a different transaction, plus witness edits):
//! the id changes iff the flipped byte lies outside the malleable fields; another chain id gives another id.
#[path = "../codec/mod.rs"]
mod codec;
use crate::{ctx::Ctx, util::hex};
use codec::*;
use fuel_tx::{
    field::{InputContract as _, Inputs, OutputContract as _, Outputs, ReceiptsRoot as _, Witnesses},
    policies::Policies, BlobBody, Cacheable, ConsensusParameters, Input, Output, PrepareSign, StorageSlot, Transaction, UniqueIdentifier, UpgradePurpose, UploadBody, Witness,
};
use fuel_types::{canonical::{Deserialize, Serialize}, ChainId};
use sha2::{Digest, Sha256};

fn text(t: &Transaction) -> String {
    match t { Transaction::Script(x) => x.vt(), Transaction::Create(x) => x.vt(), Transaction::Mint(x) => x.vt(), Transaction::Upgrade(x) => x.vt(), Transaction::Upload(x) => x.vt(), Transaction::Blob(x) => x.vt() }
}
fn kind(t: &Transaction) -> &'static str { TX_NAMES[tx_variant(t)] }

/// the clone the library hashes: `prepare_sign()` then `witnesses_mut().clear()` (the real functions)
fn prepared(t: &Transaction) -> Transaction {
    let mut c = t.clone();
    match &mut c {
        Transaction::Script(x) => { x.prepare_sign(); x.witnesses_mut().clear(); }
        Transaction::Create(x) => { x.prepare_sign(); x.witnesses_mut().clear(); }
        Transaction::Upgrade(x) => { x.prepare_sign(); x.witnesses_mut().clear(); }
        Transaction::Upload(x) => { x.prepare_sign(); x.witnesses_mut().clear(); }
        Transaction::Blob(x) => { x.prepare_sign(); x.witnesses_mut().clear(); }
        Transaction::Mint(x) => { x.prepare_sign(); }
    }
    c
}

/// the same clone built WITHOUT `prepare_sign`, from the property's list of malleable fields
fn zero_in(i: &mut Input) {
    match i {
        Input::CoinSigned(c) => { c.tx_pointer = Default::default(); }
        Input::CoinPredicate(c) => { c.tx_pointer = Default::default(); c.predicate_gas_used = 0; }
        Input::Contract(c) => { c.utxo_id = Default::default(); c.balance_root = Default::default(); c.state_root = Default::default(); c.tx_pointer = Default::default(); }
        Input::MessageCoinPredicate(m) => { m.predicate_gas_used = 0; }
        Input::MessageDataPredicate(m) => { m.predicate_gas_used = 0; }
        Input::MessageCoinSigned(_) | Input::MessageDataSigned(_) => {}
    }
}
fn zero_out(o: &mut Output) {
    match o {
        Output::Contract(c) => { c.balance_root = Default::default(); c.state_root = Default::default(); }
        Output::Change { amount, .. } => { *amount = 0; }
        Output::Variable { to, amount, asset_id } => { *to = Default::default(); *amount = 0; *asset_id = Default::default(); }
        Output::Coin { .. } | Output::ContractCreated { .. } => {}
    }
}
fn by_hand(t: &Transaction) -> Transaction {
    fn ch<T: Inputs + Outputs + Witnesses>(x: &mut T) {
        x.inputs_mut().iter_mut().for_each(zero_in);
        x.outputs_mut().iter_mut().for_each(zero_out);
        x.witnesses_mut().clear();
    }
    let mut c = t.clone();
    match &mut c {
        Transaction::Script(x) => { *x.receipts_root_mut() = Default::default(); ch(x); }
        Transaction::Create(x) => ch(x),
        Transaction::Upgrade(x) => ch(x),
        Transaction::Upload(x) => ch(x),
        Transaction::Blob(x) => ch(x),
        Transaction::Mint(x) => {
            let ic = x.input_contract_mut();
            ic.utxo_id = Default::default(); ic.balance_root = Default::default(); ic.state_root = Default::default(); ic.tx_pointer = Default::default();
            let oc = x.output_contract_mut();
            oc.balance_root = Default::default(); oc.state_root = Default::default();
        }
    }
    c
}

/// byte ranges of `to_bytes()` that hold malleable fields or witnesses (from the offsets the library reports)
fn malleable_ranges(t: &Transaction) -> Vec<(usize, usize)> {
    fn ch<T: Inputs + Outputs + Witnesses + Serialize>(x: &T, r: &mut Vec<(usize, usize)>) {
        for (i, inp) in x.inputs().iter().enumerate() {
            let b = x.inputs_offset_at(i).unwrap();
            match inp {
                Input::CoinSigned(_) => r.push((b + 120, 16)),
                Input::CoinPredicate(_) => { r.push((b + 120, 16)); r.push((b + 144, 8)); }
                Input::Contract(_) => { r.push((b + 8, 40)); r.push((b + 48, 32)); r.push((b + 80, 32)); r.push((b + 112, 16)); }
                Input::MessageCoinPredicate(_) | Input::MessageDataPredicate(_) => r.push((b + 120, 8)),
                _ => {}
            }
        }
        for (i, o) in x.outputs().iter().enumerate() {
            let b = x.outputs_offset_at(i).unwrap();
            match o {
                Output::Contract(_) => { r.push((b + 16, 32)); r.push((b + 48, 32)); }
                Output::Change { .. } => r.push((b + 40, 8)),
                Output::Variable { .. } => { r.push((b + 8, 32)); r.push((b + 40, 8)); r.push((b + 48, 32)); }
                _ => {}
            }
        }
        let w = x.witnesses_offset();
        r.push((w, x.size() - w));
    }
    let mut r = vec![];
    match t {
        Transaction::Script(x) => { r.push((x.receipts_root_offset(), 32)); ch(x, &mut r); }
        Transaction::Create(x) => ch(x, &mut r),
        Transaction::Upgrade(x) => ch(x, &mut r),
        Transaction::Upload(x) => ch(x, &mut r),
        Transaction::Blob(x) => ch(x, &mut r),
        Transaction::Mint(_) => { r.push((24, 40)); r.push((64, 32)); r.push((96, 32)); r.push((128, 16)); r.push((184, 32)); r.push((216, 32)); }
    }
    r
}

fn sha(pre: &[u8]) -> Vec<u8> { let mut h = Sha256::new(); h.update(pre); h.finalize().to_vec() }

fn same_req(ctx: &mut Ctx, c1: u64, c2: u64, a: &Transaction, b: &Transaction, expect_same: Option<bool>, why: &str) {
    let (ia, ib) = (a.id(&ChainId::new(c1)), b.id(&ChainId::new(c2)));
    let same = ia == ib;
    let req = format!("same {c1} {c2} {} {} | {}", kind(a), text(a), text(b));
    ctx.emit(&req, if same { "1" } else { "0" });
    ctx.count(&format!("mut.{why}.{}", if same { "same" } else { "diff" }));
    if let Some(e) = expect_same {
        if e != same {
            ctx.oracle_fail(&format!("id-{}-{}-{why}", if e { "changed" } else { "unchanged" }, kind(a)), &req,
                &format!("ids {} and {}: expected {}", hex(&*ia), hex(&*ib), if e { "equal (only malleable content differs)" } else { "different (non-malleable content differs)" }));
        }
    }
}

fn one(ctx: &mut Ctx, t: &Transaction, muts: u64) {
    let k = kind(t);
    let chain = match ctx.rng.below(4) { 0 => 0, 1 => 1, 2 => u64::MAX, _ => ctx.rng.word() };
    let cid = ChainId::new(chain);
    let txt = text(t);
    ctx.count(&format!("tx.{k}"));
    ctx.distinct(format!("{k} {txt}").as_bytes());
    // the bytes hashed and the id
    let pre_req = format!("pre {chain} {k} {txt}");
    let res = ctx.guard(|| { let p = prepared(t); let mut pre = chain.to_be_bytes().to_vec(); pre.extend(p.to_bytes()); (pre, by_hand(t).to_bytes(), t.id(&cid)) });
    let (pre, hand, id) = match res { Ok(x) => x, Err(m) => { ctx.oracle_fail(&format!("panic-id-{k}"), &pre_req, &m); return; } };
    ctx.emit(&pre_req, &hex(&pre));
    let id_req = format!("id {chain} {k} {txt}");
    ctx.emit(&id_req, &hex(&*id));
    if sha(&pre) != id.to_vec() {
        ctx.oracle_fail(&format!("id-ne-sha256-of-prepared-{k}"), &id_req, &format!("id {} but SHA-256(chain ++ prepared bytes) = {}", hex(&*id), hex(&sha(&pre))));
    }
    if pre[8..] != hand[..] {
        let p = pre[8..].iter().zip(hand.iter()).position(|(a, b)| a != b).unwrap_or(hand.len().min(pre.len() - 8));
        ctx.oracle_fail(&format!("prepared-ne-malleable-list-{k}"), &pre_req, &format!("prepare_sign and the property's list of malleable fields differ at byte {p} of the prepared encoding"));
    }
    // cached id
    let mut t1 = t.clone();
    match t1.precompute(&cid) {
        Err(_) => ctx.count(&format!("precompute.err.{k}")),
        Ok(()) => {
            ctx.count(&format!("precompute.ok.{k}"));
            let c = t1.cached_id();
            let req = format!("cid {chain} {k} {txt}");
            ctx.emit(&req, &c.map(|x| hex(&*x)).unwrap_or("none".into()));
            if c != Some(id) || t1.id(&cid) != id {
                ctx.oracle_fail(&format!("cached-id-ne-fresh-{k}"), &req, &format!("cached {:?} id() {} fresh {}", c.map(|x| hex(&*x)), hex(&*t1.id(&cid)), hex(&*id)));
            }
        }
    }
    // another chain id
    let other = chain ^ (1u64 << ctx.rng.below(64));
    same_req(ctx, chain, other, t, t, Some(false), "chain-id");
    // witnesses: append / drop / edit
    if !matches!(t, Transaction::Mint(_)) {
        let mut t2 = t.clone();
        let w: Witness = { let l = len(&mut ctx.rng); ctx.rng.bytes(l).into() };
        fn wm(t: &mut Transaction) -> &mut Vec<Witness> { match t { Transaction::Script(x) => x.witnesses_mut(), Transaction::Create(x) => x.witnesses_mut(), Transaction::Upgrade(x) => x.witnesses_mut(), Transaction::Upload(x) => x.witnesses_mut(), Transaction::Blob(x) => x.witnesses_mut(), Transaction::Mint(_) => unreachable!() } }
        match ctx.rng.below(3) { 0 => wm(&mut t2).push(w), 1 => { wm(&mut t2).pop(); } _ => { let n = wm(&mut t2).len(); if n > 0 { let j = ctx.rng.below(n as u64) as usize; wm(&mut t2)[j] = w; } else { wm(&mut t2).push(w); } } }
        same_req(ctx, chain, chain, t, &t2, Some(true), "witnesses");
    }
    // single-bit flips of the encoding that decode (canonically) to a different transaction
    let bytes = t.to_bytes();
    let ranges = malleable_ranges(t);
    let mut done = 0;
    let mut tries = 0;
    while done < muts && tries < muts * 6 {
        tries += 1;
        // bias towards the low byte of a word (where small integers live) and field starts
        let pos = if ctx.rng.chance(1, 2) { (ctx.rng.below((bytes.len() / 8) as u64) as usize) * 8 + 7 } else { ctx.rng.below(bytes.len() as u64) as usize };
        let mut m = bytes.clone();
        m[pos] ^= 1u8 << ctx.rng.below(8);
        let dec = ctx.guard(|| Transaction::from_bytes(&m));
        let t2 = match dec { Ok(Ok(x)) => x, _ => { ctx.count("flip.undecodable"); continue; } };
        if t2.to_bytes() != m || &t2 == t { ctx.count("flip.noncanonical"); continue; }
        let malleable = ranges.iter().any(|(o, l)| pos >= *o && pos < o + l);
        done += 1;
        same_req(ctx, chain, chain, t, &t2, Some(malleable), if malleable { "flip-malleable" } else { "flip-other" });
    }
}

/// edit one class of NON-malleable content through the public mutators (they do not touch the cached metadata)
fn flip<T: AsRef<[u8]> + From<[u8; 32]>>(x: &T) -> T { let mut a = [0u8; 32]; a.copy_from_slice(x.as_ref()); a[31] ^= 1; a.into() }

fn edit(ctx: &mut Ctx, t: &mut Transaction, class: usize) -> &'static str {
    use fuel_tx::field::{BlobId as _, BytecodeRoot as _, MintAmount as _, MintAssetId as _, MintGasPrice as _, Policies as _, Salt as _, Script as _, ScriptData as _, ScriptGasLimit as _, TxPointer as _, UpgradePurpose as _};
    let r = &mut ctx.rng;
    fn ch<T: Inputs + Outputs + fuel_tx::field::Policies>(x: &mut T, r: &mut crate::ctx::Rng, class: usize) -> &'static str {
        match class {
            0 => { let v = x.policies().get(fuel_tx::policies::PolicyType::Tip).unwrap_or(0) ^ (1 + r.below(1000)); x.policies_mut().set(fuel_tx::policies::PolicyType::Tip, Some(v)); "policy" }
            1 => { let i = input(r); let n = x.inputs().len(); x.inputs_mut().insert(r.below(n as u64 + 1) as usize, i); "input-added" }
            2 => {
                // a non-malleable field of an existing input: coin / message amount, contract id
                let n = x.inputs().len();
                if n == 0 { x.inputs_mut().push(input(r)); return "input-added"; }
                let j = r.below(n as u64) as usize;
                match &mut x.inputs_mut()[j] {
                    Input::CoinSigned(c) => c.amount ^= 1, Input::CoinPredicate(c) => c.amount ^= 1, Input::Contract(c) => c.contract_id = flip(&c.contract_id),
                    Input::MessageCoinSigned(m) => m.amount ^= 1, Input::MessageCoinPredicate(m) => m.amount ^= 1,
                    Input::MessageDataSigned(m) => m.amount ^= 1, Input::MessageDataPredicate(m) => m.amount ^= 1,
                }
                "input-field"
            }
            _ => { x.outputs_mut().push(Output::coin(b32(r).into(), r.word(), b32(r).into())); "output-added" }
        }
    }
    match t {
        Transaction::Mint(x) => match class % 4 { 0 => { *x.mint_amount_mut() ^= 1 + r.below(9); "mint-amount" } 1 => { *x.gas_price_mut() ^= 1; "mint-gas-price" }
            2 => { let p = *x.tx_pointer(); *x.tx_pointer_mut() = fuel_tx::TxPointer::new((u32::from(p.block_height()) ^ 1).into(), p.tx_index()); "mint-tx-pointer" } _ => { let a = flip(x.mint_asset_id()); *x.mint_asset_id_mut() = a; "mint-asset" } },
        Transaction::Script(x) => match class { 4 => { *x.script_gas_limit_mut() ^= 1; "body" } 5 => { x.script_mut().push(0x24); "body-script" } 6 => { x.script_data_mut().extend_from_slice(&[1, 2, 3]); "body-script-data" } c => ch(x, r, c % 4) },
        Transaction::Create(x) => if class >= 4 { let a = flip(x.salt()); *x.salt_mut() = a; "body" } else { ch(x, r, class) },
        Transaction::Upgrade(x) => if class >= 4 { let root = match x.upgrade_purpose() { UpgradePurpose::StateTransition { root } => flip(root), _ => b32(r).into() }; *x.upgrade_purpose_mut() = UpgradePurpose::StateTransition { root }; "body" } else { ch(x, r, class) },
        Transaction::Upload(x) => if class >= 4 { let a = flip(x.bytecode_root()); *x.bytecode_root_mut() = a; "body" } else { ch(x, r, class) },
        Transaction::Blob(x) => if class >= 4 { let a = flip(x.blob_id()); *x.blob_id_mut() = a; "body" } else { ch(x, r, class) },
    }
}

/// precompute → edit non-malleable content (or only change the chain id) → precompute AGAIN on the same object: the cached id and
/// `id()` must be the id of the current content under the second chain id (compared with a freshly decoded, cache-free copy and with
/// the SHA-256 oracle) and differ from the id before the edit
fn reprecompute(ctx: &mut Ctx, t: &Transaction, class: usize) {
    let k = kind(t);
    let c1 = ctx.rng.word();
    let c2 = if class == 7 || ctx.rng.chance(1, 3) { c1 ^ (1u64 << ctx.rng.below(64)) } else { c1 };
    let mut x = t.clone();
    if x.precompute(&ChainId::new(c1)).is_err() { ctx.count(&format!("re.precompute1.err.{k}")); return; }
    let id1 = x.id(&ChainId::new(c1));
    let what = if class == 7 { "chain-only" } else { edit(ctx, &mut x, class) };
    if x.precompute(&ChainId::new(c2)).is_err() { ctx.count(&format!("re.precompute2.err.{k}")); return; }
    let bytes = x.to_bytes();
    let fresh = match Transaction::from_bytes(&bytes) { Ok(f) => f, Err(_) => { ctx.count("re.undecodable"); return; } };
    let expected = fresh.id(&ChainId::new(c2));
    let mut pre = c2.to_be_bytes().to_vec(); pre.extend(by_hand(&fresh).to_bytes());
    let req = format!("reid {c1} {c2} {k} {} | {}", text(t), text(&fresh));
    let cached = x.cached_id();
    ctx.emit(&req, &cached.map(|c| hex(&*c)).unwrap_or("none".into()));
    ctx.count(&format!("re.{what}.{k}"));
    if cached != Some(expected) || x.id(&ChainId::new(c2)) != expected {
        ctx.oracle_fail(&format!("stale-cached-id-after-second-precompute-{k}-{what}"), &req,
            &format!("after precompute, edit ({what}), precompute: cached {:?}, id() {}, but the current content's id is {}", cached.map(|c| hex(&*c)), hex(&*x.id(&ChainId::new(c2))), hex(&*expected)));
    }
    if sha(&pre) != expected.to_vec() { ctx.oracle_fail(&format!("id-ne-sha256-of-prepared-{k}"), &req, "fresh copy's id is not SHA-256(chain ++ prepared bytes)"); }
    if expected == id1 { ctx.oracle_fail(&format!("id-unchanged-{k}-{what}"), &req, "the id did not change although non-malleable content / the chain id did"); }
}

fn build(ctx: &mut Ctx, k: usize, pol: Policies, ins: Vec<Input>, outs: Vec<Output>, mut wits: Vec<Witness>, good: bool) -> Transaction {
    let r = &mut ctx.rng;
    match k {
        0 => { let (a, c) = (len(r), len(r)); let mut t = Transaction::script(r.word(), r.bytes(a), r.bytes(c), pol, ins, outs, wits); *t.receipts_root_mut() = b32(r).into(); t.into() }
        1 => {
            if good && wits.is_empty() { wits.push(witness(r)); }
            let idx = if good { r.below(wits.len() as u64) as u16 } else { u16b(r) };
            Transaction::create(idx, pol, b32(r).into(), vec_of(r, |r| StorageSlot::new(b32(r).into(), b32(r).into())), ins, outs, wits).into()
        }
        2 => tx_of(r, 2, 0),
        3 => {
            let p = if r.chance(1, 2) { UpgradePurpose::StateTransition { root: b32(r).into() } } else if good {
                let ser = postcard::to_allocvec(&ConsensusParameters::default()).unwrap();
                let checksum = fuel_crypto::Hasher::hash(&ser);
                wits.push(ser.into());
                UpgradePurpose::ConsensusParameters { witness_index: (wits.len() - 1) as u16, checksum }
            } else { purpose(r, 0) };
            Transaction::upgrade(p, pol, ins, outs, wits).into()
        }
        4 => Transaction::upload(UploadBody { root: b32(r).into(), witness_index: u16b(r), subsection_index: u16b(r), subsections_number: u16b(r), proof_set: vec_of(r, |r| b32(r).into()) }, pol, ins, outs, wits).into(),
        _ => Transaction::blob(BlobBody { id: b32(r).into(), witness_index: u16b(r) }, pol, ins, outs, wits).into(),
    }
}

pub fn run(ctx: &mut Ctx) {
    // 0. corpus: every kind with every input variant and every output variant present, all policy bits set; empty ones
    for k in 0..6usize {
        let ins: Vec<Input> = (0..7).map(|v| { let r = &mut ctx.rng; let (p, d, x) = (nonzero_len(r), len(r), nonzero_len(r)); input_of(r, v, p, d, x) }).collect();
        let outs: Vec<Output> = (0..5).map(|v| output_of(&mut ctx.rng, v)).collect();
        let wits: Vec<Witness> = (0..3).map(|_| witness(&mut ctx.rng)).collect();
        let pol = policies(&mut ctx.rng, 0b111111);
        let t = build(ctx, k, pol, ins, outs, wits, true);
        one(ctx, &t, 40);
        let t2 = build(ctx, k, Policies::new(), vec![], vec![], vec![], true);
        one(ctx, &t2, 10);
        // a second precompute on an object that already carries metadata, for every class of edit
        for class in 0..8 { reprecompute(ctx, &t, class); reprecompute(ctx, &t2, class); }
    }
    // 1. random compositions
    for _ in 0..ctx.n(500, 15_000) {
        let r = &mut ctx.rng;
        let k = r.below(6) as usize;
        let mask = r.below(64) as u32;
        let pol = policies(r, mask);
        let (ins, outs, wits) = (vec_of(r, input), vec_of(r, output), vec_of(r, witness));
        let t = build(ctx, k, pol, ins, outs, wits, true);
        let m = if ctx.thorough() { 12 } else { 8 };
        one(ctx, &t, m);
        let class = ctx.rng.below(8) as usize;
        reprecompute(ctx, &t, class);
    }
}
