//! C29 — no crash, no internal bug, no divergence.
//! Fuzz-style: random words, random valid instructions, mutated and unmutated generated programs, run as script,
//! as deployed contract code (called by a generated script) and as predicate, with the default, the all-ones and
//! the free gas schedule (the latter under a single-step budget), everything under catch_unwind.
//! Oracle: the outcome is a program state, a storage error or a validity rejection — never a host panic, never
//! `InterpreterError::Bug`; under the default schedule the number of executed instructions is ≤ gas limit + 1 and
//! gas used ≤ gas limit; every successfully executed instruction consumed ≥ 1 gas.
//! Lean: `cost NAME n` lines (n = least gas an executed instruction of that opcode consumed in the case) must be
//! ≥ the amount the regenerated tables say the implementation charges first; `steps` lines re-evaluate the
//! theorem's bound.
use crate::{ctx::Ctx, gen::{instr_gen, vm_gen as g}};
use fuel_asm::{Instruction, RegId};
use fuel_tx::{ConsensusParameters, GasCosts, Input, Script, TransactionBuilder};
use fuel_vm::{
    checked_transaction::{CheckPredicateParams, EstimatePredicates, IntoChecked},
    interpreter::{MemoryInstance, NotSupportedEcal},
    prelude::*,
    storage::{predicate::EmptyStorage, MemoryStorage},
};
use std::collections::BTreeMap;

type Vm = Interpreter<MemoryInstance, MemoryStorage, Script>;

fn random_valid_instrs(ctx: &mut Ctx, n: usize) -> Vec<u8> {
    let mut out = vec![];
    for _ in 0..n {
        let row = ctx.rng.pick(instr_gen::TABLE);
        let args: Vec<u32> = row.2.iter().map(|k| { let bits = if *k == 0 { 6 } else { *k as u32 }; (ctx.rng.word() as u32) & ((1u32 << bits) - 1) }).collect();
        // bias registers towards the ones programs use
        let args: Vec<u32> = args.iter().zip(row.2.iter()).map(|(a, k)| if *k == 0 && ctx.rng.chance(1, 2) { *ctx.rng.pick(&[0u32, 1, 3, 4, 5, 6, 7, 0x10, 0x11, 0x12, 0x20, 0x21]) } else { *a }).collect();
        if let Some(i) = instr_gen::construct(row.0, &args) { out.extend_from_slice(&u32::from(i).to_be_bytes()); }
    }
    out
}

fn program_bytes(ctx: &mut Ctx, case: &g::Case) -> (Vec<u8>, &'static str) {
    let base: Vec<u8> = case.script.iter().copied().collect();
    match ctx.rng.below(6) {
        0 => { let n = ctx.rng.range(1, 40) as usize * 4; (ctx.rng.bytes(n), "random-bytes") }
        1 => { let n = ctx.rng.range(1, 40) as usize; (random_valid_instrs(ctx, n), "random-valid") }
        2 => {
            let mut b = base; let k = ctx.rng.range(1, 4);
            for _ in 0..k { if b.is_empty() { break; } let i = ctx.rng.below(b.len() as u64) as usize; b[i] ^= 1 << ctx.rng.below(8); }
            (b, "mutated-bits")
        }
        3 => {
            let mut b = base; let n = ctx.rng.range(1, 6) as usize; let ins = random_valid_instrs(ctx, n);
            let at = (ctx.rng.below(b.len() as u64 / 4 + 1) * 4) as usize; let at = at.min(b.len());
            b.splice(at..at, ins); (b, "spliced")
        }
        4 => { let mut b = base; let l = ctx.rng.below(b.len() as u64 + 1) as usize; b.truncate(l); (b, "truncated") }
        _ => (base, "generated"),
    }
}

fn classify<T>(ctx: &mut Ctx, tag: &str, what: &str, r: Result<Result<T, String>, String>) {
    match r {
        Err(m) => ctx.oracle_fail(&format!("host-panic-{what}"), tag, &m),
        Ok(Ok(_)) => ctx.count(&format!("{what}.state")),
        Ok(Err(e)) => {
            if e.starts_with("Bug") { ctx.oracle_fail(&format!("internal-bug-{what}"), tag, &e); }
            else { ctx.count(&format!("{what}.err.{}", e.split(':').next().unwrap_or("?"))); }
        }
    }
}

fn mnemonic(op: u8) -> Option<&'static str> { instr_gen::TABLE.iter().find(|r| r.0 == op).map(|r| r.1) }

/// single-step a case under the default schedule: steps, per-opcode least consumption
fn stepped(ctx: &mut Ctx, case: &g::Case, tag: &str) {
    let mut vm: Vm = case.fresh_vm();
    vm.set_single_stepping(true);
    let mut least: BTreeMap<&'static str, u64> = BTreeMap::new();
    let mut steps = 0u64;
    let mut prev: Option<(u8, u64, u64)> = None; // opcode, ggas before, depth marker (fp)
    let r0 = ctx.guard(|| vm.transact(case.ready()).map(ProgramState::from).map_err(|e| g::err_name(&e)));
    let mut state = match r0 { Ok(Ok(s)) => s, Ok(Err(e)) => { if e.starts_with("Bug") { ctx.oracle_fail("internal-bug-stepped", tag, &e); } return; } Err(m) => { ctx.oracle_fail("host-panic-stepped", tag, &m); return; } };
    loop {
        let ggas = vm.registers()[RegId::GGAS];
        if let Some((op, before, _)) = prev.take() {
            // the previous instruction completed (we are at the next one): it must have consumed gas
            if let Some(name) = mnemonic(op) {
                let used = before.saturating_sub(ggas);
                if used == 0 { ctx.oracle_fail("instruction-consumed-no-gas", &format!("{tag} op={name}"), "executed without lowering $ggas under the default schedule"); }
                let e = least.entry(name).or_insert(u64::MAX); *e = (*e).min(used);
            }
        }
        if !state.is_debug() { break; }
        steps += 1;
        if steps > case.gas_limit + 1 { ctx.oracle_fail("more-steps-than-gas", tag, &format!("{steps} events with gas limit {}", case.gas_limit)); break; }
        let pc = vm.registers()[RegId::PC];
        if let Ok(raw) = vm.memory().read_bytes::<_, 4>(pc) { prev = Some((raw[0], ggas, vm.registers()[RegId::FP])); }
        state = match ctx.guard(|| vm.resume().map_err(|e| g::err_name(&e))) {
            Ok(Ok(s)) => s,
            Ok(Err(e)) => { if e.starts_with("Bug") { ctx.oracle_fail("internal-bug-stepped", tag, &e); } return; }
            Err(m) => { ctx.oracle_fail("host-panic-stepped", tag, &m); return; }
        };
        // the last instruction (RET/RVRT/panicking one) has no successor event; its consumption is not sampled
        if !state.is_debug() { prev = None; }
    }
    let used = vm.receipts().iter().find_map(|r| if let fuel_tx::Receipt::ScriptResult { gas_used, .. } = r { Some(*gas_used) } else { None }).unwrap_or(0);
    if used > case.gas_limit { ctx.oracle_fail("gas-used-exceeds-limit", tag, &format!("{used} > {}", case.gas_limit)); }
    ctx.emit(&format!("steps {} {steps} {used}", case.gas_limit), "ok");
    for (name, n) in least { ctx.emit(&format!("cost {name} {n}"), "ok"); ctx.count(&format!("op.{name}")); }
    ctx.count_n("stepped.instructions", steps);
}

fn free_schedule_budget(ctx: &mut Ctx, case: &g::Case, tag: &str) {
    // with zero costs termination is NOT claimed; run under an instruction budget and only look for crashes / bugs
    let mut vm: Vm = case.fresh_vm();
    vm.set_single_stepping(true);
    let mut state = match ctx.guard(|| vm.transact(case.ready()).map(ProgramState::from).map_err(|e| g::err_name(&e))) {
        Ok(Ok(s)) => s, Ok(Err(e)) => { if e.starts_with("Bug") { ctx.oracle_fail("internal-bug-free", tag, &e); } return; } Err(m) => { ctx.oracle_fail("host-panic-free", tag, &m); return; } };
    let mut n = 0;
    while state.is_debug() {
        n += 1;
        if n > 3000 { ctx.count("free.budget-exhausted"); return; }
        state = match ctx.guard(|| vm.resume().map_err(|e| g::err_name(&e))) {
            Ok(Ok(s)) => s, Ok(Err(e)) => { if e.starts_with("Bug") { ctx.oracle_fail("internal-bug-free", tag, &e); } return; } Err(m) => { ctx.oracle_fail("host-panic-free", tag, &m); return; } };
    }
    ctx.count("free.finished");
}

fn predicate_run(ctx: &mut Ctx, bytes: &[u8], tag: &str) {
    let params = ConsensusParameters::standard();
    let cp: CheckPredicateParams = (&params).into();
    let owner = Input::predicate_owner(bytes);
    let mut b = TransactionBuilder::script(vec![], vec![]);
    b.script_gas_limit(10_000);
    let data = { let l = ctx.rng.below(64) as usize; ctx.rng.bytes(l) };
    b.add_input(Input::coin_predicate(fuel_tx::UtxoId::new(ctx.rng.arr32().into(), 0), owner, 10, Default::default(), Default::default(), 0, bytes.to_vec(), data));
    let mut tx = b.finalize();
    let e = ctx.guard(|| tx.estimate_predicates(&cp, MemoryInstance::new(), &EmptyStorage).map(|_| ()).map_err(|e| format!("{e:?}")));
    match &e {
        Err(m) => { ctx.oracle_fail("host-panic-predicate-estimate", tag, m); return; }
        Ok(Err(s)) => { if s.contains("Bug") { ctx.oracle_fail("internal-bug-predicate", tag, s); } ctx.count("predicate.estimate-rejected"); return; }
        Ok(Ok(())) => ctx.count("predicate.estimated"),
    }
    let Ok(Ok(checked)) = ctx.guard(|| tx.clone().into_checked_basic(Default::default(), &params)) else { ctx.count("predicate.not-checkable"); return; };
    use fuel_vm::interpreter::predicates::check_predicates;
    let c = ctx.guard(|| check_predicates(&checked, &cp, MemoryInstance::new(), &EmptyStorage, NotSupportedEcal).map(|_| ()).map_err(|e| format!("{e:?}")));
    match c {
        Err(m) => ctx.oracle_fail("host-panic-predicate-check", tag, &m),
        Ok(Err(s)) => { if s.contains("Bug") { ctx.oracle_fail("internal-bug-predicate", tag, &s); } ctx.count("predicate.check-failed"); }
        Ok(Ok(())) => ctx.count("predicate.check-ok"),
    }
}

/// every opcode reached directly with boundary operands: a prologue loads boundary values into registers
/// 0x10..0x17, then the instruction under test runs with those registers / boundary immediates, then `ret $one`
fn opcode_boundaries(ctx: &mut Ctx) {
    use fuel_asm::op;
    let per_op = ctx.n(5, 40);
    for row in instr_gen::TABLE {
        for v in 0..per_op {
            let mut code: Vec<Instruction> = vec![op::gtf_args(0x17, RegId::ZERO, fuel_asm::GTFArgs::ScriptData)];
            if ctx.rng.chance(1, 2) { code.push(op::movi(0x16, 3)); code.push(op::flag(0x16)); }
            if ctx.rng.chance(1, 3) { code.push(op::cfei(64)); }
            if ctx.rng.chance(1, 3) { code.push(op::movi(0x16, 64)); code.push(op::aloc(0x16)); }
            for r in 0x10u8..0x17 {
                match ctx.rng.below(14) {
                    0 => code.push(op::move_(r, RegId::ZERO)),
                    1 => code.push(op::move_(r, RegId::ONE)),
                    2 => code.push(op::not(r, RegId::ZERO)),                                   // u64::MAX
                    3 => { code.push(op::not(r, RegId::ZERO)); code.push(op::srli(r, r, 1)); }  // 2^63-1
                    4 => { code.push(op::movi(r, 1)); code.push(op::slli(r, r, 63)); }          // 2^63
                    5 => { code.push(op::movi(r, 1)); code.push(op::slli(r, r, 26)); }          // VM_MAX_RAM
                    6 => { code.push(op::movi(r, 1)); code.push(op::slli(r, r, 26)); code.push(op::subi(r, r, *ctx.rng.pick(&[1u16, 7, 8, 31, 32, 33]))); }
                    7 => code.push(op::move_(r, RegId::SP)),
                    8 => code.push(op::move_(r, RegId::SSP)),
                    9 => code.push(op::move_(r, RegId::HP)),
                    10 => code.push(op::move_(r, RegId::IS)),
                    11 => code.push(op::addi(r, 0x17, (ctx.rng.below(12) * 32) as u16)),      // pointers into the script data
                    12 => code.push(op::movi(r, *ctx.rng.pick(&[2u32, 7, 8, 9, 32, 33, 64, 255, 256, 4096, 262143]))),
                    _ => code.push(op::movi(r, (ctx.rng.word() & 0x3ffff) as u32)),
                }
            }
            let args: Vec<u32> = row.2.iter().map(|k| if *k == 0 {
                if ctx.rng.chance(1, 8) { *ctx.rng.pick(&[0u32, 1, 2, 3, 4, 5, 6, 7, 9, 10, 12, 15, 63]) } else { 0x10 + ctx.rng.below(8) as u32 }
            } else {
                let max = (1u32 << *k) - 1;
                let rnd = (ctx.rng.next() as u32) & max;
                *ctx.rng.pick(&[0u32, 1, 2, max, max - 1, max / 2, rnd])
            }).collect();
            let Some(ins) = instr_gen::construct(row.0, &args) else { continue };
            code.push(ins);
            code.push(op::ret(RegId::ONE));
            let bytes: Vec<u8> = code.into_iter().collect();
            let seed = ctx.rng.next();
            let mut knobs = g::Knobs::normal(); knobs.unlisted_pm = 200;
            let tag = format!("boundary op={} v={v} args={args:?} seed={seed:#x}", row.1);
            match ctx.guard(|| g::gen_case(&mut crate::ctx::Rng(seed), knobs, 50_000, Some(bytes.clone()))) {
                Err(_) => ctx.count("boundary.rejected-by-builder"),
                Ok(case) => {
                    let mut vm: Vm = case.fresh_vm();
                    let r = ctx.guard(|| vm.transact(case.ready()).map(|_| ()).map_err(|e| g::err_name(&e)));
                    let reached = vm.receipts().iter().all(|r| !matches!(r, fuel_tx::Receipt::Panic { .. }));
                    ctx.count(if reached { "boundary.completed" } else { "boundary.vm-panic" });
                    classify(ctx, &tag, "boundary", r);
                    ctx.distinct(&bytes);
                }
            }
        }
    }
}

/// one of six ways a context can go on once the receipt count is near the limit; every handler ends the context
fn event_handlers(sel: u8, out: &mut Vec<Instruction>) {
    use fuel_asm::op;
    // r20 = selector; handler k runs when r20 == k
    let handlers: Vec<Vec<Instruction>> = vec![
        vec![op::ret(RegId::ONE)],
        vec![op::movi(0x23, 8), op::retd(RegId::IS, 0x23)],
        vec![op::log(RegId::ONE, RegId::ZERO, RegId::ZERO, RegId::ZERO), op::ret(RegId::ONE)],
        vec![op::not(0x23, RegId::ZERO), op::lw(0x24, 0x23, 0)],                       // VM panic (MemoryOverflow)
        vec![op::rvrt(RegId::ONE)],
        vec![op::log(RegId::ONE, RegId::ONE, RegId::ZERO, RegId::ZERO), op::log(RegId::ONE, RegId::ONE, RegId::ONE, RegId::ZERO),
             op::log(RegId::ONE, RegId::ONE, RegId::ONE, RegId::ONE), op::movi(0x23, 3), op::retd(RegId::IS, 0x23)],
    ];
    for (k, h) in handlers.iter().enumerate() {
        out.push(op::movi(0x21, k as u32));
        out.push(op::eq(0x22, sel, 0x21));
        out.push(op::jnzf(0x22, RegId::ZERO, 1));
        out.push(op::jmpf(RegId::ZERO, h.len() as u32));
        out.extend(h.iter().copied());
    }
    out.push(op::ret(RegId::ZERO));
}

/// Receipt-limit stress: the script logs N receipts, calls `mid` (which logs j more, calls `leaf`, and then does its own
/// event), `leaf` does its event, finally the script does its event; N sweeps a window so that the count passes
/// MAX_RECEIPTS-3 … MAX_RECEIPTS inside the nested calls with every kind of next event (RET, RETD, LOG, VM panic, RVRT).
fn receipt_limit(ctx: &mut Ctx) {
    use fuel_asm::op;
    const MAX: u64 = u16::MAX as u64;
    const A_WORD: u16 = (fuel_vm::call::CallFrame::a_offset() / 8) as u16;
    const B_WORD: u16 = (fuel_vm::call::CallFrame::b_offset() / 8) as u16;
    let leaf: Vec<Instruction> = { let mut c = vec![op::lw(0x20, RegId::FP, A_WORD)]; event_handlers(0x20, &mut c); c };
    let mid: Vec<Instruction> = {
        let mut c = vec![
            op::gtf_args(g::R_BASE, RegId::ZERO, fuel_asm::GTFArgs::ScriptData),
            op::lw(0x20, RegId::FP, A_WORD),
            op::lw(0x25, RegId::FP, B_WORD),
            // b times: log
            op::jnzf(0x25, RegId::ZERO, 1), op::jmpf(RegId::ZERO, 3),
            op::log(RegId::ZERO, RegId::ONE, RegId::ZERO, RegId::ZERO), op::subi(0x25, 0x25, 1), op::jnzb(0x25, RegId::ZERO, 1),
            op::addi(g::R_T1, g::R_BASE, g::OFF_CALLS + 48), op::addi(g::R_T2, g::R_BASE, g::OFF_ASSETS),
            op::call(g::R_T1, RegId::ZERO, g::R_T2, RegId::CGAS),
        ];
        event_handlers(0x20, &mut c); c
    };
    let per = ctx.n(10, 60);
    for d in 0..10u64 {
        for v in 0..per {
            let n = MAX - d;                       // logs by the script before the call: MAX-9 … MAX
            let (ev_leaf, ev_mid, ev_script, j) = (ctx.rng.below(6), ctx.rng.below(6), ctx.rng.below(6), ctx.rng.below(3));
            let n = n.saturating_sub(ctx.rng.below(3)); // jitter
            let mut script = vec![
                op::gtf_args(g::R_BASE, RegId::ZERO, fuel_asm::GTFArgs::ScriptData),
                op::movi(0x30, n as u32),
                op::log(RegId::ZERO, RegId::ZERO, RegId::ZERO, RegId::ZERO), op::subi(0x30, 0x30, 1), op::jnzb(0x30, RegId::ZERO, 1),
                op::addi(g::R_T1, g::R_BASE, g::OFF_CALLS), op::addi(g::R_T2, g::R_BASE, g::OFF_ASSETS),
                op::call(g::R_T1, RegId::ZERO, g::R_T2, RegId::CGAS),
                op::movi(0x20, ev_script as u32),
            ];
            event_handlers(0x20, &mut script);
            let seed = ctx.rng.next();
            let tag = format!("receipt-limit logs={n} mid-logs={j} leaf={ev_leaf} mid={ev_mid} script={ev_script} seed={seed:#x} v={v}");
            let (l2, m2, s2) = (leaf.clone(), mid.clone(), script.clone());
            let case = match ctx.guard(move || g::fixed_case(seed, &[m2, l2], s2, &[(ev_mid, j), (ev_leaf, 0)], 3_000_000)) {
                Ok(c) => c, Err(m) => { ctx.note(&format!("receipt-limit case rejected: {m}")); ctx.count("receipts.case-rejected"); continue; }
            };
            let mut vm: Vm = case.fresh_vm();
            let r = ctx.guard(|| vm.transact(case.ready()).map(|_| ()).map_err(|e| g::err_name(&e)));
            let host_panicked = r.is_err();
            classify(ctx, &tag, "receipts", r);
            if host_panicked { continue; }
            let rs = vm.receipts();
            let kind = |r: &fuel_tx::Receipt| match r { fuel_tx::Receipt::Panic { .. } => "Panic", fuel_tx::Receipt::ScriptResult { .. } => "ScriptResult", fuel_tx::Receipt::Return { .. } => "Return",
                fuel_tx::Receipt::ReturnData { .. } => "ReturnData", fuel_tx::Receipt::Log { .. } => "Log", fuel_tx::Receipt::Call { .. } => "Call", fuel_tx::Receipt::Revert { .. } => "Revert", _ => "Other" };
            let len = rs.len() as u64;
            if len > MAX { ctx.oracle_fail("more-receipts-than-max", &tag, &format!("{len}")); }
            let k2 = if len > MAX - 2 { kind(&rs[(MAX - 2) as usize]) } else { "-" };
            let k1 = if len > MAX - 1 { kind(&rs[(MAX - 1) as usize]) } else { "-" };
            if (k2 != "-" && k2 != "Panic" && k2 != "ScriptResult") || (k1 != "-" && k1 != "ScriptResult") {
                ctx.oracle_fail("reserved-receipt-slot-taken", &tag, &format!("slot MAX-2 holds {k2}, slot MAX-1 holds {k1}"));
            }
            if !rs.iter().any(|r| matches!(r, fuel_tx::Receipt::ScriptResult { .. })) { ctx.oracle_fail("no-script-result-receipt", &tag, &format!("{len} receipts")); }
            ctx.count(&format!("receipts.len.max-{}", MAX.saturating_sub(len).min(9)));
            let depth_at = |i: usize| rs[..i].iter().fold(0i64, |d, r| match r { fuel_tx::Receipt::Call { .. } => d + 1, fuel_tx::Receipt::Return { .. } | fuel_tx::Receipt::ReturnData { .. } if d > 0 => d - 1, _ => d });
            for slot in [MAX - 3, MAX - 2] { if len > slot { ctx.count(&format!("receipts.slot-max-{}.{}.depth{}", MAX - slot, kind(&rs[slot as usize]), depth_at(slot as usize).min(2))); } }
            if rs.iter().any(|r| matches!(r, fuel_tx::Receipt::Panic { reason, .. } if *reason.reason() == fuel_asm::PanicReason::TooManyReceipts)) { ctx.count("receipts.too-many-receipts-panic"); }
            ctx.emit(&format!("tail {len} {k2} {k1}"), "ok");
            ctx.distinct(tag.as_bytes());
        }
    }
}

/// Balances area: `init_inner` reserves `max_inputs * 40` bytes below the size word for the (asset, balance) table and
/// `RuntimeBalances::to_vm` writes one entry per asset of the initial free balances with `.expect("Checked above")`.
/// The table holds every coin-input asset PLUS the base asset (the fee is deducted from it even when no input carries it),
/// so the boundary cases are k = max_inputs (and max_inputs - 1) coin inputs of pairwise different assets, with and
/// without the base asset among them. Oracle: no host panic, no Bug.
fn balances_area(ctx: &mut Ctx) {
    use fuel_tx::{TxParameters, UtxoId};
    for max_inputs in [1u16, 2, 3, 8, 255] {
        let mut shapes = vec![(max_inputs, false), (max_inputs, true)];
        if max_inputs > 1 { shapes.push((max_inputs - 1, false)); }
        for (k, with_base) in shapes {
            let tag = format!("balances-area max_inputs={max_inputs} coin-inputs={k} base-asset-among-them={with_base}");
            let mut params = ConsensusParameters::standard();
            params.set_tx_params(TxParameters::DEFAULT.with_max_inputs(max_inputs));
            let mut b = TransactionBuilder::script(vec![fuel_asm::op::ret(RegId::ONE)].into_iter().collect(), vec![]);
            b.with_params(params.clone());
            b.script_gas_limit(1000).max_fee_limit(0);
            for i in 0..k {
                let mut asset = [0u8; 32];
                if !(with_base && i == 0) { asset[0] = 1; asset[30] = (i >> 8) as u8; asset[31] = i as u8; }
                let secret = fuel_crypto::SecretKey::try_from(fuel_types::Bytes32::from({ let mut s = [7u8; 32]; s[31] = 1; s })).expect("key");
                b.add_unsigned_coin_input(secret, UtxoId::new([i as u8; 32].into(), i), 10, asset.into(), Default::default());
            }
            let tx = b.finalize();
            let checked = match ctx.guard(|| tx.clone().into_checked(Default::default(), &params).map_err(|e| format!("{e:?}"))) {
                Ok(Ok(c)) => c,
                Ok(Err(e)) => { ctx.count("balances.rejected"); ctx.note(&format!("{tag}: rejected {e}")); continue; }
                Err(m) => { ctx.oracle_fail("host-panic-balances-area-check", &tag, &m); continue; }
            };
            let ready = match checked.into_ready(0, params.gas_costs(), params.fee_params(), None) { Ok(r) => r, Err(_) => { ctx.count("balances.not-ready"); continue; } };
            let mut vm: Vm = Interpreter::with_storage(MemoryInstance::new(), MemoryStorage::default(), fuel_vm::interpreter::InterpreterParams::new(0, &params));
            let r = ctx.guard(|| vm.transact(ready).map(|_| ()).map_err(|e| g::err_name(&e)));
            ctx.count(if with_base { "balances.with-base" } else { "balances.without-base" });
            // the one input class with a known outcome gets its own fingerprint; any other panic of this pass stays a violation
            let what = if k == max_inputs && !with_base { "balances-area-assets-exceed-max-inputs" } else { "balances-area" };
            classify(ctx, &tag, what, r);
            ctx.distinct(tag.as_bytes());
        }
    }
}

/// Transaction shapes: the fee / input / output configuration around the program. Every subset of {base-asset coin,
/// other-asset coin, base-asset message coin, data message (retryable)} as inputs, every subset of {change of the base
/// asset, change of the other asset, coin output, variable output} as outputs, max fee 0 and non-zero, and scripts that
/// return, revert, panic (invalid opcode, memory violation) or run out of gas: `finalize_outputs` / `update_outputs`
/// read the initial and the runtime balances on different paths for a reverted and a successful script.
/// Oracle: no host panic, no Bug; check rejections are fine.
fn tx_shapes(ctx: &mut Ctx) {
    use fuel_tx::{Output, UtxoId};
    use fuel_asm::op;
    let params = ConsensusParameters::standard();
    let base = *params.base_asset_id();
    let other: fuel_types::AssetId = [0x11u8; 32].into();
    let secret = fuel_crypto::SecretKey::try_from(fuel_types::Bytes32::from({ let mut s = [7u8; 32]; s[31] = 1; s })).expect("key");
    let scripts: [(&str, Vec<Instruction>); 5] = [
        ("ret", vec![op::ret(RegId::ONE)]),
        ("rvrt", vec![op::rvrt(RegId::ONE)]),
        ("invalid-opcode", vec![]), // the bytes ff ff ff ff, see below
        ("memory-violation", vec![op::not(0x10, RegId::ZERO), op::lw(0x11, 0x10, 0)]),
        ("out-of-gas", vec![op::ji(0)]),
    ];
    for max_fee in [0u64, 7] {
        for ins in 1u8..16 {
            for outs in 0u8..16 {
                for (sname, script) in &scripts {
                    let tag = format!("tx-shape max_fee={max_fee} inputs[base-coin,other-coin,message-coin,data-message]={ins:04b} outputs[change-base,change-other,coin,variable]={outs:04b} script={sname}");
                    let mut bytes: Vec<u8> = script.iter().copied().collect();
                    if *sname == "invalid-opcode" { bytes = vec![0xff, 0xff, 0xff, 0xff]; }
                    let mut b = TransactionBuilder::script(bytes, vec![]);
                    b.with_params(params.clone());
                    b.script_gas_limit(500).max_fee_limit(max_fee);
                    if ins & 1 != 0 { b.add_unsigned_coin_input(secret, UtxoId::new([1u8; 32].into(), 0), 100, base, Default::default()); }
                    if ins & 2 != 0 { b.add_unsigned_coin_input(secret, UtxoId::new([2u8; 32].into(), 1), 100, other, Default::default()); }
                    if ins & 4 != 0 { b.add_unsigned_message_input(secret, [3u8; 32].into(), [4u8; 32].into(), 100, vec![]); }
                    if ins & 8 != 0 { b.add_unsigned_message_input(secret, [5u8; 32].into(), [6u8; 32].into(), 100, vec![1, 2, 3]); }
                    if outs & 1 != 0 { b.add_output(Output::change([8u8; 32].into(), 0, base)); }
                    if outs & 2 != 0 { b.add_output(Output::change([8u8; 32].into(), 0, other)); }
                    if outs & 4 != 0 { b.add_output(Output::coin([9u8; 32].into(), 1, if ins & 2 != 0 { other } else { base })); }
                    if outs & 8 != 0 { b.add_output(Output::variable(Default::default(), 0, Default::default())); }
                    let tx = b.finalize();
                    let checked = match ctx.guard(|| tx.clone().into_checked(Default::default(), &params).map_err(|e| format!("{e:?}"))) {
                        Ok(Ok(c)) => c,
                        Ok(Err(e)) => { ctx.count(&format!("tx-shape.rejected.{}", e.split(|c: char| !c.is_alphanumeric()).next().unwrap_or("?"))); continue; }
                        Err(m) => { ctx.oracle_fail("host-panic-tx-shape-check", &tag, &m); continue; }
                    };
                    let ready = match ctx.guard(|| checked.into_ready(0, params.gas_costs(), params.fee_params(), None).map_err(|e| format!("{e:?}"))) {
                        Ok(Ok(r)) => r,
                        Ok(Err(_)) => { ctx.count("tx-shape.not-ready"); continue; }
                        Err(m) => { ctx.oracle_fail("host-panic-tx-shape-ready", &tag, &m); continue; }
                    };
                    let mut vm: Vm = Interpreter::with_storage(MemoryInstance::new(), MemoryStorage::default(), fuel_vm::interpreter::InterpreterParams::new(0, &params));
                    let r = ctx.guard(|| vm.transact(ready).map(|_| ()).map_err(|e| g::err_name(&e)));
                    ctx.count(&format!("tx-shape.run.{sname}.max_fee={max_fee}"));
                    classify(ctx, &tag, "tx-shape", r);
                    ctx.distinct(tag.as_bytes());
                }
            }
        }
    }
}

pub fn run(ctx: &mut Ctx) {
    tx_shapes(ctx);
    balances_area(ctx);
    receipt_limit(ctx);
    opcode_boundaries(ctx);
    // (1) cost sampling: unmutated generated programs, default schedule, single-stepped
    let m = ctx.n(120, 1200);
    for i in 0..m {
        let gas = *ctx.rng.pick(&[2_000u64, 20_000, 60_000]);
        let mut knobs = g::Knobs::normal();
        knobs.fault_pm = *ctx.rng.pick(&[0, 30]);
        knobs.call_heavy = ctx.rng.chance(1, 3);
        let seed = ctx.rng.0;
        match ctx.guard(|| { let mut r = crate::ctx::Rng(seed); let c = g::gen_case(&mut r, knobs, gas, None); (c, r) }) {
            Ok((c, r)) => { ctx.rng = r; stepped(ctx, &c, &format!("sample#{i} rng={seed:#x} gas={gas}")); }
            Err(_) => { ctx.rng.next(); ctx.count("gen.failed"); }
        }
    }
    // (2) fuzz
    let n = ctx.n(500, 6000);
    for i in 0..n {
        let gas = *ctx.rng.pick(&[0u64, 1, 100, 3_000, 20_000]);
        let mut knobs = g::Knobs::normal();
        knobs.fault_pm = *ctx.rng.pick(&[0, 50, 200]);
        knobs.unlisted_pm = *ctx.rng.pick(&[0, 200]);
        let schedule = ctx.rng.below(4); // 0,1 default; 2 unit; 3 free
        let costs = match schedule { 2 => Some(GasCosts::unit()), 3 => Some(GasCosts::free()), _ => None };
        let seed = ctx.rng.0;
        let base = match ctx.guard(|| { let mut r = crate::ctx::Rng(seed); let c = g::gen_case_with(&mut r, knobs, gas, None, costs.clone(), None); (c, r) }) {
            Ok((c, r)) => { ctx.rng = r; c }
            Err(_) => { ctx.rng.next(); ctx.count("gen.failed"); continue; }
        };
        let (bytes, kind) = program_bytes(ctx, &base);
        ctx.count(&format!("program.{kind}"));
        ctx.count(&format!("schedule.{}", ["default", "default", "unit", "free"][schedule as usize]));
        ctx.distinct(&bytes);
        let role = ctx.rng.below(4);
        let tag = format!("case#{i} rng={seed:#x} gas={gas} kind={kind} role={role} schedule={schedule} fault_pm={} unlisted_pm={}", knobs.fault_pm, knobs.unlisted_pm);
        match role {
            // as predicate
            0 => {
                ctx.count("role.predicate");
                if ctx.rng.chance(1, 3) {
                    // a well-formed predicate: arithmetic, optional heap/stack use, `ret $one`
                    let mut code = vec![];
                    let k = ctx.rng.range(0, 8);
                    g::alu(&mut ctx.rng, k, &mut code);
                    if ctx.rng.chance(1, 2) { code.extend([fuel_asm::op::movi(0x10, 64), fuel_asm::op::aloc(0x10), fuel_asm::op::sw(RegId::HP, RegId::ONE, 0)]); }
                    code.push(fuel_asm::op::ret(RegId::ONE));
                    let b: Vec<u8> = code.into_iter().collect();
                    predicate_run(ctx, &b, &tag);
                } else { predicate_run(ctx, &bytes, &tag); }
            }
            // as deployed contract code, called by a generated script
            1 => {
                ctx.count("role.contract");
                let seed2 = ctx.rng.next();
                let mut k2 = knobs; k2.call_heavy = true;
                let c = ctx.guard(|| g::gen_case_with(&mut crate::ctx::Rng(seed2), k2, gas.max(3_000), None, costs.clone(), Some(bytes.clone())));
                match c {
                    Err(m) => { if m.contains("Bug") { ctx.oracle_fail("internal-bug-deploy", &tag, &m); } ctx.count("contract.deploy-rejected"); }
                    Ok(case) => {
                        if schedule == 3 { free_schedule_budget(ctx, &case, &tag); }
                        else {
                            let mut vm: Vm = case.fresh_vm();
                            let r = ctx.guard(|| vm.transact(case.ready()).map(|_| ()).map_err(|e| g::err_name(&e)));
                            classify(ctx, &tag, "contract", r);
                        }
                    }
                }
            }
            // as script
            _ => {
                ctx.count("role.script");
                let seed2 = ctx.rng.next();
                let c = ctx.guard(|| g::gen_case_with(&mut crate::ctx::Rng(seed2), knobs, gas, Some(bytes.clone()), costs.clone(), None));
                match c {
                    Err(_) => ctx.count("script.rejected-by-builder"),
                    Ok(case) => {
                        if schedule == 3 { free_schedule_budget(ctx, &case, &tag); }
                        else {
                            let mut vm: Vm = case.fresh_vm();
                            let r = ctx.guard(|| vm.transact(case.ready()).map(|_| ()).map_err(|e| g::err_name(&e)));
                            classify(ctx, &tag, "script", r);
                            if schedule < 2 { stepped(ctx, &case, &tag); }
                        }
                    }
                }
            }
        }
    }
}
