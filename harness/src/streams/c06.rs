//! C06 — serde round trips (JSON / postcard / bincode) of protocol types, consensus parameters and gas
//! cost tables; the hand-written `Policies` serde; the upgrade checksum.
//!
//! * values of every `Deserialize` type are generated type-directed by a *random deserializer*
//!   (`RandDe`): whatever the type's own `Deserialize` impl asks for is produced at random
//!   (boundary-biased integers, every enum variant, short sequences), so every consensus-parameter /
//!   gas-cost version and every transaction/receipt variant is reached with arbitrary numeric fields;
//! * a *recording serializer* (`Rec`) turns each value into the serde-data-model tree the real
//!   `Serialize` impl emits; the Lean driver re-encodes that tree with its postcard and bincode models
//!   and must reproduce the real crates' bytes;
//! * oracle (implementation only): `from(to(x)) == x` and `to(from(to(x))) == to(x)` for the three formats;
//! * each `tree` request carries the type name and the real crates' bytes: the driver checks that the recorded
//!   tree has the shape GENERATED for that type from the Rust sources (tools/gen/serde_shapes.py), and runs the
//!   model DECODERS on the real bytes (must give back exactly the recorded tree);
//! * `de <Type> <pc|bc> <hex>`: the real decoders are fed the valid encoding and crafted malformed variants of
//!   it (truncations, bad variant index / option tag / bool, over-long varints, huge lengths, trailing
//!   bytes); they must accept exactly when the model decoder (generated shape) accepts, consume the same
//!   number of bytes, and the accepted value must re-serialise to the tree the model decoded.
use crate::{ctx::{Ctx, Rng}, util::hex};
use fuel_tx::{policies::{Policies, PolicyType}, ConsensusParameters, GasCosts, Receipt, Transaction};
use serde::{de, de::IntoDeserializer, ser, Deserialize, Serialize};
use std::fmt::Write as _;

// ---------------------------------------------------------------- recording serializer
#[derive(Debug)]
pub struct RErr(String);
impl std::fmt::Display for RErr { fn fmt(&self, f: &mut std::fmt::Formatter) -> std::fmt::Result { f.write_str(&self.0) } }
impl std::error::Error for RErr {}
impl ser::Error for RErr { fn custom<T: std::fmt::Display>(m: T) -> Self { RErr(m.to_string()) } }
impl de::Error for RErr { fn custom<T: std::fmt::Display>(m: T) -> Self { RErr(m.to_string()) } }

pub struct Rec;
pub struct RecSeq { items: Vec<String>, kind: &'static str, var: Option<u32> }
fn finish(s: RecSeq) -> String {
    let body = if s.items.is_empty() { format!("({})", s.kind) } else { format!("({} {})", s.kind, s.items.join(" ")) };
    match s.var { Some(k) => format!("(var {k} {body})"), None => body }
}
macro_rules! unsup { ($($f:ident($t:ty)),*) => { $(fn $f(self, _v: $t) -> Result<String, RErr> { Err(RErr(concat!("unsupported ", stringify!($f)).into())) })* } }
impl ser::Serializer for Rec {
    type Ok = String; type Error = RErr;
    type SerializeSeq = RecSeq; type SerializeTuple = RecSeq; type SerializeTupleStruct = RecSeq;
    type SerializeTupleVariant = RecSeq; type SerializeMap = RecSeq; type SerializeStruct = RecSeq; type SerializeStructVariant = RecSeq;
    fn is_human_readable(&self) -> bool { false }
    fn serialize_bool(self, v: bool) -> Result<String, RErr> { Ok(format!("(bool {})", v as u8)) }
    fn serialize_u8(self, v: u8) -> Result<String, RErr> { Ok(format!("(u8 {v})")) }
    fn serialize_u16(self, v: u16) -> Result<String, RErr> { Ok(format!("(u16 {v})")) }
    fn serialize_u32(self, v: u32) -> Result<String, RErr> { Ok(format!("(u32 {v})")) }
    fn serialize_u64(self, v: u64) -> Result<String, RErr> { Ok(format!("(u64 {v})")) }
    fn serialize_u128(self, v: u128) -> Result<String, RErr> { Ok(format!("(u128 {v})")) }
    unsup!(serialize_i8(i8), serialize_i16(i16), serialize_i32(i32), serialize_i64(i64), serialize_f32(f32), serialize_f64(f64), serialize_char(char));
    fn serialize_str(self, v: &str) -> Result<String, RErr> { Ok(format!("(bytes {})", hex(v.as_bytes()))) }
    fn serialize_bytes(self, v: &[u8]) -> Result<String, RErr> { Ok(format!("(bytes {})", hex(v))) }
    fn serialize_none(self) -> Result<String, RErr> { Ok("(none)".into()) }
    fn serialize_some<T: ?Sized + Serialize>(self, v: &T) -> Result<String, RErr> { Ok(format!("(some {})", v.serialize(Rec)?)) }
    fn serialize_unit(self) -> Result<String, RErr> { Ok("(tuple)".into()) }
    fn serialize_unit_struct(self, _: &'static str) -> Result<String, RErr> { Ok("(tuple)".into()) }
    fn serialize_unit_variant(self, _: &'static str, i: u32, _: &'static str) -> Result<String, RErr> { Ok(format!("(var {i} (tuple))")) }
    fn serialize_newtype_struct<T: ?Sized + Serialize>(self, _: &'static str, v: &T) -> Result<String, RErr> { v.serialize(Rec) }
    fn serialize_newtype_variant<T: ?Sized + Serialize>(self, _: &'static str, i: u32, _: &'static str, v: &T) -> Result<String, RErr> { Ok(format!("(var {i} {})", v.serialize(Rec)?)) }
    fn serialize_seq(self, _: Option<usize>) -> Result<RecSeq, RErr> { Ok(RecSeq { items: vec![], kind: "seq", var: None }) }
    fn serialize_tuple(self, _: usize) -> Result<RecSeq, RErr> { Ok(RecSeq { items: vec![], kind: "tuple", var: None }) }
    fn serialize_tuple_struct(self, _: &'static str, _: usize) -> Result<RecSeq, RErr> { Ok(RecSeq { items: vec![], kind: "tuple", var: None }) }
    fn serialize_tuple_variant(self, _: &'static str, i: u32, _: &'static str, _: usize) -> Result<RecSeq, RErr> { Ok(RecSeq { items: vec![], kind: "tuple", var: Some(i) }) }
    fn serialize_map(self, _: Option<usize>) -> Result<RecSeq, RErr> { Ok(RecSeq { items: vec![], kind: "seq", var: None }) }
    fn serialize_struct(self, _: &'static str, _: usize) -> Result<RecSeq, RErr> { Ok(RecSeq { items: vec![], kind: "tuple", var: None }) }
    fn serialize_struct_variant(self, _: &'static str, i: u32, _: &'static str, _: usize) -> Result<RecSeq, RErr> { Ok(RecSeq { items: vec![], kind: "tuple", var: Some(i) }) }
}
macro_rules! recseq { ($tr:ident, $m:ident) => {
    impl ser::$tr for RecSeq { type Ok = String; type Error = RErr;
        fn $m<T: ?Sized + Serialize>(&mut self, v: &T) -> Result<(), RErr> { self.items.push(v.serialize(Rec)?); Ok(()) }
        fn end(self) -> Result<String, RErr> { Ok(finish(self)) } } } }
recseq!(SerializeSeq, serialize_element); recseq!(SerializeTuple, serialize_element);
recseq!(SerializeTupleStruct, serialize_field); recseq!(SerializeTupleVariant, serialize_field);
impl ser::SerializeStruct for RecSeq { type Ok = String; type Error = RErr;
    fn serialize_field<T: ?Sized + Serialize>(&mut self, _: &'static str, v: &T) -> Result<(), RErr> { self.items.push(v.serialize(Rec)?); Ok(()) }
    fn end(self) -> Result<String, RErr> { Ok(finish(self)) } }
impl ser::SerializeStructVariant for RecSeq { type Ok = String; type Error = RErr;
    fn serialize_field<T: ?Sized + Serialize>(&mut self, _: &'static str, v: &T) -> Result<(), RErr> { self.items.push(v.serialize(Rec)?); Ok(()) }
    fn end(self) -> Result<String, RErr> { Ok(finish(self)) } }
impl ser::SerializeMap for RecSeq { type Ok = String; type Error = RErr;
    // a map entry is a 2-tuple in both binary formats
    fn serialize_key<T: ?Sized + Serialize>(&mut self, k: &T) -> Result<(), RErr> { self.items.push(k.serialize(Rec)?); Ok(()) }
    fn serialize_value<T: ?Sized + Serialize>(&mut self, v: &T) -> Result<(), RErr> { let k = self.items.pop().unwrap(); self.items.push(format!("(tuple {k} {})", v.serialize(Rec)?)); Ok(()) }
    fn end(self) -> Result<String, RErr> { Ok(finish(self)) } }

// ---------------------------------------------------------------- random deserializer
pub struct RandDe<'a> { rng: &'a mut Rng, depth: u32 }
impl<'a> RandDe<'a> {
    fn len(&mut self) -> usize { let m = if self.depth > 4 { 2 } else { 4 }; self.rng.below(m + 1) as usize }
    fn sub(&mut self) -> RandDe<'_> { RandDe { rng: self.rng, depth: self.depth + 1 } }
}
struct RSeq<'a> { de: RandDe<'a>, left: usize }
impl<'de, 'a> de::SeqAccess<'de> for RSeq<'a> { type Error = RErr;
    fn next_element_seed<T: de::DeserializeSeed<'de>>(&mut self, seed: T) -> Result<Option<T::Value>, RErr> {
        if self.left == 0 { return Ok(None); } self.left -= 1; seed.deserialize(self.de.sub()).map(Some) }
    fn size_hint(&self) -> Option<usize> { Some(self.left) } }
impl<'de, 'a> de::MapAccess<'de> for RSeq<'a> { type Error = RErr;
    fn next_key_seed<K: de::DeserializeSeed<'de>>(&mut self, seed: K) -> Result<Option<K::Value>, RErr> {
        if self.left == 0 { return Ok(None); } self.left -= 1; seed.deserialize(self.de.sub()).map(Some) }
    fn next_value_seed<V: de::DeserializeSeed<'de>>(&mut self, seed: V) -> Result<V::Value, RErr> { seed.deserialize(self.de.sub()) } }
struct REnum<'a> { de: RandDe<'a>, idx: u32 }
impl<'de, 'a> de::EnumAccess<'de> for REnum<'a> { type Error = RErr; type Variant = RandDe<'a>;
    fn variant_seed<V: de::DeserializeSeed<'de>>(self, seed: V) -> Result<(V::Value, RandDe<'a>), RErr> {
        let v = seed.deserialize(IntoDeserializer::<RErr>::into_deserializer(self.idx))?; Ok((v, self.de)) } }
impl<'de, 'a> de::VariantAccess<'de> for RandDe<'a> { type Error = RErr;
    fn unit_variant(self) -> Result<(), RErr> { Ok(()) }
    fn newtype_variant_seed<T: de::DeserializeSeed<'de>>(mut self, seed: T) -> Result<T::Value, RErr> { seed.deserialize(self.sub()) }
    fn tuple_variant<V: de::Visitor<'de>>(self, len: usize, v: V) -> Result<V::Value, RErr> { v.visit_seq(RSeq { de: self, left: len }) }
    fn struct_variant<V: de::Visitor<'de>>(self, f: &'static [&'static str], v: V) -> Result<V::Value, RErr> { v.visit_seq(RSeq { de: self, left: f.len() }) } }
macro_rules! rint { ($f:ident, $v:ident, $t:ty) => { fn $f<V: de::Visitor<'de>>(self, v: V) -> Result<V::Value, RErr> {
    let w = self.rng.word(); let x = if self.rng.chance(1, 3) { <$t>::MAX.wrapping_sub((w & 3) as $t) } else { w as $t }; v.$v(x) } } }
impl<'de, 'a> de::Deserializer<'de> for RandDe<'a> { type Error = RErr;
    fn is_human_readable(&self) -> bool { false }
    fn deserialize_any<V: de::Visitor<'de>>(self, _: V) -> Result<V::Value, RErr> { Err(RErr("any".into())) }
    fn deserialize_bool<V: de::Visitor<'de>>(self, v: V) -> Result<V::Value, RErr> { v.visit_bool(self.rng.chance(1, 2)) }
    rint!(deserialize_u8, visit_u8, u8); rint!(deserialize_u16, visit_u16, u16); rint!(deserialize_u32, visit_u32, u32); rint!(deserialize_u64, visit_u64, u64);
    rint!(deserialize_i8, visit_i8, i8); rint!(deserialize_i16, visit_i16, i16); rint!(deserialize_i32, visit_i32, i32); rint!(deserialize_i64, visit_i64, i64);
    fn deserialize_u128<V: de::Visitor<'de>>(self, v: V) -> Result<V::Value, RErr> { let a = self.rng.word() as u128; let b = self.rng.word() as u128; v.visit_u128(if self.rng.chance(1, 2) { a } else { (a << 64) | b }) }
    fn deserialize_f32<V: de::Visitor<'de>>(self, v: V) -> Result<V::Value, RErr> { v.visit_f32(1.5) }
    fn deserialize_f64<V: de::Visitor<'de>>(self, v: V) -> Result<V::Value, RErr> { v.visit_f64(2.5) }
    fn deserialize_char<V: de::Visitor<'de>>(self, v: V) -> Result<V::Value, RErr> { v.visit_char('x') }
    fn deserialize_str<V: de::Visitor<'de>>(self, v: V) -> Result<V::Value, RErr> { self.deserialize_string(v) }
    fn deserialize_string<V: de::Visitor<'de>>(mut self, v: V) -> Result<V::Value, RErr> { let n = self.len(); v.visit_string((0..n).map(|_| (b'a' + self.rng.below(26) as u8) as char).collect()) }
    fn deserialize_bytes<V: de::Visitor<'de>>(self, v: V) -> Result<V::Value, RErr> { self.deserialize_byte_buf(v) }
    fn deserialize_byte_buf<V: de::Visitor<'de>>(self, v: V) -> Result<V::Value, RErr> { let n = *self.rng.pick(&[0usize, 1, 7, 8, 9, 31, 32, 33, 40]); v.visit_byte_buf(self.rng.bytes(n)) }
    fn deserialize_option<V: de::Visitor<'de>>(mut self, v: V) -> Result<V::Value, RErr> { if self.rng.chance(1, 2) { v.visit_none() } else { v.visit_some(self.sub()) } }
    fn deserialize_unit<V: de::Visitor<'de>>(self, v: V) -> Result<V::Value, RErr> { v.visit_unit() }
    fn deserialize_unit_struct<V: de::Visitor<'de>>(self, _: &'static str, v: V) -> Result<V::Value, RErr> { v.visit_unit() }
    fn deserialize_newtype_struct<V: de::Visitor<'de>>(mut self, _: &'static str, v: V) -> Result<V::Value, RErr> { v.visit_newtype_struct(self.sub()) }
    fn deserialize_seq<V: de::Visitor<'de>>(mut self, v: V) -> Result<V::Value, RErr> { let n = self.len(); v.visit_seq(RSeq { de: self, left: n }) }
    fn deserialize_tuple<V: de::Visitor<'de>>(self, n: usize, v: V) -> Result<V::Value, RErr> { v.visit_seq(RSeq { de: self, left: n }) }
    fn deserialize_tuple_struct<V: de::Visitor<'de>>(self, _: &'static str, n: usize, v: V) -> Result<V::Value, RErr> { v.visit_seq(RSeq { de: self, left: n }) }
    fn deserialize_map<V: de::Visitor<'de>>(mut self, v: V) -> Result<V::Value, RErr> { let n = self.len(); v.visit_map(RSeq { de: self, left: n }) }
    fn deserialize_struct<V: de::Visitor<'de>>(self, _: &'static str, f: &'static [&'static str], v: V) -> Result<V::Value, RErr> { v.visit_seq(RSeq { de: self, left: f.len() }) }
    fn deserialize_enum<V: de::Visitor<'de>>(self, _: &'static str, vars: &'static [&'static str], v: V) -> Result<V::Value, RErr> {
        let idx = self.rng.below(vars.len() as u64) as u32; v.visit_enum(REnum { de: self, idx }) }
    fn deserialize_identifier<V: de::Visitor<'de>>(self, _: V) -> Result<V::Value, RErr> { Err(RErr("identifier".into())) }
    fn deserialize_ignored_any<V: de::Visitor<'de>>(self, v: V) -> Result<V::Value, RErr> { v.visit_unit() }
}

fn gen<T: for<'de> Deserialize<'de>>(rng: &mut Rng) -> Option<T> {
    for _ in 0..20 { if let Ok(v) = T::deserialize(RandDe { rng, depth: 0 }) { return Some(v); } }
    None
}

// ---------------------------------------------------------------- the oracle + tree line
fn case<T>(ctx: &mut Ctx, ty: &str, x: &T)
where T: Serialize + for<'de> Deserialize<'de> + PartialEq + std::fmt::Debug {
    let tree = match x.serialize(Rec) { Ok(t) => t, Err(e) => { ctx.count(&format!("{ty}.unrecordable:{}", e.0)); return; } };
    let r = ctx.guard(|| {
        let mut fails: Vec<(&'static str, String)> = vec![];
        let pc = postcard::to_allocvec(x).map_err(|e| e.to_string());
        let bc = bincode::serialize(x).map_err(|e| e.to_string());
        let js = serde_json::to_string(x).map_err(|e| e.to_string());
        match &pc { Ok(b) => match postcard::from_bytes::<T>(b) {
            Ok(y) => { if &y != x { fails.push(("postcard-roundtrip-differs", String::new())); }
                       else if postcard::to_allocvec(&y).ok().as_ref() != Some(b) { fails.push(("postcard-reencode-differs", String::new())); } }
            Err(e) => fails.push(("postcard-decode-fails", e.to_string())) }, Err(e) => fails.push(("postcard-encode-fails", e.clone())) }
        match &bc { Ok(b) => match bincode::deserialize::<T>(b) {
            Ok(y) => { if &y != x { fails.push(("bincode-roundtrip-differs", String::new())); } }
            Err(e) => fails.push(("bincode-decode-fails", e.to_string())) }, Err(e) => fails.push(("bincode-encode-fails", e.clone())) }
        match &js { Ok(s) => match serde_json::from_str::<T>(s) {
            Ok(y) => { if &y != x { fails.push(("json-roundtrip-differs", s.chars().take(300).collect())); } }
            Err(e) => fails.push(("json-decode-fails", format!("{e} in {}", s.chars().take(300).collect::<String>()))) }, Err(e) => fails.push(("json-encode-fails", e.clone())) }
        (pc.unwrap_or_default(), bc.unwrap_or_default(), fails)
    });
    match r {
        Ok((pc, bc, fails)) => {
            for (fp, d) in fails { ctx.oracle_fail(&format!("{ty}-{fp}"), &format!("tree {tree}"), &d); }
            ctx.count(ty);
            ctx.distinct(tree.as_bytes());
            ctx.emit(&format!("tree {ty} {tree} {} {}", hex(&pc), hex(&bc)), "ok");
            if ctx.rng.below(de_every(ty)) == 0 {
                for (fmt, b) in [("pc", &pc), ("bc", &bc)] {
                    de_probe::<T>(ctx, ty, fmt, b);   // the valid encoding itself (= the model's re-encoding)
                    for _ in 0..5 { let m = mutate(&mut ctx.rng, b, fmt, top_variants(ty)); de_probe::<T>(ctx, ty, fmt, &m); }
                }
            }
        }
        Err(p) => ctx.oracle_fail(&format!("{ty}-panic"), &format!("tree {tree}"), &p),
    }
}


// ---------------------------------------------------------------- malformed inputs for the real decoders
fn de_every(ty: &str) -> u64 { match ty { "Policies" => 1, "Transaction" => 5, "Receipt" => 3, "ConsensusParameters" | "GasCosts" => 4, _ => 2 } }
fn top_variants(ty: &str) -> Option<u32> { match ty { "Transaction" => Some(6), "Receipt" => Some(13), "Input" => Some(7), "Output" => Some(5), "ConsensusParameters" => Some(2), "GasCosts" => Some(7), _ => None } }

/// one crafted variant of a valid encoding
fn mutate(rng: &mut Rng, b: &[u8], fmt: &str, nvar: Option<u32>) -> Vec<u8> {
    let mut m = b.to_vec();
    let len = m.len().max(1) as u64;
    let pos = rng.below(len) as usize;
    match rng.below(11) {
        0 => { m.truncate(pos); }                                                                   // truncation anywhere
        1 => { m.pop(); }                                                                           // last byte missing
        2 => { if let Some(x) = m.get_mut(pos) { *x = *rng.pick(&[0u8, 1, 2, 0x7f, 0x80, 0xff]); } }  // bad tag / bool / index / length
        3 => { m.insert(pos.min(m.len()), if fmt == "pc" { 0x80 } else { rng.next() as u8 }); }     // shifted / over-long varint
        4 => { if let Some(x) = m.get_mut(pos) { if *x < 0x80 { *x |= 0x80; m.insert(pos + 1, 0); } } } // non-canonical varint of the same value
        5 => { let k = rng.range(1, 10) as usize; for _ in 0..k { m.insert(pos.min(m.len()), 0x80); } } // varint longer than any width allows
        6 => { if fmt == "pc" { let big = [0xffu8, 0xff, 0xff, 0xff, 0xff, 0xff, 0xff, 0xff, 0xff, 0x01]; for (i, x) in big.iter().enumerate() { m.insert((pos + i).min(m.len()), *x); } }
               else { for i in 0..8 { if let Some(x) = m.get_mut(pos + i) { *x = 0xff; } } } }      // huge length / value
        7 => { let k = rng.range(1, 3) as usize; m.extend(rng.bytes(k)); }                          // trailing bytes
        8 => { if let Some(n) = nvar {                                                              // variant index out of range
                   if fmt == "pc" { let alt: &[&[u8]] = &[&[n as u8], &[0x7f], &[0xff, 0xff, 0xff, 0xff, 0x0f], &[0xff, 0xff, 0xff, 0xff, 0x1f], &[0x80, 0x80, 0x80, 0x80, 0x80, 0x00]];
                       let a = *rng.pick(alt); m.splice(0..1.min(m.len()), a.iter().copied()); }
                   else { let v: u32 = *rng.pick(&[n, n + 1, 0x100, u32::MAX]); for (i, x) in v.to_le_bytes().iter().enumerate() { if let Some(y) = m.get_mut(i) { *y = *x; } } } }
               else if let Some(x) = m.get_mut(0) { *x = rng.next() as u8; } }
        9 => { if let Some(x) = m.get_mut(pos) { *x = rng.next() as u8; } }                         // random byte
        _ => { let k = rng.below(4) as usize; m.truncate(k); }                                      // almost empty
    }
    m
}

/// real decoder on arbitrary bytes: `ok <unconsumed> <tree of the decoded value>` | `err`
fn de_probe<T>(ctx: &mut Ctx, ty: &str, fmt: &str, b: &[u8])
where T: Serialize + for<'de> Deserialize<'de> + PartialEq + std::fmt::Debug {
    let op = format!("de {ty} {fmt} {}", hex(b));
    let r = ctx.guard(|| -> Result<Option<(String, usize)>, (&'static str, String)> {
        if fmt == "pc" {
            let full = postcard::from_bytes::<T>(b);
            let take = postcard::take_from_bytes::<T>(b);
            match (full, take) {
                (Ok(v), Ok((w, rest))) => {
                    if v != w { return Err(("postcard-from-bytes-vs-take-differ", String::new())); }
                    // accepted values are fixed points of encode/decode
                    let again = postcard::to_allocvec(&v).map_err(|e| ("postcard-reencode-of-accepted-fails", e.to_string()))?;
                    match postcard::from_bytes::<T>(&again) { Ok(y) if y == v => {}, _ => return Err(("postcard-accepted-value-not-fixed-point", String::new())) }
                    let t = v.serialize(Rec).map_err(|e| ("unrecordable", e.0))?;
                    Ok(Some((t, rest.len())))
                }
                (Err(_), Err(_)) => Ok(None),
                // take_from_bytes additionally runs `finalize`, which cannot fail for a slice
                _ => Err(("postcard-from-bytes-vs-take-differ", String::new())),
            }
        } else {
            match bincode::deserialize::<T>(b) {
                Ok(v) => {
                    // bincode (fixint) is canonical: the accepted value re-encodes to the consumed prefix
                    let again = bincode::serialize(&v).map_err(|e| ("bincode-reencode-of-accepted-fails", e.to_string()))?;
                    if again.len() > b.len() || again[..] != b[..again.len()] { return Err(("bincode-accepted-value-reencodes-differently", hex(&again))); }
                    let t = v.serialize(Rec).map_err(|e| ("unrecordable", e.0))?;
                    Ok(Some((t, b.len() - again.len())))
                }
                Err(_) => Ok(None),
            }
        }
    });
    let out = match r {
        Ok(Ok(Some((t, rest)))) => { ctx.count(&format!("de.{ty}.{fmt}.ok")); if rest > 0 { ctx.count(&format!("de.{fmt}.ok-with-rest")); } format!("ok {rest} {t}") }
        Ok(Ok(None)) => { ctx.count(&format!("de.{ty}.{fmt}.err")); "err".to_string() }
        Ok(Err((fp, d))) => { ctx.oracle_fail(&format!("{ty}-{fp}"), &op, &d); "oracle".to_string() }
        Err(p) => { ctx.oracle_fail(&format!("{ty}-decode-panic"), &op, &p); "panic".to_string() }
    };
    ctx.emit(&op, &out);
}

fn corpus(ctx: &mut Ctx) {
    use crate::util::unhex;
    // minimized boundary cases (literals): variant index just out of range, option tag 2, bool 2, u64 varint at the
    // 10-byte limit (accepted) and one past it (rejected), over-long u16 varint, huge byte-string length, Policies with
    // a values count that does not match the bits (legacy / compact), unknown high bits in PoliciesBits.
    let out = |c: &mut Ctx, f: &str, h: &str| de_probe::<fuel_tx::Output>(c, "Output", f, &unhex(h));
    out(ctx, "pc", "05"); out(ctx, "pc", "04"); out(ctx, "bc", "05000000"); out(ctx, "bc", "04000000"); out(ctx, "pc", "-"); out(ctx, "bc", "040000");
    let rc = |c: &mut Ctx, f: &str, h: &str| de_probe::<Receipt>(c, "Receipt", f, &unhex(h));
    rc(ctx, "pc", "090000"); rc(ctx, "pc", "0903ffffffffffffffffff0100"); rc(ctx, "pc", "0903ffffffffffffffffff0200");
    rc(ctx, "pc", "09038080808080808080800000"); rc(ctx, "pc", "090400"); rc(ctx, "pc", "0d"); rc(ctx, "pc", "8900"); rc(ctx, "pc", "09800000");
    rc(ctx, "bc", "09000000000000000000000000000000"); rc(ctx, "bc", "0900000003000000ffffffffffffffff0100000000000000"); rc(ctx, "bc", "0d000000");
    let mut ret = vec![2u8]; ret.extend([7u8; 32]); ret.extend([1, 2]); ret.extend([9u8; 32]); ret.extend([3, 4]);
    for tail in [&[0u8][..], &[1, 0], &[1, 2, 0xaa, 0xbb], &[2], &[1, 0xff, 0xff, 0xff, 0xff, 0xff, 0xff, 0xff, 0xff, 0xff, 0x01], &[1, 3, 0xaa], &[]] {
        let mut b = ret.clone(); b.extend(tail); de_probe::<Receipt>(ctx, "Receipt", "pc", &b);
    }
    let po = |c: &mut Ctx, f: &str, h: &str| de_probe::<Policies>(c, "Policies", f, &unhex(h));
    po(ctx, "pc", "0000000000"); po(ctx, "pc", "00000000"); po(ctx, "pc", "1000"); po(ctx, "pc", "100107"); po(ctx, "pc", "10020708"); po(ctx, "pc", "3f06010203040506");
    po(ctx, "pc", "3f050102030405"); po(ctx, "pc", "c00000000000"); po(ctx, "pc", "d0000107"); po(ctx, "pc", "ffffffff0f06010203040506"); po(ctx, "pc", "ffffffff1f06010203040506");
    po(ctx, "bc", "00000000"); po(ctx, "bc", &format!("0f000000{}", "00".repeat(32))); po(ctx, "bc", &format!("10000000{}{}", "0100000000000000", "0700000000000000"));
    po(ctx, "bc", &format!("10000000{}", "0000000000000000")); po(ctx, "bc", &format!("10000000{}", "ffffffffffffffff")); po(ctx, "bc", &format!("000001000000000000000000{}", "00".repeat(28)));
    let tx = |c: &mut Ctx, f: &str, h: &str| de_probe::<Transaction>(c, "Transaction", f, &unhex(h));
    tx(ctx, "pc", "06"); tx(ctx, "pc", "02"); tx(ctx, "bc", "06000000");
    let cp = |c: &mut Ctx, f: &str, h: &str| de_probe::<ConsensusParameters>(c, "ConsensusParameters", f, &unhex(h));
    cp(ctx, "pc", "02"); cp(ctx, "pc", "0000"); cp(ctx, "bc", "0200000000");
}

// ---------------------------------------------------------------- Policies through serde_json (visit_map)
const FLAG_NAMES: [&str; 6] = ["Tip", "WitnessLimit", "Maturity", "MaxFee", "Expiration", "Owner"];

/// a `Policies` with arbitrary (also unknown) bits: only reachable by deserialisation (`from_bits_retain`)
fn policies_any_bits(bits: u32, vals: &[u64; 6]) -> Option<Policies> {
    let mut b = vec![]; varint(bits as u64, &mut b);
    if bits & 0x30 == 0 { for v in &vals[..4] { varint(*v, &mut b); } }
    else { let set: Vec<u64> = (0..6).filter(|i| bits & (1 << i) != 0).map(|i| vals[i]).collect(); varint(set.len() as u64, &mut b); for v in set { varint(v, &mut b); } }
    postcard::from_bytes::<Policies>(&b).ok()
}

fn json_err_class(msg: &str) -> &'static str {
    if msg.contains("duplicate field `bits`") { "duplicate-bits" } else if msg.contains("duplicate field `values`") { "duplicate-values" }
    else if msg.contains("bits field should be set before values") { "bits-before-values" }
    else if msg.contains("missing field `bits`") { "missing-bits" } else if msg.contains("missing field `values`") { "missing-values" }
    else if msg.contains("isn't synchronized") { "not-synchronized" } else { "invalid" }
}

/// one JSON object given field by field: (key, kind, payload) with kind s = string, n = number, a = array of
/// element tokens (decimal | neg | flt | str | null), o = other value; rendered as JSON text for serde_json
fn polj(ctx: &mut Ctx, fields: &[(String, char, String)]) {
    let mut text = String::from("{");
    let mut toks = vec![];
    for (i, (k, kind, p)) in fields.iter().enumerate() {
        if i > 0 { text.push(','); }
        text.push_str(&serde_json::to_string(k).unwrap()); text.push(':');
        match kind {
            's' => { text.push_str(&serde_json::to_string(p).unwrap()); toks.push(format!("{k}:s:{}", hex(p.as_bytes()))); }
            'n' => { text.push_str(p); toks.push(format!("{k}:n:{p}")); }
            'a' => { let els: Vec<&str> = if p.is_empty() { vec![] } else { p.split(',').collect() };
                     text.push('['); text.push_str(&els.iter().map(|e| match *e { "neg" => "-1".to_string(), "flt" => "1.5".to_string(), "str" => "\"7\"".to_string(), "null" => "null".to_string(), d => d.to_string() }).collect::<Vec<_>>().join(",")); text.push(']');
                     toks.push(format!("{k}:a:{}", if p.is_empty() { "-" } else { p })); }
            _ => { text.push_str(match p.as_str() { "true" => "true", "obj" => "{\"a\":[1,{\"b\":null}]}", _ => "null" }); toks.push(format!("{k}:o:{p}")); }
        }
    }
    text.push('}');
    let op = format!("polj {}", toks.join(" "));
    let r = ctx.guard(|| serde_json::from_str::<Policies>(&text));
    let out = match r {
        Ok(Ok(p)) => {
            // accepted values are fixed points of the JSON round trip
            let again = serde_json::to_string(&p).ok().and_then(|t| serde_json::from_str::<Policies>(&t).ok());
            if again != Some(p) { ctx.oracle_fail("policies-json-accepted-value-not-fixed-point", &op, &text); }
            ctx.count("polj.ok");
            // the raw array is private: the value is reported as the binary tree it serialises to (bits + layout)
            format!("ok {}", p.serialize(Rec).unwrap())
        }
        Ok(Err(e)) => { let c = json_err_class(&e.to_string()); ctx.count(&format!("polj.err.{c}")); format!("err {c}") }
        Err(pmsg) => { ctx.oracle_fail("policies-json-decode-panic", &op, &pmsg); "panic".to_string() }
    };
    ctx.emit(&op, &out);
}

fn bits_text(rng: &mut Rng, bits: u32) -> String {
    let names: Vec<String> = (0..6).filter(|i| bits & (1 << i) != 0).map(|i| FLAG_NAMES[i].to_string()).collect();
    let rem = bits & !63;
    let mut parts = names.clone();
    if rem != 0 { parts.push(format!("0x{rem:x}")); }
    match rng.below(14) {
        0..=4 => parts.join(" | "),                                          // what bitflags writes
        5 => parts.join("|"),
        6 => format!("  {} ", parts.join("  |\t")),
        7 => { parts.reverse(); parts.join(" | ") }
        8 => { if let Some(f) = parts.first().cloned() { parts.push(f); } parts.join(" | ") }        // a flag twice
        9 => format!("0x{bits:x}"),                                            // everything as hex
        10 => format!("0x{}{bits:X}", if rng.chance(1, 2) { "+" } else { "000" }),
        11 => format!("{} | ", parts.join(" | ")),                             // empty flag
        12 => (*rng.pick(&["0x", "0X3", "0x100000000", "0xffffffff", "0x-1", "0x+", "tip", "Tip | Unknown", "", "   ", "|", "0x1 | 0x2", "0x 1", "Tip Owner", "0x1_0"])).to_string(),
        _ => parts.join(" | ").to_lowercase(),
    }
}

fn json_cases(ctx: &mut Ctx) {
    // serialise: all 64 masks (public API) and values with unknown bits (deserialised), text compared with the model's
    for round in 0..ctx.n(3, 20) {
        for m in 0u32..64 {
            let bits = if round == 0 { m } else { m | ((ctx.rng.word() as u32) & !63 & if ctx.rng.chance(1, 2) { 0xffff_ffc0 } else { 0x0000_0fc0 }) };
            let mut vals = [0u64; 6]; for v in vals.iter_mut() { *v = ctx.rng.word(); }
            let p = if round == 0 { Some(policies_from(bits, &vals)) } else { policies_any_bits(bits, &vals) };
            let Some(p) = p else { ctx.oracle_fail("policies-postcard-rejects-unknown-bits", &format!("{bits}"), ""); continue };
            let canon: Vec<u64> = (0..6).map(|i| if bits & (1 << i) != 0 { vals[i] } else if bits & 0x30 == 0 && i < 4 && round != 0 { vals[i] } else { 0 }).collect();
            let op = format!("poljs {bits} {}", canon.iter().map(|v| v.to_string()).collect::<Vec<_>>().join(" "));
            match ctx.guard(|| serde_json::to_string(&p)) {
                Ok(Ok(t)) => {
                    match serde_json::from_str::<Policies>(&t) { Ok(q) if q == p => {}, other => ctx.oracle_fail("Policies-json-roundtrip-differs", &op, &format!("{t} -> {other:?}")) }
                    ctx.count(if bits & !63 != 0 { "poljs.unknown-bits" } else { "poljs.mask" });
                    ctx.emit(&op, &t);
                }
                Ok(Err(e)) => ctx.oracle_fail("Policies-json-encode-fails", &op, &e.to_string()),
                Err(pm) => ctx.oracle_fail("Policies-json-encode-panic", &op, &pm),
            }
        }
    }
    // deserialise: well-formed and malformed objects
    let s = |x: &str| x.to_string();
    // literals: reordered, duplicate, missing, unknown fields, wrong types
    polj(ctx, &[(s("values"), 'a', s("1,2,3,4")), (s("bits"), 's', s("Tip"))]);
    polj(ctx, &[(s("bits"), 's', s("Tip")), (s("values"), 'a', s("1,2,3,4"))]);
    polj(ctx, &[(s("bits"), 's', s("Tip")), (s("bits"), 's', s("Tip")), (s("values"), 'a', s("1,2,3,4"))]);
    polj(ctx, &[(s("bits"), 's', s("Tip")), (s("values"), 'a', s("1,2,3,4")), (s("values"), 'a', s("1,2,3,4"))]);
    polj(ctx, &[(s("bits"), 's', s("Tip"))]); polj(ctx, &[(s("values"), 'a', s("1,2,3,4"))]); polj(ctx, &[]);
    polj(ctx, &[(s("x"), 'o', s("obj")), (s("bits"), 's', s("Owner")), (s("y"), 'n', s("3")), (s("values"), 'a', s("9")), (s("z"), 'a', s("1,str"))]);
    polj(ctx, &[(s("bits"), 'n', s("1")), (s("values"), 'a', s("1,2,3,4"))]); polj(ctx, &[(s("bits"), 's', s("Tip")), (s("values"), 'n', s("1"))]);
    polj(ctx, &[(s("bits"), 's', s("Owner")), (s("values"), 'a', s(""))]); polj(ctx, &[(s("bits"), 's', s("Owner")), (s("values"), 'a', s("1,2"))]);
    polj(ctx, &[(s("bits"), 's', s("Tip")), (s("values"), 'a', s("1,2,3"))]); polj(ctx, &[(s("bits"), 's', s("Tip")), (s("values"), 'a', s("1,2,3,4,5"))]);
    polj(ctx, &[(s("bits"), 's', s("Tip")), (s("values"), 'a', s("1,2,3,18446744073709551615"))]); polj(ctx, &[(s("bits"), 's', s("Tip")), (s("values"), 'a', s("1,2,3,18446744073709551616"))]);
    polj(ctx, &[(s("bits"), 's', s("0x40")), (s("values"), 'a', s("0,0,0,0"))]); polj(ctx, &[(s("bits"), 's', s("")), (s("values"), 'a', s("0,0,0,0"))]);
    for _ in 0..ctx.n(4000, 80000) {
        let bits: u32 = if ctx.rng.chance(3, 4) { ctx.rng.below(64) as u32 } else { (ctx.rng.word() as u32) & if ctx.rng.chance(1, 2) { 0xfff } else { u32::MAX } };
        let text = bits_text(&mut ctx.rng, bits);
        let nset = (bits & 63).count_ones() as u64;
        let n = match ctx.rng.below(8) { 0..=3 => if bits & 0x30 == 0 { 4 } else { nset }, 4 => 4, 5 => nset, _ => ctx.rng.below(8) };
        let mut els: Vec<String> = (0..n).map(|_| ctx.rng.word().to_string()).collect();
        if ctx.rng.chance(1, 12) && !els.is_empty() { let i = ctx.rng.below(els.len() as u64) as usize; els[i] = (*ctx.rng.pick(&["neg", "flt", "str", "null", "18446744073709551616", "0"])).to_string(); }
        let fb = (s("bits"), 's', text); let fv = (s("values"), 'a', els.join(","));
        let unk = (format!("u{}", ctx.rng.below(3)), *ctx.rng.pick(&['o', 'n', 'a', 's']), s("1"));
        let unk = (unk.0, unk.1, if unk.1 == 'o' { s("obj") } else { unk.2 });
        let fields: Vec<(String, char, String)> = match ctx.rng.below(12) {
            0..=5 => vec![fb, fv],
            6 => vec![fv, fb],
            7 => vec![unk.clone(), fb, unk, fv],
            8 => vec![fb.clone(), fv, fb],
            9 => vec![fb, fv.clone(), fv],
            10 => if ctx.rng.chance(1, 2) { vec![fb] } else { vec![fv] },
            _ => vec![fb, (s("values"), *ctx.rng.pick(&['n', 's', 'o']), s("1"))],
        };
        polj(ctx, &fields);
    }
}

fn policies_from(bits: u32, vals: &[u64; 6]) -> Policies {
    let mut p = Policies::new();
    let tys = [PolicyType::Tip, PolicyType::WitnessLimit, PolicyType::Maturity, PolicyType::MaxFee, PolicyType::Expiration, PolicyType::Owner];
    for (i, t) in tys.iter().enumerate() { if bits & (1 << i) != 0 { p.set(*t, Some(vals[i])); } }
    p
}
fn varint(mut n: u64, out: &mut Vec<u8>) { loop { if n < 128 { out.push(n as u8); return; } out.push((n % 128) as u8 | 0x80); n /= 128; } }

pub fn run(ctx: &mut Ctx) {
    corpus(ctx);
    // 1. Policies: every mask x boundary values through the public API; tree must equal the model's `ser`
    for bits in 0u32..64 {
        for k in 0..ctx.n(6, 40) {
            let mut vals = [0u64; 6];
            for v in vals.iter_mut() { *v = if k == 0 { 0 } else if k == 1 { u64::MAX } else { ctx.rng.word() }; }
            let p = policies_from(bits, &vals);
            let canon: Vec<u64> = (0..6).map(|i| if bits & (1 << i) != 0 { vals[i] } else { 0 }).collect();
            let tree = p.serialize(Rec).unwrap();
            ctx.emit(&format!("pol {bits} {}", canon.iter().map(|v| v.to_string()).collect::<Vec<_>>().join(" ")), &tree);
            case(ctx, "Policies", &p);
            ctx.count(if bits & 0x30 == 0 { "policies.legacy" } else { "policies.compact" });
        }
    }
    // 2. crafted / malformed postcard inputs for the hand-written visitor (visit_seq)
    for _ in 0..ctx.n(3000, 60000) {
        let bits = if ctx.rng.chance(3, 4) { ctx.rng.below(64) } else { ctx.rng.word() & 0xffff_ffff };
        let mut b = vec![]; varint(bits, &mut b);
        let nset = (bits & 63).count_ones() as u64;
        match ctx.rng.below(5) {
            0 => { for _ in 0..4 { varint(ctx.rng.word(), &mut b); } }                                   // legacy-shaped payload
            1 => { varint(nset, &mut b); for _ in 0..nset { varint(ctx.rng.word(), &mut b); } }            // compact, right count
            2 => { let n = ctx.rng.below(8); varint(n, &mut b); for _ in 0..n { varint(ctx.rng.word(), &mut b); } } // compact, any count
            3 => { let n = ctx.rng.below(12) as usize; b.extend(ctx.rng.bytes(n)); }                     // garbage
            _ => { varint(nset, &mut b); for _ in 0..nset { varint(ctx.rng.word(), &mut b); } let k = ctx.rng.below(b.len() as u64 + 1) as usize; b.truncate(k); } // truncated
        }
        let r = ctx.guard(|| postcard::from_bytes::<Policies>(&b));
        let out = match r {
            Ok(Ok(p)) => {
                // fixed point: what was accepted re-serialises and decodes to itself
                let again = postcard::to_allocvec(&p).ok().and_then(|x| postcard::from_bytes::<Policies>(&x).ok());
                if again != Some(p) { ctx.oracle_fail("policies-decoded-value-not-fixed-point", &format!("polde {}", hex(&b)), &format!("{p:?}")); }
                ctx.count("polde.ok");
                let t = p.serialize(Rec).unwrap(); format!("ok {t}")
            }
            Ok(Err(_)) => { ctx.count("polde.err"); "err".to_string() }
            Err(pmsg) => { ctx.oracle_fail("policies-decode-panic", &format!("polde {}", hex(&b)), &pmsg); "panic".to_string() }
        };
        ctx.emit(&format!("polde {}", hex(&b)), &out);
    }
    // 3. type-directed random values of the protocol types
    let n = ctx.n(1500, 40000);
    for _ in 0..n {
        let mut r = ctx.rng.clone(); ctx.rng.next();
        if let Some(x) = gen::<Transaction>(&mut r) { case(ctx, "Transaction", &x); } else { ctx.count("gen-failed.Transaction"); }
        let mut r = ctx.rng.clone(); ctx.rng.next();
        if let Some(x) = gen::<Receipt>(&mut r) { case(ctx, "Receipt", &x); } else { ctx.count("gen-failed.Receipt"); }
    }
    for _ in 0..ctx.n(400, 10000) {
        let mut r = ctx.rng.clone(); ctx.rng.next();
        if let Some(x) = gen::<ConsensusParameters>(&mut r) {
            case(ctx, "ConsensusParameters", &x);
            // upgrade checksum: UpgradeMetadata::compute on an Upgrade tx carrying postcard(x) commits to Hasher::hash(bytes) and yields x back
            upgrade_case(ctx, &x);
        } else { ctx.count("gen-failed.ConsensusParameters"); }
        let mut r = ctx.rng.clone(); ctx.rng.next();
        if let Some(x) = gen::<GasCosts>(&mut r) { case(ctx, "GasCosts", &x); } else { ctx.count("gen-failed.GasCosts"); }
        let mut r = ctx.rng.clone(); ctx.rng.next();
        if let Some(x) = gen::<fuel_tx::Input>(&mut r) { case(ctx, "Input", &x); }
        let mut r = ctx.rng.clone(); ctx.rng.next();
        if let Some(x) = gen::<fuel_tx::Output>(&mut r) { case(ctx, "Output", &x); }
    }
    json_cases(ctx);
    let _ = write!(String::new(), "");
}

fn upgrade_case(ctx: &mut Ctx, cp: &ConsensusParameters) {
    use fuel_tx::{field::Witnesses, Transaction, UpgradePurpose, Witness, UpgradeMetadata};
    let bytes = postcard::to_allocvec(cp).unwrap();
    let checksum = fuel_crypto::Hasher::hash(&bytes);
    let build = |idx: u16, sum: fuel_types::Bytes32, w: Vec<u8>| {
        Transaction::upgrade(UpgradePurpose::ConsensusParameters { witness_index: idx, checksum: sum }, Policies::new(), vec![], vec![], vec![Witness::from(w)])
    };
    let good = build(0, checksum, bytes.clone());
    let r = ctx.guard(|| UpgradeMetadata::compute(&good));
    match r {
        Ok(Ok(UpgradeMetadata::ConsensusParameters { consensus_parameters, calculated_checksum })) => {
            if *consensus_parameters != *cp || calculated_checksum != checksum || postcard::to_allocvec(&*consensus_parameters).unwrap() != bytes {
                ctx.oracle_fail("upgrade-checksum-not-reproducible", &hex(&bytes), "decoded parameters / checksum differ from the committed ones");
            }
            ctx.count("upgrade.ok");
        }
        other => ctx.oracle_fail("upgrade-compute-rejects-valid", &hex(&bytes), &format!("{other:?}").chars().take(200).collect::<String>()),
    }
    // wrong checksum, out-of-range witness index
    let mut bad = bytes.clone(); if let Some(b) = bad.last_mut() { *b ^= 1; }
    let t = build(0, checksum, bad);
    if !matches!(UpgradeMetadata::compute(&t), Err(fuel_tx::ValidityError::TransactionUpgradeConsensusParametersChecksumMismatch)) {
        ctx.oracle_fail("upgrade-checksum-mismatch-accepted", &hex(&bytes), "tampered witness not rejected with ChecksumMismatch");
    }
    let t = build(1, checksum, bytes.clone());
    if !matches!(UpgradeMetadata::compute(&t), Err(fuel_tx::ValidityError::InputWitnessIndexBounds { .. })) {
        ctx.oracle_fail("upgrade-witness-index-bounds", &hex(&bytes), "witness index 1 of 1 not rejected");
    }
    let _ = good.witnesses();
}
