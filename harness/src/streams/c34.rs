//! C34 — calls and returns preserve the caller's frame.
//! Generated call trees (nested, recursive, coin/gas forwarding, RET/RETD, callee heap allocation) are
//! single-stepped; around every successful CALL and every RET/RETD executed in a call context the register
//! file, the written frame/code bytes and the caller's stack are observed.
//! Oracle (independent of Lean): the statement itself — registers restored except $pc/$cgas/$ggas/$ret/$retl/$hp,
//! $pc = call site + 4, caller stack bytes [0,$sp) unchanged, depth ($fp chain) restored, callee entry state
//! ($ssp=$sp=old $sp+frame+padded code, $fp=old $sp, $is=$pc=code start, $bal=forwarded coins, $flag=0),
//! callee heap readable and unchanged after the return.
//! Lean: `call` / `ret` / `retd` request lines carry the observed register file and the environment answers
//! (code, charges); the model must produce the same next register file and the same frame+code bytes.
use crate::{ctx::Ctx, gen::vm_gen as g, util::hex};
use fuel_asm::{Instruction, RegId};
use fuel_storage::StorageAsRef;
use fuel_tx::Script;
use fuel_types::ContractId;
use fuel_vm::{
    call::CallFrame,
    consts::MEM_SIZE,
    interpreter::MemoryInstance,
    prelude::*,
    storage::{ContractsRawCode, MemoryStorage},
};
use sha2::{Digest, Sha256};

type Vm = Interpreter<MemoryInstance, MemoryStorage, Script>;

fn regs_csv(r: &[u64]) -> String { r.iter().map(|x| x.to_string()).collect::<Vec<_>>().join(",") }
fn h(bs: &[u8]) -> [u8; 32] { let mut s = Sha256::new(); s.update(bs); s.finalize().into() }

const BAL_OFF: usize = 64; // VM_MEMORY_BALANCES_OFFSET
const BAL_ENTRY: usize = 40;

/// hash of memory [lo, sp): `lo` = the script's initial `$ssp`, the end of the VM-initialised area (tx id, base asset,
/// balance table, transaction bytes). That area is legitimately rewritten from any depth (TRO updates the variable output
/// inside the transaction bytes, the script's CALL/TR debit its balance words); everything above it is somebody's stack.
fn stack_hash(vm: &Vm, lo: usize, sp: usize) -> [u8; 32] {
    if sp <= lo { return h(&[]); }
    h(vm.memory().read(lo, sp - lo).unwrap_or(&[]))
}

/// address and current bytes of the balance word of `asset` in the VM's balance table
fn balance_word(vm: &Vm, asset: &[u8]) -> Option<(usize, [u8; 8])> {
    let n = vm.max_inputs() as usize;
    for i in 0..n {
        let o = BAL_OFF + i * BAL_ENTRY;
        let a: [u8; 32] = vm.memory().read_bytes(o).ok()?;
        if a[..] == asset[..] { return Some((o + 32, vm.memory().read_bytes(o + 32).ok()?)); }
    }
    None
}

struct Pending {
    #[allow(dead_code)]
    external: bool,
    own_hash: [u8; 32],
    regs0: Vec<u64>,
    stack_hash: [u8; 32],
    depth: usize,
    line: String,
}

fn depth(vm: &Vm) -> usize {
    // length of the $fp chain through the saved registers of the frames in memory
    let mut fp = vm.registers()[RegId::FP];
    let mut n = 0;
    while fp != 0 && n < 10_000 {
        let off = fp as usize + CallFrame::registers_offset() + 8 * (u8::from(RegId::FP) as usize);
        let Ok(b) = vm.memory().read_bytes::<_, 8>(off) else { break };
        fp = u64::from_be_bytes(b);
        n += 1;
    }
    n
}

const PC: usize = 0x03; const SSP: usize = 0x04; const SP: usize = 0x05; const FP: usize = 0x06; const HP: usize = 0x07;
const GGAS: usize = 0x09; const CGAS: usize = 0x0a; const BAL: usize = 0x0b; const IS: usize = 0x0c; const FLAG: usize = 0x0f;
const KEPT: [u8; 6] = [0x03, 0x0a, 0x09, 0x0d, 0x0e, 0x07]; // pc cgas ggas ret retl hp

fn one_case(ctx: &mut Ctx, case: &g::Case, tag: &str) {
    let mut vm = case.fresh_vm();
    vm.set_single_stepping(true);
    ctx.emit("reset", "ok");
    let costs = case.params.gas_costs().clone();
    let mut pend: Vec<Pending> = vec![];
    // what the previous event was about to execute
    enum Prev { None, Call { regs0: Vec<u64>, a: u64, b: u64, c: u64, d: u64, call_bytes: Vec<u8>, asset: Vec<u8>, stack_len: usize, stack_hash: [u8; 32], own_hash: [u8; 32], depth: usize, bal_before: Option<(usize, [u8; 8])> },
                Ret { regs2: Vec<u64>, line: String, heap_hash: [u8; 32], charge: u64, want_ret: (u64, u64) } }
    let mut prev = Prev::None;
    let mut state = match ctx.guard(|| vm.transact(case.ready()).map(ProgramState::from).map_err(|e| g::err_name(&e))) {
        Ok(Ok(s)) => s, Ok(Err(_)) => return, Err(m) => { ctx.oracle_fail("panic-transact", tag, &m); return; }
    };
    let mut steps = 0u64;
    let mut max_depth = 0usize;
    let lo = vm.registers()[RegId::SSP] as usize; // first event: the script is about to execute its first instruction
    while state.is_debug() {
        steps += 1;
        if steps > 6000 { ctx.count("skipped-long"); break; }
        let regs: Vec<u64> = vm.registers().to_vec();
        // ---- what did the previous instruction do?
        match std::mem::replace(&mut prev, Prev::None) {
            Prev::None => {}
            Prev::Call { regs0, a, b, c, d, call_bytes, asset, stack_len, stack_hash: sh0, own_hash: own0, depth: d0, bal_before } => {
                // a CALL that succeeded lands at the start of the callee's code with a NEW frame whose saved $fp is the caller's
                // (where the frame lies is what is being checked, so it must not be part of the detection)
                let saved_fp = vm.memory().read_bytes::<_, 8>(regs[FP] as usize + CallFrame::registers_offset() + 8 * FP).map(u64::from_be_bytes).ok();
                if regs[PC] == regs[IS] && regs[FP] != regs0[FP] && regs[FP] != 0 && saved_fp == Some(regs0[FP]) && depth(&vm) == d0 + 1 {
                    let to = ContractId::try_from(&call_bytes[..32]).unwrap();
                    let code: Vec<u8> = vm.as_ref().storage::<ContractsRawCode>().get(&to).ok().flatten().map(|c| c.as_ref().as_ref().to_vec()).unwrap_or_default();
                    let padded = (code.len() + 7) / 8 * 8;
                    let fsz = CallFrame::serialized_size() as u64;
                    let old_sp = regs0[SP];
                    let input = format!("{tag} call@pc={} to={}", regs0[PC], hex(&to.as_ref()[..4]));
                    // oracle: callee entry state
                    let mut bad = vec![];
                    if regs[FP] != old_sp { bad.push("fp!=caller-sp"); }
                    if regs[FP] < regs0[SP] || regs[SSP] < regs0[SP] { bad.push("callee-stack-below-caller-sp"); }
                    if regs[SSP] != regs[FP] + fsz + padded as u64 { bad.push("ssp!=fp+frame+code"); }
                    if regs0[SP] > regs0[SSP] { ctx.count("call.live-caller-frame"); }
                    if regs[SSP] != old_sp + fsz + padded as u64 { bad.push("ssp"); }
                    if regs[SP] != regs[SSP] { bad.push("sp"); }
                    if regs[PC] != old_sp + fsz || regs[IS] != regs[PC] { bad.push("pc/is"); }
                    if regs[BAL] != b { bad.push("bal"); }
                    if regs[FLAG] != 0 { bad.push("flag"); }
                    if regs[HP] != regs0[HP] { bad.push("hp"); }
                    if regs[CGAS] > d || regs[CGAS] > regs0[CGAS] { bad.push("cgas"); }
                    for i in 16..64 { if regs[i] != regs0[i] { bad.push("program-register"); break; } }
                    if !bad.is_empty() { ctx.oracle_fail("callee-entry-state", &input, &bad.join(",")); }
                    // the callee's code is what storage holds, zero padded
                    let written = vm.memory().read(regs[FP], fsz as usize + padded).map(|s| s.to_vec()).unwrap_or_default();
                    if written.len() == fsz as usize + padded {
                        if written[fsz as usize..fsz as usize + code.len()] != code[..] || written[fsz as usize + code.len()..].iter().any(|x| *x != 0) {
                            ctx.oracle_fail("callee-code-copy", &input, "code after the frame differs from storage / padding not zero");
                        }
                        if written[..32] != call_bytes[..32] { ctx.oracle_fail("frame-to", &input, "frame does not start with the callee id"); }
                    } else { ctx.oracle_fail("frame-unreadable", &input, "cannot read frame+code"); }
                    // caller's stack untouched by the call itself
                    let external = regs0[FP] == 0;
                    if stack_hash(&vm, regs0[SSP] as usize, old_sp as usize) != own0 { ctx.oracle_fail("call-overwrote-caller-frame-locals", &input, &format!("caller's own stack [$ssp={}, $sp={}) changed during CALL; callee $fp={}", regs0[SSP], regs0[SP], regs[FP])); }
                    if stack_hash(&vm, lo, old_sp as usize) != sh0 { ctx.oracle_fail("call-wrote-caller-stack", &input, "bytes below old $sp changed during CALL"); }
                    // the only other write: the debited balance word of an external caller
                    let mut deb = "-".to_string();
                    if external {
                        match (bal_before, balance_word(&vm, &asset)) {
                            (Some((o, before)), Some((o2, after))) => {
                                if o != o2 || u64::from_be_bytes(before).checked_sub(b) != Some(u64::from_be_bytes(after)) { ctx.oracle_fail("external-debit-wrong", &input, "balance word is not old - forwarded coins"); }
                                deb = format!("{o}:{}", hex(&after));
                                ctx.count("call.external");
                            }
                            (None, None) => { if b != 0 { ctx.oracle_fail("external-debit-without-entry", &input, "coins forwarded from an asset without balance entry"); } }
                            _ => ctx.oracle_fail("balance-table-changed-shape", &input, "balance entry appeared/disappeared"),
                        }
                    }
                    let ch0 = costs.call().base();
                    let ch1 = costs.call().resolve_without_base(padded as u64);
                    let total = regs0[GGAS] - regs[GGAS];
                    let ch2 = total.saturating_sub(ch0 + ch1);
                    let line = format!("call {} {a} {b} {c} {d} {} {} {stack_len} {ch0} {ch1} {ch2} {} {deb}", regs_csv(&regs0), hex(&call_bytes), hex(&asset), hex(&code));
                    ctx.emit(&line, &format!("{} {}", regs_csv(&regs), hex(&written)));
                    ctx.count("call");
                    if b > 0 { ctx.count("call.coins"); }
                    if ch2 > 0 { ctx.count("call.new-balance-entry"); }
                    if regs[CGAS] < regs0[CGAS].saturating_sub(total) { ctx.count("call.partial-gas"); }
                    pend.push(Pending { external, own_hash: own0, regs0, stack_hash: sh0, depth: d0, line: input });
                    max_depth = max_depth.max(pend.len());
                }
            }
            Prev::Ret { regs2, line, heap_hash, charge, want_ret } => {
                if let Some(p) = pend.pop() {
                    let input = format!("{} ret@pc={}", p.line, regs2[PC]);
                    ctx.emit(&line, &regs_csv(&regs));
                    ctx.count("ret");
                    let mut bad = vec![];
                    for i in 0..64usize { if !KEPT.contains(&(i as u8)) && regs[i] != p.regs0[i] { bad.push(format!("r{i}")); } }
                    if regs[PC] != p.regs0[PC] + 4 { bad.push("pc".into()); }
                    if !bad.is_empty() { ctx.oracle_fail("registers-not-restored", &input, &bad.join(",")); }
                    if (regs[0x0d], regs[0x0e]) != want_ret { ctx.oracle_fail("ret-registers-wrong", &input, &format!("$ret/$retl = {:?}, expected {:?}", (regs[0x0d], regs[0x0e]), want_ret)); }
                    if regs[HP] != regs2[HP] { ctx.oracle_fail("hp-not-kept", &input, "$hp after return differs from the callee's"); }
                    if regs[GGAS] + charge != regs2[GGAS] { ctx.oracle_fail("ggas-not-kept", &input, "$ggas changed by more than the instruction's own cost"); }
                    let sp0 = p.regs0[SP] as usize;
                    if stack_hash(&vm, p.regs0[SSP] as usize, sp0) != p.own_hash { ctx.oracle_fail("caller-frame-locals-changed", &input, "caller's own stack [$ssp,$sp) differs after the return"); }
                    if stack_hash(&vm, lo, sp0) != p.stack_hash { ctx.oracle_fail("caller-stack-changed", &input, "bytes [script $ssp, caller $sp) differ after the return"); }
                    if depth(&vm) != p.depth { ctx.oracle_fail("depth-not-restored", &input, &format!("{} vs {}", depth(&vm), p.depth)); }
                    let hp = regs[HP] as usize;
                    match vm.memory().read(hp, MEM_SIZE - hp) {
                        Ok(s) => if h(s) != heap_hash { ctx.oracle_fail("callee-heap-changed", &input, "heap bytes differ after the return"); },
                        Err(_) => ctx.oracle_fail("callee-heap-unreadable", &input, "heap [$hp, MEM_SIZE) not readable after the return"),
                    }
                    if regs2[HP] < p.regs0[HP] { ctx.count("ret.callee-allocated-heap"); }
                }
            }
        }
        // ---- what is about to execute?
        let pc = regs[PC];
        if let Ok(raw) = vm.memory().read_bytes::<_, 4>(pc) {
            if let Ok(ins) = Instruction::try_from(raw) {
                match ins {
                    Instruction::CALL(op) => {
                        let (ra, rb, rc, rd) = op.unpack();
                        let (a, b, c, d) = (regs[ra.to_u8() as usize], regs[rb.to_u8() as usize], regs[rc.to_u8() as usize], regs[rd.to_u8() as usize]);
                        let cb = vm.memory().read(a, 48usize).map(|s| s.to_vec());
                        let asset = vm.memory().read(c, 32usize).map(|s| s.to_vec());
                        if let (Ok(cb), Ok(asset)) = (cb, asset) {
                            let sp = regs[SP] as usize;
                            let sh = stack_hash(&vm, lo, sp);
                            let bal_before = balance_word(&vm, &asset);
                            prev = Prev::Call { regs0: regs.clone(), a, b, c, d, call_bytes: cb, asset, stack_len: vm.memory().stack_raw().len(), stack_hash: sh, own_hash: stack_hash(&vm, regs[SSP] as usize, sp), depth: depth(&vm), bal_before };
                        }
                    }
                    Instruction::RET(op) if regs[FP] != 0 => {
                        let a = regs[op.unpack().to_u8() as usize];
                        let hp = regs[HP] as usize;
                        let heap_hash = h(vm.memory().read(hp, MEM_SIZE - hp).unwrap_or(&[]));
                        let charge = costs.ret();
                        prev = Prev::Ret { regs2: regs.clone(), line: format!("ret {} {a} {charge}", regs_csv(&regs)), heap_hash, charge, want_ret: (a, 0) };
                    }
                    Instruction::RETD(op) if regs[FP] != 0 => {
                        let (ra, rb) = op.unpack();
                        let hp = regs[HP] as usize;
                        let heap_hash = h(vm.memory().read(hp, MEM_SIZE - hp).unwrap_or(&[]));
                        // a RETD whose data range is unreadable panics instead of returning
                        let (pa, pb) = (regs[ra.to_u8() as usize], regs[rb.to_u8() as usize]);
                        if vm.memory().read(pa, pb).is_ok() {
                            let charge = costs.retd().resolve(pb);
                            prev = Prev::Ret { regs2: regs.clone(), line: format!("retd {} {pa} {pb} {charge}", regs_csv(&regs)), heap_hash, charge, want_ret: (pa, pb) };
                        }
                    }
                    _ => {}
                }
            }
        }
        state = match ctx.guard(|| vm.resume().map_err(|e| g::err_name(&e))) {
            Ok(Ok(s)) => s, Ok(Err(_)) => break, Err(m) => { ctx.oracle_fail("panic-resume", tag, &m); break; }
        };
    }
    if max_depth > 0 { ctx.count(&format!("depth.{}", max_depth.min(8))); let mut k = tag.as_bytes().to_vec(); k.push(max_depth as u8); ctx.distinct(&k); }
}

pub fn run(ctx: &mut Ctx) {
    // corpus: a contract that allocates heap, writes to it and returns data pointing into it; called twice
    let n = ctx.n(120, 1200);
    for i in 0..n {
        let gas = *ctx.rng.pick(&[30_000u64, 100_000, 400_000]);
        let mut knobs = g::Knobs::normal();
        knobs.fault_pm = if ctx.rng.chance(1, 2) { 0 } else { 10 };
        knobs.call_heavy = true;
        let seed_before = ctx.rng.0;
        let case = match ctx.guard(|| { let mut r = crate::ctx::Rng(seed_before); let c = g::gen_case(&mut r, knobs, gas, None); (c, r) }) {
            Ok((c, r)) => { ctx.rng = r; c }
            Err(m) => { ctx.rng.next(); ctx.count("gen.failed"); ctx.note(&format!("generator panicked: {m}")); continue; }
        };
        one_case(ctx, &case, &format!("case#{i} rng={seed_before:#x} gas={gas}"));
    }
}
