//! C30 — execution touches only the state of contracts listed as inputs.
//! A recording `InterpreterStorage` wrapper around `MemoryStorage` logs every access to the contract tables
//! (ContractsRawCode, ContractsAssets, ContractsState) with the contract id it concerns. Generated scripts and
//! contracts address contract ids in and out of the inputs (deployed-but-unlisted and absent ones) through CALL, TR,
//! BAL, CCP, CROO, CSIZ, LDC and the storage / mint / burn opcodes; the run is single-stepped so that each access
//! is attributed to the instruction that made it.
//! Oracle (the statement itself): every logged contract id is among the transaction's contract inputs, and the
//! contract of the active frame is among them at every step. Predicates: run with the recording storage as the
//! predicate storage backend — the log must stay empty.
//! Lean: `acc OP passed observed` — the observed (table:whose) pairs must be allowed by the model's site table;
//! `frames` lines replay the frame invariant.
use crate::{ctx::Ctx, gen::{instr_gen, vm_gen as g}, util::hex};
use fuel_asm::{Instruction, RegId};
use fuel_storage::{Mappable, StorageInspect, StorageMutate, StorageRead, StorageReadError, StorageSize, StorageWrite};
use fuel_tx::{ConsensusParameters, Input, Script, TransactionBuilder};
use fuel_types::{BlockHeight, Bytes32, ContractId, Word};
use fuel_vm::{
    checked_transaction::{CheckPredicateParams, EstimatePredicates, IntoChecked},
    interpreter::{InterpreterParams, MemoryInstance, NotSupportedEcal},
    prelude::*,
    storage::{
        predicate::PredicateStorageRequirements, BlobData, ContractsAssets, ContractsAssetsStorage, ContractsRawCode, ContractsState,
        InterpreterStorage, MemoryStorage, UploadedBytecodes,
    },
};
use std::{borrow::Cow, cell::RefCell, convert::Infallible};

#[derive(Clone, Copy, PartialEq, Eq, Debug)]
enum Tab { Code, Balance, State }
impl Tab { fn name(&self) -> &'static str { match self { Tab::Code => "code", Tab::Balance => "balance", Tab::State => "state" } } }

pub struct Rec { inner: MemoryStorage, log: RefCell<Vec<(Tab, ContractId)>> }
impl Rec {
    fn new(inner: MemoryStorage) -> Self { Rec { inner, log: RefCell::new(vec![]) } }
    fn note(&self, t: Tab, c: &ContractId) { self.log.borrow_mut().push((t, *c)); }
    fn drain(&self) -> Vec<(Tab, ContractId)> { std::mem::take(&mut *self.log.borrow_mut()) }
}

trait KeyContract { fn contract(&self) -> ContractId; }
impl KeyContract for ContractId { fn contract(&self) -> ContractId { *self } }
impl KeyContract for fuel_vm::storage::ContractsAssetKey { fn contract(&self) -> ContractId { *self.contract_id() } }
impl KeyContract for fuel_vm::storage::ContractsStateKey { fn contract(&self) -> ContractId { *self.contract_id() } }

macro_rules! logged_inspect_mutate {
    ($table:ty, $tab:expr) => {
        impl StorageInspect<$table> for Rec {
            type Error = Infallible;
            fn get(&self, key: &<$table as Mappable>::Key) -> Result<Option<Cow<'_, <$table as Mappable>::OwnedValue>>, Infallible> {
                self.note($tab, &key.contract());
                <MemoryStorage as StorageInspect<$table>>::get(&self.inner, key)
            }
            fn contains_key(&self, key: &<$table as Mappable>::Key) -> Result<bool, Infallible> {
                self.note($tab, &key.contract());
                <MemoryStorage as StorageInspect<$table>>::contains_key(&self.inner, key)
            }
        }
        impl StorageMutate<$table> for Rec {
            fn replace(&mut self, key: &<$table as Mappable>::Key, value: &<$table as Mappable>::Value) -> Result<Option<<$table as Mappable>::OwnedValue>, Infallible> {
                self.note($tab, &key.contract());
                <MemoryStorage as StorageMutate<$table>>::replace(&mut self.inner, key, value)
            }
            fn take(&mut self, key: &<$table as Mappable>::Key) -> Result<Option<<$table as Mappable>::OwnedValue>, Infallible> {
                self.note($tab, &key.contract());
                <MemoryStorage as StorageMutate<$table>>::take(&mut self.inner, key)
            }
        }
    };
}
macro_rules! logged_size_read_write {
    ($table:ty, $tab:expr) => {
        impl StorageSize<$table> for Rec {
            fn size_of_value(&self, key: &<$table as Mappable>::Key) -> Result<Option<usize>, Infallible> {
                self.note($tab, &key.contract());
                <MemoryStorage as StorageSize<$table>>::size_of_value(&self.inner, key)
            }
        }
        impl StorageRead<$table> for Rec {
            fn read_exact(&self, key: &<$table as Mappable>::Key, offset: usize, buf: &mut [u8]) -> Result<Result<usize, StorageReadError>, Infallible> {
                self.note($tab, &key.contract());
                <MemoryStorage as StorageRead<$table>>::read_exact(&self.inner, key, offset, buf)
            }
            fn read_zerofill(&self, key: &<$table as Mappable>::Key, offset: usize, buf: &mut [u8]) -> Result<Result<usize, StorageReadError>, Infallible> {
                self.note($tab, &key.contract());
                <MemoryStorage as StorageRead<$table>>::read_zerofill(&self.inner, key, offset, buf)
            }
            fn read_alloc(&self, key: &<$table as Mappable>::Key) -> Result<Option<Vec<u8>>, Infallible> {
                self.note($tab, &key.contract());
                <MemoryStorage as StorageRead<$table>>::read_alloc(&self.inner, key)
            }
        }
        impl StorageWrite<$table> for Rec {
            fn write_bytes(&mut self, key: &<$table as Mappable>::Key, buf: &[u8]) -> Result<(), Infallible> {
                self.note($tab, &key.contract());
                <MemoryStorage as StorageWrite<$table>>::write_bytes(&mut self.inner, key, buf)
            }
            fn replace_bytes(&mut self, key: &<$table as Mappable>::Key, buf: &[u8]) -> Result<Option<Vec<u8>>, Infallible> {
                self.note($tab, &key.contract());
                <MemoryStorage as StorageWrite<$table>>::replace_bytes(&mut self.inner, key, buf)
            }
            fn take_bytes(&mut self, key: &<$table as Mappable>::Key) -> Result<Option<Vec<u8>>, Infallible> {
                self.note($tab, &key.contract());
                <MemoryStorage as StorageWrite<$table>>::take_bytes(&mut self.inner, key)
            }
        }
    };
}
logged_inspect_mutate!(ContractsRawCode, Tab::Code);
logged_size_read_write!(ContractsRawCode, Tab::Code);
logged_inspect_mutate!(ContractsAssets, Tab::Balance);
logged_inspect_mutate!(ContractsState, Tab::State);
logged_size_read_write!(ContractsState, Tab::State);

// tables that are not contract state: plain delegation
macro_rules! plain_inspect_mutate {
    ($table:ty) => {
        impl StorageInspect<$table> for Rec {
            type Error = Infallible;
            fn get(&self, key: &<$table as Mappable>::Key) -> Result<Option<Cow<'_, <$table as Mappable>::OwnedValue>>, Infallible> { <MemoryStorage as StorageInspect<$table>>::get(&self.inner, key) }
            fn contains_key(&self, key: &<$table as Mappable>::Key) -> Result<bool, Infallible> { <MemoryStorage as StorageInspect<$table>>::contains_key(&self.inner, key) }
        }
        impl StorageMutate<$table> for Rec {
            fn replace(&mut self, key: &<$table as Mappable>::Key, value: &<$table as Mappable>::Value) -> Result<Option<<$table as Mappable>::OwnedValue>, Infallible> { <MemoryStorage as StorageMutate<$table>>::replace(&mut self.inner, key, value) }
            fn take(&mut self, key: &<$table as Mappable>::Key) -> Result<Option<<$table as Mappable>::OwnedValue>, Infallible> { <MemoryStorage as StorageMutate<$table>>::take(&mut self.inner, key) }
        }
    };
}
plain_inspect_mutate!(UploadedBytecodes);
plain_inspect_mutate!(BlobData);
impl StorageSize<BlobData> for Rec {
    fn size_of_value(&self, key: &fuel_types::BlobId) -> Result<Option<usize>, Infallible> { <MemoryStorage as StorageSize<BlobData>>::size_of_value(&self.inner, key) }
}
impl StorageRead<BlobData> for Rec {
    fn read_exact(&self, key: &fuel_types::BlobId, offset: usize, buf: &mut [u8]) -> Result<Result<usize, StorageReadError>, Infallible> { <MemoryStorage as StorageRead<BlobData>>::read_exact(&self.inner, key, offset, buf) }
    fn read_zerofill(&self, key: &fuel_types::BlobId, offset: usize, buf: &mut [u8]) -> Result<Result<usize, StorageReadError>, Infallible> { <MemoryStorage as StorageRead<BlobData>>::read_zerofill(&self.inner, key, offset, buf) }
    fn read_alloc(&self, key: &fuel_types::BlobId) -> Result<Option<Vec<u8>>, Infallible> { <MemoryStorage as StorageRead<BlobData>>::read_alloc(&self.inner, key) }
}
impl StorageWrite<BlobData> for Rec {
    fn write_bytes(&mut self, key: &fuel_types::BlobId, buf: &[u8]) -> Result<(), Infallible> { <MemoryStorage as StorageWrite<BlobData>>::write_bytes(&mut self.inner, key, buf) }
    fn replace_bytes(&mut self, key: &fuel_types::BlobId, buf: &[u8]) -> Result<Option<Vec<u8>>, Infallible> { <MemoryStorage as StorageWrite<BlobData>>::replace_bytes(&mut self.inner, key, buf) }
    fn take_bytes(&mut self, key: &fuel_types::BlobId) -> Result<Option<Vec<u8>>, Infallible> { <MemoryStorage as StorageWrite<BlobData>>::take_bytes(&mut self.inner, key) }
}
impl ContractsAssetsStorage for Rec {}
impl InterpreterStorage for Rec {
    type DataError = Infallible;
    fn block_height(&self) -> Result<BlockHeight, Infallible> { self.inner.block_height() }
    fn consensus_parameters_version(&self) -> Result<u32, Infallible> { self.inner.consensus_parameters_version() }
    fn state_transition_version(&self) -> Result<u32, Infallible> { self.inner.state_transition_version() }
    fn timestamp(&self, height: BlockHeight) -> Result<Word, Infallible> { self.inner.timestamp(height) }
    fn block_hash(&self, h: BlockHeight) -> Result<Bytes32, Infallible> { self.inner.block_hash(h) }
    fn coinbase(&self) -> Result<ContractId, Infallible> { self.inner.coinbase() }
    fn set_consensus_parameters(&mut self, v: u32, p: &ConsensusParameters) -> Result<Option<ConsensusParameters>, Infallible> { self.inner.set_consensus_parameters(v, p) }
    fn set_state_transition_bytecode(&mut self, v: u32, h: &Bytes32) -> Result<Option<Bytes32>, Infallible> { self.inner.set_state_transition_bytecode(v, h) }
    fn contract_state_remove_range(&mut self, contract: &ContractId, start_key: &Bytes32, range: usize) -> Result<(), Infallible> {
        self.note(Tab::State, contract);
        self.inner.contract_state_remove_range(contract, start_key, range)
    }
}
impl PredicateStorageRequirements for Rec {
    fn storage_error_to_string(error: Infallible) -> String { match error {} }
}

type Vm = Interpreter<MemoryInstance, Rec, Script>;

fn mnemonic(op: u8) -> &'static str { instr_gen::TABLE.iter().find(|r| r.0 == op).map(|r| r.1).unwrap_or("?") }

fn one_case(ctx: &mut Ctx, case: &g::Case, tag: &str) {
    let mut vm: Vm = Interpreter::with_storage(MemoryInstance::new(), Rec::new(case.storage.clone()), InterpreterParams::new(0, &case.params));
    run_on_vm(ctx, &mut vm, case, tag);
}

/// one transaction on a (possibly already used) interpreter; `listed` is THIS transaction's contract-input set
/// does any contract-table entry (code, a balance of one of the case's assets, a storage slot) exist for `id`
fn has_entry(st: &MemoryStorage, id: &ContractId, assets: &[fuel_types::AssetId]) -> bool {
    use fuel_vm::storage::ContractsAssetsStorage as _;
    <MemoryStorage as StorageInspect<ContractsRawCode>>::contains_key(st, id).unwrap_or(false)
        || assets.iter().any(|a| st.contract_asset_id_balance(id, a).ok().flatten().is_some())
        || st.all_contract_state().any(|(k, _)| k.contract_id() == id)
}

fn run_on_vm(ctx: &mut Ctx, vm: &mut Vm, case: &g::Case, tag: &str) {
    let listed: Vec<ContractId> = case.listed.iter().map(|i| case.call_ids[*i]).collect();
    // ids that must not gain contract-table entries unless listed: every call-struct id, zero, 0xff.., the tx id
    let tx_id = { use fuel_tx::UniqueIdentifier; case.checked.transaction().id(&case.params.chain_id()) };
    let mut probe: Vec<ContractId> = case.call_ids.to_vec();
    probe.extend([ContractId::zeroed(), ContractId::new([0xff; 32]), ContractId::new(*tx_id)]);
    let assets: Vec<fuel_types::AssetId> = { use fuel_tx::field::ScriptData; let d = case.checked.transaction().script_data();
        (0..4).filter_map(|i| d.get(g::OFF_ASSETS as usize + 32 * i..g::OFF_ASSETS as usize + 32 * i + 32).map(|b| fuel_types::AssetId::try_from(b).unwrap())).collect() };
    let before: Vec<bool> = probe.iter().map(|c| has_entry(&vm.as_ref().inner, c, &assets)).collect();
    let after_check = |ctx: &mut Ctx, vm: &Vm| {
        for (c, b) in probe.iter().zip(before.iter()) {
            if !listed.contains(c) && !*b && has_entry(&vm.as_ref().inner, c, &assets) {
                ctx.oracle_fail("unlisted-contract-entry-created", &format!("{tag} contract={}", hex(&c.as_ref()[..4])),
                    "a ContractsAssets / ContractsRawCode / ContractsState entry exists after the transaction for a contract that is not among its inputs and had none before");
            }
        }
    };
    vm.as_ref().drain();
    vm.set_single_stepping(true);
    let check = |ctx: &mut Ctx, what: &str, log: &[(Tab, ContractId)]| {
        for (t, c) in log {
            if !listed.contains(c) {
                ctx.oracle_fail(&format!("unlisted-access-{what}-{}", t.name()), &format!("{tag} contract={} listed={}", hex(&c.as_ref()[..4]), listed.len()),
                    &format!("{what} touched the {} table of a contract that is not among the inputs", t.name()));
            }
        }
    };
    let mut state = match ctx.guard(|| vm.transact(case.ready()).map(ProgramState::from).map_err(|e| g::err_name(&e))) {
        Ok(Ok(s)) => s, Ok(Err(_)) => { let l = vm.as_ref().drain(); check(ctx, "init", &l); return; } Err(m) => { ctx.oracle_fail("panic-transact", tag, &m); return; } };
    let l = vm.as_ref().drain();
    check(ctx, "init", &l);
    let mut events: Vec<String> = vec![];
    let mut steps = 0;
    while state.is_debug() {
        steps += 1;
        if steps > 3000 { ctx.count("skipped-long"); break; }
        let regs = vm.registers().to_vec();
        let (pc, fp) = (regs[0x03], regs[0x06]);
        // the active contract is listed
        let current: Option<ContractId> = if fp != 0 { vm.memory().read_bytes::<_, 32>(fp).ok().map(ContractId::from) } else { None };
        if let Some(c) = current { if !listed.contains(&c) { ctx.oracle_fail("active-contract-not-listed", &format!("{tag} pc={pc}"), &hex(c.as_ref())); } }
        let ins = vm.memory().read_bytes::<_, 4>(pc).ok().and_then(|r| Instruction::try_from(r).ok());
        // the contract the instruction names, if it is one of the checked sites
        let target: Option<ContractId> = ins.and_then(|i| {
            let ptr = match i {
                Instruction::CALL(o) => Some(regs[o.unpack().0.to_u8() as usize]),
                Instruction::TR(o) => Some(regs[o.unpack().0.to_u8() as usize]),
                Instruction::BAL(o) => Some(regs[o.unpack().2.to_u8() as usize]),
                Instruction::CCP(o) => Some(regs[o.unpack().1.to_u8() as usize]),
                Instruction::CROO(o) => Some(regs[o.unpack().1.to_u8() as usize]),
                Instruction::CSIZ(o) => Some(regs[o.unpack().1.to_u8() as usize]),
                Instruction::LDC(o) => if u8::from(o.unpack().3) == 0 { Some(regs[o.unpack().0.to_u8() as usize]) } else { None },
                _ => None,
            };
            ptr.and_then(|p| vm.memory().read_bytes::<_, 32>(p).ok().map(ContractId::from))
        });
        let receipts_before = vm.receipts().len();
        state = match ctx.guard(|| vm.resume().map_err(|e| g::err_name(&e))) {
            Ok(Ok(s)) => s, Ok(Err(_)) => break, Err(m) => { ctx.oracle_fail("panic-resume", tag, &m); break; } };
        let log = vm.as_ref().drain();
        let Some(ins) = ins else { continue };
        let name = mnemonic(ins.opcode() as u8);
        check(ctx, name, &log);
        // classify for the model: did the instruction pass (no panic receipt appended) ?
        let panicked = vm.receipts()[receipts_before.min(vm.receipts().len())..].iter().any(|r| matches!(r, fuel_tx::Receipt::Panic { .. }));
        let not_in_inputs = vm.receipts().iter().any(|r| matches!(r, fuel_tx::Receipt::Panic { reason, .. } if *reason.reason() == fuel_asm::PanicReason::ContractNotInInputs));
        if !log.is_empty() || target.is_some() {
            let mut obs: Vec<String> = log.iter().map(|(t, c)| format!("{}:{}", t.name(), if Some(*c) == target { "target" } else if Some(*c) == current { "current" } else { "other" })).collect();
            obs.sort(); obs.dedup();
            let passed = !panicked;
            // only instructions that completed, or that were refused by the verifier, have a deterministic access set
            if passed || not_in_inputs || (panicked && target.map(|t| !listed.contains(&t)).unwrap_or(false)) {
                ctx.emit(&format!("acc {name} {} {}", passed as u8, if obs.is_empty() { "-".to_string() } else { obs.join(",") }), "ok");
                ctx.count(&format!("acc.{name}.{}", if passed { "passed" } else { "refused" }));
                if let Some(t) = target { if !listed.contains(&t) { ctx.count(&format!("acc.{name}.unlisted-target")); } }
                if let Some(t) = target {
                    let kind = if t == ContractId::zeroed() { Some("zero") } else if t == ContractId::new([0xff; 32]) { Some("ff") } else if *t == *tx_id { Some("txid") }
                        else if listed.iter().any(|l| l.as_ref()[..31] == t.as_ref()[..31] && *l != t) { Some("near-listed") } else if Some(t) == current { Some("self") } else { None };
                    if let Some(k) = kind { ctx.count(&format!("special.{name}.{k}.{}", if current.is_some() { "contract" } else { "script" })); }
                }
            }
        }
        // frame events for the invariant replay
        match ins {
            Instruction::CALL(_) if !panicked && vm.registers()[0x06] != fp => events.push(format!("c{}", hex(target.unwrap_or_default().as_ref()))),
            Instruction::RET(_) | Instruction::RETD(_) if fp != 0 && !panicked => events.push("r".into()),
            // a CALL refused by the verifier: the model must not push a frame for it (other panics are not frame events)
            Instruction::CALL(_) if panicked => { if let Some(t) = target { if !listed.contains(&t) { events.push(format!("c{}", hex(t.as_ref()))); } } }
            _ => {}
        }
        if panicked { break; }
    }
    after_check(ctx, vm);
    // depth of the frame chain now
    let mut depth = 0; let mut fp = vm.registers()[RegId::FP];
    while fp != 0 && depth < 1000 { let off = fp as usize + 64 + 8 * 6; let Ok(b) = vm.memory().read_bytes::<_, 8>(off) else { break }; fp = u64::from_be_bytes(b); depth += 1; }
    if !events.is_empty() && steps <= 3000 {
        let ins = if listed.is_empty() { "-".to_string() } else { listed.iter().map(|c| hex(c.as_ref())).collect::<Vec<_>>().join(",") };
        // a refused CALL leaves the frames as they were; the run ends there, so the live depth is the model's
        ctx.emit(&format!("frames {ins} {}", events.join(",")), &format!("{depth} listed"));
        ctx.distinct(format!("{tag}{}", events.len()).as_bytes());
    }
}

fn predicates(ctx: &mut Ctx) {
    let params = ConsensusParameters::standard();
    let cp: CheckPredicateParams = (&params).into();
    let n = ctx.n(60, 600);
    for i in 0..n {
        // predicates full of contract instructions (all must be refused without touching storage)
        let mut code: Vec<u8> = vec![];
        let k = ctx.rng.range(1, 6);
        for _ in 0..k {
            let row = ctx.rng.pick(instr_gen::TABLE);
            let args: Vec<u32> = row.2.iter().map(|k| { let bits = if *k == 0 { 6 } else { *k as u32 }; if *k == 0 { *ctx.rng.pick(&[0u32, 1, 4, 5, 6, 7]) } else { (ctx.rng.word() as u32) & ((1u32 << bits) - 1) } }).collect();
            if let Some(ins) = instr_gen::construct(row.0, &args) { code.extend_from_slice(&u32::from(ins).to_be_bytes()); }
        }
        code.extend_from_slice(&u32::from(fuel_asm::op::ret(RegId::ONE)).to_be_bytes());
        let owner = Input::predicate_owner(&code);
        let mut b = TransactionBuilder::script(vec![], vec![]);
        b.script_gas_limit(10_000);
        b.add_input(Input::coin_predicate(fuel_tx::UtxoId::new(ctx.rng.arr32().into(), 0), owner, 10, Default::default(), Default::default(), 0, code.clone(), vec![]));
        let mut tx = b.finalize();
        let rec = Rec::new(MemoryStorage::default());
        let _ = ctx.guard(|| tx.estimate_predicates(&cp, MemoryInstance::new(), &rec).map(|_| ()).map_err(|_| ()));
        if let Ok(Ok(checked)) = ctx.guard(|| tx.clone().into_checked_basic(Default::default(), &params)) {
            use fuel_vm::interpreter::predicates::check_predicates;
            let _ = ctx.guard(|| check_predicates(&checked, &cp, MemoryInstance::new(), &rec, NotSupportedEcal).map(|_| ()).map_err(|_| ()));
        }
        let log = rec.drain();
        if !log.is_empty() { ctx.oracle_fail("predicate-touched-contract-state", &format!("pred#{i} code={}", hex(&code)), &format!("{} accesses", log.len())); }
        ctx.count("predicate.run");
        ctx.emit(&format!("acc PREDICATE 1 {}", if log.is_empty() { "-".to_string() } else { "code:other".to_string() }), "ok");
    }
}

/// corpus: EVERY contract-addressing opcode x EVERY special unlisted id x {script, contract} context, with non-zero amounts and
/// enough balance that the access would really happen if the check were skipped
fn special_id_corpus(ctx: &mut Ctx) {
    use fuel_asm::op;
    let ops = ["TR", "CALL", "BAL", "CCP", "CSIZ", "CROO", "LDC"];
    let kinds = ["slot-zero", "slot-ff", "slot-near-listed", "vm-addr-0-txid", "vm-addr-32-base-asset", "fresh-heap"];
    for (oi, opname) in ops.iter().enumerate() {
        for (ki, kind) in kinds.iter().enumerate() {
            for internal in [false, true] {
                let n_contracts = 1usize;
                let mut acc: Vec<Instruction> = vec![op::gtf_args(g::R_BASE, RegId::ZERO, fuel_asm::GTFArgs::ScriptData)];
                match ki {
                    0 | 1 | 2 => acc.push(op::addi(g::R_T1, g::R_BASE, g::OFF_CALLS + 48 * (n_contracts + ki) as u16)),
                    3 => acc.push(op::move_(g::R_T1, RegId::ZERO)),
                    4 => acc.push(op::movi(g::R_T1, 32)),
                    _ => { acc.push(op::movi(g::R_T6, 48)); acc.push(op::aloc(g::R_T6)); acc.push(op::move_(g::R_T1, RegId::HP)); }
                }
                acc.push(op::addi(g::R_T2, g::R_BASE, g::OFF_ASSETS));
                acc.push(op::movi(g::R_T3, 1));
                match oi {
                    0 => acc.push(op::tr(g::R_T1, g::R_T3, g::R_T2)),
                    1 => acc.push(op::call(g::R_T1, g::R_T3, g::R_T2, RegId::CGAS)),
                    2 => acc.push(op::bal(0x20, g::R_T2, g::R_T1)),
                    3 => { acc.push(op::movi(g::R_T6, 16)); acc.push(op::aloc(g::R_T6)); acc.push(op::ccp(RegId::HP, g::R_T1, RegId::ZERO, g::R_T6)); }
                    4 => acc.push(op::csiz(0x20, g::R_T1)),
                    5 => { acc.push(op::movi(g::R_T6, 32)); acc.push(op::aloc(g::R_T6)); acc.push(op::croo(RegId::HP, g::R_T1)); }
                    _ => { acc.push(op::movi(g::R_T6, 8)); acc.push(op::ldc(g::R_T1, RegId::ZERO, g::R_T6, 0)); }
                }
                acc.push(op::log(0x20, RegId::ONE, RegId::ZERO, RegId::ZERO));
                acc.push(op::ret(RegId::ONE));
                let (contract, script) = if internal {
                    (acc, vec![op::gtf_args(g::R_BASE, RegId::ZERO, fuel_asm::GTFArgs::ScriptData), op::addi(g::R_T1, g::R_BASE, g::OFF_CALLS),
                               op::addi(g::R_T2, g::R_BASE, g::OFF_ASSETS), op::call(g::R_T1, RegId::ZERO, g::R_T2, RegId::CGAS), op::ret(RegId::ONE)])
                } else { (vec![op::ret(RegId::ONE)], acc) };
                let seed = 0xC30_0000 + (oi * 100 + ki * 10 + internal as usize) as u64;
                let tag = format!("special-id op={opname} id={kind} context={}", if internal { "contract" } else { "script" });
                match ctx.guard(move || g::fixed_case(seed, &[contract], script, &[(0, 0)], 200_000)) {
                    Ok(case) => { one_case(ctx, &case, &tag); ctx.count("corpus.special-id"); }
                    Err(m) => { ctx.count("corpus.rejected"); ctx.note(&format!("{tag}: {m}")); }
                }
            }
        }
    }
}

pub fn run(ctx: &mut Ctx) {
    special_id_corpus(ctx);
    let n = ctx.n(150, 1500);
    for i in 0..n {
        let gas = *ctx.rng.pick(&[20_000u64, 100_000]);
        let mut knobs = g::Knobs::normal();
        knobs.fault_pm = 0;
        knobs.unlisted_pm = *ctx.rng.pick(&[0, 200, 500]);
        knobs.code_ops = true;
        knobs.special_ids = true;
        let seed = ctx.rng.0;
        match ctx.guard(|| { let mut r = crate::ctx::Rng(seed); let c = g::gen_case(&mut r, knobs, gas, None); (c, r) }) {
            Ok((c, r)) => { ctx.rng = r; one_case(ctx, &c, &format!("case#{i} rng={seed:#x} gas={gas} unlisted_pm={}", knobs.unlisted_pm)); }
            Err(_) => { ctx.rng.next(); ctx.count("gen.failed"); }
        }
    }
    // sequences of transactions with DIFFERENT contract-input sets over one world on ONE reused interpreter: what an
    // earlier transaction listed must not be reachable by a later one that does not list it
    let nseq = ctx.n(40, 400);
    for i in 0..nseq {
        let mut knobs = g::Knobs::normal();
        knobs.fault_pm = 0;
        knobs.unlisted_pm = 600;
        knobs.code_ops = true;
        knobs.special_ids = true;
        knobs.max_blocks = 6;
        let k = ctx.rng.range(3, 5) as usize;
        let seed = ctx.rng.0;
        let cases = match ctx.guard(|| { let mut r = crate::ctx::Rng(seed); let c = g::gen_world_cases(&mut r, knobs, 60_000, k); (c, r) }) {
            Ok((c, r)) => { ctx.rng = r; c }
            Err(m) => { ctx.rng.next(); ctx.count("gen.failed"); ctx.note(&format!("world generator panicked: {m}")); continue; }
        };
        let mut vm: Vm = Interpreter::with_storage(MemoryInstance::new(), Rec::new(cases[0].storage.clone()), InterpreterParams::new(0, &cases[0].params));
        let mut seen: Vec<ContractId> = vec![];
        for (j, case) in cases.iter().enumerate() {
            let now: Vec<ContractId> = case.listed.iter().map(|x| case.call_ids[*x]).collect();
            if seen.iter().any(|c| !now.contains(c)) { ctx.count("reuse.tx-drops-an-earlier-input"); }
            run_on_vm(ctx, &mut vm, case, &format!("seq#{i} tx{j}/{k} rng={seed:#x} listed={:?}", case.listed));
            for c in now { if !seen.contains(&c) { seen.push(c); } }
            ctx.count("reuse.tx");
        }
    }
    predicates(ctx);
}
