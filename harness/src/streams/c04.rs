//! C04 — reported field offsets locate the field's bytes in the encoding. Calls the real offset functions
//! of fuel-tx (`field::*` traits on `Script`/`Create`/`Upgrade`/`Upload`/`Blob`/`Mint`, `Input::predicate_*`,
//! `InputRepr::*_offset`, `OutputRepr::*_offset`) without metadata and again after `Cacheable::precompute`,
//! and prints every offset; the Lean driver (`Drv/C04.lean`) answers the same request with the model
//! (Model/Offsets.lean). Oracle (independent of the model): the slice of `to_bytes()` at each reported
//! offset equals the canonical bytes of the field it is reported for; `None` exactly for absent indices;
//! cached answers = uncached answers.
#[path = "../codec/mod.rs"]
mod codec;
use crate::ctx::Ctx;
use codec::*;
use fuel_tx::{
    field::{self, BlobId as _, BytecodeRoot as _, BytecodeWitnessIndex as _, ChargeableBody, InputContract as _, Inputs, MintAmount as _, MintAssetId as _,
        MintGasPrice as _, OutputContract as _, Outputs, ProofSet as _, ReceiptsRoot as _, Salt as _, Script as _, ScriptData as _, ScriptGasLimit as _,
        StorageSlots as _, SubsectionIndex as _, SubsectionsNumber as _, TxPointer as _, UpgradePurpose as _, Witnesses},
    policies::Policies, BlobBody, Cacheable, ConsensusParameters, Input, Output, StorageSlot, Transaction, UpgradePurpose, UploadBody, Witness,
};
use fuel_types::{canonical::Serialize, ChainId};

fn opt(x: Option<usize>) -> String { x.map(|v| v.to_string()).unwrap_or_else(|| "-".into()) }
fn pad(x: &[u8]) -> Vec<u8> { let mut v = x.to_vec(); while v.len() % 8 != 0 { v.push(0); } v }
fn be8(x: u64) -> Vec<u8> { x.to_be_bytes().to_vec() }

struct Rep<'a> { ctx: &'a mut Ctx, class: String, req: String, bytes: Vec<u8>, out: Vec<String>, check: bool }
impl Rep<'_> {
    /// print `key=off`; oracle: `bytes[off..off+expect.len()] == expect` (`expect = None`: the field is absent, the offset must be `None`)
    fn at(&mut self, key: &str, field: &str, off: Option<usize>, expect: Option<Vec<u8>>) {
        self.out.push(format!("{key}={}", opt(off)));
        if !self.check { return; }
        match (off, expect) {
            (None, None) => {}
            (Some(o), None) => self.fail(field, &format!("{key}: offset {o} reported for an absent field / index")),
            (None, Some(_)) => self.fail(field, &format!("{key}: no offset reported for a present field")),
            (Some(o), Some(e)) => {
                let got = o.checked_add(e.len()).and_then(|end| self.bytes.get(o..end));
                if got != Some(&e[..]) {
                    let d = format!("{key}: bytes at {o} are {} but the field encodes to {}", got.map(crate::util::hex).unwrap_or("out-of-range".into()), crate::util::hex(&e));
                    self.fail(field, &d);
                }
            }
        }
    }
    /// an offset that is reported for the *kind* of item, whether or not this variant has the field (repr tables)
    fn at_repr(&mut self, key: &str, field: &str, off: Option<usize>, expect: Option<Vec<u8>>) {
        match (off, expect) {
            (Some(_), None) => { self.out.push(format!("{key}={}", opt(off))); }
            (o, e) => self.at(key, field, o, e),
        }
    }
    fn fail(&mut self, field: &str, detail: &str) {
        let fp = format!("offset-{}-{field}", self.class);
        let (req, d) = (self.req.clone(), detail.to_string());
        self.ctx.oracle_fail(&fp, &req, &d);
    }
}

const INPUT_METHODS: [&str; 12] = ["utxo_id_offset", "owner_offset", "asset_id_offset", "data_offset", "coin_predicate_offset", "contract_balance_root_offset",
    "contract_state_root_offset", "contract_id_offset", "message_sender_offset", "message_recipient_offset", "message_nonce_offset", "tx_pointer_offset"];

fn input_part(r: &mut Rep, idx: usize, base: Option<usize>, i: &Input) {
    let rp = i.repr();
    let name = INPUT_NAMES[input_variant(i)];
    r.out.push(format!("i{idx}:{}", match rp { fuel_tx::InputRepr::Coin => "Coin", fuel_tx::InputRepr::Contract => "Contract", fuel_tx::InputRepr::Message => "Message" }));
    let abs = |o: Option<usize>| o.and_then(|o| base.map(|b| b + o));
    let offs = [rp.utxo_id_offset(), rp.owner_offset(), rp.asset_id_offset(), rp.data_offset(), rp.coin_predicate_offset(), rp.contract_balance_root_offset(),
        rp.contract_state_root_offset(), rp.contract_id_offset(), rp.message_sender_offset(), rp.message_recipient_offset(), rp.message_nonce_offset(), rp.tx_pointer_offset()];
    let is_coin = i.is_coin();
    let expects: [Option<Vec<u8>>; 12] = [
        i.utxo_id().map(|u| u.to_bytes()),
        i.input_owner().map(|a| a.to_vec()),
        if is_coin { i.asset_id(&Default::default()).map(|a| a.to_vec()) } else { None },
        if i.is_message() { Some(pad(i.input_data().unwrap_or(&[]))) } else { None },
        if is_coin { Some(pad(i.input_predicate().unwrap_or(&[]))) } else { None },
        i.balance_root().map(|a| a.to_vec()), i.state_root().map(|a| a.to_vec()), i.contract_id().map(|a| a.to_vec()),
        i.sender().map(|a| a.to_vec()), i.recipient().map(|a| a.to_vec()), i.nonce().map(|a| a.to_vec()),
        i.tx_pointer().map(|t| t.to_bytes()),
    ];
    for k in 0..12 {
        // printed relative to the input (what the function returns); checked at the absolute position
        r.out.push(format!("{}={}", INPUT_METHODS[k].trim_end_matches("_offset"), opt(offs[k])));
        if r.check {
            let save = r.out.len();
            r.at(&format!("i{idx}.{}", INPUT_METHODS[k]), &format!("input-{name}-{}", INPUT_METHODS[k]), abs(offs[k]), expects[k].clone());
            r.out.truncate(save);
        }
    }
    let (po, pdo) = (i.predicate_offset(), i.predicate_data_offset());
    r.out.push(format!("po={} pdo={} pl={}", opt(po), opt(pdo), opt(i.predicate_len())));
    if r.check {
        let save = r.out.len();
        r.at(&format!("i{idx}.predicate_offset"), &format!("input-{name}-predicate_offset"), abs(po), i.input_predicate().map(pad));
        r.at(&format!("i{idx}.predicate_data_offset"), &format!("input-{name}-predicate_data_offset"), abs(pdo), i.input_predicate_data().map(pad));
        r.out.truncate(save);
    }
}

fn output_part(r: &mut Rep, idx: usize, base: Option<usize>, o: &Output) {
    let rp = o.repr();
    let name = ["coin", "contract", "change", "variable", "contract-created"][output_variant(o)];
    let abs = |x: Option<usize>| x.and_then(|x| base.map(|b| b + x));
    let offs = [rp.to_offset(), rp.asset_id_offset(), rp.contract_balance_root_offset(), rp.contract_state_root_offset(), rp.contract_created_state_root_offset(), rp.contract_id_offset()];
    let names = ["to_offset", "asset_id_offset", "contract_balance_root_offset", "contract_state_root_offset", "contract_created_state_root_offset", "contract_id_offset"];
    let expects: [Option<Vec<u8>>; 6] = [
        o.to().map(|a| a.to_vec()), o.asset_id().map(|a| a.to_vec()), o.balance_root().map(|a| a.to_vec()),
        if o.is_contract() { o.state_root().map(|a| a.to_vec()) } else { None },
        if o.is_contract_created() { o.state_root().map(|a| a.to_vec()) } else { None },
        o.contract_id().map(|a| a.to_vec()),
    ];
    r.out.push(format!("o{idx}:{}", output_variant(o)));
    for k in 0..6 {
        r.out.push(format!("{}={}", names[k].trim_end_matches("_offset"), opt(offs[k])));
        if r.check {
            let save = r.out.len();
            r.at(&format!("o{idx}.{}", names[k]), &format!("output-{name}-{}", names[k]), abs(offs[k]), expects[k].clone());
            r.out.truncate(save);
        }
    }
}

fn common<T: Inputs + Outputs + Witnesses + field::Policies + Serialize>(r: &mut Rep, tx: &T, body_end: usize) {
    r.out.push(format!("end={body_end}"));
    // policies_offset points at the policy *values* (the dynamic part of `Policies`)
    let pol = fuel_tx::field::Policies::policies(tx);
    let mut pv = vec![];
    pol.encode_dynamic(&mut pv).unwrap();
    r.at("pol", "policies", Some(tx.policies_offset()), Some(pv));
    let cat = |v: Vec<Vec<u8>>| v.concat();
    r.at("in", "inputs", Some(tx.inputs_offset()), Some(cat(tx.inputs().iter().map(|i| i.to_bytes()).collect())));
    r.at("out", "outputs", Some(tx.outputs_offset()), Some(cat(tx.outputs().iter().map(|i| i.to_bytes()).collect())));
    r.at("wit", "witnesses", Some(tx.witnesses_offset()), Some(cat(tx.witnesses().iter().map(|i| i.to_bytes()).collect())));
    let n = tx.inputs().len();
    for i in 0..n + 2 {
        let inp = tx.inputs().get(i);
        let cls = inp.map(|x| format!("input-{}", INPUT_NAMES[input_variant(x)])).unwrap_or("input-absent".into());
        r.at(&format!("in@{i}"), &cls, tx.inputs_offset_at(i), inp.map(|x| x.to_bytes()));
        let p = tx.inputs_predicate_offset_at(i);
        r.out.push(format!("pred@{i}={}", p.map(|(a, b)| format!("{a}:{b}")).unwrap_or("-".into())));
        if r.check {
            let expect = inp.and_then(|x| if x.predicate_offset().is_some() { x.input_predicate().map(pad) } else { None });
            match (p, &expect) {
                (Some((_, l)), Some(e)) if l != e.len() => r.fail(&format!("{cls}-predicate-padded-length"), &format!("pred@{i}: length {l}, padded predicate has {}", e.len())),
                _ => {}
            }
            let save = r.out.len();
            r.at(&format!("pred@{i}"), &format!("{cls}-predicate-at"), p.map(|x| x.0), expect);
            r.out.truncate(save);
        }
    }
    for i in 0..n { let base = tx.inputs_offset_at(i); let x = tx.inputs()[i].clone(); input_part(r, i, base, &x); }
    let n = tx.outputs().len();
    for i in 0..n + 2 {
        let o = tx.outputs().get(i);
        let cls = o.map(|x| format!("output-{}", output_variant(x))).unwrap_or("output-absent".into());
        r.at(&format!("out@{i}"), &cls, tx.outputs_offset_at(i), o.map(|x| x.to_bytes()));
    }
    for i in 0..n { let base = tx.outputs_offset_at(i); let x = tx.outputs()[i].clone(); output_part(r, i, base, &x); }
    let n = tx.witnesses().len();
    for i in 0..n + 2 {
        let w = tx.witnesses().get(i);
        r.at(&format!("wit@{i}"), if w.is_some() { "witness" } else { "witness-absent" }, tx.witnesses_offset_at(i), w.map(|x| x.to_bytes()));
    }
}

fn report(ctx: &mut Ctx, t: &Transaction, req: &str, check: bool) -> Vec<String> {
    let kind = TX_NAMES[tx_variant(t)];
    let mut r = Rep { ctx, class: kind.to_string(), req: req.to_string(), bytes: t.to_bytes(), out: vec![], check };
    match t {
        Transaction::Script(tx) => {
            r.at("gas_limit", "script_gas_limit", Some(tx.script_gas_limit_offset()), Some(be8(*tx.script_gas_limit())));
            r.at("receipts_root", "receipts_root", Some(tx.receipts_root_offset()), Some(tx.receipts_root().to_vec()));
            r.at("script", "script", Some(tx.script_offset()), Some(pad(tx.script())));
            r.at("script_data", "script_data", Some(tx.script_data_offset()), Some(pad(tx.script_data())));
            common(&mut r, tx, tx.body_offset_end());
        }
        Transaction::Create(tx) => {
            r.at("bwi", "bytecode_witness_index", Some(tx.bytecode_witness_index_offset()), Some(be8(*tx.bytecode_witness_index() as u64)));
            r.at("salt", "salt", Some(tx.salt_offset()), Some(tx.salt().to_vec()));
            let n = tx.storage_slots().len();
            r.out.push(format!("slots={}", fuel_tx::Create::storage_slots_offset_static()));
            for i in 0..n + 2 { let s = tx.storage_slots().get(i); r.at(&format!("slot@{i}"), if s.is_some() { "storage_slot" } else { "storage_slot-absent" }, tx.storage_slots_offset_at(i), s.map(|x| x.to_bytes())); }
            common(&mut r, tx, tx.body_offset_end());
        }
        Transaction::Upgrade(tx) => {
            r.at("purpose", "upgrade_purpose", Some(tx.upgrade_purpose_offset()), Some(tx.upgrade_purpose().to_bytes()));
            common(&mut r, tx, tx.body_offset_end());
        }
        Transaction::Upload(tx) => {
            r.at("root", "bytecode_root", Some(tx.bytecode_root_offset()), Some(tx.bytecode_root().to_vec()));
            r.at("bwi", "bytecode_witness_index", Some(tx.bytecode_witness_index_offset()), Some(be8(*tx.bytecode_witness_index() as u64)));
            r.at("sub_index", "subsection_index", Some(tx.subsection_index_offset()), Some(be8(*tx.subsection_index() as u64)));
            r.at("sub_number", "subsections_number", Some(tx.subsections_number_offset()), Some(be8(*tx.subsections_number() as u64)));
            let n = tx.proof_set().len();
            r.out.push(format!("proofs={}", tx.proof_set_offset()));
            for i in 0..n + 2 { let s = tx.proof_set().get(i); r.at(&format!("proof@{i}"), if s.is_some() { "proof" } else { "proof-absent" }, tx.proof_set_offset_at(i), s.map(|x| x.to_vec())); }
            common(&mut r, tx, tx.body_offset_end());
        }
        Transaction::Blob(tx) => {
            r.at("blob_id", "blob_id", Some(tx.blob_id_offset()), Some(tx.blob_id().to_vec()));
            r.at("bwi", "bytecode_witness_index", Some(tx.bytecode_witness_index_offset()), Some(be8(*tx.bytecode_witness_index() as u64)));
            common(&mut r, tx, tx.body_offset_end());
        }
        Transaction::Mint(tx) => {
            r.at("tx_pointer", "tx_pointer", Some(tx.tx_pointer_offset()), Some(tx.tx_pointer().to_bytes()));
            r.at("input_contract", "input_contract", Some(tx.input_contract_offset()), Some(tx.input_contract().to_bytes()));
            r.at("output_contract", "output_contract", Some(tx.output_contract_offset()), Some(tx.output_contract().to_bytes()));
            r.at("mint_amount", "mint_amount", Some(tx.mint_amount_offset()), Some(be8(*tx.mint_amount())));
            r.at("mint_asset_id", "mint_asset_id", Some(tx.mint_asset_id_offset()), Some(tx.mint_asset_id().to_vec()));
            r.at("gas_price", "gas_price", Some(tx.gas_price_offset()), Some(be8(*tx.gas_price())));
        }
    }
    r.out
}

fn class_of(t: &Transaction) -> String {
    fn inner<T: Inputs + Outputs + Witnesses>(t: &T) -> String {
        let mut ks: Vec<usize> = t.inputs().iter().map(input_variant).collect(); ks.sort(); ks.dedup();
        format!("in{}{}-out{}-wit{}", t.inputs().len().min(9), ks.iter().map(|k| k.to_string()).collect::<String>(), t.outputs().len().min(9), t.witnesses().len().min(9))
    }
    match t { Transaction::Script(x) => inner(x), Transaction::Create(x) => inner(x), Transaction::Upgrade(x) => inner(x), Transaction::Upload(x) => inner(x), Transaction::Blob(x) => inner(x), Transaction::Mint(_) => "mint".into() }
}

fn one(ctx: &mut Ctx, t: &Transaction) {
    let kind = TX_NAMES[tx_variant(t)];
    let text = match t { Transaction::Script(x) => x.vt(), Transaction::Create(x) => x.vt(), Transaction::Mint(x) => x.vt(), Transaction::Upgrade(x) => x.vt(), Transaction::Upload(x) => x.vt(), Transaction::Blob(x) => x.vt() };
    ctx.count(&format!("tx.{kind}"));
    ctx.count(&format!("shape.{}", class_of(t)));
    ctx.distinct(format!("{kind} {text}").as_bytes());
    let req = format!("off {kind} {text}");
    let t0 = t.clone();
    let unc = {
        let mut res = None;
        let r = std::panic::catch_unwind(std::panic::AssertUnwindSafe(|| report(ctx, &t0, &req, true)));
        match r { Ok(v) => res = Some(v), Err(_) => { ctx.panics += 1; ctx.oracle_fail(&format!("panic-offsets-{kind}"), &req, "an offset function panicked"); } }
        res
    };
    let Some(unc) = unc else { return; };
    ctx.emit(&req, &unc.join(" "));
    if matches!(t, Transaction::Mint(_)) { return; }
    // the same through the cache
    let mut t1 = t.clone();
    let chain = ChainId::new(ctx.rng.below(4));
    match t1.precompute(&chain) {
        Err(_) => { ctx.count(&format!("precompute.err.{kind}")); }
        Ok(()) => {
            ctx.count(&format!("precompute.ok.{kind}"));
            let req2 = format!("cached {kind} {text}");
            let r = std::panic::catch_unwind(std::panic::AssertUnwindSafe(|| report(ctx, &t1, &req2, true)));
            match r {
                Err(_) => { ctx.panics += 1; ctx.oracle_fail(&format!("panic-offsets-cached-{kind}"), &req2, "an offset function panicked"); }
                Ok(c) => {
                    if c != unc {
                        let k = c.iter().zip(unc.iter()).find(|(a, b)| a != b).map(|(a, b)| format!("cached {a} uncached {b}")).unwrap_or_default();
                        ctx.oracle_fail(&format!("cached-ne-uncached-{kind}"), &req, &k);
                    }
                    ctx.emit(&req2, &c.join(" "));
                }
            }
        }
    }
}

/// change lengths through the public mutators (the cached metadata is not touched): script / script data (Script), storage slots
/// (Create), proof set (Upload), and inputs / outputs / witnesses of every kind
fn edit_lengths(ctx: &mut Ctx, t: &mut Transaction, class: usize) -> &'static str {
    let r = &mut ctx.rng;
    fn ch<T: Inputs + Outputs + Witnesses>(x: &mut T, r: &mut crate::ctx::Rng, class: usize) -> &'static str {
        match class {
            0 => { let i = input(r); x.inputs_mut().insert(0, i); "input-inserted-first" }
            1 => { let n = x.inputs().len(); if n > 0 { x.inputs_mut().remove(r.below(n as u64) as usize); "input-removed" } else { let i = input(r); x.inputs_mut().push(i); "input-added" } }
            2 => { let o = output(r); x.outputs_mut().insert(0, o); "output-inserted-first" }
            3 => { let n = x.witnesses().len(); let extra = 1 + r.below(15) as usize;
                   if n > 0 { let j = r.below(n as u64) as usize; let mut w = x.witnesses()[j].as_ref().to_vec(); w.extend(r.bytes(extra)); x.witnesses_mut()[j] = w.into(); "witness-grown" }
                   else { x.witnesses_mut().push(r.bytes(extra).into()); "witness-added" } }
            _ => { let l = 1 + r.below(15) as usize; let i = input_of(r, 6, l, l + 3, l + 5); x.inputs_mut().push(i); "predicate-input-added" }
        }
    }
    match t {
        Transaction::Script(x) => match class { 5 => { let n = 1 + r.below(15) as usize; let b = r.bytes(n); x.script_mut().extend(b); "script-grown" }
            6 => { let n = 1 + r.below(15) as usize; let b = r.bytes(n); x.script_data_mut().extend(b); "script-data-grown" }
            7 => { x.script_mut().clear(); "script-emptied" } c => ch(x, r, c % 5) },
        Transaction::Create(x) => if class >= 5 { let sl = StorageSlot::new(b32(r).into(), b32(r).into()); x.storage_slots_mut().as_mut().push(sl); "storage-slot-added" } else { ch(x, r, class) },
        Transaction::Upload(x) => if class >= 5 { x.proof_set_mut().push(b32(r).into()); "proof-added" } else { ch(x, r, class) },
        Transaction::Upgrade(x) => ch(x, r, class % 5),
        Transaction::Blob(x) => ch(x, r, class % 5),
        Transaction::Mint(_) => "mint",
    }
}

/// precompute → change lengths → precompute AGAIN on the same object: every offset answered from the cache must equal the one a
/// cache-free copy (decoded from the bytes) computes and locate the field's bytes; the cached body metadata of Create / Upgrade
/// must be that of the current content
fn reprecompute(ctx: &mut Ctx, t: &Transaction, class: usize) {
    if matches!(t, Transaction::Mint(_)) { return; }
    let kind = TX_NAMES[tx_variant(t)];
    let chain = ChainId::new(ctx.rng.below(4));
    let mut x = t.clone();
    if x.precompute(&chain).is_err() { ctx.count(&format!("re.precompute1.err.{kind}")); return; }
    let what = edit_lengths(ctx, &mut x, class);
    if x.precompute(&chain).is_err() { ctx.count(&format!("re.precompute2.err.{kind}")); return; }
    let bytes = x.to_bytes();
    let fresh = match <Transaction as fuel_types::canonical::Deserialize>::from_bytes(&bytes) { Ok(f) => f, Err(_) => { ctx.count("re.undecodable"); return; } };
    let tx_text = |t: &Transaction| match t { Transaction::Script(x) => x.vt(), Transaction::Create(x) => x.vt(), Transaction::Mint(x) => x.vt(), Transaction::Upgrade(x) => x.vt(), Transaction::Upload(x) => x.vt(), Transaction::Blob(x) => x.vt() };
    let req = format!("recached {kind} {} | {}", tx_text(t), tx_text(&fresh));
    ctx.count(&format!("re.{what}.{kind}"));
    let r = std::panic::catch_unwind(std::panic::AssertUnwindSafe(|| (report(ctx, &x, &req, true), report(ctx, &fresh, &req, false))));
    match r {
        Err(_) => { ctx.panics += 1; ctx.oracle_fail(&format!("panic-offsets-recached-{kind}"), &req, "an offset function panicked"); }
        Ok((c, u)) => {
            if c != u {
                let d = c.iter().zip(u.iter()).find(|(a, b)| a != b).map(|(a, b)| format!("after precompute, {what}, precompute: cached {a} but uncached {b}")).unwrap_or_default();
                ctx.oracle_fail(&format!("stale-cached-offset-after-second-precompute-{kind}-{what}"), &req, &d);
            }
            ctx.emit(&req, &c.join(" "));
        }
    }
    // cached body metadata that is not an offset
    match (&x, &fresh) {
        (Transaction::Create(a), Transaction::Create(f)) => {
            let want = fuel_tx::CreateMetadata::compute(f).ok();
            if a.metadata().as_ref().map(|m| m.body.clone()) != want { ctx.oracle_fail("stale-create-metadata-after-second-precompute", &req, "cached CreateMetadata is not that of the current content"); }
        }
        (Transaction::Upgrade(a), Transaction::Upgrade(f)) => {
            let want = fuel_tx::UpgradeMetadata::compute(f).ok();
            if a.metadata().as_ref().map(|m| m.body.clone()) != want { ctx.oracle_fail("stale-upgrade-metadata-after-second-precompute", &req, "cached UpgradeMetadata is not that of the current content"); }
        }
        _ => {}
    }
}

/// a chargeable transaction of kind `k` with the given parts; precompute-friendly where `good` (bytecode witness
/// index in range for Create, a state-transition purpose or a matching consensus-parameters witness for Upgrade)
fn build(ctx: &mut Ctx, k: usize, pol: Policies, ins: Vec<Input>, outs: Vec<Output>, mut wits: Vec<Witness>, good: bool) -> Transaction {
    let r = &mut ctx.rng;
    match k {
        0 => { let (a, c) = (len(r), len(r)); let mut t = Transaction::script(r.word(), r.bytes(a), r.bytes(c), pol, ins, outs, wits); *t.receipts_root_mut() = b32(r).into(); t.into() }
        1 => {
            if good && wits.is_empty() { wits.push(witness(r)); }
            let idx = if good { r.below(wits.len() as u64) as u16 } else { u16b(r) };
            Transaction::create(idx, pol, b32(r).into(), vec_of(r, |r| StorageSlot::new(b32(r).into(), b32(r).into())), ins, outs, wits).into()
        }
        3 => {
            let p = if r.chance(1, 2) { UpgradePurpose::StateTransition { root: b32(r).into() } } else if good {
                let ser = postcard::to_allocvec(&ConsensusParameters::default()).unwrap();
                let checksum = fuel_crypto::Hasher::hash(&ser);
                wits.push(ser.into());
                UpgradePurpose::ConsensusParameters { witness_index: (wits.len() - 1) as u16, checksum }
            } else { purpose(r, 0) };
            Transaction::upgrade(p, pol, ins, outs, wits).into()
        }
        4 => Transaction::upload(UploadBody { root: b32(r).into(), witness_index: u16b(r), subsection_index: u16b(r), subsections_number: u16b(r), proof_set: vec_of(r, |r| b32(r).into()) }, pol, ins, outs, wits).into(),
        _ => Transaction::blob(BlobBody { id: b32(r).into(), witness_index: u16b(r) }, pol, ins, outs, wits).into(),
    }
}

const CHARGEABLE: [usize; 5] = [0, 1, 3, 4, 5];

pub fn run(ctx: &mut Ctx) {
    // 0. corpus: the layout the property text names (a message-data predicate after a contract input after a 7-byte
    //    script), empty everything, one of each input variant in a row, every policy mask
    {
        let r = &mut ctx.rng;
        let ins = vec![input_of(r, 2, 0, 0, 0), input_of(r, 6, 5, 3, 9)];
        let t: Transaction = Transaction::script(7, vec![1, 2, 3, 4, 5, 6, 7], vec![9], policies(r, 0b101), ins, vec![output_of(r, 3)], vec![vec![1u8, 2, 3].into()]).into();
        one(ctx, &t);
        for k in CHARGEABLE {
            let t = build(ctx, k, Policies::new(), vec![], vec![], vec![], true);
            one(ctx, &t);
            let ins: Vec<Input> = (0..7).map(|v| { let r = &mut ctx.rng; let (p, d, x) = (nonzero_len(r), len(r), nonzero_len(r)); input_of(r, v, p, d, x) }).collect();
            let outs: Vec<Output> = (0..5).map(|v| output_of(&mut ctx.rng, v)).collect();
            let wits: Vec<Witness> = (0..3).map(|_| witness(&mut ctx.rng)).collect();
            let pol = policies(&mut ctx.rng, 0b111111);
            let t = build(ctx, k, pol, ins, outs, wits, true);
            one(ctx, &t);
            // a second precompute on an object that already carries metadata, for every class of length change
            for class in 0..8 { reprecompute(ctx, &t, class); }
        }
        for mask in 0..64u32 { let pol = policies(&mut ctx.rng, mask); let k = CHARGEABLE[(mask % 5) as usize]; let i = vec![input(&mut ctx.rng)]; let t = build(ctx, k, pol, i, vec![], vec![], true); one(ctx, &t); }
        let t = tx_of(&mut ctx.rng, 2, 0);
        one(ctx, &t);
    }
    // 1. grid: every kind x every input variant x predicate / data / predicate-data lengths of every residue mod 8,
    //    the input placed after 0..2 other inputs
    for k in CHARGEABLE {
        for v in 0..7usize {
            let lens: Vec<usize> = if ctx.thorough() { LENS.to_vec() } else { vec![1, 2, 7, 8, 9, 15, 16, 17, 33] };
            for (j, &l) in lens.iter().enumerate() {
                let r = &mut ctx.rng;
                let (pl, dl, xl) = (l, LENS[(j * 7 + v) % LENS.len()], if l == 0 { 1 } else { LENS[(j * 3 + 1) % LENS.len()].max(1) });
                let mut ins = vec![];
                for _ in 0..(j % 3) { ins.push(input(r)); }
                ins.push(input_of(r, v, pl.max(1), dl, xl));
                if j % 2 == 1 { ins.push(input(r)); }
                let pol = policies(r, r.0 as u32 & 63);
                let outs = vec_of(r, output);
                let wits = vec_of(r, witness);
                let t = build(ctx, k, pol, ins, outs, wits, true);
                one(ctx, &t);
            }
        }
    }
    // 2. random compositions (any number / mix of inputs, outputs, witnesses, any policy mask)
    for _ in 0..ctx.n(400, 40_000) {
        let r = &mut ctx.rng;
        let k = r.below(6) as usize;
        if k == 2 { let t = tx_of(r, 2, 0); one(ctx, &t); continue; }
        let mask = r.below(64) as u32;
        let pol = policies(r, mask);
        let (ins, outs, wits) = (vec_of(r, input), vec_of(r, output), vec_of(r, witness));
        let good = !r.chance(1, 8);
        let t = build(ctx, k, pol, ins, outs, wits, good);
        one(ctx, &t);
        let class = ctx.rng.below(8) as usize;
        reprecompute(ctx, &t, class);
    }
    // 3. inputs outside `InputCodec.wt` (empty predicate / empty data: findings F2/F3 of C01): the offsets must still be right
    for k in CHARGEABLE {
        for v in [1usize, 4, 5, 6] {
            let r = &mut ctx.rng;
            let ins = vec![input(r), input_of(r, v, 0, 3, 0), input(r)];
            let pol = policies(r, 1);
            let t = build(ctx, k, pol, ins, vec![], vec![], true);
            ctx.count("illformed-input");
            one(ctx, &t);
        }
    }
}
