//! C09 (receipts clause): `ReceiptsCtx` histories around the receipt limit — accepted and REJECTED pushes
//! (full context, reserved tail slots), `clear`, `root`. Oracle: after every root query the reported root is
//! the RFC 6962 tree hash (independent reference, sha2 only) of the canonical encodings of the receipts held,
//! and a rejected push leaves length and root unchanged.
use crate::{ctx::Ctx, gen::bmt_ref as r, util::hex};
use fuel_asm::PanicReason;
use fuel_tx::{PanicInstruction, Receipt, ScriptExecutionResult};
use fuel_types::{canonical::Serialize, ContractId};
use fuel_vm::interpreter::ReceiptsCtx;

fn mk(ctx: &mut Ctx, k: char) -> Receipt {
    let cid = ContractId::from(ctx.rng.arr32());
    match k {
        's' => Receipt::script_result(ScriptExecutionResult::Success, ctx.rng.word()),
        'p' => Receipt::panic(cid, PanicInstruction::error(PanicReason::OutOfGas, ctx.rng.next() as u32), ctx.rng.word(), ctx.rng.word()),
        _ => Receipt::ret(cid, ctx.rng.word(), ctx.rng.word(), ctx.rng.word()),
    }
}

fn answer(res: Result<(), String>, rc: &ReceiptsCtx) -> String {
    match res { Ok(()) => format!("ok {}", rc.len()), Err(e) => format!("err:{e} {}", rc.len()) }
}
fn errname<E: core::fmt::Debug>(e: E) -> String {
    let s = format!("{e:?}");
    if s.contains("ReceiptsCtxFull") { "Bug(ReceiptsCtxFull)".into() } else if s.contains("TooManyReceipts") { "TooManyReceipts".into() } else { "other".into() }
}

fn root_query(ctx: &mut Ctx, rc: &ReceiptsCtx, what: &str) {
    let enc: Vec<Vec<u8>> = rc.as_ref().iter().map(|x| x.to_bytes()).collect();
    let want = r::mth(&enc);
    let got: [u8; 32] = rc.root().into();
    if got != want {
        ctx.oracle_fail("receipts-ctx-root-differs-from-rfc6962-of-held-receipts", what,
            &format!("{} receipts held; root {} expected {}", rc.len(), hex(&got), hex(&want)));
    }
    ctx.emit("root", &hex(&got));
}

fn scenario(ctx: &mut Ctx, base: usize, tail: &[char]) {
    let desc = format!("fill {base} then pushes {tail:?}");
    let mut rc = ReceiptsCtx::default();
    ctx.emit("new", "ok 0");
    let f = mk(ctx, 'o');
    let mut res = Ok(());
    for _ in 0..base { if let Err(e) = rc.push(f.clone()) { res = Err(errname(e)); break; } }
    ctx.emit(&format!("fill {base} o {}", hex(&f.to_bytes())), &answer(res, &rc));
    for (i, k) in tail.iter().enumerate() {
        if *k == 'c' { rc.clear(); ctx.emit("clear", &format!("ok {}", rc.len())); ctx.count("clear"); continue; }
        let x = mk(ctx, *k);
        let (len0, root0): (usize, [u8; 32]) = (rc.len(), rc.root().into());
        let res = rc.push(x.clone()).map_err(errname);
        if res.is_err() {
            ctx.count("push.rejected");
            let root1: [u8; 32] = rc.root().into();
            if rc.len() != len0 || root1 != root0 {
                ctx.oracle_fail("receipts-ctx-rejected-push-changed-state", &format!("{desc}, step {i}"), &format!("len {len0}->{}, root changed: {}", rc.len(), root1 != root0));
            }
        } else { ctx.count("push.accepted"); }
        ctx.emit(&format!("push {k} {}", hex(&x.to_bytes())), &answer(res, &rc));
        ctx.distinct(format!("{base}:{i}:{k}:{}", rc.len()).as_bytes());
    }
    root_query(ctx, &rc, &desc);
}

pub fn run(ctx: &mut Ctx) {
    let max = ReceiptsCtx::MAX_RECEIPTS;
    // small histories (cheap): accepted pushes, clears
    for _ in 0..ctx.n(20, 200) {
        let n = ctx.rng.below(40) as usize;
        let tail: Vec<char> = (0..ctx.rng.below(8)).map(|_| *ctx.rng.pick(&['o', 'p', 's', 'c', 'o'])).collect();
        scenario(ctx, n, &tail);
    }
    // at the limit: every way of meeting the two reserved tail slots and the full context
    let edge: &[&[char]] = &[
        &['o'], &['o', 'p', 's'], &['p', 's', 'o'], &['s', 's', 'o'], &['o', 'o', 'p', 'o', 's', 's'],
        &['p', 'p', 's', 'p'], &['o', 's', 'o', 's', 'p'], &['o', 'c', 'o', 'p'],
    ];
    let k = if ctx.thorough() { edge.len() } else { 4 };
    for (i, t) in edge.iter().take(k).enumerate() {
        let base = max - 2 - (i % 3);      // MAX-2, MAX-3, MAX-4 pre-filled
        scenario(ctx, base, t);
    }
}
