//! Helper of stream c02, run by it in a CHILD process (`fv-harness c02alloc --out DIR`) and never listed
//! in props/*.json: decodes transactions whose `inputs` / `outputs` / `witnesses` count word is exactly
//! `VEC_DECODE_LIMIT` in a buffer that ends right there. `Vec::<T>::decode_static` then reserves
//! `VEC_DECODE_LIMIT * size_of::<T>()` bytes (19 GB for `Input`) before the first element is read
//! (DESIGN §6 F10). If the allocator refuses, the process aborts (not a panic, cannot be caught) — which is
//! why this runs in a child: the parent records the outcome in its coverage notes and, when the child
//! survived, replays the child's request lines so that the model is compared on them too.
#[path = "../codec/mod.rs"]
mod codec;
use crate::ctx::Ctx;
use codec::*;
use fuel_tx::{policies::Policies, Transaction};
use fuel_types::canonical::{Serialize, VEC_DECODE_LIMIT};

pub fn run(ctx: &mut Ctx) {
    let tx: Transaction = Transaction::script(0, vec![], vec![], Policies::new(), vec![], vec![], vec![]).into();
    let bytes = tx.to_bytes();
    let counts_at = tx.size_static() - 24; // the static part ends with the three count words
    for (k, name) in ["inputs", "outputs", "witnesses"].iter().enumerate() {
        let mut b = bytes.clone();
        b[counts_at + 8 * k..counts_at + 8 * k + 8].copy_from_slice(&(VEC_DECODE_LIMIT as u64).to_be_bytes());
        ctx.count(&format!("alloc-probe.{name}"));
        decode_arbitrary::<Transaction>(ctx, "tx", &b, "alloc-probe");
    }
}
