//! C27 — asset ledger: single-steps generated scripts/contracts that transfer (TR/TRO), forward coins in CALLs,
//! MINT/BURN, send messages (SMO), return, revert and panic, on the REAL interpreter. Every executed asset op is
//! sent to the Lean ledger model together with the implementation's outcome (panic reason, or the balances after:
//! free balances as read from the VM-memory balance table, every input contract's balances from storage, the
//! variable outputs of the in-VM transaction, minted/burned/message totals from the receipts); the final outputs
//! are compared with the model's `update_outputs`.
//! Oracle (independent of the model): the property's full per-asset equation on the real inputs / outputs /
//! storage / receipts; per-op balance movement == receipt amount; memory table == change outputs at the end.
#[path = "../gen/vmgen.rs"]
mod vmgen;
#[path = "../gen/gas_gen.rs"]
mod gas_gen;
use crate::{ctx::Ctx, gen::instr_gen as g, util::hex};
use fuel_asm::{Instruction, PanicReason, RegId};
use fuel_tx::{field::Outputs, Chargeable, ContractIdExt, GasCostsValues, Output, Receipt};
use fuel_types::{AssetId, ContractId, SubAssetId};
use fuel_vm::{prelude::MemoryStorage, storage::ContractsAssetsStorage};
use std::collections::BTreeMap;
use vmgen::*;

const LEDGER_PANICS: &[PanicReason] = &[
    PanicReason::ContractNotInInputs, PanicReason::TransferZeroCoins, PanicReason::NotEnoughBalance, PanicReason::BalanceOverflow,
    PanicReason::OutputNotFound, PanicReason::ExpectedInternalContext, PanicReason::ContractNotFound,
];

#[derive(Clone, Debug, PartialEq)]
struct Snap {
    free: Vec<Option<u64>>,          // per watch asset, from VM memory
    bal: Vec<Option<u64>>,           // cids x watch assets, from storage
    vars: Vec<(AssetId, u64)>,       // variable outputs of the in-VM tx
    minted: Vec<u128>, burned: Vec<u128>, msg: u128,
    depth: usize,
    ctx: Option<ContractId>,
    receipts: usize,
}

struct World { base: AssetId, watch: Vec<AssetId>, cids: Vec<ContractId>, table: Vec<AssetId> }

fn snap(vm: &Vm, w: &World) -> Snap {
    let st: &MemoryStorage = vm.as_ref();
    let free = w.watch.iter().map(|a| w.table.iter().position(|t| t == a).and_then(|i| mem8(vm, 64 + 40 * i as u64 + 32))).collect();
    let mut bal = vec![];
    for c in &w.cids { for a in &w.watch { bal.push(st.contract_asset_id_balance(c, a).ok().flatten()); } }
    let vars = vm.transaction().outputs().iter().filter_map(|o| match o { Output::Variable { asset_id, amount, .. } => Some((*asset_id, *amount)), _ => None }).collect();
    let mut minted = vec![0u128; w.watch.len()]; let mut burned = vec![0u128; w.watch.len()]; let mut msg = 0u128;
    for r in vm.receipts() {
        match r {
            Receipt::Mint { sub_id, contract_id, val, .. } => { if let Some(i) = w.watch.iter().position(|a| *a == contract_id.asset_id(sub_id)) { minted[i] += *val as u128; } }
            Receipt::Burn { sub_id, contract_id, val, .. } => { if let Some(i) = w.watch.iter().position(|a| *a == contract_id.asset_id(sub_id)) { burned[i] += *val as u128; } }
            Receipt::MessageOut { amount, .. } => msg += *amount as u128,
            _ => {}
        }
    }
    Snap { free, bal, vars, minted, burned, msg, depth: saved_cgas(vm).len(), ctx: current_contract(vm), receipts: vm.receipts().len() }
}

fn opt(v: &Option<u64>) -> String { v.map(|x| x.to_string()).unwrap_or("-".into()) }
fn snap_str(s: &Snap, w: &World) -> String {
    format!("f={} c={} v={} m={} b={} o={} d={}",
        s.free.iter().map(opt).collect::<Vec<_>>().join(","),
        if s.bal.is_empty() { "-".into() } else { s.bal.iter().map(opt).collect::<Vec<_>>().join(",") },
        if s.vars.is_empty() { "-".into() } else { s.vars.iter().map(|(a, v)| format!("{}:{}", w.watch.iter().position(|x| x == a).map(|i| i.to_string()).unwrap_or("x".into()), v)).collect::<Vec<_>>().join(",") },
        s.minted.iter().map(|x| x.to_string()).collect::<Vec<_>>().join(","),
        s.burned.iter().map(|x| x.to_string()).collect::<Vec<_>>().join(","), s.msg, s.depth)
}

#[derive(Clone, Debug)]
enum LOp { Tr { dest: [u8; 32], amt: u64, asset: [u8; 32] }, Tro { to: [u8; 32], idx: u64, amt: u64, asset: [u8; 32] },
    Call { dest: [u8; 32], amt: u64, asset: [u8; 32] }, Ret, Mint { amt: u64, asset: [u8; 32] }, Burn { amt: u64, asset: [u8; 32] }, Smo { amt: u64 } }

struct StepRec { pc: u64, mn: String, op: Option<LOp>, before: Snap, after: Option<Snap> }

fn decode_op(vm: &Vm, mn: &str, a: &[u64], depth: usize) -> Option<LOp> {
    let var_index = |real: u64| -> u64 {
        let outs = vm.transaction().outputs();
        match usize::try_from(real).ok().and_then(|i| outs.get(i).map(|o| (i, o))) {
            Some((i, Output::Variable { .. })) => outs[..i].iter().filter(|o| matches!(o, Output::Variable { .. })).count() as u64,
            _ => 9999,
        }
    };
    Some(match mn {
        "TR" => LOp::Tr { dest: mem32(vm, a[0])?, amt: a[1], asset: mem32(vm, a[2])? },
        "TRO" => LOp::Tro { to: mem32(vm, a[0])?, idx: var_index(a[1]), amt: a[2], asset: mem32(vm, a[3])? },
        "CALL" => LOp::Call { dest: mem32(vm, a[0])?, amt: a[1], asset: mem32(vm, a[2])? },
        "RET" | "RETD" if depth > 0 => LOp::Ret,
        "MINT" | "BURN" => {
            let sub = SubAssetId::new(mem32(vm, a[1])?);
            let asset = current_contract(vm).map(|c| *c.asset_id(&sub)).unwrap_or([0xEE; 32]);
            if mn == "MINT" { LOp::Mint { amt: a[0], asset } } else { LOp::Burn { amt: a[0], asset } }
        }
        "SMO" => LOp::Smo { amt: a[3] },
        _ => return None,
    })
}

fn op_line(op: &LOp) -> String {
    match op {
        LOp::Tr { dest, amt, asset } => format!("tr {} {amt} {}", hex(dest), hex(asset)),
        LOp::Tro { to, idx, amt, asset } => format!("tro {} {idx} {amt} {}", hex(to), hex(asset)),
        LOp::Call { dest, amt, asset } => format!("call {} {amt} {}", hex(dest), hex(asset)),
        LOp::Ret => "ret".into(),
        LOp::Mint { amt, asset } => format!("mint {amt} {}", hex(asset)),
        LOp::Burn { amt, asset } => format!("burn {amt} {}", hex(asset)),
        LOp::Smo { amt } => format!("smo {amt}"),
    }
}

struct Stepped { world: Option<World>, steps: Vec<StepRec>, first: Option<Snap>, last: Option<Snap>, end: RunEnd }

/// single-steps one transaction on `vm`, with full ledger snapshots around every asset op
fn stepped(vm: &mut Vm, ready: fuel_vm::checked_transaction::Ready<fuel_tx::Script>, base: AssetId, watch: &[AssetId], cids: &[ContractId]) -> Stepped {
    let mut world: Option<World> = None;
    let mut steps: Vec<StepRec> = vec![];
    let mut pending: Option<StepRec> = None;
    let mut first: Option<Snap> = None;
    let mut last: Option<Snap> = None;
    let end = run_stepped(vm, ready, 20_000, |vm, stop| {
        if world.is_none() {
            let ib = vm.initial_balances();
            let mut table: Vec<AssetId> = ib.non_retryable.keys().cloned().collect();
            if ib.retryable.is_some() && !table.contains(&base) { table.push(base); }
            table.sort();
            world = Some(World { base, watch: watch.to_vec(), cids: cids.to_vec(), table });
        }
        let w = world.as_ref().unwrap();
        // full snapshots only around asset ops (other instructions cannot move assets); cheap fields always fresh
        let word = current_word(vm).unwrap_or(0);
        let is_asset_op = |wd: u32| { use fuel_asm::Opcode as O; let o = (wd >> 24) as u8; [O::RET, O::RETD, O::BURN, O::CALL, O::MINT, O::TR, O::TRO, O::SMO, O::RVRT].iter().any(|x| *x as u8 == o) };
        let need_full = first.is_none() || matches!(stop, Stop::End) || pending.as_ref().map(|p| p.op.is_some()).unwrap_or(false) || is_asset_op(word);
        let s = if need_full { snap(vm, w) } else {
            let mut c = last.clone().unwrap();
            c.depth = saved_cgas(vm).len(); c.ctx = current_contract(vm); c.receipts = vm.receipts().len();
            c
        };
        if first.is_none() { first = Some(s.clone()); }
        if let Some(mut p) = pending.take() { p.after = Some(s.clone()); steps.push(p); }
        if let Stop::Before = stop {
            let (mn, args) = match Instruction::try_from(word) {
                Ok(i) => {
                    let (opc, raw) = g::unpack(i);
                    let row = g::TABLE.iter().find(|r| r.0 == opc).unwrap();
                    (row.1.to_string(), raw.iter().zip(row.2.iter()).map(|(v, k)| if *k == 0 { vm.registers()[*v as usize] } else { *v as u64 }).collect::<Vec<u64>>())
                }
                Err(_) => ("?".to_string(), vec![]),
            };
            let op = decode_op(vm, &mn, &args, s.depth);
            pending = Some(StepRec { pc: reg(vm, RegId::PC), mn, op, before: s.clone(), after: None });
        }
        last = Some(s);
    });
    Stepped { world, steps, first, last, end }
}

/// what a run looks like from the ledger's point of view: per asset op its pc and the full snapshots around it, then the outputs
fn ledger_trace(r: &Stepped, vm: &Vm) -> Vec<String> {
    let Some(w) = &r.world else { return vec![] };
    let mut t: Vec<String> = vec![format!("steps {}", r.steps.len())];
    for s in &r.steps { if s.op.is_some() { t.push(format!("pc {} {} | {} | {}", s.pc, s.mn, snap_str(&s.before, w), s.after.as_ref().map(|a| snap_str(a, w)).unwrap_or_default())); } }
    if let Some(l) = &r.last { t.push(format!("end {}", snap_str(l, w))); }
    t.push(format!("outputs {:?}", vm.transaction().outputs()));
    t.push(format!("receipts {}", vm.receipts().len()));
    t
}

fn run_case(ctx: &mut Ctx, scn: &Scn, tag: &str) { run_case_on(ctx, scn, tag, None) }

/// `dirt`: transactions run first on the SAME interpreter; the measured transaction then gets the whole oracle and the model
/// (which starts every transaction from the initial ledger state), and its per-op ledger trace must equal the one of a fresh
/// interpreter over a copy of the storage
fn run_case_on(ctx: &mut Ctx, scn: &Scn, tag: &str, dirt: Option<&[(Scn, u64)]>) {
    let built = match build(scn) { Ok(b) => b, Err(e) => { ctx.count(&format!("invalid-tx.{}", e.split(|c: char| !c.is_alphanumeric()).filter(|w| !w.is_empty()).take(2).collect::<Vec<_>>().join("-"))); return; } };
    let base = *scn.params.base_asset_id();
    let mut watch: Vec<AssetId> = (0..4).map(|i| asset(i, &base)).collect();
    for c in 0..3 { for s in 0..2 { watch.push(contract_id(c).asset_id(&sub_id(s))); } }
    let cids: Vec<ContractId> = scn.contracts.iter().filter(|c| c.as_input).map(|c| c.id).collect();
    let mut storage = built.storage.clone();
    if dirt.is_some() { install_dirt_contracts(&mut storage, &base); }
    let mut vm = new_vm(scn, storage);
    let mut fresh: Option<Vec<String>> = None;
    if let Some(d) = dirt {
        let (ran, in_call) = dirty_vm(&mut vm, d);
        ctx.count_n("reuse.dirtying-transactions", ran as u64);
        ctx.count_n("reuse.dirtying-ended-inside-call", in_call as u64);
    }
    // the storage the measured transaction starts from
    let storage0: MemoryStorage = { let st: &MemoryStorage = vm.as_ref(); st.clone() };
    if dirt.is_some() {
        let mut fvm = new_vm(scn, storage0.clone());
        let rd = built.ready.clone();
        match ctx.guard(|| { let r = stepped(&mut fvm, rd, base, &watch, &cids); ledger_trace(&r, &fvm) }) { Ok(t) => fresh = Some(t), Err(m) => { ctx.oracle_fail("panic-vm-run", &format!("{tag} (fresh copy)"), &m); return; } }
    }
    let max_fee = built.max_fee;
    let ready = built.ready;
    let res = ctx.guard(|| stepped(&mut vm, ready, base, &watch, &cids));
    let run = match res { Ok(r) => r, Err(m) => { ctx.oracle_fail("panic-vm-run", tag, &m); return; } };
    if let Some(ft) = &fresh {
        let mine = ledger_trace(&run, &vm);
        if *ft != mine {
            let k = ft.iter().zip(mine.iter()).position(|(a, b)| a != b).unwrap_or(ft.len().min(mine.len()));
            ctx.oracle_fail("reused-client-ledger-differs-from-fresh", tag, &format!("first difference at entry {k}: reused `{}` fresh `{}`",
                mine.get(k).map(|x| x.chars().take(300).collect::<String>()).unwrap_or_default(), ft.get(k).map(|x| x.chars().take(300).collect::<String>()).unwrap_or_default()));
        }
        ctx.count("reuse.compared-with-fresh");
    }
    let Stepped { world, steps, first, last, end } = run;
    if let Err(e) = &end.state { if e == "step-limit" { ctx.count("step-limit"); return; } ctx.oracle_fail(&format!("vm-error-{}", e.split(|c: char| !c.is_alphanumeric()).next().unwrap_or("x")), tag, &e.chars().take(160).collect::<String>()); return; }
    let w = match world { Some(w) => w, None => { ctx.count("no-steps"); return; } };
    let first = first.unwrap();
    let last = last.unwrap();
    let receipts: Vec<Receipt> = vm.receipts().to_vec();
    let panic = panic_of(&receipts);
    let panic_pc = receipts.iter().find_map(|r| match r { Receipt::Panic { pc, .. } => Some(*pc), _ => None });
    let (result, gas_used) = script_result(&receipts).unwrap_or((9, 0));
    let reverted = result != 0;
    let ib = vm.initial_balances().clone();
    // ---- init line ----
    let hexs = |v: Vec<String>| if v.is_empty() { "-".to_string() } else { v.join(",") };
    let init = format!("init base={} cids={} code={} watch={} initial={} retry={} bal={} nvar={}",
        hex(base.as_ref()), hexs(w.cids.iter().map(|c| hex(c.as_ref())).collect()), hexs(scn.contracts.iter().map(|c| hex(c.id.as_ref())).collect()),
        hexs(w.watch.iter().map(|a| hex(a.as_ref())).collect()),
        hexs(ib.non_retryable.iter().map(|(a, v)| format!("{}:{}", hex(a.as_ref()), v)).collect()),
        ib.retryable.as_ref().map(|r| **r).unwrap_or(0),
        hexs(scn.contracts.iter().flat_map(|c| { let st = &storage0; w.watch.iter().filter_map(move |a| st.contract_asset_id_balance(&c.id, a).ok().flatten().map(|v| format!("{}/{}:{}", hex(c.id.as_ref()), hex(a.as_ref()), v))) }).collect()),
        first.vars.len());
    ctx.emit(&init, &format!("ok {}", snap_str(&first, &w)));
    // ---- op lines ----
    let n = steps.len();
    let mut n_ops = 0;
    for (k, s) in steps.iter().enumerate() {
        let Some(op) = &s.op else { continue };
        let after = s.after.as_ref().unwrap();
        let this_panicked = k + 1 == n && panic.is_some() && panic_pc == Some(s.pc);
        let line = op_line(op);
        if this_panicked {
            let p = panic.unwrap();
            if LEDGER_PANICS.contains(&p) { ctx.emit(&line, &format!("panic {p:?}")); ctx.count(&format!("op-panic.{}.{p:?}", s.mn)); }
            else { ctx.count(&format!("nonledger-panic.{p:?}")); }
            continue;
        }
        if matches!(op, LOp::Ret) && after.depth + 1 != s.before.depth { continue; }
        ctx.emit(&line, &format!("ok {}", snap_str(after, &w)));
        ctx.count(&format!("op.{}.{}", s.mn, if s.before.depth == 0 { "script" } else { "contract" }));
        n_ops += 1;
        let mut key = line.as_bytes().to_vec(); key.push(s.before.depth as u8); ctx.distinct(&key);
        // ---- oracle: movement == receipt amount, on the implementation's own snapshots ----
        let inp = format!("{tag} step={k} {line}");
        let rc = receipts.get(s.before.receipts);
        let wi = |a: &[u8; 32]| w.watch.iter().position(|x| x.as_ref() == a);
        let src = |sn: &Snap, ai: usize| -> Option<u128> {
            match s.before.ctx { None => sn.free[ai].map(|x| x as u128), Some(c) => w.cids.iter().position(|x| *x == c).map(|ci| sn.bal[ci * w.watch.len() + ai].unwrap_or(0) as u128) }
        };
        let cbal = |sn: &Snap, c: &[u8; 32], ai: usize| -> Option<u128> { w.cids.iter().position(|x| x.as_ref() == c).map(|ci| sn.bal[ci * w.watch.len() + ai].unwrap_or(0) as u128) };
        match op {
            LOp::Tr { dest, amt, asset } | LOp::Call { dest, amt, asset } => {
                let ok_rc = match rc { Some(Receipt::Transfer { to, amount, asset_id, .. }) if matches!(op, LOp::Tr { .. }) => to.as_ref() == dest && amount == amt && asset_id.as_ref() == asset,
                    Some(Receipt::Call { to, amount, asset_id, .. }) if matches!(op, LOp::Call { .. }) => to.as_ref() == dest && amount == amt && asset_id.as_ref() == asset, _ => false };
                if !ok_rc { ctx.oracle_fail("receipt-fields", &inp, &format!("{rc:?}").chars().take(200).collect::<String>()); }
                if let Some(ai) = wi(asset) {
                    let same = s.before.ctx.map(|c| c.as_ref() == dest).unwrap_or(false);
                    if let (Some(sb), Some(sa), Some(db), Some(da)) = (src(&s.before, ai), src(after, ai), cbal(&s.before, dest, ai), cbal(after, dest, ai)) {
                        let good = if same { sb == sa } else { sb == sa + *amt as u128 && da == db + *amt as u128 };
                        if !good { ctx.oracle_fail("movement-differs-from-receipt", &inp, &format!("src {sb}->{sa} dest {db}->{da} amount {amt}")); }
                        ctx.count("oracle.movement-checked");
                    }
                }
            }
            LOp::Tro { to, amt, asset, .. } => {
                let ok_rc = matches!(rc, Some(Receipt::TransferOut { to: t, amount, asset_id, .. }) if t.as_ref() == to && amount == amt && asset_id.as_ref() == asset);
                if !ok_rc { ctx.oracle_fail("receipt-fields", &inp, &format!("{rc:?}").chars().take(200).collect::<String>()); }
                if let Some(ai) = wi(asset) {
                    let vs = |sn: &Snap| sn.vars.iter().filter(|(a, _)| a.as_ref() == asset).map(|(_, v)| *v as u128).sum::<u128>();
                    if let (Some(sb), Some(sa)) = (src(&s.before, ai), src(after, ai)) {
                        if sb != sa + *amt as u128 || vs(after) != vs(&s.before) + *amt as u128 { ctx.oracle_fail("movement-differs-from-receipt", &inp, &format!("src {sb}->{sa} vars {}->{}", vs(&s.before), vs(after))); }
                        ctx.count("oracle.movement-checked");
                    }
                }
            }
            LOp::Mint { amt, asset } | LOp::Burn { amt, asset } => {
                let mint = matches!(op, LOp::Mint { .. });
                let ok_rc = match rc { Some(Receipt::Mint { val, contract_id, sub_id, .. }) if mint => val == amt && contract_id.asset_id(sub_id).as_ref() == asset,
                    Some(Receipt::Burn { val, contract_id, sub_id, .. }) if !mint => val == amt && contract_id.asset_id(sub_id).as_ref() == asset, _ => false };
                if !ok_rc { ctx.oracle_fail("receipt-fields", &inp, &format!("{rc:?}").chars().take(200).collect::<String>()); }
                if let Some(ai) = wi(asset) { if let (Some(sb), Some(sa)) = (src(&s.before, ai), src(after, ai)) {
                    let good = if mint { sa == sb + *amt as u128 } else { sb == sa + *amt as u128 };
                    if !good { ctx.oracle_fail("movement-differs-from-receipt", &inp, &format!("contract balance {sb}->{sa} amount {amt}")); }
                    ctx.count("oracle.movement-checked");
                } }
            }
            LOp::Smo { amt } => {
                if !matches!(rc, Some(Receipt::MessageOut { amount, .. }) if amount == amt) { ctx.oracle_fail("receipt-fields", &inp, &format!("{rc:?}").chars().take(200).collect::<String>()); }
                if let (Some(sb), Some(sa)) = (src(&s.before, 0), src(after, 0)) {
                    if sb != sa + *amt as u128 { ctx.oracle_fail("movement-differs-from-receipt", &inp, &format!("base {sb}->{sa} amount {amt}")); }
                    ctx.count("oracle.movement-checked");
                }
            }
            LOp::Ret => {}
        }
    }
    // ---- finalisation ----
    let tx = vm.transaction().clone();
    let costs = scn.params.gas_costs();
    let refund = tx.refund_fee(costs, scn.params.fee_params(), gas_used, scn.gas_price);
    let Some(refund) = refund else { ctx.count("refund-none"); return; };
    let outs = tx.outputs().to_vec();
    let change: Vec<(AssetId, u64)> = outs.iter().filter_map(|o| match o { Output::Change { asset_id, amount, .. } => Some((*asset_id, *amount)), _ => None }).collect();
    let vars: Vec<(AssetId, u64)> = outs.iter().filter_map(|o| match o { Output::Variable { asset_id, amount, .. } => Some((*asset_id, *amount)), _ => None }).collect();
    let idx = |a: &AssetId| w.watch.iter().position(|x| x == a).map(|i| i.to_string()).unwrap_or("x".into());
    ctx.emit(&format!("fin {} {refund} {}", reverted as u8, hexs(change.iter().map(|(a, _)| hex(a.as_ref())).collect())),
        &format!("change={} v={}", hexs(change.iter().map(|(_, v)| v.to_string()).collect()), hexs(vars.iter().map(|(a, v)| format!("{}:{}", idx(a), v)).collect())));
    // ---- oracle: the full per-asset equation on the real data ----
    let st_after: &MemoryStorage = vm.as_ref();
    let mut minted: BTreeMap<AssetId, u128> = BTreeMap::new(); let mut burned: BTreeMap<AssetId, u128> = BTreeMap::new(); let mut msg_out = 0u128;
    for r in &receipts { match r {
        Receipt::Mint { sub_id, contract_id, val, .. } => *minted.entry(contract_id.asset_id(sub_id)).or_default() += *val as u128,
        Receipt::Burn { sub_id, contract_id, val, .. } => *burned.entry(contract_id.asset_id(sub_id)).or_default() += *val as u128,
        Receipt::MessageOut { amount, .. } => msg_out += *amount as u128, _ => {} } }
    let success = !reverted;
    for a in &w.watch {
        let is_base = *a == base;
        let mut lhs: u128 = scn.coins.iter().filter(|c| c.0 == *a).map(|c| c.1 as u128).sum();
        if is_base { lhs += max_fee as u128 + scn.fee_extra as u128; lhs += scn.msgs.iter().filter(|m| m.1.is_empty() || success).map(|m| m.0 as u128).sum::<u128>(); }
        let before: u128 = scn.contracts.iter().map(|c| storage0.contract_asset_id_balance(&c.id, a).ok().flatten().unwrap_or(0) as u128).sum();
        let after: u128 = if success { scn.contracts.iter().map(|c| st_after.contract_asset_id_balance(&c.id, a).ok().flatten().unwrap_or(0) as u128).sum() } else { before };
        lhs += before; if success { lhs += minted.get(a).copied().unwrap_or(0); }
        let mut rhs: u128 = outs.iter().map(|o| match o { Output::Coin { asset_id, amount, .. } | Output::Change { asset_id, amount, .. } | Output::Variable { asset_id, amount, .. } if asset_id == a => *amount as u128, _ => 0 }).sum();
        rhs += after; if success { rhs += burned.get(a).copied().unwrap_or(0); }
        let has_change = change.iter().any(|c| c.0 == *a);
        if !has_change {
            let wi = w.watch.iter().position(|x| x == a).unwrap();
            let left = if success { last.free[wi].unwrap_or(0) as u128 } else { ib.non_retryable.get(a).copied().unwrap_or(0) as u128 };
            rhs += left + if is_base { refund as u128 } else { 0 };
        }
        if is_base { rhs += (max_fee - refund) as u128; if success { rhs += msg_out; } }
        if lhs != rhs {
            ctx.oracle_fail(&format!("ledger-equation-{}-{}", if is_base { "base" } else { "asset" }, if success { "success" } else { "revert" }), tag,
                &format!("asset {} lhs {lhs} rhs {rhs} (refund {refund} max_fee {max_fee} has_change {has_change})", hex(a.as_ref())));
        }
        ctx.count("oracle.equation-checked");
        // memory table == internal free balance (visible in the change output) at the end of a successful run
        if success && has_change {
            let wi = w.watch.iter().position(|x| x == a).unwrap();
            let ch = change.iter().find(|c| c.0 == *a).unwrap().1 as u128;
            let m = last.free[wi].map(|x| x as u128 + if is_base { refund as u128 } else { 0 });
            if m != Some(ch) { ctx.oracle_fail("memory-balance-differs-from-internal", tag, &format!("asset {} memory(+refund) {m:?} change {ch}", hex(a.as_ref()))); }
            ctx.count("oracle.mirror-checked");
        }
    }
    ctx.count(&format!("result.{}", match result { 0 => "success", 1 => "revert", 2 => "panic", _ => "other" }));
    ctx.count_n("ops.executed", n_ops);
    if n_ops >= 5 { ctx.count("runs.with>=5-ops"); }
    for kd in &scn.kinds { ctx.count(&format!("gen.{kd}")); }
}

pub fn run(ctx: &mut Ctx) {
    let n = ctx.n(250, 3000);
    for case in 0..n {
        let costs = if ctx.rng.chance(1, 3) { GasCostsValues::unit() } else { GasCostsValues::default() };
        let mut scn = gen_scenario(&mut ctx.rng, Focus::Ledger, costs);
        if ctx.rng.chance(4, 5) { scn.gas_limit = scn.gas_limit.max(ctx.rng.range(100_000, 2_000_000)); }
        run_case(ctx, &scn, &format!("case={case}"));
        // the same program as a later transaction of a reused interpreter (balances moved, frames left by aborts inside
        // calls, other contract inputs / outputs, warmed slot cache, large heap)
        if ctx.rng.chance(2, 5) {
            let dirt = dirty_scenarios(&mut ctx.rng, &scn);
            run_case_on(ctx, &scn, &format!("case={case}.reused"), Some(&dirt));
            ctx.count("reuse.cases");
        }
    }
}
