//! C36 — storage reads honour the read contract.
//!
//! Part A (`rd` lines): the REAL `StorageRead::{read_exact, read_zerofill, read_alloc}` and
//! `StorageSize::size_of_value` impls of `MemoryStorage` for the three byte tables (contract code,
//! contract state, blobs): exhaustive `len, off, n ∈ [0,12]³`, missing keys, offsets at the `usize`
//! boundary, random larger values.
//! Part B (`ldc`/`ccp`/`bldd` lines): the REAL interpreter single-stepped (`Interpreter::instruction`)
//! on LDC (modes 0/1/2, script and call context), CCP and BLDD with arguments around the object
//! length, the stack/heap boundary and the memory end; VM states are reached with real instructions
//! (CFEI/ALOC/CALL), never by poking system registers.
//! The oracle evaluates the English read contract directly on the outputs (independent of the model).
use crate::{ctx::Ctx, util::hex};
use fuel_vm::{
    consts::{MEM_SIZE, VM_MAX_RAM},
    fuel_asm::{op, RegId},
    fuel_storage::{StorageMutate, StorageRead, StorageReadError, StorageSize},
    fuel_tx::{ConsensusParameters, ContractParameters, Finalizable, GasCosts, Input, Output, Script, TransactionBuilder},
    fuel_types::{canonical::Serialize, BlobId, Bytes32, ContractId},
    interpreter::{Interpreter, InterpreterParams, MemoryInstance},
    prelude::{Call, CallFrame, IntoChecked},
    storage::{BlobData, ContractsRawCode, ContractsState, ContractsStateKey, MemoryStorage},
};

// ------------------------------------------------------------------------------------------------
// Part A: the storage read contract
// ------------------------------------------------------------------------------------------------

#[derive(Clone, Copy, PartialEq)]
enum Tab { Contracts, State, Blobs }
impl Tab {
    fn name(self) -> &'static str { match self { Tab::Contracts => "contracts", Tab::State => "state", Tab::Blobs => "blobs" } }
}
const TABS: [Tab; 3] = [Tab::Contracts, Tab::State, Tab::Blobs];
const CID: [u8; 32] = [0x11; 32];
const SKEY: [u8; 32] = [0x22; 32];
const BID: [u8; 32] = [0x33; 32];

/// storage holding `val` under the probe key of `tab` (if `Some`), and a decoy value under a
/// neighbouring key in every table so that a read of the wrong key/table is visible
fn storage_with(tab: Tab, val: Option<&[u8]>) -> MemoryStorage {
    let mut st = MemoryStorage::default();
    let decoy = [0xEEu8; 9];
    let mut c2 = CID; c2[31] ^= 1;
    let mut s2 = SKEY; s2[31] ^= 1;
    let mut b2 = BID; b2[31] ^= 1;
    StorageMutate::<ContractsRawCode>::insert(&mut st, &ContractId::from(c2), &decoy[..]).unwrap();
    StorageMutate::<ContractsState>::insert(&mut st, &ContractsStateKey::new(&ContractId::from(CID), &Bytes32::from(s2)), &decoy[..]).unwrap();
    StorageMutate::<ContractsState>::insert(&mut st, &ContractsStateKey::new(&ContractId::from(c2), &Bytes32::from(SKEY)), &decoy[..]).unwrap();
    StorageMutate::<BlobData>::insert(&mut st, &BlobId::from(b2), &decoy[..]).unwrap();
    if let Some(v) = val {
        match tab {
            Tab::Contracts => { StorageMutate::<ContractsRawCode>::insert(&mut st, &ContractId::from(CID), v).unwrap(); }
            Tab::State => { StorageMutate::<ContractsState>::insert(&mut st, &ContractsStateKey::new(&ContractId::from(CID), &Bytes32::from(SKEY)), v).unwrap(); }
            Tab::Blobs => { StorageMutate::<BlobData>::insert(&mut st, &BlobId::from(BID), v).unwrap(); }
        }
    }
    st
}

fn read(st: &MemoryStorage, tab: Tab, zerofill: bool, off: usize, buf: &mut [u8]) -> Result<usize, StorageReadError> {
    let skey = ContractsStateKey::new(&ContractId::from(CID), &Bytes32::from(SKEY));
    match (tab, zerofill) {
        (Tab::Contracts, false) => StorageRead::<ContractsRawCode>::read_exact(st, &ContractId::from(CID), off, buf),
        (Tab::Contracts, true) => StorageRead::<ContractsRawCode>::read_zerofill(st, &ContractId::from(CID), off, buf),
        (Tab::State, false) => StorageRead::<ContractsState>::read_exact(st, &skey, off, buf),
        (Tab::State, true) => StorageRead::<ContractsState>::read_zerofill(st, &skey, off, buf),
        (Tab::Blobs, false) => StorageRead::<BlobData>::read_exact(st, &BlobId::from(BID), off, buf),
        (Tab::Blobs, true) => StorageRead::<BlobData>::read_zerofill(st, &BlobId::from(BID), off, buf),
    }.unwrap()
}
fn read_alloc(st: &MemoryStorage, tab: Tab) -> Option<Vec<u8>> {
    let skey = ContractsStateKey::new(&ContractId::from(CID), &Bytes32::from(SKEY));
    match tab {
        Tab::Contracts => StorageRead::<ContractsRawCode>::read_alloc(st, &ContractId::from(CID)),
        Tab::State => StorageRead::<ContractsState>::read_alloc(st, &skey),
        Tab::Blobs => StorageRead::<BlobData>::read_alloc(st, &BlobId::from(BID)),
    }.unwrap()
}
fn size_of(st: &MemoryStorage, tab: Tab) -> Option<usize> {
    let skey = ContractsStateKey::new(&ContractId::from(CID), &Bytes32::from(SKEY));
    match tab {
        Tab::Contracts => StorageSize::<ContractsRawCode>::size_of_value(st, &ContractId::from(CID)),
        Tab::State => StorageSize::<ContractsState>::size_of_value(st, &skey),
        Tab::Blobs => StorageSize::<BlobData>::size_of_value(st, &BlobId::from(BID)),
    }.unwrap()
}

fn valstr(v: Option<&[u8]>) -> String { match v { None => "missing".into(), Some(b) => hex(b) } }

/// the English contract, evaluated on the implementation's answer
fn rd_case(ctx: &mut Ctx, tab: Tab, val: Option<&[u8]>, zerofill: bool, off: usize, n: usize, fill: u8) {
    let st = storage_with(tab, val);
    let mut buf = vec![fill; n];
    let kind = if zerofill { "zerofill" } else { "exact" };
    let req = format!("rd {kind} {} {} {off} {n} {fill}", tab.name(), valstr(val));
    let r = match ctx.guard(|| read(&st, tab, zerofill, off, &mut buf)) {
        Ok(r) => r,
        Err(msg) => { ctx.oracle_fail(&format!("panic-read_{kind}"), &req, &msg); ctx.emit(&req, "panic"); return; }
    };
    // ---- oracle -------------------------------------------------------------------------------
    let expect: Result<(usize, Vec<u8>), StorageReadError> = match val {
        None => Err(StorageReadError::KeyNotFound),
        Some(v) => {
            let end = off as u128 + n as u128;
            if !zerofill {
                if end <= v.len() as u128 { Ok((v.len(), v[off..off + n].to_vec())) } else { Err(StorageReadError::OutOfBounds) }
            } else if off <= v.len() {
                Ok((v.len(), (0..n).map(|i| v.get(off + i).copied().unwrap_or(0)).collect()))
            } else { Err(StorageReadError::OutOfBounds) }
        }
    };
    match (&r, &expect) {
        (Ok(t), Ok((et, eb))) => {
            if t != et { ctx.oracle_fail(&format!("{kind}-total-len"), &req, &format!("returned {t}, value has {et} bytes")); }
            if &buf != eb { ctx.oracle_fail(&format!("{kind}-bytes"), &req, &format!("buffer {} expected {}", hex(&buf), hex(eb))); }
        }
        (Err(a), Err(b)) if a == b => {}
        _ => ctx.oracle_fail(&format!("{kind}-outcome"), &req, &format!("got {:?} expected {:?}", r.map(|_| ()), expect.as_ref().map(|_| ()))),
    }
    let out = match r {
        Ok(t) => format!("ok {t} {}", hex(&buf)),
        Err(StorageReadError::KeyNotFound) => "KeyNotFound".to_string(),
        Err(StorageReadError::OutOfBounds) => "OutOfBounds".to_string(),
    };
    ctx.count(&format!("rd.{kind}.{}", match (&expect, val) {
        (Err(StorageReadError::KeyNotFound), _) => "missing",
        (Err(_), _) => "oob",
        (Ok(_), Some(v)) if off == v.len() => "ok.off=len",
        (Ok(_), Some(v)) if off + n > v.len() => "ok.partial",
        (Ok(_), _) => "ok.inside",
    }));
    if val.map(|v| !v.is_empty()).unwrap_or(false) && n > 0 {
        let mut k = vec![tab as u8, zerofill as u8]; k.extend_from_slice(&(off as u64).to_be_bytes()); k.extend_from_slice(&(n as u64).to_be_bytes()); k.extend_from_slice(val.unwrap());
        ctx.distinct(&k);
    }
    ctx.emit(&req, &out);
}

fn meta_case(ctx: &mut Ctx, tab: Tab, val: Option<&[u8]>) {
    let st = storage_with(tab, val);
    let a = read_alloc(&st, tab);
    let s = size_of(&st, tab);
    let req = format!("rd alloc {} {}", tab.name(), valstr(val));
    if a.as_deref() != val { ctx.oracle_fail("alloc-differs", &req, "read_alloc != stored value"); }
    ctx.emit(&req, &match &a { None => "none".to_string(), Some(b) => format!("some {}", hex(b)) });
    let req = format!("rd size {} {}", tab.name(), valstr(val));
    if s != val.map(|v| v.len()) { ctx.oracle_fail("size-differs", &req, "size_of_value != stored length"); }
    ctx.emit(&req, &match s { None => "none".to_string(), Some(n) => format!("some {n}") });
}

fn pattern(len: usize, salt: u8) -> Vec<u8> { (0..len).map(|i| (i as u8).wrapping_mul(7).wrapping_add(salt) | 1).collect() }

fn part_a(ctx: &mut Ctx) {
    // exhaustive small domain, all three tables, both read kinds
    for tab in TABS {
        for len in 0..=12usize {
            let v = pattern(len, 0x41 + tab as u8);
            meta_case(ctx, tab, Some(&v));
            for off in 0..=12usize {
                for n in 0..=12usize {
                    rd_case(ctx, tab, Some(&v), false, off, n, 0xAA);
                    rd_case(ctx, tab, Some(&v), true, off, n, 0xAA);
                }
            }
        }
        meta_case(ctx, tab, None);
        for off in [0usize, 1, 12, usize::MAX] { for n in [0usize, 1, 8] {
            rd_case(ctx, tab, None, false, off, n, 0x55);
            rd_case(ctx, tab, None, true, off, n, 0x55);
        } }
        // offsets at the usize / u32 boundary (saturating_add, split_at_checked)
        let v = pattern(9, 0x90);
        for off in [usize::MAX, usize::MAX - 1, usize::MAX - 9, usize::MAX - 10, 1usize << 63, (1usize << 32) - 1, 1usize << 32, (1usize << 32) + 9, 10, 9, 8] {
            for n in [0usize, 1, 2, 9, 10, 11] {
                rd_case(ctx, tab, Some(&v), false, off, n, 0xAA);
                rd_case(ctx, tab, Some(&v), true, off, n, 0xAA);
            }
        }
    }
    // random larger values, offsets and lengths clustered around the value length, every len mod 8
    let nrand = ctx.n(1500, 40_000);
    for _ in 0..nrand {
        let tab = *ctx.rng.pick(&TABS);
        let len = match ctx.rng.below(4) { 0 => ctx.rng.below(17), 1 => ctx.rng.range(24, 40), 2 => ctx.rng.range(250, 262), _ => ctx.rng.below(600) } as usize;
        let v = ctx.rng.bytes(len);
        let near = |r: &mut crate::ctx::Rng, c: usize| -> usize { match r.below(5) { 0 => c, 1 => c.saturating_sub(r.below(9) as usize), 2 => c + r.below(9) as usize, 3 => r.below(c as u64 + 1) as usize, _ => r.word() as usize } };
        let off = near(&mut ctx.rng, len);
        let n = match ctx.rng.below(3) { 0 => near(&mut ctx.rng, len.saturating_sub(off.min(len))), 1 => ctx.rng.below(20) as usize, _ => near(&mut ctx.rng, len) }.min(2048);
        let fill = ctx.rng.next() as u8;
        let zf = ctx.rng.chance(1, 2);
        rd_case(ctx, tab, Some(&v), zf, off, n, fill);
    }
}

// ------------------------------------------------------------------------------------------------
// Part B: LDC / CCP / BLDD on the real interpreter
// ------------------------------------------------------------------------------------------------

type Vm = Interpreter<MemoryInstance, MemoryStorage, Script>;

const RA: usize = 0x10;
const RB: usize = 0x11;
const RC: usize = 0x12;
const RD: usize = 0x13;

struct Fix {
    vm: Vm,
    /// address of the 32-byte ids in memory (script data): contract, blob, an id not in storage, a contract not in inputs
    a_contract: u64,
    a_blob: u64,
    a_missing: u64,
    a_notinput: u64,
    /// address of a 96-byte recognisable pattern (mode 2 source)
    a_pattern: u64,
    internal: bool,
    /// hp of the caller (ownership prev_hp) when internal, else VM_MAX_RAM
    prev_hp: u64,
    contract_code: Vec<u8>,
    blob_data: Vec<u8>,
    other_code: Vec<u8>,
    max_size: u64,
}

const ID_CONTRACT: [u8; 32] = [0xC1; 32];
const ID_BLOB: [u8; 32] = [0xB1; 32];
const ID_MISSING: [u8; 32] = [0x77; 32];
const ID_NOTINPUT: [u8; 32] = [0xC2; 32];
const ID_CALLEE: [u8; 32] = [0xCA; 32];

fn fixture(contract_code: &[u8], blob_data: &[u8], max_size: u64, internal: bool, callee_len: usize) -> Fix {
    let mut st = MemoryStorage::default();
    let other_code = pattern(21, 0x60);
    StorageMutate::<ContractsRawCode>::insert(&mut st, &ContractId::from(ID_CONTRACT), contract_code).unwrap();
    StorageMutate::<ContractsRawCode>::insert(&mut st, &ContractId::from(ID_NOTINPUT), &other_code[..]).unwrap();
    let callee_code: Vec<u8> = (0..callee_len).map(|i| if i % 4 == 0 { 0x47 } else { 0 }).collect(); // NOOPs
    StorageMutate::<ContractsRawCode>::insert(&mut st, &ContractId::from(ID_CALLEE), &callee_code[..]).unwrap();
    StorageMutate::<BlobData>::insert(&mut st, &BlobId::from(ID_BLOB), blob_data).unwrap();

    let mut cp = ConsensusParameters::standard();
    cp.set_gas_costs(GasCosts::free());
    cp.set_contract_params(ContractParameters::default().with_contract_max_size(max_size));

    let mut data = vec![];
    data.extend_from_slice(&ID_CONTRACT);
    data.extend_from_slice(&ID_BLOB);
    data.extend_from_slice(&ID_MISSING);
    data.extend_from_slice(&ID_NOTINPUT);
    data.extend_from_slice(&pattern(96, 0x21));
    let call = Call::new(ContractId::from(ID_CALLEE), 0, 0).to_bytes();
    let call_off = data.len();
    data.extend_from_slice(&call);
    let asset_off = data.len();
    data.extend_from_slice(&[0u8; 32]);

    let script: Vec<u8> = [op::ret(RegId::ONE)].into_iter().collect();
    let mut b = TransactionBuilder::script(script, data);
    b.script_gas_limit(1_000_000);
    for (i, id) in [ID_CONTRACT, ID_CALLEE, ID_MISSING].iter().enumerate() {
        b.add_input(Input::contract(Default::default(), Default::default(), Default::default(), Default::default(), ContractId::from(*id)));
        b.add_output(Output::contract(i as u16, Default::default(), Default::default()));
    }
    b.add_fee_input();
    let tx = b.finalize().into_checked(Default::default(), &cp).expect("checked").test_into_ready();
    let mut vm: Vm = Interpreter::with_storage(MemoryInstance::new(), st, InterpreterParams::new(0, &cp));
    vm.init_script(tx).expect("init_script");
    let base = (vm.tx_offset() + vm.transaction().script_data_offset()) as u64;
    let mut prev_hp = VM_MAX_RAM;
    if internal {
        let r = vm.registers_mut();
        r[RA] = base + call_off as u64; r[RB] = 0; r[RC] = base + asset_off as u64; r[RD] = 100_000;
        vm.instruction::<_, false>(op::call(RA as u8, RB as u8, RC as u8, RD as u8)).expect("call");
        prev_hp = vm.registers()[RegId::HP];
    }
    Fix {
        vm, a_contract: base, a_blob: base + 32, a_missing: base + 64, a_notinput: base + 96, a_pattern: base + 128,
        internal, prev_hp, contract_code: contract_code.to_vec(), blob_data: blob_data.to_vec(), other_code, max_size,
    }
}
use fuel_vm::fuel_tx::field::ScriptData;

fn reg(vm: &Vm, r: RegId) -> u64 { vm.registers()[r] }

/// byte at `a` if it is backed by the stack vector or the heap (else 0)
fn peek(vm: &Vm, a: u64) -> u8 {
    let m = vm.memory();
    let a = a as usize;
    let s = m.stack_raw();
    if a < s.len() { return s[a]; }
    let h = m.heap_raw();
    let hoff = MEM_SIZE - h.len();
    if a >= hoff && a < MEM_SIZE { return h[a - hoff]; }
    0
}
fn window(vm: &Vm, a: u64, n: u64) -> Vec<u8> { (0..n).map(|i| peek(vm, a.saturating_add(i))).collect() }

/// accessible-memory snapshot for the frame oracle: (stack bytes, heap bytes from hp)
fn snapshot(vm: &Vm) -> (Vec<u8>, Vec<u8>) {
    let m = vm.memory();
    let hp = reg(vm, RegId::HP) as usize;
    let h = m.heap_raw();
    let hoff = MEM_SIZE - h.len();
    // (the heap part is capped at 64 KiB above hp: the near-full-memory cases would otherwise copy 64 MiB)
    (m.stack_raw().to_vec(), if hp >= hoff { h[hp - hoff..(hp - hoff + (1 << 16)).min(h.len())].to_vec() } else { vec![] })
}

fn panic_name(e: &fuel_vm::error::InterpreterError<core::convert::Infallible>) -> String {
    match e.panic_reason() { Some(r) => format!("{r:?}"), None => "NonPanicError".to_string() }
}

/// object the id at `addr` designates: (readable, in inputs, contract code, blob data)
fn lookup(f: &Fix, addr: u64) -> (bool, bool, Option<Vec<u8>>, Option<Vec<u8>>) {
    let Ok(bytes) = f.vm.memory().read(addr, 32usize) else { return (false, false, None, None) };
    let id: [u8; 32] = bytes.try_into().unwrap();
    let in_inputs = id == ID_CONTRACT || id == ID_CALLEE || id == ID_MISSING;
    let st: &MemoryStorage = f.vm.as_ref();
    let c = StorageRead::<ContractsRawCode>::read_alloc(st, &ContractId::from(id)).unwrap();
    let b = StorageRead::<BlobData>::read_alloc(st, &BlobId::from(id)).unwrap();
    (true, in_inputs, c, b)
}
fn objstr(o: &Option<Vec<u8>>) -> String { match o { None => "missing".into(), Some(b) => hex(b) } }

/// zero-filling read of `n` bytes at `off` (the English contract)
fn spec_zerofill(code: &[u8], off: u64, n: u64) -> Vec<u8> {
    (0..n).map(|i| off.checked_add(i).and_then(|p| usize::try_from(p).ok()).and_then(|p| code.get(p).copied()).unwrap_or(0)).collect()
}

fn padded(n: u64) -> Option<u64> { if n % 8 == 0 { Some(n) } else { n.checked_add(8 - n % 8) } }

/// bytes outside `[lo, hi)` (and outside the optional 8-byte word at `cs`) must be unchanged
fn frame_ok(before: &(Vec<u8>, Vec<u8>), after: &(Vec<u8>, Vec<u8>), lo: u64, hi: u64, cs: Option<u64>, hp: u64) -> bool {
    let skip = |a: u64| (a >= lo && a < hi) || cs.map(|c| a >= c && a < c + 8).unwrap_or(false);
    for (i, b) in before.0.iter().enumerate() {
        if skip(i as u64) { continue; }
        if after.0.get(i) != Some(b) { return false; }
    }
    // stack may have grown: new bytes outside the window must be zero
    for i in before.0.len()..after.0.len() { if !skip(i as u64) && after.0[i] != 0 { return false; } }
    if before.1.len() != after.1.len() { return false; }
    for (i, b) in before.1.iter().enumerate() { if !skip(hp + i as u64) && after.1[i] != *b { return false; } }
    true
}

fn ldc_case(ctx: &mut Ctx, f: &mut Fix, mode: u8, a: u64, b: u64, c: u64) {
    let vm = &f.vm;
    let (ssp, sp, hp, fp, pc) = (reg(vm, RegId::SSP), reg(vm, RegId::SP), reg(vm, RegId::HP), reg(vm, RegId::FP), reg(vm, RegId::PC));
    let slen = vm.memory().stack_raw().len() as u64;
    let (readable, in_inputs, cobj, bobj) = lookup(f, a);
    let obj = match mode { 0 => if readable { objstr(&cobj) } else { "na".into() }, 1 => if readable { objstr(&bobj) } else { "na".into() }, _ => "na".into() };
    let src = a.saturating_add(b);
    let srcw = if mode == 2 && c <= 4096 { hex(&window(vm, src, c)) } else { "na".to_string() };
    let cs_ptr = fp.saturating_add(CallFrame::code_size_offset() as u64);
    let oldcs = if f.internal { u64::from_be_bytes(window(vm, cs_ptr, 8).try_into().unwrap()) } else { 0 };
    let req = format!("ldc {mode} {} {ssp} {sp} {hp} {fp} {slen} {} {a} {b} {c} {} {obj} {srcw} {oldcs}",
        if f.internal { "call" } else { "script" }, f.max_size, in_inputs as u8);
    let before = snapshot(vm);
    let vm = &mut f.vm;
    { let r = vm.registers_mut(); r[RA] = a; r[RB] = b; r[RC] = c; }
    let res = match ctx.guard(|| vm.instruction::<_, false>(op::ldc(RA as u8, RB as u8, RC as u8, mode))) {
        Ok(r) => r,
        Err(msg) => { ctx.oracle_fail(&format!("panic-ldc{mode}"), &req, &msg); ctx.emit(&req, "rust-panic"); return; }
    };
    let vm = &f.vm;
    let out = match &res {
        Ok(_) => {
            let (ssp2, sp2, pc2) = (reg(vm, RegId::SSP), reg(vm, RegId::SP), reg(vm, RegId::PC));
            let mem = window(vm, ssp, ssp2 - ssp);
            let cs2 = if f.internal { u64::from_be_bytes(window(vm, cs_ptr, 8).try_into().unwrap()) } else { 0 };
            // ---- oracle: exactly the specified bytes and zero padding ----------------------
            let plen = padded(c).unwrap_or(u64::MAX);
            let expect = match mode {
                // contract / blob: the word-padded length is read from the object, zero-filled past its end
                0 => cobj.as_ref().map(|code| spec_zerofill(code, b, plen)),
                1 => bobj.as_ref().map(|code| spec_zerofill(code, b, plen)),
                _ => { let mut m = if c == 0 { vec![] } else { window_before(&before, hp, src, c) }; m.resize(if c == 0 { 0 } else { plen as usize }, 0); Some(m) }
            };
            let grow = if mode == 2 && c == 0 { 0 } else { plen };
            match expect {
                None => ctx.oracle_fail(&format!("ldc{mode}-missing-object-loaded"), &req, "succeeded although the object does not exist"),
                Some(e) => if e != mem { ctx.oracle_fail(&format!("ldc{mode}-bytes"), &req, &format!("memory {} expected {}", hex(&mem), hex(&e))) },
            }
            if ssp2 != ssp + grow || sp2 != ssp2 { ctx.oracle_fail(&format!("ldc{mode}-ssp-sp"), &req, &format!("ssp {ssp}->{ssp2} sp {sp}->{sp2} padded len {grow}")); }
            if pc2 != pc + 4 { ctx.oracle_fail(&format!("ldc{mode}-pc"), &req, "pc not advanced by 4"); }
            if f.internal && cs2 != padded(oldcs).unwrap_or(0).wrapping_add(grow) && !(mode == 2 && c == 0 && cs2 == oldcs) {
                ctx.oracle_fail(&format!("ldc{mode}-codesize"), &req, &format!("frame code size {oldcs}->{cs2}, loaded {grow}"));
            }
            let after = snapshot(vm);
            if !frame_ok(&before, &after, ssp, ssp2, if f.internal { Some(cs_ptr) } else { None }, hp) {
                ctx.oracle_fail(&format!("ldc{mode}-frame"), &req, "memory outside the loaded region changed");
            }
            if mode != 2 && mem.len() > 0 { let mut k = vec![mode]; k.extend_from_slice(&b.to_be_bytes()); k.extend_from_slice(&c.to_be_bytes()); k.extend_from_slice(&mem); ctx.distinct(&k); }
            format!("ok {ssp2} {sp2} {} {} {cs2}", pc2.wrapping_sub(pc), hex(&mem))
        }
        Err(e) => {
            let after = snapshot(vm);
            // a failed instruction must not have stored anything visible below the old stack length / in the heap
            if before.0[..] != after.0[..before.0.len().min(after.0.len())] || before.1 != after.1 {
                ctx.oracle_fail(&format!("ldc{mode}-failed-but-wrote"), &req, "memory changed although the instruction panicked");
            }
            format!("panic {}", panic_name(e))
        }
    };
    ctx.count(&format!("ldc{mode}.{}.{}", if f.internal { "call" } else { "script" }, match &res { Ok(_) => "ok".to_string(), Err(e) => panic_name(e) }));
    ctx.emit(&req, &out);
}

/// bytes `[a, a+n)` of the accessible memory as of `snap`
fn window_before(snap: &(Vec<u8>, Vec<u8>), hp: u64, a: u64, n: u64) -> Vec<u8> {
    (0..n).map(|i| { let p = a.saturating_add(i); if (p as usize) < snap.0.len() { snap.0[p as usize] } else if p >= hp { snap.1.get((p - hp) as usize).copied().unwrap_or(0) } else { 0 } }).collect()
}

/// CCP (`bldd == false`) and BLDD (`bldd == true`): dst, id address, offset, length
fn copy_case(ctx: &mut Ctx, f: &mut Fix, bldd: bool, a: u64, b: u64, c: u64, d: u64) {
    let vm = &f.vm;
    let (ssp, sp, hp, pc) = (reg(vm, RegId::SSP), reg(vm, RegId::SP), reg(vm, RegId::HP), reg(vm, RegId::PC));
    let slen = vm.memory().stack_raw().len() as u64;
    let (readable, in_inputs, cobj, bobj) = lookup(f, b);
    let o = if bldd { &bobj } else { &cobj };
    let obj = if readable { objstr(o) } else { "na".into() };
    let name = if bldd { "bldd" } else { "ccp" };
    let req = format!("{name} {ssp} {sp} {hp} {} {slen} {a} {b} {c} {d} {} {obj}", f.prev_hp, in_inputs as u8);
    let before = snapshot(vm);
    let vm = &mut f.vm;
    { let r = vm.registers_mut(); r[RA] = a; r[RB] = b; r[RC] = c; r[RD] = d; }
    let ins = if bldd { op::bldd(RA as u8, RB as u8, RC as u8, RD as u8) } else { op::ccp(RA as u8, RB as u8, RC as u8, RD as u8) };
    let res = match ctx.guard(|| vm.instruction::<_, false>(ins)) {
        Ok(r) => r,
        Err(msg) => { ctx.oracle_fail(&format!("panic-{name}"), &req, &msg); ctx.emit(&req, "rust-panic"); return; }
    };
    let vm = &f.vm;
    let out = match &res {
        Ok(_) => {
            let pc2 = reg(vm, RegId::PC);
            let mem = window(vm, a, d);
            match o {
                None => ctx.oracle_fail(&format!("{name}-missing-object-loaded"), &req, "succeeded although the object does not exist"),
                Some(code) => { let e = spec_zerofill(code, c, d); if e != mem { ctx.oracle_fail(&format!("{name}-bytes"), &req, &format!("memory {} expected {}", hex(&mem), hex(&e))); } }
            }
            if pc2 != pc + 4 { ctx.oracle_fail(&format!("{name}-pc"), &req, "pc not advanced by 4"); }
            if reg(vm, RegId::SSP) != ssp || reg(vm, RegId::SP) != sp || reg(vm, RegId::HP) != hp { ctx.oracle_fail(&format!("{name}-regs"), &req, "ssp/sp/hp changed"); }
            let after = snapshot(vm);
            if !frame_ok(&before, &after, a, a + d, None, hp) { ctx.oracle_fail(&format!("{name}-frame"), &req, "memory outside the destination changed"); }
            if d > 0 { let mut k = vec![bldd as u8]; k.extend_from_slice(&c.to_be_bytes()); k.extend_from_slice(&mem); ctx.distinct(&k); }
            format!("ok {} {}", pc2.wrapping_sub(pc), hex(&mem))
        }
        Err(e) => {
            let after = snapshot(vm);
            if before != after { ctx.oracle_fail(&format!("{name}-failed-but-wrote"), &req, "memory changed although the instruction panicked"); }
            format!("panic {}", panic_name(e))
        }
    };
    ctx.count(&format!("{name}.{}", match &res { Ok(_) => "ok".to_string(), Err(e) => panic_name(e) }));
    ctx.emit(&req, &out);
}

fn step(vm: &mut Vm, i: fuel_vm::fuel_asm::Instruction) { vm.instruction::<_, false>(i).expect("setup instruction"); }

/// lengths between 4 KiB and the memory size would succeed with megabytes of output per line: fold them down
fn big_or_small(w: u64) -> u64 { if w > 4096 && w <= MEM_SIZE as u64 { w % 4096 } else { w } }

fn around(r: &mut crate::ctx::Rng, c: u64) -> u64 {
    match r.below(6) { 0 => c, 1 => c.saturating_sub(r.below(10)), 2 => c + r.below(10), 3 => r.below(c + 1), 4 => r.below(40), _ => c.saturating_sub(8) + r.below(17) }
}

fn part_b(ctx: &mut Ctx) {
    // ---- LDC, systematic: object lengths x offsets x lengths around the object length ----------
    for internal in [false, true] {
        for olen in [0usize, 1, 7, 8, 9, 15, 16, 17, 24] {
            let code = pattern(olen, 0x51);
            let blob = pattern(olen, 0xA1);
            let lens: Vec<u64> = (0..=(olen as u64 + 9).min(26)).collect();
            let offs: Vec<u64> = (0..=(olen as u64 + 2)).collect();
            for mode in [0u8, 1, 2] {
                for &c in &lens { for &b in &offs {
                    if !ctx.thorough() && internal && (b + c) % 3 != 0 { continue; }
                    let mut f = fixture(&code, &blob, 64, internal, 12);
                    let a = match mode { 0 => f.a_contract, 1 => f.a_blob, _ => f.a_pattern };
                    ldc_case(ctx, &mut f, mode, a, b, c);
                } }
            }
        }
    }
    // ---- LDC failure paths and boundaries -----------------------------------------------------
    for internal in [false, true] {
        let code = pattern(20, 0x51);
        let blob = pattern(20, 0xA1);
        let mk = |max: u64| fixture(&code, &blob, max, internal, 8);
        // stack not empty
        for mode in [0u8, 1, 2] { let mut f = mk(64); step(&mut f.vm, op::cfei(8)); let a = f.a_contract; ldc_case(ctx, &mut f, mode, a, 0, 8); }
        // bad mode
        for mode in [3u8, 63] { let mut f = mk(64); let a = f.a_contract; ldc_case(ctx, &mut f, mode, a, 0, 8); }
        // id: missing object, contract not in inputs, blob id used as contract and vice versa
        for mode in [0u8, 1] {
            for which in 0..4 { let mut f = mk(64); let a = [f.a_contract, f.a_blob, f.a_missing, f.a_notinput][which]; ldc_case(ctx, &mut f, mode, a, 3, 10); }
        }
        // id address at the edges: gap between stack and heap, end of memory, huge
        for mode in [0u8, 1, 2] {
            for a in [0u64, MEM_SIZE as u64 - 32, MEM_SIZE as u64 - 31, MEM_SIZE as u64, 1 << 40, u64::MAX, u64::MAX - 31] {
                let mut f = mk(64); ldc_case(ctx, &mut f, mode, a, 0, 8);
            }
            let mut f = mk(64); let a = reg(&f.vm, RegId::SP) + 64; ldc_case(ctx, &mut f, mode, a, 0, 8);
            let mut f = mk(64); let a = reg(&f.vm, RegId::SP) - 31; ldc_case(ctx, &mut f, mode, a, 0, 8);
        }
        // contract max size (mode 0 only rejects), lengths at the padding overflow boundary
        for mode in [0u8, 1, 2] {
            for max in [16u64, 24] { for c in [15u64, 16, 17, 23, 24, 25, 32] { let mut f = mk(max); let a = match mode { 0 => f.a_contract, 1 => f.a_blob, _ => f.a_pattern }; ldc_case(ctx, &mut f, mode, a, 1, c); } }
            for c in [u64::MAX, u64::MAX - 6, u64::MAX - 7, u64::MAX - 8, 1 << 63, MEM_SIZE as u64, MEM_SIZE as u64 + 1, 1 << 26, 1 << 32] {
                let mut f = mk(u64::MAX); let a = match mode { 0 => f.a_contract, 1 => f.a_blob, _ => f.a_pattern }; ldc_case(ctx, &mut f, mode, a, 0, c);
            }
            // offsets beyond the object, at the u32 boundary, huge
            for b in [19u64, 20, 21, 28, u32::MAX as u64, 1 << 32, u64::MAX, u64::MAX - 8] {
                let mut f = mk(64); let a = match mode { 0 => f.a_contract, 1 => f.a_blob, _ => f.a_pattern }; ldc_case(ctx, &mut f, mode, a, b, 16);
            }
        }
        // heap right above the stack: growth overlap
        for mode in [0u8, 1, 2] {
            for room in [0u64, 8, 16, 24] { for c in [8u64, 9, 16, 17, 24] {
                // (each of these allocates and zeroes the whole 64 MiB heap: few of them in the quick tier)
                if !ctx.thorough() && !(matches!(room, 0 | 16) && matches!(c, 8 | 17 | 24) && (!internal || mode == 0)) { continue; }
                let mut f = mk(64);
                let gap = reg(&f.vm, RegId::HP) - reg(&f.vm, RegId::SP) - room;
                f.vm.registers_mut()[RA] = gap; step(&mut f.vm, op::aloc(RA as u8));
                let a = match mode { 0 => f.a_contract, 1 => f.a_blob, _ => f.a_pattern };
                ldc_case(ctx, &mut f, mode, a, 2, c);
            } }
        }
        // mode 2: sources in the heap, overlapping the destination, in uninitialised memory
        {
            let mut f = mk(64); step(&mut f.vm, op::movi(RA as u8, 32)); step(&mut f.vm, op::aloc(RA as u8));
            let hp = reg(&f.vm, RegId::HP);
            f.vm.memory_mut().write_noownerchecks(hp, 32usize).unwrap().copy_from_slice(&pattern(32, 0x31));
            for (a, b, c) in [(hp, 0u64, 32u64), (hp, 5, 27), (hp, 5, 28), (hp - 4, 0, 8), (hp, u64::MAX, 8), (u64::MAX, 1, 8)] {
                let mut g = fixture(&code, &blob, 64, internal, 8); step(&mut g.vm, op::movi(RA as u8, 32)); step(&mut g.vm, op::aloc(RA as u8));
                let hp = reg(&g.vm, RegId::HP);
                g.vm.memory_mut().write_noownerchecks(hp, 32usize).unwrap().copy_from_slice(&pattern(32, 0x31));
                ldc_case(ctx, &mut g, 2, a, b, c);
            }
            let sp = reg(&f.vm, RegId::SP);
            for (a, b, c) in [(sp - 8, 0u64, 8u64), (sp - 8, 0, 9), (sp - 4, 0, 8), (sp, 0, 8), (sp + 8, 0, 8), (sp - 16, 8, 8), (sp - 16, 9, 7)] {
                let mut g = fixture(&code, &blob, 64, internal, 8);
                ldc_case(ctx, &mut g, 2, a, b, c);
            }
        }
        // several loads in a row in one VM (concatenation; code size accumulates in a call frame)
        {
            let mut f = mk(64);
            for (mode, b, c) in [(0u8, 0u64, 5u64), (1, 3, 11), (2, 0, 13), (0, 18, 8), (1, 25, 3), (2, 7, 0), (0, 0, 0)] {
                let a = match mode { 0 => f.a_contract, 1 => f.a_blob, _ => f.a_pattern };
                ldc_case(ctx, &mut f, mode, a, b, c);
            }
        }
    }
    // ---- LDC random -----------------------------------------------------------------------------
    let n = ctx.n(300, 6000);
    for _ in 0..n {
        let olen = *ctx.rng.pick(&[0u64, 1, 5, 8, 13, 16, 31, 32, 33, 64, 100]) as usize;
        let code = ctx.rng.bytes(olen);
        let blob = ctx.rng.bytes(olen);
        let internal = ctx.rng.chance(1, 2);
        let max = *ctx.rng.pick(&[32u64, 64, 102400]);
        let mut f = fixture(&code, &blob, max, internal, 4 * ctx.rng.below(5) as usize);
        let k = 1 + ctx.rng.below(3);
        for _ in 0..k {
            let mode = ctx.rng.below(3) as u8;
            let a = match mode { 0 => if ctx.rng.chance(1, 12) { f.a_missing } else { f.a_contract }, 1 => if ctx.rng.chance(1, 12) { f.a_missing } else { f.a_blob }, _ => f.a_pattern + ctx.rng.below(8) };
            let b = around(&mut ctx.rng, olen as u64);
            let c = if ctx.rng.chance(1, 30) { big_or_small(ctx.rng.word()) } else { around(&mut ctx.rng, (olen as u64).saturating_sub(b.min(olen as u64))) };
            ldc_case(ctx, &mut f, mode, a, b, c);
        }
    }

    // ---- CCP / BLDD -------------------------------------------------------------------------------
    for bldd in [false, true] {
        for internal in [false, true] {
            // systematic around the object length, destination in owned stack and owned heap
            for olen in [0usize, 1, 8, 11, 16] {
                let code = pattern(olen, 0x52);
                let blob = pattern(olen, 0xA2);
                for heap in [false, true] {
                    for c in 0..=(olen as u64 + 2) { for d in 0..=(olen as u64 + 4).min(18) {
                        if !ctx.thorough() && (c + 2 * d + heap as u64) % 3 != 0 { continue; }
                        let mut f = fixture(&code, &blob, 64, internal, 8);
                        step(&mut f.vm, op::cfei(40)); step(&mut f.vm, op::movi(RA as u8, 40)); step(&mut f.vm, op::aloc(RA as u8));
                        // make the destination visibly dirty
                        let dst = if heap { reg(&f.vm, RegId::HP) + 3 } else { reg(&f.vm, RegId::SSP) + 3 };
                        f.vm.memory_mut().write_noownerchecks(dst - 3, 40usize).unwrap().fill(0xDD);
                        let b = if bldd { f.a_blob } else { f.a_contract };
                        copy_case(ctx, &mut f, bldd, dst, b, c, d);
                    } }
                }
            }
            // failure paths: ownership, uninitialised, overflow, ids
            let code = pattern(20, 0x52);
            let blob = pattern(20, 0xA2);
            let mk = || { let mut f = fixture(&code, &blob, 64, internal, 8); step(&mut f.vm, op::cfei(24)); step(&mut f.vm, op::movi(RA as u8, 24)); step(&mut f.vm, op::aloc(RA as u8)); f };
            let probe = mk();
            let (ssp, sp, hp) = (reg(&probe.vm, RegId::SSP), reg(&probe.vm, RegId::SP), reg(&probe.vm, RegId::HP));
            let dsts = [ssp, ssp - 1, ssp - 8, sp - 8, sp - 7, sp, sp + 1, hp, hp - 1, hp + 16, hp + 17, hp + 24, MEM_SIZE as u64 - 8, MEM_SIZE as u64, 0, u64::MAX, 1 << 32, probe.prev_hp, probe.prev_hp.wrapping_sub(8)];
            for &dst in &dsts { for d in [0u64, 8, 9, 24, 25] {
                if !ctx.thorough() && dst.wrapping_add(d) % 2 == 1 && d != 9 { continue; }
                let mut f = mk(); let b = if bldd { f.a_blob } else { f.a_contract };
                copy_case(ctx, &mut f, bldd, dst, b, 4, d);
            } }
            for which in 0..4 { let mut f = mk(); let b = [f.a_contract, f.a_blob, f.a_missing, f.a_notinput][which]; copy_case(ctx, &mut f, bldd, ssp, b, 0, 8); }
            for b in [0u64, MEM_SIZE as u64 - 32, MEM_SIZE as u64 - 31, u64::MAX, sp + 64, sp - 31] { let mut f = mk(); copy_case(ctx, &mut f, bldd, ssp, b, 0, 8); }
            for c in [19u64, 20, 21, u32::MAX as u64, 1 << 32, u64::MAX] { for d in [0u64, 1, 16] { let mut f = mk(); let b = if bldd { f.a_blob } else { f.a_contract }; copy_case(ctx, &mut f, bldd, ssp, b, c, d); } }
            for d in [u64::MAX, 1 << 63, MEM_SIZE as u64, MEM_SIZE as u64 + 1] { let mut f = mk(); let b = if bldd { f.a_blob } else { f.a_contract }; copy_case(ctx, &mut f, bldd, ssp, b, 0, d); }
        }
        // random
        let n = ctx.n(300, 6000);
        for _ in 0..n {
            let olen = *ctx.rng.pick(&[0u64, 1, 5, 8, 13, 16, 31, 32, 33, 64, 100]) as usize;
            let code = ctx.rng.bytes(olen);
            let blob = ctx.rng.bytes(olen);
            let internal = ctx.rng.chance(1, 2);
            let mut f = fixture(&code, &blob, 64, internal, 8);
            let room = 8 * ctx.rng.range(1, 16);
            step(&mut f.vm, op::cfei(room as u32)); step(&mut f.vm, op::movi(RA as u8, room as u32)); step(&mut f.vm, op::aloc(RA as u8));
            let (ssp, hp) = (reg(&f.vm, RegId::SSP), reg(&f.vm, RegId::HP));
            for _ in 0..(1 + ctx.rng.below(3)) {
                let base = if ctx.rng.chance(1, 2) { ssp } else { hp };
                let dst = if ctx.rng.chance(1, 10) { base.wrapping_sub(ctx.rng.below(9)) } else { base + ctx.rng.below(room) };
                let b = match ctx.rng.below(12) { 0 => f.a_missing, 1 => if bldd { f.a_contract } else { f.a_blob }, _ => if bldd { f.a_blob } else { f.a_contract } };
                let c = around(&mut ctx.rng, olen as u64);
                let d = if ctx.rng.chance(1, 30) { big_or_small(ctx.rng.word()) } else { around(&mut ctx.rng, room.min(olen as u64 + 8)) };
                copy_case(ctx, &mut f, bldd, dst, b, c, d);
            }
        }
    }
}

pub fn run(ctx: &mut Ctx) {
    let t0 = std::time::Instant::now();
    if std::env::var("C36_PROF").is_ok() {
        let code = pattern(20, 1);
        let t = std::time::Instant::now();
        for _ in 0..200 { let _ = MemoryStorage::default(); }
        eprintln!("storage default: {:?}", t.elapsed() / 200);
        let t = std::time::Instant::now();
        for _ in 0..200 { let mut cp = ConsensusParameters::standard(); cp.set_gas_costs(GasCosts::free()); }
        eprintln!("cp: {:?}", t.elapsed() / 200);
        let t = std::time::Instant::now();
        for _ in 0..200 { let _f = fixture(&code, &code, 64, false, 8); }
        eprintln!("fixture script: {:?}", t.elapsed() / 200);
        let t = std::time::Instant::now();
        for _ in 0..200 { let _f = fixture(&code, &code, 64, true, 8); }
        eprintln!("fixture call: {:?}", t.elapsed() / 200);
        let mut f = fixture(&code, &code, 64, false, 8);
        let t = std::time::Instant::now();
        for _ in 0..200 { let a = f.a_contract; ldc_case(ctx, &mut f, 0, a, 0, 8); }
        eprintln!("ldc_case: {:?}", t.elapsed() / 200);
        return;
    }
    part_a(ctx);
    let t1 = t0.elapsed().as_secs_f32();
    part_b(ctx);
    eprintln!("c36: part A {:.1}s, part B {:.1}s", t1, t0.elapsed().as_secs_f32() - t1);
}
