//! C33 — contract storage instructions behave like a key-value map.
//!
//! Histories of the 13 storage opcodes (SRW SRWQ SWW SWWQ SCWQ SCLR SRDD/SRDI SWRD/SWRI SUPD/SUPI SPLD) are
//! executed on the REAL interpreter, single-stepped inside real call frames of two contracts (nested
//! CALL / RET), over several transactions (commit / revert of `MemoryStorage`, `init_script` between
//! them), on clustered keys (hot keys, neighbours, keys at 2^256 - k).
//! Oracle (independent of the Lean model): a plain `BTreeMap` written from the English statement; every
//! read result, flag and panic is compared with it, `MemoryStorage::all_contract_state` is compared with it
//! after every transaction, and every history is executed a second time with the slot cache emptied
//! before each instruction — results must be identical ("the cache never changes any result").
use crate::{ctx::Ctx, util::hex};
use fuel_vm::{
    fuel_asm::{op, Instruction, RegId},
    fuel_storage::StorageMutate,
    fuel_tx::{field::ScriptData, ConsensusParameters, Finalizable, GasCosts, Input, Output, Script, ScriptParameters, TransactionBuilder},
    fuel_types::{canonical::Serialize, ContractId},
    interpreter::{Interpreter, InterpreterParams, MemoryInstance},
    prelude::{Call, IntoChecked},
    storage::{ContractsRawCode, MemoryStorage},
};
use std::collections::BTreeMap;

type Vm = Interpreter<MemoryInstance, MemoryStorage, Script>;
type Key = [u8; 32];

const MAX_SLOT: u64 = 72;
const ID_A: [u8; 32] = [0xA0; 32];
const ID_B: [u8; 32] = [0xB0; 32];

const R0: usize = 0x10;
const R1: usize = 0x11;
const R2: usize = 0x12;
const R3: usize = 0x13;
const ROUT_A: usize = 0x14;
const ROUT_B: usize = 0x15;

#[derive(Clone, Debug)]
enum Op {
    Srw { key: Key, off: u8 },
    Srwq { key: Key, range: u64 },
    Sww { key: Key, word: u64 },
    Swwq { key: Key, range: u64, vals: Vec<u8> },
    Scwq { key: Key, range: u64 },
    Sclr { key: Key, range: u64 },
    Srdd { key: Key, off: u64, len: u64, imm: bool },
    Swrd { key: Key, val: Vec<u8>, imm: bool },
    Supd { key: Key, off: u64, src: Vec<u8>, imm: bool },
    Spld { key: Key },
    /// switch the executing contract: nested CALL into the other contract, or RET to the caller
    Enter(u8),
    Ret,
    Tx { revert: bool },
}

/// canonical answer of one instruction
#[derive(Clone, PartialEq, Debug)]
enum Out { Panic(String), Unit, Regs(u64, u64), Flag(u64), Mem(Vec<u8>, u64), Dyn(Option<Vec<u8>>) }
impl Out {
    fn show(&self) -> String {
        match self {
            Out::Panic(p) => format!("panic {p}"),
            Out::Unit => "unit".into(),
            Out::Regs(a, b) => format!("regs {a} {b}"),
            Out::Flag(n) => format!("flag {n}"),
            Out::Mem(m, f) => format!("mem {} {f}", hex(m)),
            Out::Dyn(None) => "dyn none".into(),
            Out::Dyn(Some(b)) => format!("dyn {}", hex(b)),
        }
    }
}

// ---------------------------------------------------------------------------------------------------
// the plain key-value map of the English statement
// ---------------------------------------------------------------------------------------------------
#[derive(Clone, Default)]
struct Plain { map: BTreeMap<(Key, Key), Vec<u8>>, committed: BTreeMap<(Key, Key), Vec<u8>> }

fn key_add(k: &Key, i: u64) -> Option<Key> {
    let mut out = *k;
    let mut carry = i as u128;
    for b in out.iter_mut().rev() {
        let v = *b as u128 + (carry & 0xff);
        *b = v as u8;
        carry = (carry >> 8) + (v >> 8);
    }
    if carry != 0 { None } else { Some(out) }
}

impl Plain {
    fn keys(k: &Key, range: u64) -> Option<Vec<Key>> { (0..range).map(|i| key_add(k, i)).collect() } // callers bound `range` first
    fn apply(&mut self, cid: Key, op: &Op) -> Out {
        let oob = || Out::Panic("StorageOutOfBounds".into());
        let too_many = || Out::Panic("TooManySlots".into());
        match op {
            Op::Srw { key, off } => match self.map.get(&(cid, *key)) {
                None => Out::Regs(0, 0),
                Some(v) => { let o = *off as usize * 8; if v.len() < o + 8 { oob() } else { Out::Regs(u64::from_be_bytes(v[o..o + 8].try_into().unwrap()), 1) } }
            },
            Op::Srwq { key, range } => {
                if *range > u32::MAX as u64 { return too_many() }
                // slots are visited in key order: whichever of "slot is not 32 bytes" / "key space exhausted" comes first
                let mut m = vec![]; let mut all = 1;
                for i in 0..*range {
                    let Some(k) = key_add(key, i) else { return too_many() };
                    match self.map.get(&(cid, k)) { None => { all = 0; m.extend_from_slice(&[0; 32]) } Some(v) if v.len() == 32 => m.extend_from_slice(v), Some(_) => return oob() }
                }
                Out::Mem(m, all)
            }
            Op::Sww { key, word } => {
                let mut v = vec![0u8; 32]; v[..8].copy_from_slice(&word.to_be_bytes());
                let new = !self.map.contains_key(&(cid, *key));
                self.map.insert((cid, *key), v);
                Out::Flag(new as u64)
            }
            Op::Swwq { key, range, vals } => {
                // slots are written one by one; the key-space overflow is only met when the loop gets there
                if *range > u32::MAX as u64 { return too_many() }
                let mut unset = 0;
                for i in 0..*range {
                    let Some(k) = key_add(key, i) else { return too_many() };
                    if !self.map.contains_key(&(cid, k)) { unset += 1; }
                    self.map.insert((cid, k), vals[i as usize * 32..i as usize * 32 + 32].to_vec());
                }
                Out::Flag(unset)
            }
            Op::Scwq { key, range } => {
                if *range > u32::MAX as u64 { return too_many() }
                let Some(ks) = Self::keys(key, *range) else { return too_many() };
                let all = ks.iter().all(|k| self.map.contains_key(&(cid, *k)));
                for k in ks { self.map.remove(&(cid, k)); }
                Out::Flag(all as u64)
            }
            Op::Sclr { key, range } => {
                if *range > u32::MAX as u64 { return too_many() }
                let Some(ks) = Self::keys(key, *range) else { return too_many() };
                for k in ks { self.map.remove(&(cid, k)); }
                Out::Unit
            }
            // operands that do not fit 32 bits are rejected up front (the VM's 32/64-bit portability rule)
            Op::Srdd { off, len, .. } if *off > u32::MAX as u64 || *len > u32::MAX as u64 => Out::Panic("MemoryOverflow".into()),
            Op::Srdd { key, off, len, .. } => match self.map.get(&(cid, *key)) {
                None => Out::Dyn(None),
                Some(v) => match off.checked_add(*len) { Some(e) if e <= v.len() as u64 => Out::Dyn(Some(v[*off as usize..e as usize].to_vec())), _ => oob() },
            },
            Op::Swrd { key, val, .. } => { if val.len() as u64 > MAX_SLOT { return oob() } self.map.insert((cid, *key), val.clone()); Out::Unit }
            Op::Supd { key, off, src, .. } => {
                let mut v = self.map.get(&(cid, *key)).cloned().unwrap_or_default();
                let off = if *off == u64::MAX { v.len() as u64 } else if *off > u32::MAX as u64 { return Out::Panic("MemoryOverflow".into()) } else { *off };
                if off > v.len() as u64 { return oob() }
                let end = off.saturating_add(src.len() as u64);
                if end > MAX_SLOT { return oob() }
                if end as usize > v.len() { v.resize(end as usize, 0); }
                v[off as usize..end as usize].copy_from_slice(src);
                self.map.insert((cid, *key), v);
                Out::Unit
            }
            Op::Spld { key } => match self.map.get(&(cid, *key)) { None => Out::Regs(0, 1), Some(v) => Out::Regs(v.len() as u64, 0) },
            Op::Tx { revert } => { if *revert { self.map = self.committed.clone() } else { self.committed = self.map.clone() } Out::Unit }
            Op::Enter(_) | Op::Ret => Out::Unit,
        }
    }
}

// ---------------------------------------------------------------------------------------------------
// the real interpreter
// ---------------------------------------------------------------------------------------------------
struct World {
    vm: Vm,
    cp: ConsensusParameters,
    /// contract ids of the frames entered (innermost last)
    ctx_stack: Vec<u8>,
    /// base of this frame's scratch region in the heap
    base: u64,
    call_addr: [u64; 2],
    asset_addr: u64,
    clear_cache: bool,
}

fn ready_tx(cp: &ConsensusParameters) -> fuel_vm::checked_transaction::Ready<Script> {
    let mut data = vec![];
    data.extend_from_slice(&Call::new(ContractId::from(ID_A), 0, 0).to_bytes());
    data.extend_from_slice(&Call::new(ContractId::from(ID_B), 0, 0).to_bytes());
    data.extend_from_slice(&[0u8; 32]);
    let script: Vec<u8> = [op::ret(RegId::ONE)].into_iter().collect();
    let mut b = TransactionBuilder::script(script, data);
    b.script_gas_limit(10_000_000);
    for (i, id) in [ID_A, ID_B].iter().enumerate() {
        b.add_input(Input::contract(Default::default(), Default::default(), Default::default(), Default::default(), ContractId::from(*id)));
        b.add_output(Output::contract(i as u16, Default::default(), Default::default()));
    }
    b.add_fee_input();
    b.finalize().into_checked(Default::default(), cp).expect("checked").test_into_ready()
}

impl World {
    fn new(clear_cache: bool) -> World {
        let mut st = MemoryStorage::default();
        let code: Vec<u8> = [op::noop(), op::noop(), op::ret(RegId::ONE)].into_iter().collect();
        StorageMutate::<ContractsRawCode>::insert(&mut st, &ContractId::from(ID_A), &code[..]).unwrap();
        StorageMutate::<ContractsRawCode>::insert(&mut st, &ContractId::from(ID_B), &code[..]).unwrap();
        st.commit();
        let mut cp = ConsensusParameters::standard();
        cp.set_gas_costs(GasCosts::free());
        cp.set_script_params(ScriptParameters::DEFAULT.with_max_storage_slot_length(MAX_SLOT));
        let vm: Vm = Interpreter::with_storage(MemoryInstance::new(), st, InterpreterParams::new(0, &cp));
        let mut w = World { vm, cp, ctx_stack: vec![], base: 0, call_addr: [0, 0], asset_addr: 0, clear_cache };
        w.begin_tx();
        w
    }
    fn begin_tx(&mut self) {
        let tx = ready_tx(&self.cp);
        self.vm.init_script(tx).expect("init_script");
        let base = (self.vm.tx_offset() + self.vm.transaction().script_data_offset()) as u64;
        let clen = Call::new(ContractId::from(ID_A), 0, 0).to_bytes().len() as u64;
        self.call_addr = [base, base + clen];
        self.asset_addr = base + 2 * clen;
        self.ctx_stack.clear();
        self.enter(0);
    }
    fn step(&mut self, i: Instruction) -> Result<(), String> {
        if self.clear_cache { self.vm.bench_storage_slot_cache_mut().clear(); }
        match self.vm.instruction::<_, false>(i) {
            Ok(_) => Ok(()),
            Err(e) => Err(match e.panic_reason() { Some(r) => format!("{r:?}"), None => "NonPanicError".into() }),
        }
    }
    fn enter(&mut self, which: u8) {
        let (c, a) = (self.call_addr[which as usize], self.asset_addr);
        { let r = self.vm.registers_mut(); r[R0] = c; r[R1] = 0; r[R2] = a; r[R3] = 1_000_000; }
        self.step(op::call(R0 as u8, R1 as u8, R2 as u8, R3 as u8)).expect("call");
        self.ctx_stack.push(which);
        self.scratch();
    }
    fn ret(&mut self) {
        self.step(op::ret(RegId::ONE)).expect("ret");
        self.ctx_stack.pop();
        self.scratch();
    }
    /// fresh owned heap region for the operands of the current frame
    fn scratch(&mut self) {
        self.vm.registers_mut()[R0] = 4096;
        self.step(op::aloc(R0 as u8)).expect("aloc");
        self.base = self.vm.registers()[RegId::HP];
    }
    fn put(&mut self, off: u64, bytes: &[u8]) -> u64 {
        let a = self.base + off;
        if !bytes.is_empty() { self.vm.memory_mut().write_noownerchecks(a, bytes.len()).unwrap().copy_from_slice(bytes); }
        a
    }
    fn get(&self, off: u64, n: u64) -> Vec<u8> { if n == 0 { vec![] } else { self.vm.memory().read(self.base + off, n).unwrap().to_vec() } }
    fn cid(&self) -> Key { if *self.ctx_stack.last().unwrap() == 0 { ID_A } else { ID_B } }

    fn apply(&mut self, op_: &Op) -> Out {
        const KEY: u64 = 0; const VAL: u64 = 64; const DST: u64 = 2048;
        let p = |r: Result<(), String>, ok: &dyn Fn(&World) -> Out, w: &World| match r { Ok(()) => ok(w), Err(e) => Out::Panic(e) };
        match op_ {
            Op::Srw { key, off } => {
                let k = self.put(KEY, key);
                { let r = self.vm.registers_mut(); r[R0] = k; r[ROUT_A] = 777; r[ROUT_B] = 777; }
                let r = self.step(op::srw(ROUT_A as u8, ROUT_B as u8, R0 as u8, *off));
                p(r, &|w| Out::Regs(w.vm.registers()[ROUT_A], w.vm.registers()[ROUT_B]), self)
            }
            Op::Srwq { key, range } => {
                let k = self.put(KEY, key);
                let d = self.put(DST, &vec![0xDD; 32 * (*range).min(8) as usize]);
                { let r = self.vm.registers_mut(); r[R0] = d; r[R1] = k; r[R2] = *range; r[ROUT_B] = 777; }
                let r = self.step(op::srwq(R0 as u8, ROUT_B as u8, R1 as u8, R2 as u8));
                let n = 32 * (*range).min(8);
                p(r, &|w| Out::Mem(w.get(DST, n), w.vm.registers()[ROUT_B]), self)
            }
            Op::Sww { key, word } => {
                let k = self.put(KEY, key);
                { let r = self.vm.registers_mut(); r[R0] = k; r[R1] = *word; r[ROUT_B] = 777; }
                let r = self.step(op::sww(R0 as u8, ROUT_B as u8, R1 as u8));
                p(r, &|w| Out::Flag(w.vm.registers()[ROUT_B]), self)
            }
            Op::Swwq { key, range, vals } => {
                let k = self.put(KEY, key);
                let v = self.put(VAL, vals);
                { let r = self.vm.registers_mut(); r[R0] = k; r[R1] = v; r[R2] = *range; r[ROUT_B] = 777; }
                let r = self.step(op::swwq(R0 as u8, ROUT_B as u8, R1 as u8, R2 as u8));
                p(r, &|w| Out::Flag(w.vm.registers()[ROUT_B]), self)
            }
            Op::Scwq { key, range } => {
                let k = self.put(KEY, key);
                { let r = self.vm.registers_mut(); r[R0] = k; r[R2] = *range; r[ROUT_B] = 777; }
                let r = self.step(op::scwq(R0 as u8, ROUT_B as u8, R2 as u8));
                p(r, &|w| Out::Flag(w.vm.registers()[ROUT_B]), self)
            }
            Op::Sclr { key, range } => {
                let k = self.put(KEY, key);
                { let r = self.vm.registers_mut(); r[R0] = k; r[R2] = *range; }
                let r = self.step(op::sclr(R0 as u8, R2 as u8));
                p(r, &|_| Out::Unit, self)
            }
            Op::Srdd { key, off, len, imm } => {
                let k = self.put(KEY, key);
                let d = self.put(DST, &vec![0xDD; (*len).min(1024) as usize]);
                { let r = self.vm.registers_mut(); r[R0] = d; r[R1] = k; r[R2] = *off; r[R3] = *len; }
                let err0 = self.vm.registers()[RegId::ERR];
                let r = if *imm { self.step(op::srdi(R0 as u8, R1 as u8, R2 as u8, *len as u8)) } else { self.step(op::srdd(R0 as u8, R1 as u8, R2 as u8, R3 as u8)) };
                let n = *len;
                let _ = err0;
                p(r, &|w| if w.vm.registers()[RegId::ERR] == 0 { Out::Dyn(Some(w.get(DST, n))) } else if w.get(DST, n.min(1024)).iter().all(|b| *b == 0xDD) { Out::Dyn(None) } else { Out::Panic("wrote-with-err-set".into()) }, self)
            }
            Op::Swrd { key, val, imm } => {
                let k = self.put(KEY, key);
                let v = self.put(VAL, val);
                { let r = self.vm.registers_mut(); r[R0] = k; r[R1] = v; r[R2] = val.len() as u64; }
                let r = if *imm { self.step(op::swri(R0 as u8, R1 as u8, val.len() as u16)) } else { self.step(op::swrd(R0 as u8, R1 as u8, R2 as u8)) };
                p(r, &|_| Out::Unit, self)
            }
            Op::Supd { key, off, src, imm } => {
                let k = self.put(KEY, key);
                let v = self.put(VAL, src);
                { let r = self.vm.registers_mut(); r[R0] = k; r[R1] = v; r[R2] = *off; r[R3] = src.len() as u64; }
                let r = if *imm { self.step(op::supi(R0 as u8, R1 as u8, R2 as u8, src.len() as u8)) } else { self.step(op::supd(R0 as u8, R1 as u8, R2 as u8, R3 as u8)) };
                p(r, &|_| Out::Unit, self)
            }
            Op::Spld { key } => {
                let k = self.put(KEY, key);
                { let r = self.vm.registers_mut(); r[R0] = k; r[ROUT_A] = 777; }
                let r = self.step(op::spld(ROUT_A as u8, R0 as u8));
                p(r, &|w| Out::Regs(w.vm.registers()[ROUT_A], w.vm.registers()[RegId::ERR]), self)
            }
            Op::Enter(w) => { self.enter(*w); Out::Unit }
            Op::Ret => { self.ret(); Out::Unit }
            Op::Tx { revert } => {
                // what `MemoryClient::transact` does with the storage at the end of a transaction (commit, or revert when the script reverted)
                { let st: &mut MemoryStorage = self.vm.as_mut(); if *revert { st.revert() } else { st.commit() } }
                self.begin_tx();
                Out::Unit
            }
        }
    }
    fn dump(&self) -> Vec<((Key, Key), Vec<u8>)> {
        let st: &MemoryStorage = self.vm.as_ref();
        let mut v: Vec<_> = st.all_contract_state().map(|(k, d)| ((**k.contract_id(), **k.state_key()), d.as_ref().to_vec())).collect();
        v.sort();
        v
    }
}

fn dump_str(d: &[((Key, Key), Vec<u8>)]) -> String {
    if d.is_empty() { return "-".into(); }
    d.iter().map(|((c, k), v)| format!("{}:{}={}", if *c == ID_A { "A" } else { "B" }, hex(k), hex(v))).collect::<Vec<_>>().join(";")
}

// ---------------------------------------------------------------------------------------------------
// generators
// ---------------------------------------------------------------------------------------------------
fn gen_key(r: &mut crate::ctx::Rng, hot: &[Key]) -> Key {
    let base = *r.pick(hot);
    match r.below(6) { 0 | 1 | 2 => base, 3 => key_add(&base, r.below(4)).unwrap_or(base), 4 => { let mut k = base; k[31] ^= 1 << r.below(3); k } _ => { let mut k = [0xFF; 32]; k[31] = 0xFF - r.below(6) as u8; k } }
}
fn gen_len(r: &mut crate::ctx::Rng) -> u64 {
    match r.below(8) { 0 => 0, 1 => 8, 2 => 32, 3 => r.below(9), 4 => 24 + r.below(17), 5 => MAX_SLOT - r.below(3), 6 => MAX_SLOT + 1 + r.below(3), _ => r.below(MAX_SLOT + 1) }
}
fn gen_op(r: &mut crate::ctx::Rng, hot: &[Key], depth: usize) -> Op {
    let key = gen_key(r, hot);
    let range = match r.below(40) { 0 => *r.pick(&[1u64 << 32, u64::MAX, (1 << 32) + 1, 1 << 63]), 1..=6 => 0, 7..=18 => 1, 19..=24 => 2, _ => r.range(2, 7) };
    match r.below(32) {
        0 | 1 => Op::Srw { key, off: match r.below(4) { 0 => 0, 1 => r.below(4) as u8, 2 => r.below(10) as u8, _ => 63 } },
        2 | 3 => Op::Srwq { key, range },
        4 | 5 | 6 => Op::Sww { key, word: r.word() },
        7 | 8 | 9 => Op::Swwq { key, range, vals: r.bytes(32 * range.min(8) as usize) },
        10 | 11 => Op::Scwq { key, range },
        12 | 13 => Op::Sclr { key, range },
        14 | 15 | 16 | 17 => {
            let imm = r.chance(1, 3);
            let off = match r.below(5) { 0 => 0, 1 => r.below(40), 2 => 32, 3 => r.below(MAX_SLOT + 3), _ => if r.chance(1, 4) { r.word() } else { r.below(9) } };
            let len = if imm { r.below(64) } else { match r.below(5) { 0 => 0, 1 => 32, 2 => r.below(40), 3 => r.below(MAX_SLOT + 3), _ => if r.chance(1, 6) { r.word().min(1 << 20) } else { 8 } } };
            Op::Srdd { key, off, len, imm }
        }
        18 | 19 | 20 | 21 => { let n = gen_len(r); Op::Swrd { key, val: r.bytes(n as usize), imm: r.chance(1, 3) } }
        22 | 23 | 24 | 25 => {
            let imm = r.chance(1, 3);
            let n = if imm { gen_len(r).min(63) } else { gen_len(r) };
            let off = match r.below(6) { 0 => u64::MAX, 1 => 0, 2 => 32, 3 => r.below(MAX_SLOT + 3), 4 => r.below(40), _ => if r.chance(1, 4) { r.word() } else { 8 } };
            Op::Supd { key, off, src: r.bytes(n as usize), imm }
        }
        26 | 27 => Op::Spld { key },
        28 | 29 => if depth < 3 { Op::Enter(r.below(2) as u8) } else { Op::Ret },
        30 => if depth > 1 { Op::Ret } else { Op::Enter(r.below(2) as u8) },
        _ => Op::Tx { revert: r.chance(1, 3) },
    }
}

fn op_line(cid: &Key, op: &Op) -> String {
    let c = if *cid == ID_A { "A" } else { "B" };
    match op {
        Op::Srw { key, off } => format!("srw {c} {} {off}", hex(key)),
        Op::Srwq { key, range } => format!("srwq {c} {} {range}", hex(key)),
        Op::Sww { key, word } => format!("sww {c} {} {word}", hex(key)),
        Op::Swwq { key, range, vals } => format!("swwq {c} {} {range} {}", hex(key), hex(vals)),
        Op::Scwq { key, range } => format!("scwq {c} {} {range}", hex(key)),
        Op::Sclr { key, range } => format!("sclr {c} {} {range}", hex(key)),
        Op::Srdd { key, off, len, .. } => format!("srdd {c} {} {off} {len}", hex(key)),
        Op::Swrd { key, val, .. } => format!("swrd {c} {} {}", hex(key), hex(val)),
        Op::Supd { key, off, src, .. } => format!("supd {c} {} {off} {}", hex(key), hex(src)),
        Op::Spld { key } => format!("spld {c} {}", hex(key)),
        Op::Enter(_) | Op::Ret => "ctx".into(),
        Op::Tx { revert } => format!("tx {}", if *revert { "revert" } else { "commit" }),
    }
}
fn op_name(op: &Op) -> &'static str {
    match op { Op::Srw { .. } => "srw", Op::Srwq { .. } => "srwq", Op::Sww { .. } => "sww", Op::Swwq { .. } => "swwq", Op::Scwq { .. } => "scwq", Op::Sclr { .. } => "sclr",
        Op::Srdd { imm, .. } => if *imm { "srdi" } else { "srdd" }, Op::Swrd { imm, .. } => if *imm { "swri" } else { "swrd" }, Op::Supd { imm, .. } => if *imm { "supi" } else { "supd" },
        Op::Spld { .. } => "spld", Op::Enter(_) => "enter", Op::Ret => "ret", Op::Tx { revert } => if *revert { "tx.revert" } else { "tx.commit" } }
}

/// run one history on the implementation (twice: normal, and with the cache emptied before every
/// instruction) and on the plain map; emit one line per instruction
fn history(ctx: &mut Ctx, name: &str, ops: &[Op]) {
    let mut w = World::new(false);
    let mut w2 = World::new(true);
    let mut plain = Plain::default();
    ctx.emit("reset", "unit");
    for (i, op) in ops.iter().enumerate() {
        // keep the frame stack legal
        let op = match op { Op::Ret if w.ctx_stack.len() <= 1 => continue, Op::Enter(_) if w.ctx_stack.len() >= 4 => continue, o => o.clone() };
        let cid = w.cid();
        let line = op_line(&cid, &op);
        let input = format!("history {name} step {i}: {line}");
        let r1 = ctx.guard(|| w.apply(&op));
        let r2 = ctx.guard(|| w2.apply(&op));
        let (o1, o2) = match (r1, r2) {
            (Ok(a), Ok(b)) => (a, b),
            (a, b) => { ctx.oracle_fail(&format!("panic-{}", op_name(&op)), &input, &format!("{:?} {:?}", a.err(), b.err())); ctx.emit(&line, "rust-panic"); return; }
        };
        let expect = plain.apply(cid, &op);
        if o1 != expect { ctx.oracle_fail(&format!("{}-differs-from-plain-map", op_name(&op)), &input, &format!("got {} expected {}", o1.show(), expect.show())); }
        if o1 != o2 { ctx.oracle_fail(&format!("{}-cache-changes-result", op_name(&op)), &input, &format!("with cache {} without {}", o1.show(), o2.show())); }
        ctx.count(&format!("{}.{}", op_name(&op), match &o1 { Out::Panic(p) => p.as_str(), Out::Dyn(None) | Out::Regs(0, 0) | Out::Regs(0, 1) => "absent", _ => "ok" }));
        if let Out::Mem(..) | Out::Dyn(Some(_)) | Out::Regs(_, 1) = &o1 { ctx.distinct(format!("{line} {}", o1.show()).as_bytes()); }
        if !matches!(op, Op::Enter(_) | Op::Ret) { ctx.emit(&line, &o1.show()); }
        if matches!(op, Op::Tx { .. }) || i + 1 == ops.len() {
            let d = w.dump();
            let want: Vec<_> = plain.map.iter().map(|(k, v)| (*k, v.clone())).collect();
            if d != want { ctx.oracle_fail("persistent-state-differs-from-plain-map", &input, &format!("storage {} plain {}", dump_str(&d), dump_str(&want))); }
            if d != w2.dump() { ctx.oracle_fail("cache-changes-persistent-state", &input, "all_contract_state differs between cached and cache-less run"); }
            ctx.emit("dump", &dump_str(&d));
        }
    }
}

fn k(b: u8) -> Key { let mut x = [0u8; 32]; x[31] = b; x }

pub fn run(ctx: &mut Ctx) {
    // ---- corpus: boundary histories -----------------------------------------------------------------
    let top = [0xFFu8; 32];
    let mut top3 = top; top3[31] = 0xFD;
    let v32 = |b: u8| vec![b; 32];
    let corpus: Vec<(&str, Vec<Op>)> = vec![
        ("word-ops", vec![Op::Srw { key: k(1), off: 0 }, Op::Sww { key: k(1), word: 7 }, Op::Srw { key: k(1), off: 0 }, Op::Srw { key: k(1), off: 3 }, Op::Srw { key: k(1), off: 4 },
            Op::Sww { key: k(1), word: u64::MAX }, Op::Srwq { key: k(1), range: 1 }, Op::Spld { key: k(1) }, Op::Tx { revert: false }, Op::Srw { key: k(1), off: 0 }]),
        ("range-at-top", vec![Op::Swwq { key: top3, range: 3, vals: [v32(1), v32(2), v32(3)].concat() }, Op::Srwq { key: top3, range: 3 }, Op::Srwq { key: top3, range: 4 },
            Op::Swwq { key: top3, range: 4, vals: [v32(4), v32(5), v32(6), v32(7)].concat() }, Op::Srwq { key: top3, range: 3 }, Op::Sclr { key: top, range: 1 }, Op::Sclr { key: top, range: 2 }, Op::Scwq { key: top3, range: 4 },
            Op::Scwq { key: top3, range: 3 }, Op::Srwq { key: top3, range: 3 }, Op::Sclr { key: top, range: 0 }, Op::Scwq { key: top, range: 0 }, Op::Srwq { key: top, range: 0 }, Op::Swwq { key: top, range: 0, vals: vec![] }]),
        ("dynamic", vec![Op::Srdd { key: k(2), off: 0, len: 0, imm: false }, Op::Swrd { key: k(2), val: vec![1, 2, 3, 4, 5], imm: false }, Op::Srdd { key: k(2), off: 0, len: 5, imm: false }, Op::Srdd { key: k(2), off: 5, len: 0, imm: true },
            Op::Srdd { key: k(2), off: 6, len: 0, imm: false }, Op::Srdd { key: k(2), off: 2, len: 4, imm: false }, Op::Srdd { key: k(2), off: u64::MAX, len: 1, imm: false }, Op::Srdd { key: k(2), off: 1, len: u64::MAX, imm: false },
            Op::Supd { key: k(2), off: u64::MAX, src: vec![6, 7], imm: false }, Op::Srdd { key: k(2), off: 0, len: 7, imm: true }, Op::Supd { key: k(2), off: 8, src: vec![9], imm: false }, Op::Supd { key: k(2), off: 7, src: vec![9], imm: true },
            Op::Supd { key: k(2), off: 2, src: vec![0xAA; 3], imm: false }, Op::Srdd { key: k(2), off: 0, len: 8, imm: false }, Op::Supd { key: k(2), off: 0, src: vec![1; MAX_SLOT as usize], imm: false },
            Op::Supd { key: k(2), off: 1, src: vec![1; MAX_SLOT as usize], imm: false }, Op::Swrd { key: k(2), val: vec![3; MAX_SLOT as usize + 1], imm: false }, Op::Swrd { key: k(2), val: vec![], imm: true }, Op::Spld { key: k(2) },
            Op::Srw { key: k(2), off: 0 }, Op::Srwq { key: k(2), range: 1 }, Op::Supd { key: k(3), off: 0, src: vec![], imm: false }, Op::Spld { key: k(3) }, Op::Supd { key: k(4), off: 1, src: vec![1], imm: false }, Op::Spld { key: k(4) }]),
        ("contracts-and-txs", vec![Op::Sww { key: k(5), word: 1 }, Op::Enter(1), Op::Srw { key: k(5), off: 0 }, Op::Sww { key: k(5), word: 2 }, Op::Enter(0), Op::Srw { key: k(5), off: 0 }, Op::Sclr { key: k(5), range: 1 }, Op::Ret,
            Op::Srw { key: k(5), off: 0 }, Op::Ret, Op::Srw { key: k(5), off: 0 }, Op::Tx { revert: true }, Op::Srw { key: k(5), off: 0 }, Op::Sww { key: k(5), word: 3 }, Op::Tx { revert: false }, Op::Sclr { key: k(5), range: 1 },
            Op::Tx { revert: true }, Op::Srw { key: k(5), off: 0 }, Op::Enter(1), Op::Srw { key: k(5), off: 0 }]),
        ("mixed-lengths", vec![Op::Swrd { key: k(6), val: vec![1; 31], imm: false }, Op::Srwq { key: k(6), range: 1 }, Op::Srw { key: k(6), off: 3 }, Op::Srw { key: k(6), off: 2 }, Op::Swwq { key: k(6), range: 2, vals: vec![7; 64] },
            Op::Srdd { key: k(7), off: 30, len: 2, imm: false }, Op::Supd { key: k(7), off: 32, src: vec![8; 8], imm: false }, Op::Srwq { key: k(6), range: 2 }, Op::Srw { key: k(7), off: 4 }, Op::Scwq { key: k(6), range: 3 }, Op::Scwq { key: k(6), range: 2 }]),
    ];
    for (name, ops) in &corpus { history(ctx, name, ops); }
    // ---- random histories ----------------------------------------------------------------------------
    let n = ctx.n(120, 3000);
    for h in 0..n {
        let mut hot: Vec<Key> = vec![k(0), k(0x10), top3];
        hot.push(ctx.rng.arr32());
        if ctx.rng.chance(1, 2) { let mut x = [0u8; 32]; x[0] = 0x80; hot.push(x); }
        let len = ctx.rng.range(10, 60);
        let mut depth = 1usize;
        let mut ops = vec![];
        for _ in 0..len {
            let op = gen_op(&mut ctx.rng, &hot, depth);
            match op { Op::Enter(_) => depth += 1, Op::Ret => depth = depth.saturating_sub(1).max(1), Op::Tx { .. } => depth = 1, _ => {} }
            ops.push(op);
        }
        history(ctx, &format!("r{h}"), &ops);
    }
}
