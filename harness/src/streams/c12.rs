//! C12 — sparse Merkle root depends only on the final key-value map.
//! Histories of insert / overwrite / delete over adversarially clustered keys on the REAL
//! `sparse::MerkleTree` (observable storage) and `sparse::in_memory::MerkleTree` (`StorageMap`);
//! after every operation: result, root, node count (+ node-store digest, + full dump for small stores)
//! compared with the Lean storage-level model, the root compared by the ORACLE with the property's own
//! definition (`gen::smt::ref_root`, written against sha2 only), `spec` lines compared with the Lean
//! structural model + specification root; `from_set` / `root_from_set` / `nodes_from_set` of the final
//! map (shuffled, with duplicate keys) likewise.
use crate::{ctx::Ctx, gen::smt::*, util::hex};
use fuel_merkle::sparse::{self, in_memory, MerkleTreeError};
use std::collections::BTreeMap;

type Tree = sparse::MerkleTree<NodesTable, ObsStore>;

pub fn err_name<E>(e: &MerkleTreeError<E>) -> &'static str {
    match e {
        MerkleTreeError::LoadError(_) => "LoadError",
        MerkleTreeError::StorageError(_) => "StorageError",
        MerkleTreeError::DeserializeError(_) => "DeserializeError",
        MerkleTreeError::ChildError(_) => "ChildError",
    }
}

pub enum Op { Ins(B32, Vec<u8>), Del(B32) }

struct Run { tree: Tree, mem: in_memory::MerkleTree, map: BTreeMap<B32, Vec<u8>>, trace: Vec<String> }

fn new_run(ctx: &mut Ctx) -> Run {
    ctx.emit("new", "ok");
    Run { tree: Tree::new(ObsStore::default()), mem: in_memory::MerkleTree::new(), map: BTreeMap::new(), trace: vec!["new".into()] }
}

/// one operation on the real trees + oracle + request lines
fn apply(ctx: &mut Ctx, r: &mut Run, op: &Op, digest: bool) {
    let (line, kind) = match op {
        Op::Ins(k, v) => (format!("ins {} {}", hex(k), hex(v)), "ins"),
        Op::Del(k) => (format!("del {}", hex(k)), "del"),
    };
    r.trace.push(line.clone());
    let replay = || r.trace.join(" ; ");
    let res = {
        let tree = &mut r.tree;
        ctx.guard(|| match op {
            Op::Ins(k, v) => tree.insert(tkey(k), v),
            Op::Del(k) => tree.delete(tkey(k)),
        })
    };
    let res_s = match &res {
        Ok(Ok(())) => "ok".to_string(),
        Ok(Err(e)) => err_name(e).to_string(),
        Err(p) => { ctx.oracle_fail(&format!("panic-{kind}"), &r.trace.join(" ; "), p); format!("panic") }
    };
    if let Ok(Err(_)) = &res { ctx.oracle_fail(&format!("{kind}-returned-error"), &r.trace.join(" ; "), &res_s); }
    {
        let mem = &mut r.mem;
        let _ = ctx.guard(|| match op {
            Op::Ins(k, v) => mem.update(tkey(k), v),
            Op::Del(k) => mem.delete(tkey(k)),
        });
    }
    match op {
        Op::Ins(k, v) => { r.map.insert(*k, v.clone()); }
        Op::Del(k) => { r.map.remove(k); }
    }
    let root = r.tree.root();
    let want = ref_root(&r.map);
    if root != want {
        ctx.oracle_fail(&format!("root-differs-from-compact-root-after-{kind}"), &r.trace.join(" ; "), &format!("root {} expected {}", hex(&root), hex(&want)));
    }
    if r.mem.root() != root {
        ctx.oracle_fail("in_memory-root-differs", &r.trace.join(" ; "), &format!("in_memory {} generic {}", hex(&r.mem.root()), hex(&root)));
    }
    let _ = replay;
    ctx.emit(&line, &format!("{res_s} {} {}", hex(&root), r.tree.storage().map.len()));
    ctx.emit("spec", &hex(&root));
    if digest { ctx.emit("digest", &store_summary(r.tree.storage())); }
}

fn from_set_checks(ctx: &mut Ctx, set: &[(B32, Vec<u8>)], what: &str) {
    let arg = pairs_arg(set);
    let mut m: BTreeMap<B32, Vec<u8>> = BTreeMap::new();
    for (k, v) in set { m.insert(*k, v.clone()); }
    let want = ref_root(&m);
    let fs = ctx.guard(|| Tree::from_set(ObsStore::default(), set.iter().map(|(k, v)| (*k, v.clone()))));
    let mem = ctx.guard(|| in_memory::MerkleTree::from_set(set.iter().map(|(k, v)| (tkey(k), v.clone()))).root());
    let rfs = ctx.guard(|| in_memory::MerkleTree::root_from_set(set.iter().map(|(k, v)| (tkey(k), v.clone()))));
    let nfs = ctx.guard(|| in_memory::MerkleTree::nodes_from_set(set.iter().map(|(k, v)| (tkey(k), v.clone()))));
    let mut out = vec![];
    let mut check = |ctx: &mut Ctx, name: &str, got: Option<B32>| {
        match got {
            Some(r) if r == want => {}
            Some(r) => ctx.oracle_fail(&format!("{name}-root-differs-from-compact-root"), &format!("fromset {arg}"), &format!("got {} expected {}", hex(&r), hex(&want))),
            None => ctx.oracle_fail(&format!("panic-{name}"), &format!("fromset {arg}"), "panicked or failed"),
        }
    };
    let mut built: Option<Tree> = None;
    match fs {
        Ok(Ok(t)) => { out.push(format!("{} {}", hex(&t.root()), store_summary(t.storage()))); check(ctx, "from_set", Some(t.root())); built = Some(t); }
        _ => { out.push("panic".into()); check(ctx, "from_set", None); }
    }
    match &rfs { Ok(r) => { out.push(hex(r)); check(ctx, "root_from_set", Some(*r)); } Err(_) => { out.push("panic".into()); check(ctx, "root_from_set", None); } }
    match &nfs {
        Ok((r, nodes)) => {
            // the order in which from_set emits nodes is not an observable of the property: sorted, distinct
            let set: BTreeMap<B32, fuel_merkle::sparse::Primitive> = nodes.iter().map(|(k, p)| (*k, *p)).collect();
            out.push(format!("{} {} {}", hex(r), set.len(), entries_digest(set.iter())));
            check(ctx, "nodes_from_set", Some(*r));
        }
        Err(_) => { out.push("panic".into()); check(ctx, "nodes_from_set", None); }
    }
    match &mem { Ok(r) => { out.push(hex(r)); check(ctx, "in_memory-from_set", Some(*r)); } Err(_) => { out.push("panic".into()); check(ctx, "in_memory-from_set", None); } }
    ctx.count(what);
    ctx.emit(&format!("fromset {arg}"), &out.join(" "));
    // "Leaves can be appended to the returned tree using update": continue the history on the built tree
    if let Some(tree) = built {
        let mut r = Run { tree, mem: in_memory::MerkleTree::from_set(set.iter().map(|(k, v)| (tkey(k), v.clone()))), map: m, trace: vec![format!("fromset {arg}")] };
        let pool: Vec<B32> = if set.is_empty() { vec![ZERO] } else { set.iter().map(|(k, _)| *k).collect() };
        for _ in 0..3 {
            let op = if ctx.rng.chance(1, 2) { Op::Del(*ctx.rng.pick(&pool)) } else {
                let base = *ctx.rng.pick(&pool); let p = *ctx.rng.pick(PREFIXES); let tail = ctx.rng.below(4);
                let k = if ctx.rng.chance(1, 3) { base } else { key_with_prefix(&mut ctx.rng, &base, p, tail) };
                Op::Ins(k, value(&mut ctx.rng)) };
            apply(ctx, &mut r, &op, true);
            ctx.count("op.after-from_set");
        }
    }
}

fn finish(ctx: &mut Ctx, r: &mut Run) {
    // end of a history: digest, dump (small stores), from_set family on the final map
    ctx.emit("digest", &store_summary(r.tree.storage()));
    if r.tree.storage().map.len() <= 24 { ctx.emit("dump", &dump(r.tree.storage())); ctx.count("dump"); }
    let s = r.tree.storage();
    if reachable(s, &r.tree.root()) != s.map.len() { ctx.count("note.store-has-unreachable-nodes"); }
    let mut set: Vec<(B32, Vec<u8>)> = r.map.iter().map(|(k, v)| (*k, v.clone())).collect();
    // shuffled
    for i in (1..set.len()).rev() { let j = ctx.rng.below(i as u64 + 1) as usize; set.swap(i, j); }
    from_set_checks(ctx, &set, "fromset.final-map");
    if !set.is_empty() && ctx.rng.chance(1, 2) {
        // duplicate keys: an earlier pair with another value must lose
        let mut dup = set.clone();
        for _ in 0..1 + ctx.rng.below(3) {
            let (k, _) = dup[ctx.rng.below(dup.len() as u64) as usize].clone();
            let pos = ctx.rng.below(dup.len() as u64 + 1) as usize;
            let v = value(&mut ctx.rng);
            dup.insert(pos, (k, v));
        }
        from_set_checks(ctx, &dup, "fromset.duplicate-keys");
    }
    ctx.distinct(&r.tree.root());
}

fn gen_op(ctx: &mut Ctx, r: &Run, pool: &[B32]) -> Op {
    let present: Vec<B32> = r.map.keys().copied().collect();
    let c = ctx.rng.below(100);
    if present.is_empty() || c < 45 {
        let k = *ctx.rng.pick(pool);
        ctx.count(if r.map.contains_key(&k) { "op.overwrite" } else { "op.insert-new" });
        let v = value(&mut ctx.rng);
        if r.map.get(&k) == Some(&v) { ctx.count("op.overwrite-same-value"); }
        Op::Ins(k, v)
    } else if c < 55 {
        let k = *ctx.rng.pick(&present);
        ctx.count("op.overwrite-same-value");
        Op::Ins(k, r.map[&k].clone())
    } else if c < 85 {
        ctx.count("op.delete-present");
        Op::Del(*ctx.rng.pick(&present))
    } else {
        let k = *ctx.rng.pick(pool);
        ctx.count(if r.map.contains_key(&k) { "op.delete-present" } else { "op.delete-absent" });
        Op::Del(k)
    }
}

fn k(bytes: &[(usize, u8)]) -> B32 { let mut a = ZERO; for (i, b) in bytes { a[*i] = *b; } a }

fn corpus() -> Vec<Vec<Op>> {
    let z = ZERO; let f = [0xffu8; 32];
    let last1 = k(&[(31, 1)]); let first1 = k(&[(0, 0x80)]);
    let a = k(&[(0, 0x80)]); let b = k(&[(0, 0xc0)]);
    let d = |s: &str| s.as_bytes().to_vec();
    vec![
        // twins differing in the last bit: 255 placeholder levels, then collapse on delete
        vec![Op::Ins(z, d("a")), Op::Ins(last1, d("b")), Op::Del(z), Op::Ins(z, vec![]), Op::Del(last1), Op::Del(z)],
        // deleting the absent all-zero key whose path ends in a placeholder (leaf_key() of a placeholder is zero)
        vec![Op::Ins(a, d("a")), Op::Ins(b, d("b")), Op::Del(z), Op::Ins(z, d("z")), Op::Del(z), Op::Del(z)],
        // all-zero and all-one keys, overwrite, same-value overwrite, empty value
        vec![Op::Ins(z, d("x")), Op::Ins(f, d("y")), Op::Ins(z, d("x")), Op::Ins(z, vec![]), Op::Ins(f, vec![]), Op::Del(f), Op::Del(f), Op::Del(z)],
        // orphan leaf climbing over placeholders to a non-placeholder side node
        vec![Op::Ins(z, d("0")), Op::Ins(last1, d("1")), Op::Ins(first1, d("2")), Op::Del(last1), Op::Del(first1), Op::Ins(last1, d("3")), Op::Del(z)],
        // three keys in one deep cluster + one far away
        vec![Op::Ins(k(&[(31, 0)]), d("a")), Op::Ins(k(&[(31, 1)]), d("b")), Op::Ins(k(&[(31, 2)]), d("c")), Op::Ins(f, d("d")),
             Op::Del(k(&[(31, 1)])), Op::Del(k(&[(31, 0)])), Op::Del(k(&[(31, 2)])), Op::Del(f)],
        // delete on the empty tree, delete of an absent key next to a leaf root
        vec![Op::Del(z), Op::Del(f), Op::Ins(a, d("a")), Op::Del(b), Op::Del(z), Op::Del(a)],
    ]
}

pub fn run(ctx: &mut Ctx) {
    // 0. regression corpus
    for h in corpus() {
        let mut r = new_run(ctx);
        for op in &h { apply(ctx, &mut r, op, true); }
        finish(ctx, &mut r);
        ctx.count("history.corpus");
    }
    // 1. clustered histories
    for i in 0..ctx.n(400, 6000) {
        let size = 2 + ctx.rng.below(if i % 5 == 0 { 14 } else { 7 }) as usize;
        let pool = key_pool(&mut ctx.rng, size);
        let maxcp = pool.iter().enumerate().flat_map(|(i, a)| pool[..i].iter().map(move |b| common_prefix(a, b))).max().unwrap_or(0);
        ctx.count(match maxcp { 0..=7 => "pool.max-shared-prefix.0-7", 8..=63 => "pool.max-shared-prefix.8-63", 64..=199 => "pool.max-shared-prefix.64-199", 200..=253 => "pool.max-shared-prefix.200-253", _ => "pool.max-shared-prefix.254-255" });
        if pool.contains(&ZERO) { ctx.count("pool.has-all-zero-key"); }
        if pool.contains(&[0xffu8; 32]) { ctx.count("pool.has-all-one-key"); }
        let mut r = new_run(ctx);
        let nops = 4 + ctx.rng.below(28);
        for j in 0..nops {
            let op = gen_op(ctx, &r, &pool);
            let small = r.tree.storage().map.len() < 300;
            apply(ctx, &mut r, &op, small || j % 4 == 3);
        }
        finish(ctx, &mut r);
        ctx.count("history.clustered");
    }
    // 2. uniformly random keys (shallow trees, many leaves)
    for _ in 0..ctx.n(30, 400) {
        let pool: Vec<B32> = (0..24 + ctx.rng.below(40)).map(|_| ctx.rng.arr32()).collect();
        let mut r = new_run(ctx);
        for j in 0..30 + ctx.rng.below(50) {
            let op = gen_op(ctx, &r, &pool);
            apply(ctx, &mut r, &op, j % 8 == 7);
        }
        finish(ctx, &mut r);
        ctx.count("history.uniform");
    }
    // 3. from_set on clustered sets without history
    for _ in 0..ctx.n(300, 4000) {
        let size = 1 + ctx.rng.below(12) as usize;
        let pool = key_pool(&mut ctx.rng, size);
        let n = ctx.rng.below(size as u64 + 1) as usize;
        let set: Vec<(B32, Vec<u8>)> = pool.iter().take(n).map(|k| (*k, value(&mut ctx.rng))).collect();
        from_set_checks(ctx, &set, "fromset.clustered");
    }
}
