//! C20 (predicates) — `predicates::{check_predicates, check_predicates_async, estimate_predicates,
//! estimate_predicates_async}` on real script transactions with mixed signed / predicate inputs and generated
//! predicate programs; a custom `ParallelExecutor` runs and completes the tasks in a seed-chosen permutation and
//! records every per-predicate result. The raw outcome of the predicate VM (remaining gas + result of the
//! `verify_predicate` loop), obtained through the public `Interpreter` API, is the table of the Lean model's abstract
//! `vm` parameter; `Chargeable::max_gas` before/after estimation is the table of its `maxGas` parameter.
use crate::ctx::Ctx;
use fuel_asm::{op, GMArgs, GTFArgs, Instruction, PanicReason, RegId};
use fuel_crypto::SecretKey;
use fuel_tx::{
    field::Inputs, Chargeable, ConsensusParameters, Finalizable, Input, Output, Script, TransactionBuilder, TxPointer, UtxoId,
    consensus_parameters::{PredicateParameters, TxParameters},
};
use fuel_types::{Address, AssetId, Bytes32, ContractId, Nonce, Word};
use fuel_vm::{
    checked_transaction::{CheckPredicateParams, IntoChecked, ParallelExecutor},
    context::Context,
    error::{InterpreterError, PredicateVerificationFailed},
    interpreter::{Interpreter, InterpreterParams, MemoryInstance, NotSupportedEcal},
    pool::DummyPool,
    predicate::RuntimePredicate,
    prelude::predicates::{check_predicates, check_predicates_async, estimate_predicates, estimate_predicates_async},
    state::{ExecuteState, ProgramState},
    storage::predicate::{EmptyStorage, PredicateStorage},
};
use std::{future::Future, pin::Pin, sync::Mutex, task::{Context as TaskCx, Poll, Waker}};

// ---------------------------------------------------------------- executor with a chosen completion order
type TaskOut = (usize, Result<Word, PredicateVerificationFailed>);
static PERM: Mutex<Vec<usize>> = Mutex::new(Vec::new());
static LOG: Mutex<Vec<TaskOut>> = Mutex::new(Vec::new());

pub struct PermExec;
#[async_trait::async_trait]
impl ParallelExecutor for PermExec {
    type Task = Pin<Box<dyn Future<Output = TaskOut> + Send + 'static>>;
    fn create_task<F>(func: F) -> Self::Task
    where F: FnOnce() -> TaskOut + Send + 'static {
        Box::pin(async move { func() })
    }
    /// runs the tasks in the order PERM says and returns the results in that (completion) order
    async fn execute_tasks(futures: Vec<Self::Task>) -> Vec<TaskOut> {
        let n = futures.len();
        let mut perm = PERM.lock().unwrap().clone();
        if perm.len() != n { perm = (0..n).collect(); }
        let mut slots: Vec<Option<Self::Task>> = futures.into_iter().map(Some).collect();
        let mut done: Vec<TaskOut> = vec![];
        let mut by_creation: Vec<Option<TaskOut>> = vec![None; n];
        for &k in &perm {
            let r = slots[k].take().expect("permutation").await;
            by_creation[k] = Some(r.clone());
            done.push(r);
        }
        *LOG.lock().unwrap() = by_creation.into_iter().map(|x| x.unwrap()).collect();
        done
    }
}
fn block_on<F: Future>(f: F) -> F::Output {
    let mut f = std::pin::pin!(f);
    let mut cx = TaskCx::from_waker(Waker::noop());
    loop { if let Poll::Ready(v) = f.as_mut().poll(&mut cx) { return v; } }
}

// ---------------------------------------------------------------- canonical names
fn pvf(e: &PredicateVerificationFailed) -> String {
    use PredicateVerificationFailed as P;
    match e {
        P::GasMismatch { index } => format!("GasMismatch:{index}"),
        P::OutOfGas { index } => format!("OutOfGas:{index}"),
        P::InvalidOwner { index } => format!("InvalidOwner:{index}"),
        P::False { index } => format!("False:{index}"),
        P::GasNotSpecified { index } => format!("GasNotSpecified:{index}"),
        P::TransactionExceedsTotalGasAllowance(g) => format!("TransactionExceedsTotalGasAllowance:{g}"),
        P::GasOverflow => "GasOverflow".into(),
        P::Bug(_) => "Bug".into(),
        P::PanicInstruction { index, instruction } => format!("PanicInstruction:{index}:{:?}", instruction.reason()),
        P::Panic { index, reason } => format!("Panic:{index}:{reason:?}"),
        P::Storage { index } => format!("Storage:{index}"),
    }
}
fn verdict(r: &Result<Word, PredicateVerificationFailed>) -> String {
    match r { Ok(g) => format!("ok:{g}"), Err(e) => pvf(e) }
}

// ---------------------------------------------------------------- raw VM probe (public Interpreter API)
#[derive(Clone, PartialEq, Debug)]
enum Res { One, Other, Err(String) }
#[derive(Clone, PartialEq, Debug)]
enum Outcome { InitErr(String), Done(u64, Res) }

/// the classes `PredicateVerificationFailed::interpreter_error` distinguishes
fn classify<E>(e: &InterpreterError<E>) -> String {
    if e.panic_reason() == Some(PanicReason::OutOfGas) { return "outOfGas".into(); }
    match e {
        InterpreterError::Panic(r) => format!("panic-{r:?}"),
        InterpreterError::PanicInstruction(i) => format!("panicInstruction-{:?}", i.reason()),
        InterpreterError::Bug(_) => "bug".into(),
        InterpreterError::Storage(_) => "storage".into(),
        _ => "other".into(),
    }
}
/// one run of the predicate VM for input `idx` with `gas`: `init_predicate` + the `verify_predicate` loop
fn probe(tx: &Script, idx: usize, est: bool, gas: u64, params: &CheckPredicateParams) -> Outcome {
    let program = RuntimePredicate::from_tx(tx, params.tx_offset, idx).expect("predicate input");
    let context = if est { Context::PredicateEstimation { program } } else { Context::PredicateVerification { program } };
    let mut mem = MemoryInstance::new();
    let mut vm = Interpreter::<_, _, Script, NotSupportedEcal>::with_storage_and_ecal(
        &mut mem, PredicateStorage::new(EmptyStorage), InterpreterParams::new(0, params.clone()), NotSupportedEcal);
    if let Err(e) = vm.init_predicate(context, tx.clone(), gas) { return Outcome::InitErr(classify(&e)); }
    let res: Result<ProgramState, InterpreterError<_>> = loop {
        match vm.execute::<true>() {
            Err(e) => break Err(e),
            Ok(ExecuteState::Return(r)) => break if r == 1 { Ok(ProgramState::Return(r)) } else { Err(InterpreterError::Panic(PanicReason::PredicateReturnedNonOne)) },
            Ok(ExecuteState::ReturnData(_)) => break Err(InterpreterError::Panic(PanicReason::ContractInstructionNotAllowed)),
            Ok(ExecuteState::Revert(r)) => break Ok(ProgramState::Revert(r)),
            Ok(ExecuteState::Proceed) => {}
            Ok(ExecuteState::DebugEvent(d)) => break Ok(ProgramState::VerifyPredicate(d)),
        }
    };
    let r = match &res { Ok(ProgramState::Return(1)) => Res::One, Ok(_) => Res::Other, Err(e) => Res::Err(classify(e)) };
    Outcome::Done(vm.remaining_gas(), r)
}
fn show_outcome(o: &Outcome) -> String {
    match o {
        Outcome::InitErr(e) => format!("I:{e}"),
        Outcome::Done(r, Res::One) => format!("D:{r}:t"),
        Outcome::Done(r, Res::Other) => format!("D:{r}:o"),
        Outcome::Done(r, Res::Err(e)) => format!("D:{r}:e-{e}"),
    }
}
fn used_of(avail: u64, o: &Outcome) -> u64 {
    match o { Outcome::Done(r, _) if *r <= avail => avail - r, _ => 0 }
}

// ---------------------------------------------------------------- predicate programs
const R: [u8; 6] = [0x10, 0x11, 0x12, 0x13, 0x14, 0x15];
fn alu(ctx: &mut Ctx) -> Instruction {
    let a = *ctx.rng.pick(&R); let b = *ctx.rng.pick(&R); let c = *ctx.rng.pick(&R);
    let imm = ctx.rng.below(4096) as u16;
    match ctx.rng.below(18) {
        0 => op::add(a, b, c), 1 => op::sub(a, b, c), 2 => op::mul(a, b, c), 3 => op::div(a, b, c), 4 => op::mod_(a, b, c),
        5 => op::and(a, b, c), 6 => op::or(a, b, c), 7 => op::xor(a, b, c), 8 => op::sll(a, b, c), 9 => op::srl(a, b, c),
        10 => op::eq(a, b, c), 11 => op::lt(a, b, c), 12 => op::gt(a, b, c), 13 => op::addi(a, b, imm), 14 => op::muli(a, b, imm),
        15 => op::movi(a, ctx.rng.below(1 << 18) as u32), 16 => op::not(a, b), _ => op::noop(),
    }
}
/// (class label, program, reads the gas registers?)
fn program(ctx: &mut Ctx, coin: bool) -> (&'static str, Vec<Instruction>, bool) {
    let one: u8 = RegId::ONE.to_u8(); let zero: u8 = RegId::ZERO.to_u8();
    match ctx.rng.below(14) {
        0 => ("ret1", vec![op::ret(one)], false),
        1 => ("ret0", vec![op::ret(zero)], false),
        2 | 3 => { let n = 1 + ctx.rng.below(12); let mut p: Vec<Instruction> = (0..n).map(|_| alu(ctx)).collect(); p.push(op::ret(one)); ("alu", p, false) }
        4 => { // loop n times then return 1
            let n = *ctx.rng.pick(&[1u32, 2, 10, 100, 1000, 5000]);
            ("loop", vec![op::movi(0x10, n), op::subi(0x10, 0x10, 1), op::jnzb(0x10, zero, 0), op::ret(one)], false) }
        5 => { // heap write/read
            ("mem", vec![op::movi(0x10, 8 * (1 + ctx.rng.below(64) as u32)), op::aloc(0x10), op::movi(0x11, 7), op::sw(RegId::HP.to_u8(), 0x11, 0),
                         op::lw(0x12, RegId::HP.to_u8(), 0), op::eq(0x13, 0x12, 0x11), op::ret(0x13)], false) }
        6 => { // compare first predicate-data word with a constant
            let k = ctx.rng.below(3) as u32;
            let sel = if coin { GTFArgs::InputCoinPredicateData } else { GTFArgs::InputMessagePredicateData };
            ("data", vec![op::gm_args(0x10, GMArgs::GetVerifyingPredicate), op::gtf_args(0x11, 0x10, sel), op::lb(0x12, 0x11, 0),
                          op::movi(0x13, k), op::eq(0x14, 0x12, 0x13), op::ret(0x14)], false) }
        7 => { // reads its own predicate_gas_used through GTF: must see 0 (stripped) whatever was declared
            let sel = if coin { GTFArgs::InputCoinPredicateGasUsed } else { GTFArgs::InputMessagePredicateGasUsed };
            ("own-gas-field", vec![op::gm_args(0x10, GMArgs::GetVerifyingPredicate), op::gtf_args(0x11, 0x10, sel), op::eq(0x12, 0x11, zero), op::ret(0x12)], false) }
        8 => { // panics
            match ctx.rng.below(4) {
                0 => ("panic-mem", vec![op::not(0x10, zero), op::lw(0x11, 0x10, 0), op::ret(one)], false),
                1 => ("contract-op", vec![op::log(zero, zero, zero, zero), op::ret(one)], false),
                2 => ("revert", vec![op::rvrt(one)], false),
                _ => ("ret-data", vec![op::retd(zero, zero)], false),
            } }
        9 => { // gas introspection: true only while more than K gas is left
            let k = *ctx.rng.pick(&[1u32, 5, 50, 1000, 100_000]);
            let g = if ctx.rng.chance(1, 2) { RegId::GGAS.to_u8() } else { RegId::CGAS.to_u8() };
            ("gas-introspection", vec![op::movi(0x10, k), op::gt(0x11, g, 0x10), op::ret(0x11)], true) }
        10 => { // gas introspection that does not change the verdict
            ("gas-read-harmless", vec![op::move_(0x10, RegId::GGAS.to_u8()), op::add(0x11, 0x10, RegId::CGAS.to_u8()), op::ret(one)], true) }
        11 => ("infinite-loop", vec![op::jmpb(zero, 0)], false),
        12 => { let n = 1 + ctx.rng.below(6); let mut bytes = vec![]; for _ in 0..n { bytes.push(ctx.rng.next() as u32); }
                // raw random words (mostly invalid opcodes)
                ("raw", bytes.into_iter().filter_map(|w| Instruction::try_from(w).ok()).chain([op::ret(one)]).collect(), true) }
        _ => { let n = 1 + ctx.rng.below(6); let mut p: Vec<Instruction> = (0..n).map(|_| alu(ctx)).collect(); p.push(op::ret(*ctx.rng.pick(&R))); ("alu-ret-reg", p, false) }
    }
}

struct PredInfo { class: &'static str, reads_gas: bool }

fn key(ctx: &mut Ctx) -> SecretKey { loop { let b = ctx.rng.arr32(); if let Ok(k) = SecretKey::try_from(&b[..]) { return k; } } }

/// a script transaction with a mix of signed and predicate inputs; `infos[i]` is Some for predicate inputs
fn gen_tx(ctx: &mut Ctx, cp: &ConsensusParameters) -> (Script, Vec<Option<PredInfo>>) {
    let mut b = TransactionBuilder::script(vec![op::ret(RegId::ONE.to_u8())].into_iter().collect(), vec![]);
    b.with_params(cp.clone());
    b.script_gas_limit(ctx.rng.below(10_000)).max_fee_limit(0);
    let n = 1 + ctx.rng.below(6) as usize;
    let mut infos = vec![];
    let base = *cp.base_asset_id();
    let mut have_spendable = false;
    for _ in 0..n {
        match ctx.rng.below(10) {
            0..=2 => { b.add_unsigned_coin_input(key(ctx), UtxoId::new(Bytes32::new(ctx.rng.arr32()), 0), ctx.rng.below(1 << 40), base, TxPointer::default()); infos.push(None); have_spendable = true; }
            3 => { let k = key(ctx); b.add_unsigned_message_input(k, Address::new(ctx.rng.arr32()), Nonce::new(ctx.rng.arr32()), ctx.rng.below(1 << 40), vec![]); infos.push(None); have_spendable = true; }
            4 => { // contract input + its output
                let idx = infos.len() as u16;
                b.add_input(Input::contract(UtxoId::new(Bytes32::new(ctx.rng.arr32()), 0), Bytes32::zeroed(), Bytes32::zeroed(), TxPointer::default(), ContractId::new(ctx.rng.arr32())));
                b.add_output(Output::contract(idx, Bytes32::zeroed(), Bytes32::zeroed()));
                infos.push(None); }
            _ => {
                let kind = ctx.rng.below(3);
                let (class, prog, reads_gas) = program(ctx, kind == 0);
                let code: Vec<u8> = prog.into_iter().collect();
                let mut owner = Input::predicate_owner(&code);
                if ctx.rng.chance(1, 12) { owner = Address::new(ctx.rng.arr32()); }
                let dl = ctx.rng.below(10) as usize;
                let mut data = ctx.rng.bytes(dl);
                if !data.is_empty() { data[0] = ctx.rng.below(3) as u8; }
                let gas = 0;
                let inp = match kind {
                    0 => Input::coin_predicate(UtxoId::new(Bytes32::new(ctx.rng.arr32()), 0), owner, ctx.rng.below(1 << 40), base, TxPointer::default(), gas, code, data),
                    1 => Input::message_coin_predicate(Address::new(ctx.rng.arr32()), owner, ctx.rng.below(1 << 40), Nonce::new(ctx.rng.arr32()), gas, code, data),
                    _ => Input::message_data_predicate(Address::new(ctx.rng.arr32()), owner, ctx.rng.below(1 << 40), Nonce::new(ctx.rng.arr32()), gas, vec![9, 9], code, data),
                };
                if kind != 2 { have_spendable = true; }
                b.add_input(inp);
                infos.push(Some(PredInfo { class, reads_gas }));
            }
        }
    }
    if !have_spendable { b.add_unsigned_coin_input(key(ctx), UtxoId::new(Bytes32::new(ctx.rng.arr32()), 0), 1 << 30, base, TxPointer::default()); infos.push(None); }
    (b.finalize(), infos)
}

fn set_gas(inp: &mut Input, g: u64) {
    match inp {
        Input::CoinPredicate(c) => c.predicate_gas_used = g,
        Input::MessageCoinPredicate(m) => m.predicate_gas_used = g,
        Input::MessageDataPredicate(m) => m.predicate_gas_used = g,
        _ => {}
    }
}
fn gas_vec(tx: &Script) -> Vec<u64> { tx.inputs().iter().filter_map(|i| i.predicate_gas_used()).collect() }
fn owner_valid(i: &Input) -> bool { Input::is_predicate_owner_valid(i.input_owner().unwrap(), i.input_predicate().unwrap()) }
fn inputs_field(tx: &Script) -> String {
    tx.inputs().iter().map(|i| match i.predicate_gas_used() {
        Some(g) => format!("p,{},{}", owner_valid(i) as u8, g),
        None => "n".to_string(),
    }).collect::<Vec<_>>().join(" ")
}
fn perm(ctx: &mut Ctx, n: usize) -> Vec<usize> {
    let mut p: Vec<usize> = (0..n).collect();
    match ctx.rng.below(4) { 0 => {}, 1 => p.reverse(), _ => { for i in (1..n).rev() { let j = ctx.rng.below(i as u64 + 1) as usize; p.swap(i, j); } } }
    p
}
fn show_perm(p: &[usize]) -> String { if p.is_empty() { "-".into() } else { p.iter().map(|x| x.to_string()).collect::<Vec<_>>().join(",") } }
fn show_tasks(l: &[TaskOut]) -> String {
    if l.is_empty() { return "-".into(); }
    l.iter().map(|(i, r)| format!("{i}={}", verdict(r))).collect::<Vec<_>>().join(";")
}

struct Env { cp_loose: ConsensusParameters, params: CheckPredicateParams }

/// verification of `tx` (declared gas as it stands): sequential, and parallel under several completion orders
fn verify_case(ctx: &mut Ctx, env: &Env, tx: &Script, infos: &[Option<PredInfo>], tag: &str) -> Option<Result<Word, PredicateVerificationFailed>> {
    let checked = match tx.clone().into_checked_basic(0u32.into(), &env.cp_loose) {
        Ok(c) => c,
        Err(e) => { ctx.count(&format!("basic-check-rejected.{}", format!("{e:?}").chars().take_while(|c| c.is_alphanumeric()).collect::<String>())); return None; }
    };
    let p = &env.params;
    let npred = tx.inputs().iter().filter(|i| i.predicate_gas_used().is_some()).count();
    let max_gas = tx.max_gas(&p.gas_costs, &p.fee_params);
    // table of the abstract vm: verification runs at the declared gas
    let mut table = vec![];
    let mut probes = vec![];
    for (idx, i) in tx.inputs().iter().enumerate() {
        if let Some(g) = i.predicate_gas_used() {
            let o = probe(tx, idx, false, g, p);
            table.push(format!("{idx}:v:{g}={}", show_outcome(&o)));
            probes.push((idx, g, o));
        }
    }
    let seq = match ctx.guard(|| check_predicates(&checked, p, MemoryInstance::new(), &EmptyStorage, NotSupportedEcal)) {
        Ok(r) => r.map(|c| c.gas_used()),
        Err(m) => { ctx.oracle_fail("panic-check_predicates", tag, &m); return None; }
    };
    for round in 0..3 {
        let pm = if round == 0 { (0..npred).collect() } else { perm(ctx, npred) };
        *PERM.lock().unwrap() = pm.clone();
        LOG.lock().unwrap().clear();
        let par = match ctx.guard(|| block_on(check_predicates_async::<Script, NotSupportedEcal, PermExec>(&checked, p, &DummyPool, &EmptyStorage, NotSupportedEcal))) {
            Ok(r) => r.map(|c| c.gas_used()),
            Err(m) => { ctx.oracle_fail("panic-check_predicates_async", tag, &m); return None; }
        };
        let tasks = LOG.lock().unwrap().clone();
        let line = format!("ver P {} {} M {} I {} T {} O {}", p.max_gas_per_tx, p.max_gas_per_predicate, max_gas, inputs_field(tx), if table.is_empty() { "-".into() } else { table.join(" ") }, show_perm(&pm));
        ctx.emit(&line, &format!("seq={} par={} tasks={}", verdict(&seq), verdict(&par), show_tasks(&tasks)));
        // oracle: same verdict, same total gas, whatever the completion order
        let same = match (&seq, &par) { (Ok(a), Ok(b)) => a == b, (Err(_), Err(_)) => true, _ => false };
        if !same {
            ctx.oracle_fail("parallel-differs-from-sequential", &format!("{tag} order={} tx={}", show_perm(&pm), crate::util::hex(&fuel_types::canonical::Serialize::to_bytes(tx))), &format!("seq={} par={}", verdict(&seq), verdict(&par)));
        }
        if seq.is_err() && par.is_err() && seq != par { ctx.count("ver.first-error-differs-by-order"); }
    }
    ctx.count(&format!("ver.{}", verdict(&seq).split(':').next().unwrap()));
    // oracle: accepted => every predicate owned by its root and returned true with exactly the declared gas; total = sum
    if let Ok(total) = &seq {
        let mut sum: u128 = 0;
        for (idx, g, o) in &probes {
            sum += *g as u128;
            let inp = &tx.inputs()[*idx];
            if !owner_valid(inp) { ctx.oracle_fail("accepted-predicate-wrong-owner", &format!("{tag} input={idx}"), "owner is not the predicate root"); }
            if *o != Outcome::Done(0, Res::One) {
                ctx.oracle_fail("accepted-predicate-not-true-with-exact-gas", &format!("{tag} input={idx} class={} declared={g}", infos[*idx].as_ref().map(|x| x.class).unwrap_or("?")), &format!("raw VM outcome {}", show_outcome(o)));
            }
        }
        if sum != *total as u128 { ctx.oracle_fail("total-gas-not-sum-of-declared", tag, &format!("total {total} sum {sum}")); }
    }
    Some(seq)
}

/// estimation (sequential and parallel), then verification of the estimated transaction
fn estimate_case(ctx: &mut Ctx, env: &Env, tx0: &Script, infos: &[Option<PredInfo>]) {
    let p = &env.params;
    let npred = tx0.inputs().iter().filter(|i| i.predicate_gas_used().is_some()).count();
    let mg0 = tx0.max_gas(&p.gas_costs, &p.fee_params);
    // the gas limits the two estimation modes will use, following the recurrence with the probe outcomes
    let mut table = vec![];
    let mut global = p.max_gas_per_tx.saturating_sub(mg0);
    let par_avail = p.max_gas_per_predicate.min(p.max_gas_per_tx);
    let mut est_probe = vec![];
    for (idx, i) in tx0.inputs().iter().enumerate() {
        if i.predicate_gas_used().is_some() {
            let avail = global.min(p.max_gas_per_predicate);
            let o = probe(tx0, idx, true, avail, p);
            table.push(format!("{idx}:e:{avail}={}", show_outcome(&o)));
            global = global.saturating_sub(used_of(avail, &o));
            let o2 = if par_avail != avail { let o2 = probe(tx0, idx, true, par_avail, p); table.push(format!("{idx}:e:{par_avail}={}", show_outcome(&o2))); o2 } else { o.clone() };
            est_probe.push((idx, avail, o, o2));
        }
    }
    let mut tx_seq = tx0.clone();
    let seq = match ctx.guard(|| estimate_predicates(&mut tx_seq, p, MemoryInstance::new(), &EmptyStorage, NotSupportedEcal)) {
        Ok(r) => r.map(|c| c.gas_used()), Err(m) => { ctx.oracle_fail("panic-estimate_predicates", "est", &m); return; } };
    let mg_seq = tx_seq.max_gas(&p.gas_costs, &p.fee_params);
    let pm = perm(ctx, npred);
    *PERM.lock().unwrap() = pm.clone();
    LOG.lock().unwrap().clear();
    let mut tx_par = tx0.clone();
    let par = match ctx.guard(|| block_on(estimate_predicates_async::<Script, NotSupportedEcal, PermExec>(&mut tx_par, p, &DummyPool, &EmptyStorage, NotSupportedEcal))) {
        Ok(r) => r.map(|c| c.gas_used()), Err(m) => { ctx.oracle_fail("panic-estimate_predicates_async", "est", &m); return; } };
    let mg_par = tx_par.max_gas(&p.gas_costs, &p.fee_params);
    let tasks = LOG.lock().unwrap().clone();
    let gv = |t: &Script| { let v = gas_vec(t); if v.is_empty() { "-".to_string() } else { v.iter().map(|x| x.to_string()).collect::<Vec<_>>().join(",") } };
    let line = format!("est P {} {} M {} {} {} I {} T {} O {}", p.max_gas_per_tx, p.max_gas_per_predicate, mg0, mg_seq, mg_par, inputs_field(tx0), if table.is_empty() { "-".into() } else { table.join(" ") }, show_perm(&pm));
    ctx.emit(&line, &format!("seq={} gas={} par={} gas={} tasks={}", verdict(&seq), gv(&tx_seq), verdict(&par), gv(&tx_par), show_tasks(&tasks)));
    ctx.count(&format!("est.seq.{}", verdict(&seq).split(':').next().unwrap()));
    ctx.count(&format!("est.par.{}", verdict(&par).split(':').next().unwrap()));
    if seq.is_ok() != par.is_ok() { ctx.count("est.seq-par-verdict-differs(outside the statement: different available-gas bounds)"); }
    else if gas_vec(&tx_seq) != gas_vec(&tx_par) { ctx.count("est.seq-par-gas-differs"); }

    // estimate-then-verify on the implementation
    for (name, r, est_tx) in [("seq", &seq, &tx_seq), ("par", &par, &tx_par)] {
        let Ok(total) = r else { continue };
        let Some(v) = verify_case(ctx, env, est_tx, infos, &format!("verify-after-{name}-estimate")) else { continue };
        let input = format!("{name}-estimated tx={}", crate::util::hex(&fuel_types::canonical::Serialize::to_bytes(est_tx)));
        match v {
            Ok(g) if g == *total => ctx.count("est-then-verify.ok"),
            Ok(g) => ctx.oracle_fail("estimate-verify-total-gas-differs", &input, &format!("estimated total {total}, verified total {g}")),
            Err(e) => {
                // classify by the predicate the verification error points at
                use PredicateVerificationFailed as P;
                let at = match &e { P::GasMismatch { index } | P::OutOfGas { index } | P::InvalidOwner { index } | P::False { index }
                    | P::Panic { index, .. } | P::PanicInstruction { index, .. } | P::Storage { index } | P::GasNotSpecified { index } => Some(*index), _ => None };
                let fp = match at.and_then(|i| est_probe.iter().find(|x| x.0 == i)) {
                    None => "estimate-ok-verify-fails",
                    Some((i, _, oseq, opar)) => {
                        let o = if name == "seq" { oseq } else { opar };
                        let info = infos[*i].as_ref().unwrap();
                        if !owner_valid(&est_tx.inputs()[*i]) { "estimate-ok-verify-fails-invalid-owner" }
                        else if !matches!(o, Outcome::Done(_, Res::One)) { "estimate-ok-verify-fails-predicate-not-true" }
                        else if info.reads_gas { "estimate-ok-verify-fails-gas-introspection" }
                        else { "estimate-ok-verify-fails" }
                    }
                };
                let classes: Vec<&str> = infos.iter().flatten().map(|x| x.class).collect();
                ctx.oracle_fail(fp, &input, &format!("estimation Ok({total}) but verification {} (predicate classes {classes:?})", pvf(&e)));
            }
        }
    }
    // gas exactness of the real VM, per predicate (the hypothesis of estimate_then_verify)
    for (idx, avail, o, _) in &est_probe {
        if let Outcome::Done(r, Res::One) = o {
            if r <= avail {
                let o2 = probe(tx0, *idx, false, avail - r, p);
                let info = infos[*idx].as_ref().unwrap();
                if o2 == Outcome::Done(0, Res::One) { ctx.count("vm.gas-exact"); }
                else if info.reads_gas { ctx.count("vm.not-gas-exact.gas-introspecting-program"); }
                else { ctx.oracle_fail("vm-not-gas-exact", &format!("input={idx} class={} avail={avail} remaining={r} tx={}", info.class, crate::util::hex(&fuel_types::canonical::Serialize::to_bytes(tx0))), &format!("re-run with {} gas gives {}", avail - r, show_outcome(&o2))); }
            }
        }
    }
}

pub fn run(ctx: &mut Ctx) {
    if std::env::var("FV_DEBUG_PANIC").is_ok() { std::panic::set_hook(Box::new(|i| eprintln!("{i}"))); }
    // regression corpus (literals): the three witnesses of `estimate_then_verify_literal_false*` on the real VM,
    // and the honest case
    {
        let cp = ConsensusParameters::standard();
        let mut cp_loose = ConsensusParameters::standard();
        cp_loose.set_tx_params(TxParameters::default().with_max_gas_per_tx(u64::MAX));
        cp_loose.set_block_gas_limit(u64::MAX);
        let env = Env { cp_loose, params: CheckPredicateParams::from(&cp) };
        let one = RegId::ONE.to_u8(); let zero = RegId::ZERO.to_u8();
        let lits: Vec<(&'static str, Vec<Instruction>, bool, bool)> = vec![
            ("ret1", vec![op::ret(one)], false, false),
            ("ret0", vec![op::ret(zero)], false, false),
            ("gas-introspection", vec![op::movi(0x10, 100), op::gt(0x11, RegId::GGAS.to_u8(), 0x10), op::ret(0x11)], true, false),
            ("ret1", vec![op::ret(one)], false, true),
        ];
        for (class, prog, reads_gas, wrong_owner) in lits {
            let code: Vec<u8> = prog.into_iter().collect();
            let owner = if wrong_owner { Address::new([7u8; 32]) } else { Input::predicate_owner(&code) };
            let mut b = TransactionBuilder::script(vec![op::ret(one)].into_iter().collect(), vec![]);
            b.with_params(cp.clone());
            b.script_gas_limit(1000).max_fee_limit(0);
            b.add_unsigned_coin_input(SecretKey::try_from(&[3u8; 32][..]).unwrap(), UtxoId::new(Bytes32::new([1u8; 32]), 0), 1000, *cp.base_asset_id(), TxPointer::default());
            b.add_input(Input::coin_predicate(UtxoId::new(Bytes32::new([2u8; 32]), 0), owner, 1000, *cp.base_asset_id(), TxPointer::default(), 0, code, vec![]));
            let tx = b.finalize();
            let infos = vec![None, Some(PredInfo { class, reads_gas })];
            estimate_case(ctx, &env, &tx, &infos);
            ctx.count("corpus");
        }
    }
    let n = ctx.n(160, 2500);
    for c in 0..n {
        // consensus parameters: loose ones for the basic check, tight/varied ones for the predicate functions
        let mut cp_loose = ConsensusParameters::standard();
        cp_loose.set_tx_params(TxParameters::default().with_max_gas_per_tx(u64::MAX));
        cp_loose.set_block_gas_limit(u64::MAX);
        let mut cp = ConsensusParameters::standard();
        let mpp = *ctx.rng.pick(&[0u64, 1, 20, 200, 20_000, 300_000]);
        let mptx = *ctx.rng.pick(&[100_000_000u64, 1_000_000, 200_000, 60_000, 20_000, 0]);
        cp.set_predicate_params(PredicateParameters::default().with_max_gas_per_predicate(mpp));
        cp.set_tx_params(TxParameters::default().with_max_gas_per_tx(mptx));
        let env = Env { cp_loose, params: CheckPredicateParams::from(&cp) };
        let (tx, infos) = gen_tx(ctx, &cp);
        for i in infos.iter().flatten() { ctx.count(&format!("class.{}", i.class)); }
        ctx.distinct(&fuel_types::canonical::Serialize::to_bytes(&tx));
        // 1. estimation on the fresh transaction (declared gas 0), then verification of the result
        estimate_case(ctx, &env, &tx, &infos);
        // 2. verification with perturbed declared gas: exact (from a generous estimation), ±1, 0, large
        let mut exact = tx.clone();
        let generous = CheckPredicateParams::from(&ConsensusParameters::standard());
        let _ = estimate_predicates(&mut exact, &generous, MemoryInstance::new(), &EmptyStorage, NotSupportedEcal);
        verify_case(ctx, &env, &exact, &infos, "exact-gas");
        let mut t = exact.clone();
        let k = ctx.rng.below(t.inputs().len() as u64) as usize;
        let g0 = t.inputs()[k].predicate_gas_used().unwrap_or(0);
        let g = match c % 5 { 0 => g0.wrapping_add(1), 1 => g0.saturating_sub(1), 2 => 0, 3 => ctx.rng.word(), _ => g0 / 2 };
        set_gas(&mut fuel_tx::field::Inputs::inputs_mut(&mut t)[k], g);
        verify_case(ctx, &env, &t, &infos, "perturbed-gas");
        // 3. estimation starting from non-zero declared gas (affects max_gas and the sequential bound)
        if c % 4 == 0 { let mut t2 = t.clone(); for i in fuel_tx::field::Inputs::inputs_mut(&mut t2).iter_mut() { let w = ctx.rng.below(50_000); set_gas(i, w); } estimate_case(ctx, &env, &t2, &infos); }
    }
}
