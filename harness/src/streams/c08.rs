//! C08 — instruction encoding: `Instruction::try_from(u32)`, `u32::from(Instruction)`, `op::X::new`,
//! `unpack()`, `op::X::from_raw_args`, `Opcode::try_from(u8)` against the spec predicate and the Lean model.
use crate::{ctx::Ctx, gen::{instr_gen as g, vmstep}};
use fuel_asm::{Instruction, Opcode};

fn row(op: u8) -> Option<&'static (u8, &'static str, &'static [u8])> {
    g::TABLE.iter().find(|r| r.0 == op)
}
fn bits(k: u8) -> u32 { if k == 0 { 6 } else { k as u32 } }
fn shape_bits(r: &(u8, &str, &[u8])) -> u32 { r.2.iter().map(|k| bits(*k)).sum() }

/// the property's own predicate: defined opcode and every bit not used by its arguments zero
pub fn spec_valid(w: u32) -> bool {
    match row((w >> 24) as u8) {
        None => false,
        Some(r) => {
            let free = 24 - shape_bits(r);
            (w & 0x00FF_FFFF) & ((1u32 << free) - 1) == 0
        }
    }
}
/// arguments at their specified positions (MSB first below the opcode byte)
pub fn spec_args(w: u32) -> Vec<u32> {
    let r = row((w >> 24) as u8).unwrap();
    let mut used = 0;
    r.2.iter().map(|k| { let b = bits(*k); used += b; (w >> (24 - used)) & ((1u32 << b) - 1) }).collect()
}

fn fmt_args(a: &[u32]) -> String { a.iter().map(|x| x.to_string()).collect::<Vec<_>>().join(" ") }

fn dec(ctx: &mut Ctx, w: u32) {
    let r = Instruction::try_from(w);
    let r4 = Instruction::try_from(w.to_be_bytes());
    let out = match &r {
        Ok(i) => {
            let (op, args) = g::unpack(*i);
            let back: u32 = (*i).into();
            let back_bytes = i.to_bytes();
            if back != w { ctx.oracle_fail("reencode-differs", &format!("dec {w}"), &format!("u32::from gives {back}")); }
            if back_bytes != w.to_be_bytes() { ctx.oracle_fail("to_bytes-differs", &format!("dec {w}"), "to_bytes != word bytes"); }
            if i.opcode() as u8 != (w >> 24) as u8 { ctx.oracle_fail("opcode-differs", &format!("dec {w}"), "opcode() != top byte"); }
            if spec_valid(w) && args != spec_args(w) { ctx.oracle_fail("args-misplaced", &format!("dec {w}"), &format!("unpack gives {args:?}, spec {:?}", spec_args(w))); }
            format!("ok {op} {} enc {back}", fmt_args(&args)).replace("  ", " ")
        }
        Err(_) => "err".to_string(),
    };
    if r.is_ok() != spec_valid(w) {
        ctx.oracle_fail("decode-accepts-wrong-set", &format!("dec {w}"), &format!("try_from ok={} spec_valid={}", r.is_ok(), spec_valid(w)));
    }
    if r.is_ok() != r4.is_ok() || (r.is_ok() && r.as_ref().ok() != r4.as_ref().ok()) {
        ctx.oracle_fail("u32-vs-bytes-decoder", &format!("dec {w}"), "try_from(u32) != try_from([u8;4])");
    }
    ctx.count(if r.is_ok() { "dec.ok" } else if row((w >> 24) as u8).is_some() { "dec.err.reserved" } else { "dec.err.opcode" });
    ctx.emit(&format!("dec {w}"), &out);
    // interpreter path: Opcode::try_from(raw[0]) then op::X::from_raw_args(raw[1..])
    let b = w.to_be_bytes();
    let opc = Opcode::try_from(b[0]);
    let raw = g::from_raw_args(b[0], [b[1], b[2], b[3]]);
    let out2 = match (&opc, &raw) {
        (Ok(o), Some(Ok(a))) => format!("ok {} {}", *o as u8, fmt_args(a)).trim_end().to_string(),
        (Ok(_), Some(Err(()))) => "err".to_string(),
        (Err(_), None) => "err".to_string(),
        _ => { ctx.oracle_fail("opcode-table-mismatch", &format!("raw {w}"), "Opcode::try_from disagrees with op table"); "mismatch".to_string() }
    };
    let agrees = match (&r, &raw) {
        (Ok(i), Some(Ok(a))) => g::unpack(*i).1 == *a,
        (Err(_), Some(Err(()))) | (Err(_), None) => true,
        _ => false,
    };
    if !agrees { ctx.oracle_fail("from_raw_args-disagrees", &format!("raw {w}"), "per-opcode parser != general decoder"); }
    ctx.emit(&format!("raw {} {}", b[0], w & 0x00FF_FFFF), &out2);
}

fn newop(ctx: &mut Ctx, op: u8, args: &[u32]) {
    let i = g::construct(op, args).expect("constructible");
    let w: u32 = i.into();
    let d = Instruction::try_from(w);
    match d {
        Ok(j) => {
            let (o2, a2) = g::unpack(j);
            if o2 != op || a2 != args { ctx.oracle_fail("construct-decode-differs", &format!("new {op} {}", fmt_args(args)), &format!("decodes to {o2} {a2:?}")); }
        }
        Err(_) => ctx.oracle_fail("construct-undecodable", &format!("new {op} {}", fmt_args(args)), &format!("word {w} rejected")),
    }
    if !spec_valid(w) || spec_args(w) != args || (w >> 24) as u8 != op {
        ctx.oracle_fail("construct-misplaced", &format!("new {op} {}", fmt_args(args)), &format!("word {w:#x}"));
    }
    ctx.count("new");
    ctx.emit(format!("new {op} {}", fmt_args(args)).trim_end(), &format!("{w}"));
}

/// the interpreter's own dispatch (`Interpreter::instruction`: `Opcode::try_from(raw[0])`, then the per-opcode
/// `execute_op!` parser): a word the general decoder rejects must panic `InvalidInstruction` with every
/// register unchanged (added after seeded change C08-2, which made the VM skip the parser for one opcode)
fn vm_reject(ctx: &mut Ctx, vm: &mut vmstep::Vm, w: u32) {
    let regs = vmstep::base_regs();
    let r = ctx.guard(|| vmstep::step(vm, &regs, w));
    let out = match r {
        Ok((st, after)) => {
            if st != "InvalidInstruction" {
                ctx.oracle_fail("vm-executes-word-the-decoder-rejects", &format!("vm {w}"), &format!("word {w:#010x}: Instruction::try_from rejects it, Interpreter::instruction answered {st}"));
            } else if after != regs {
                ctx.oracle_fail("vm-invalid-instruction-changed-registers", &format!("vm {w}"), &vmstep::fmt_diff(&regs, &after));
            }
            if st == "InvalidInstruction" { "InvalidInstruction".to_string() } else { "accepted".to_string() }
        }
        Err(p) => { ctx.oracle_fail("vm-host-panic-on-invalid-word", &format!("vm {w}"), &p); "panic".to_string() }
    };
    ctx.count("vm.rejected-word");
    ctx.emit(&format!("vm {w}"), &out);
}

pub fn run(ctx: &mut Ctx) {
    // 0. interpreter dispatch on words the decoder rejects: every defined opcode with each reserved bit set
    //    alone / all set / random reserved garbage, and every undefined opcode byte
    {
        let mut vm = vmstep::new_vm();
        for op in 0u32..256 {
            let base = op << 24;
            match row(op as u8) {
                None => { vm_reject(ctx, &mut vm, base); vm_reject(ctx, &mut vm, base | 0x00FF_FFFF); let rw = ctx.rng.next() as u32 & 0x00FF_FFFF; vm_reject(ctx, &mut vm, base | rw); }
                Some(r) => {
                    let free = 24 - shape_bits(r);
                    for k in 0..free { vm_reject(ctx, &mut vm, base | (1 << k)); }
                    if free > 0 {
                        vm_reject(ctx, &mut vm, base | ((1u32 << free) - 1));
                        for _ in 0..ctx.n(3, 30) {
                            let args = (ctx.rng.next() as u32 & 0x00FF_FFFF) >> free << free;
                            let junk = 1 + (ctx.rng.next() as u32 % ((1u32 << free) - 1).max(1));
                            vm_reject(ctx, &mut vm, base | args | (junk & ((1u32 << free) - 1)).max(1));
                        }
                    }
                }
            }
        }
        // a valid word must not be reported as InvalidInstruction
        let regs = vmstep::base_regs();
        let (st, _) = vmstep::step(&mut vm, &regs, 0x4700_0000);
        if st != "ok" { ctx.oracle_fail("vm-rejects-valid-noop", "vm 1191182336", &st); }
    }
    // 1. per opcode byte (all 256): structured low-24-bit patterns
    for op in 0u32..256 {
        let base = op << 24;
        let mut pats: Vec<u32> = vec![0, 0x00FF_FFFF];
        for k in 0..24 { pats.push(1 << k); pats.push(0x00FF_FFFF ^ (1 << k)); }
        if row(op as u8).is_some() {
            for k in [6u32, 12, 18] { pats.push((1 << k) - 1); pats.push(0x00FF_FFFF ^ ((1 << k) - 1)); }
            let nr = ctx.n(40, 400);
            for _ in 0..nr { pats.push(ctx.rng.next() as u32 & 0x00FF_FFFF); }
            // mostly-valid: random arguments, reserved bits zero
            let free = 24 - shape_bits(row(op as u8).unwrap());
            for _ in 0..nr { pats.push((ctx.rng.next() as u32 & 0x00FF_FFFF) >> free << free); }
        } else {
            pats.truncate(6);
        }
        for p in pats {
            ctx.distinct(&(base | p).to_be_bytes());
            dec(ctx, base | p);
        }
    }
    // 2. constructors: every opcode x boundary / random in-range argument tuples
    for r in g::TABLE {
        let n = ctx.n(30, 300);
        let mut tuples: Vec<Vec<u32>> = vec![];
        let maxs: Vec<u32> = r.2.iter().map(|k| (1u32 << bits(*k)) - 1).collect();
        tuples.push(maxs.iter().map(|_| 0).collect());
        tuples.push(maxs.clone());
        for i in 0..maxs.len() {
            // walking one over each argument's bits, others zero / others max
            for b in 0..bits(r.2[i]) {
                let mut t: Vec<u32> = maxs.iter().map(|_| 0).collect(); t[i] = 1 << b; tuples.push(t);
                let mut t = maxs.clone(); t[i] = maxs[i] ^ (1 << b); tuples.push(t);
            }
        }
        for _ in 0..n { tuples.push(maxs.iter().map(|m| (ctx.rng.next() as u32) & m).collect()); }
        if maxs.is_empty() { tuples.truncate(1); }
        for t in tuples { newop(ctx, r.0, &t); }
    }
    // 3. uniformly random words
    for _ in 0..ctx.n(20_000, 400_000) { let w = ctx.rng.next() as u32; ctx.distinct(&w.to_be_bytes()); dec(ctx, w); }
    // 4. thorough: all 2^32 words against the property predicate, in Rust only (failing-input search; not the proof)
    if ctx.thorough() || ctx.scale > 1 {
        let threads = 16u64;
        let chunk = (1u64 << 32) / threads;
        let bad: Vec<u32> = std::thread::scope(|s| {
            let hs: Vec<_> = (0..threads).map(|t| s.spawn(move || {
                let mut bad = vec![];
                for w in (t * chunk)..((t + 1) * chunk) {
                    let w = w as u32;
                    let r = Instruction::try_from(w);
                    let ok = match r {
                        Ok(i) => spec_valid(w) && u32::from(i) == w && g::unpack(i).1 == spec_args(w),
                        Err(_) => !spec_valid(w),
                    };
                    if !ok && bad.len() < 4 { bad.push(w); }
                }
                bad
            })).collect();
            hs.into_iter().flat_map(|h| h.join().unwrap()).collect()
        });
        ctx.count_n("exhaustive.words", 1u64 << 32);
        for w in bad { ctx.oracle_fail("exhaustive-word", &format!("dec {w}"), "spec predicate / re-encoding / argument placement fails"); dec(ctx, w); }
    }
}
