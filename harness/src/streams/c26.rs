//! C26 — gas machine: single-steps generated programs (nested calls, arbitrary forwarded gas, default / unit /
//! randomized schedules, ample and tight limits) on the REAL interpreter. Per instruction the request line carries
//! the mnemonic, operand values and the run-time sizes the schedule depends on; the implementation's answer is
//! `$cgas $ggas depth` after the instruction; the Lean driver replays schedule evaluator + gas machine.
//! Oracle (independent of the model): cgas <= ggas, cgas + saved frames' cgas <= ggas, ggas non-increasing,
//! cgas/ggas move together, call forwarding / return credit equations, OutOfGas shape, gas_used = limit - ggas,
//! and the charge of every simply-priced opcode against `GasCosts` looked up by mnemonic.
#[path = "../gen/vmgen.rs"]
mod vmgen;
#[path = "../gen/gas_gen.rs"]
mod gas_gen;
use crate::{ctx::Ctx, gen::instr_gen as g};
use fuel_asm::{Instruction, PanicReason, RegId};
use fuel_tx::{ContractIdExt, DependentCost, GasCostsValues, Receipt};
use fuel_types::{AssetId, ContractId, SubAssetId};
use fuel_vm::{prelude::InterpreterStorage, storage::ContractsAssetsStorage};
use vmgen::*;

pub fn dep_str(d: &DependentCost) -> String {
    match d {
        DependentCost::LightOperation { base, units_per_gas } => format!("L:{base}:{units_per_gas}"),
        DependentCost::HeavyOperation { base, gas_per_unit } => format!("H:{base}:{gas_per_unit}"),
    }
}
pub fn dump(v: &GasCostsValues) -> String {
    let f = gas_gen::fixed_values(v).expect("V7");
    let d = gas_gen::dep_values(v).expect("V7");
    let mut s: Vec<String> = gas_gen::FIXED.iter().zip(f.iter()).map(|(n, v)| format!("{n}={v}")).collect();
    s.extend(gas_gen::DEP.iter().zip(d.iter()).map(|(n, v)| format!("{n}={}", dep_str(v))));
    s.join(" ")
}
pub fn sched_line(v: &GasCostsValues) -> String {
    let f = gas_gen::fixed_values(v).expect("V7");
    let d = gas_gen::dep_values(v).expect("V7");
    format!("sched {} {}", f.iter().map(|x| x.to_string()).collect::<Vec<_>>().join(" "), d.iter().map(dep_str).collect::<Vec<_>>().join(" "))
}

const STORAGE_OPS: &[&str] = &["SCWQ", "SRW", "SRWQ", "SWW", "SWWQ", "SCLR", "SRDD", "SRDI", "SWRD", "SWRI", "SUPD", "SUPI", "SPLD"];

#[derive(Clone, Debug)]
struct StepRec {
    pc: u64,
    mn: String,
    args: Vec<u64>,
    sizes: Vec<u64>,
    cgas_b: u64, ggas_b: u64, saved_b: Vec<u64>,
    cgas_a: u64, ggas_a: u64, saved_a: Vec<u64>,
    receipts_b: usize,
}

fn pad8(x: u64) -> Option<u64> { x.checked_add(7).map(|v| v & !7) }

/// run-time sizes the schedule depends on, read from the VM state BEFORE the instruction executes
fn sizes(vm: &Vm, mn: &str, a: &[u64]) -> Vec<u64> {
    let st: &fuel_vm::prelude::MemoryStorage = vm.as_ref();
    let csize = |id: &ContractId| st.storage_contract_size(id).ok().flatten().map(|x| x as u64);
    let has_bal = |c: &ContractId, a: &AssetId| st.contract_asset_id_balance(c, a).ok().flatten().is_some();
    match mn {
        "CALL" => {
            let id = mem32(vm, a[0]).map(ContractId::new);
            let asset = mem32(vm, a[2]).map(AssetId::new);
            let size = id.as_ref().and_then(|i| csize(i)).and_then(pad8).unwrap_or(0);
            let new_entry = match (&id, &asset) { (Some(i), Some(s)) => a[1] != 0 && !has_bal(i, s), _ => false };
            vec![size, new_entry as u64]
        }
        "TR" => {
            let id = mem32(vm, a[0]).map(ContractId::new);
            let asset = mem32(vm, a[2]).map(AssetId::new);
            vec![match (&id, &asset) { (Some(i), Some(s)) => (a[1] != 0 && !has_bal(i, s)) as u64, _ => 0 }]
        }
        "MINT" => {
            let c = current_contract(vm);
            let sub = mem32(vm, a[1]).map(SubAssetId::new);
            vec![match (&c, &sub) { (Some(c), Some(s)) => (!has_bal(c, &c.asset_id(s))) as u64, _ => 0 }]
        }
        "CSIZ" | "CROO" => vec![mem32(vm, a[1]).map(ContractId::new).and_then(|i| csize(&i)).unwrap_or(0)],
        "CCP" => vec![mem32(vm, a[1]).map(ContractId::new).and_then(|i| csize(&i)).map(|l| l.max(a[3])).unwrap_or(0)],
        "LDC" => vec![mem32(vm, a[0]).map(ContractId::new).and_then(|i| csize(&i)).map(|l| l.max(pad8(a[2]).unwrap_or(u64::MAX))).unwrap_or(0)],
        _ => vec![],
    }
}

/// the schedule entry an opcode is priced with, by mnemonic (fuel-specs: every instruction has its own
/// entry; aliases listed here) — deliberately NOT derived from opcodes_impl.rs
fn priced_by(mn: &str) -> Option<(String, Option<usize>)> {
    let lower = mn.to_lowercase();
    let alias = match mn {
        "MOD" => "mod_op", "MOVE" => "move_op", "JAL" => "jmp", "CFS" => "cfsi", "LQW" | "LHW" => "lw", "SQW" | "SHW" => "sw",
        _ => lower.as_str(),
    };
    if ["TR", "MINT", "CALL", "LDC", "CCP", "CROO", "CSIZ", "BSIZ", "BLDD", "ECAL"].contains(&mn) || STORAGE_OPS.contains(&mn) { return None; }
    if gas_gen::FIXED.contains(&alias) { return Some((alias.to_string(), None)); }
    if gas_gen::DEP.contains(&alias) {
        let unit = match mn { "RETD" | "MCL" | "MCLI" => 1, "SMO" | "MCP" | "MCPI" | "K256" | "S256" | "EPAR" => 2, "ALOC" | "CFEI" | "CFE" => 0, "MEQ" | "LOGD" | "ED19" => 3, _ => return None };
        return Some((alias.to_string(), Some(unit)));
    }
    None
}
fn expected_cost(v: &GasCostsValues, mn: &str, a: &[u64]) -> Option<u64> {
    let (field, unit) = priced_by(mn)?;
    match unit {
        None => { let i = gas_gen::FIXED.iter().position(|f| *f == field)?; Some(gas_gen::fixed_values(v)?[i]) }
        Some(u) => {
            let i = gas_gen::DEP.iter().position(|f| *f == field)?;
            let mut units = *a.get(u)?;
            if mn == "ED19" && units == 0 { units = 32; }
            Some(gas_gen::dep_values(v)?[i].resolve(units))
        }
    }
}

fn run_case(ctx: &mut Ctx, scn: &Scn, sched_name: &str, tag: &str) -> Option<u64> {
    let built = match build(scn) { Ok(b) => b, Err(e) => { ctx.count(&format!("invalid-tx.{}", e.split(|c: char| !c.is_alphanumeric()).filter(|w| !w.is_empty()).take(2).collect::<Vec<_>>().join("-"))); return None; } };
    let costs: GasCostsValues = (**scn.params.gas_costs()).clone();
    let mut vm = new_vm(scn, built.storage.clone());
    let mut steps: Vec<StepRec> = vec![];
    let mut pending: Option<StepRec> = None;
    let mut first: Option<(u64, u64)> = None;
    let mut inv_fail: Vec<String> = vec![];
    let ready = built.ready;
    let res = ctx.guard(|| run_stepped(&mut vm, ready, 50_000, |vm, stop| {
        let (cg, gg) = (reg(vm, RegId::CGAS), reg(vm, RegId::GGAS));
        let saved = saved_cgas(vm);
        if first.is_none() { first = Some((cg, gg)); }
        // invariant on the implementation at every stop
        if cg > gg { inv_fail.push(format!("cgas>ggas cgas={cg} ggas={gg}")); }
        if (saved.iter().map(|x| *x as u128).sum::<u128>() + cg as u128) > gg as u128 { inv_fail.push(format!("cgas+saved>ggas cgas={cg} saved={saved:?} ggas={gg}")); }
        if let Some(mut p) = pending.take() { p.cgas_a = cg; p.ggas_a = gg; p.saved_a = saved.clone(); steps.push(p); }
        if let Stop::Before = stop {
            let word = current_word(vm).unwrap_or(0);
            let (mn, args) = match Instruction::try_from(word) {
                Ok(i) => {
                    let (opc, raw) = g::unpack(i);
                    let row = g::TABLE.iter().find(|r| r.0 == opc).unwrap();
                    let vals: Vec<u64> = raw.iter().zip(row.2.iter()).map(|(v, k)| if *k == 0 { vm.registers()[*v as usize] } else { *v as u64 }).collect();
                    (row.1.to_string(), vals)
                }
                Err(_) => ("?".to_string(), vec![]),
            };
            let sz = if mn == "?" { vec![] } else { sizes(vm, &mn, &args) };
            pending = Some(StepRec { pc: reg(vm, RegId::PC), mn, args, sizes: sz, cgas_b: cg, ggas_b: gg, saved_b: saved, cgas_a: 0, ggas_a: 0, saved_a: vec![], receipts_b: vm.receipts().len() });
        }
    }));
    let end = match res { Ok(e) => e, Err(msg) => { ctx.oracle_fail("panic-vm-run", &format!("{tag}"), &msg); return None; } };
    let input_id = format!("{tag} sched={sched_name} limit={} steps={}", scn.gas_limit, steps.len());
    for m in inv_fail.iter().take(2) { ctx.oracle_fail("inv-cgas-saved-le-ggas", &input_id, m); }
    let receipts: Vec<Receipt> = vm.receipts().to_vec();
    let panic = panic_of(&receipts);
    let panic_pc = receipts.iter().find_map(|r| match r { Receipt::Panic { pc, .. } => Some(*pc), _ => None });
    match &end.state {
        Ok(_) => {}
        Err(e) if e == "step-limit" => { ctx.count("step-limit"); return None; }
        Err(e) => {
            ctx.count("vm-error");
            ctx.oracle_fail(&format!("vm-error-{}", e.split(|c: char| !c.is_alphanumeric()).next().unwrap_or("x")), &input_id, &e.chars().take(160).collect::<String>());
            return None;
        }
    }
    ctx.emit(&sched_line(&costs), &format!("ok {}", gas_gen::FIXED.len() + gas_gen::DEP.len()));
    let (c0, g0) = first.unwrap_or((scn.gas_limit, scn.gas_limit));
    ctx.emit(&format!("begin {}", scn.gas_limit), &format!("{c0} {g0} 0"));
    let n = steps.len();
    for (k, s) in steps.iter().enumerate() {
        let last = k + 1 == n;
        let this_panicked = last && panic.is_some() && panic_pc == Some(s.pc);
        let oog = this_panicked && panic == Some(PanicReason::OutOfGas);
        let inexact = STORAGE_OPS.contains(&s.mn.as_str()) || s.mn == "ECAL";
        let kind = if inexact { format!("inx {} {}", s.cgas_a, s.ggas_a) }
            else if this_panicked && !oog { format!("pan {} {}", s.cgas_a, s.ggas_a) }
            else { "x".to_string() };
        let line = format!("i {} {} {} {} {} {}", s.mn, s.args.len(), s.args.iter().map(|x| x.to_string()).collect::<Vec<_>>().join(" "),
            s.sizes.len(), s.sizes.iter().map(|x| x.to_string()).collect::<Vec<_>>().join(" "), kind).replace("  ", " ").replace("  ", " ");
        ctx.emit(&line, &format!("{} {} {}", s.cgas_a, s.ggas_a, s.saved_a.len()));
        ctx.count(&format!("op.{}", s.mn));
        ctx.count(if oog { "outcome.oog" } else if this_panicked { "outcome.panic-other" } else { "outcome.ok" });
        if s.saved_b.len() >= 2 { ctx.count("depth>=2"); }
        // ---- oracle on the implementation ----
        let inp = format!("{input_id} step={k} {line}");
        let used = s.ggas_b.wrapping_sub(s.ggas_a);
        if s.ggas_a > s.ggas_b { ctx.oracle_fail("ggas-increased", &inp, &format!("{} -> {}", s.ggas_b, s.ggas_a)); continue; }
        if oog {
            if s.cgas_a != 0 || s.ggas_a != s.ggas_b - s.cgas_b { ctx.oracle_fail("oog-shape", &inp, &format!("after cgas={} ggas={} (before {} {})", s.cgas_a, s.ggas_a, s.cgas_b, s.ggas_b)); }
        } else if s.saved_a.len() == s.saved_b.len() + 1 {
            // CALL: forwarded <= caller cgas after charges, remainder saved, ggas only charged
            let after_charges = s.cgas_b.wrapping_sub(used);
            if s.mn != "CALL" || s.cgas_a > after_charges || s.saved_a[0].checked_add(s.cgas_a) != Some(after_charges) || s.cgas_a > s.args[3] {
                ctx.oracle_fail("call-forward", &inp, &format!("after_charges={after_charges} fwd={} saved={}", s.cgas_a, s.saved_a[0]));
            }
            if let Some(Receipt::Call { gas, .. }) = receipts.get(s.receipts_b) { if *gas != s.cgas_a { ctx.oracle_fail("call-receipt-gas", &inp, &format!("receipt gas {gas} != cgas {}", s.cgas_a)); } }
            ctx.count("call.entered");
            if s.cgas_a < s.args[3] { ctx.count("call.forward-clamped"); }
        } else if s.saved_a.len() + 1 == s.saved_b.len() {
            let exp = (s.cgas_b - used.min(s.cgas_b)).checked_add(s.saved_b[0]);
            if exp != Some(s.cgas_a) || !(s.mn == "RET" || s.mn == "RETD") { ctx.oracle_fail("ret-credit", &inp, &format!("expected cgas {exp:?} got {}", s.cgas_a)); }
            ctx.count("ret.in-call");
        } else if !(this_panicked && s.mn == "CALL") {
            if s.cgas_b.wrapping_sub(s.cgas_a) != used { ctx.oracle_fail("cgas-ggas-delta", &inp, &format!("cgas {}->{} ggas {}->{}", s.cgas_b, s.cgas_a, s.ggas_b, s.ggas_a)); }
        }
        if let Some(exp) = expected_cost(&costs, &s.mn, &s.args) {
            let should_oog = exp > s.cgas_b;
            if should_oog != oog && !(this_panicked && !oog && !should_oog) {
                ctx.oracle_fail("oog-iff-cost-exceeds-cgas", &inp, &format!("cost {exp} cgas {} oog={oog}", s.cgas_b));
            } else if !this_panicked && used != exp {
                ctx.oracle_fail("charge-differs-from-schedule", &inp, &format!("schedule {exp} charged {used}"));
            } else if this_panicked && !oog && used != 0 && used != exp {
                ctx.oracle_fail("charge-differs-from-schedule", &inp, &format!("panicking instruction charged {used}, schedule {exp}"));
            }
            ctx.count("oracle.schedule-checked");
        }
        let mut key = s.mn.as_bytes().to_vec(); key.extend_from_slice(&used.to_be_bytes()); key.push(s.saved_b.len() as u8); key.push(oog as u8);
        ctx.distinct(&key);
    }
    let (result, gas_used) = script_result(&receipts).unwrap_or((u64::MAX, u64::MAX));
    ctx.emit("end", &format!("{gas_used}"));
    let ggas_end = reg(&vm, RegId::GGAS);
    if scn.gas_limit.checked_sub(ggas_end) != Some(gas_used) { ctx.oracle_fail("gas-used-mismatch", &input_id, &format!("limit {} ggas {} reported {}", scn.gas_limit, ggas_end, gas_used)); }
    ctx.count(&format!("sched.{sched_name}"));
    ctx.count(&format!("result.{}", match result { 0 => "success", 1 => "revert", 2 => "panic", _ => "other" }));
    if let Some(p) = panic { ctx.count(&format!("panic.{p:?}")); if let Some(l) = steps.last() { if panic_pc == Some(l.pc) && p != PanicReason::OutOfGas { ctx.count(&format!("panic-at.{p:?}.{}.{}", l.mn, if l.saved_b.is_empty() { "script" } else { "contract" })); } } }
    for kd in &scn.kinds { ctx.count(&format!("gen.{kd}")); }
    Some(gas_used)
}

/// corpus: every opcode of the instruction table executed once (script context, operands = zeroed registers /
/// zero immediates, then `ret`) under a schedule whose entries are pairwise distinct, so that an opcode charging
/// another opcode's entry is visible to the oracle and to the model
fn opcode_sweep(ctx: &mut Ctx) {
    let f: Vec<u64> = (0..gas_gen::FIXED.len() as u64).map(|i| 1000 + 7 * i).collect();
    let d: Vec<DependentCost> = (0..gas_gen::DEP.len() as u64).map(|i| DependentCost::LightOperation { base: 5000 + 11 * i, units_per_gas: 3 + i }).collect();
    let costs = gas_gen::make(&f, &d);
    for row in g::TABLE {
        let mut r = ctx.rng.clone();
        let mut scn = gen_scenario(&mut r, Focus::Gas, costs.clone());
        let base = *scn.params.base_asset_id();
        let args: Vec<u32> = row.2.iter().map(|k| if *k == 0 { 0x10 } else { 0 }).collect();
        let Some(ins) = g::construct(row.0, &args) else { continue };
        let code = vec![ins, fuel_asm::op::ret(RegId::ONE)];
        let mut bytes: Vec<u8> = code.iter().flat_map(|i| i.to_bytes()).collect();
        bytes.extend_from_slice(&pool(&base));
        scn.script = bytes; scn.gas_limit = 1_000_000; scn.gas_price = 0; scn.coin_outs.clear();
        run_case(ctx, &scn, "distinct", &format!("sweep {}", row.1));
        ctx.count("sweep.opcode");
    }
}

pub fn run(ctx: &mut Ctx) {
    // the default schedule as compiled into fuel-tx vs. the table the translator extracted
    ctx.emit("dflt", &dump(&GasCostsValues::default()));
    ctx.emit("unit", &dump(&GasCostsValues::unit()));
    opcode_sweep(ctx);
    let n = ctx.n(120, 1500);
    for case in 0..n {
        let (costs, name) = schedule(&mut ctx.rng, gas_gen::FIXED.len(), gas_gen::DEP.len(), &gas_gen::make);
        let mut scn = gen_scenario(&mut ctx.rng, Focus::Gas, costs);
        if ctx.rng.chance(2, 3) { scn.gas_limit = scn.gas_limit.max(ctx.rng.range(20_000, 2_000_000)); }
        let used = run_case(ctx, &scn, name, &format!("case={case}"));
        // tight limits: rerun with a limit inside the consumption of the ample run (runs out mid-program, mid-call, mid-instruction)
        if let Some(u) = used {
            let reruns = if u > 0 { 2 } else { 0 };
            for r in 0..reruns {
                let mut s2 = scn.clone();
                s2.gas_limit = if r == 0 { ctx.rng.below(u + 1) } else { u.saturating_sub(ctx.rng.below(4)) };
                run_case(ctx, &s2, name, &format!("case={case}.tight{r}"));
                ctx.count("tight-rerun");
            }
        }
    }
}
