//! C26 — gas machine: single-steps generated programs (nested calls, arbitrary forwarded gas, default / unit /
//! randomized schedules, ample and tight limits) on the REAL interpreter. Per instruction the request line carries
//! the mnemonic, operand values and the run-time sizes the schedule depends on; the implementation's answer is
//! `$cgas $ggas depth` after the instruction; the Lean driver replays schedule evaluator + gas machine.
//! Oracle (independent of the model): cgas <= ggas, cgas + saved frames' cgas <= ggas, ggas non-increasing,
//! cgas/ggas move together, call forwarding / return credit equations, OutOfGas shape, gas_used = limit - ggas,
//! and the charge of EVERY opcode (ECAL excepted) against the schedule: `spec_charges` lists, from the specification
//! (schedule entry looked up by mnemonic; dependent costs over the word-padded code length for CALL, the
//! max(stored, requested) length for LDC / CCP / BLDD, the stored length for CSIZ / CROO / BSIZ, the length operand of
//! the memory opcodes, hot / cold slot reads, slot writes and new-storage-byte surcharges for the storage opcodes), the
//! charges the instruction has to make in order, from the state observed BEFORE the instruction; the consumed gas
//! must be their sum, OutOfGas must occur exactly when a prefix sum exceeds `$cgas`, and an instruction that panics
//! for another reason must have consumed exactly a non-empty prefix.
#[path = "../gen/vmgen.rs"]
mod vmgen;
#[path = "../gen/gas_gen.rs"]
mod gas_gen;
use crate::{ctx::Ctx, gen::instr_gen as g};
use fuel_asm::{Instruction, PanicReason, RegId};
use fuel_tx::{ContractIdExt, DependentCost, GasCostsValues, Receipt};
use fuel_storage::StorageSize;
use fuel_types::{AssetId, BlobId, Bytes32, ContractId, SubAssetId};
use fuel_vm::{prelude::InterpreterStorage, storage::{BlobData, ContractsAssetsStorage, ContractsState, ContractsStateKey}};
use std::collections::BTreeMap;
use vmgen::*;

pub fn dep_str(d: &DependentCost) -> String {
    match d {
        DependentCost::LightOperation { base, units_per_gas } => format!("L:{base}:{units_per_gas}"),
        DependentCost::HeavyOperation { base, gas_per_unit } => format!("H:{base}:{gas_per_unit}"),
    }
}
pub fn dump(v: &GasCostsValues) -> String {
    let f = gas_gen::fixed_values(v).expect("V7");
    let d = gas_gen::dep_values(v).expect("V7");
    let mut s: Vec<String> = gas_gen::FIXED.iter().zip(f.iter()).map(|(n, v)| format!("{n}={v}")).collect();
    s.extend(gas_gen::DEP.iter().zip(d.iter()).map(|(n, v)| format!("{n}={}", dep_str(v))));
    s.join(" ")
}
pub fn sched_line(v: &GasCostsValues) -> String {
    let f = gas_gen::fixed_values_any(v);
    let d = gas_gen::dep_values_any(v);
    format!("sched {} {} {}", gas_gen::version(v), f.iter().map(|x| x.to_string()).collect::<Vec<_>>().join(" "), d.iter().map(dep_str).collect::<Vec<_>>().join(" "))
}

const STORAGE_OPS: &[&str] = &["SCWQ", "SRW", "SRWQ", "SWW", "SWWQ", "SCLR", "SRDD", "SRDI", "SWRD", "SWRI", "SUPD", "SUPI", "SPLD"];

#[derive(Clone, Debug)]
struct StepRec {
    pc: u64,
    mn: String,
    args: Vec<u64>,
    sizes: Vec<u64>,
    cgas_b: u64, ggas_b: u64, saved_b: Vec<u64>,
    cgas_a: u64, ggas_a: u64, saved_a: Vec<u64>,
    receipts_b: usize,
    spec: Option<Spec>,
}

fn pad8(x: u64) -> Option<u64> { x.checked_add(7).map(|v| v & !7) }

/// run-time state the schedule depends on, read from the VM BEFORE the instruction executes (what the model is told):
/// CALL `[callee exists, code size, new-balance-entry]`; TR / MINT `[new-balance-entry]`; LDC (contract, blob) / CCP /
/// CROO / CSIZ / BSIZ / BLDD `[exists, stored length]`; storage opcodes `[in slot cache, value length]` per slot in key order
fn sizes(vm: &Vm, mn: &str, a: &[u64]) -> Vec<u64> {
    let st: &fuel_vm::prelude::MemoryStorage = vm.as_ref();
    let csize = |id: &ContractId| st.storage_contract_size(id).ok().flatten().map(|x| x as u64);
    let has_bal = |c: &ContractId, a: &AssetId| st.contract_asset_id_balance(c, a).ok().flatten().is_some();
    let bsize = |id: &BlobId| StorageSize::<BlobData>::size_of_value(st, id).ok().flatten().map(|x| x as u64);
    let stored = |l: Option<u64>| match l { Some(l) => vec![1, l], None => vec![0, 0] };
    match mn {
        "CALL" => {
            let id = mem32(vm, a[0]).map(ContractId::new);
            let asset = mem32(vm, a[2]).map(AssetId::new);
            let mut v = stored(id.as_ref().and_then(|i| csize(i)));
            v.push(match (&id, &asset) { (Some(i), Some(s)) => (a[1] != 0 && !has_bal(i, s)) as u64, _ => 0 });
            v
        }
        "TR" => {
            let id = mem32(vm, a[0]).map(ContractId::new);
            let asset = mem32(vm, a[2]).map(AssetId::new);
            vec![match (&id, &asset) { (Some(i), Some(s)) => (a[1] != 0 && !has_bal(i, s)) as u64, _ => 0 }]
        }
        "MINT" => {
            let c = current_contract(vm);
            let sub = mem32(vm, a[1]).map(SubAssetId::new);
            vec![match (&c, &sub) { (Some(c), Some(s)) => (!has_bal(c, &c.asset_id(s))) as u64, _ => 0 }]
        }
        "CSIZ" | "CROO" | "CCP" => stored(mem32(vm, a[1]).map(ContractId::new).and_then(|i| csize(&i))),
        "BSIZ" | "BLDD" => stored(mem32(vm, a[1]).map(BlobId::new).and_then(|i| bsize(&i))),
        "LDC" => match a[3] {
            0 => stored(mem32(vm, a[0]).map(ContractId::new).and_then(|i| csize(&i))),
            1 => stored(mem32(vm, a[0]).map(BlobId::new).and_then(|i| bsize(&i))),
            _ => vec![],
        },
        _ if STORAGE_OPS.contains(&mn) => {
            let key_ptr = match mn { "SRW" | "SRWQ" => a[2], "SRDD" | "SRDI" | "SPLD" => a[1], _ => a[0] };
            let (Some(c), Some(key)) = (current_contract(vm), mem32(vm, key_ptr).map(Bytes32::new)) else { return vec![] };
            let n = match mn { "SCWQ" => a[2], "SRWQ" | "SWWQ" => a[3], "SCLR" => 0, _ => 1 };
            let mut v = vec![];
            for i in 0..n.min(SLOT_CAP) {
                let Some(k) = key_add(&key, i) else { break };
                match vm.bench_storage_slot_cache().get(&(c, k)) {
                    Some(val) => { v.push(1); v.push(val.as_ref().map(|d| d.len()).unwrap_or(0) as u64); }
                    None => { v.push(0); v.push(StorageSize::<ContractsState>::size_of_value(st, &ContractsStateKey::new(&c, &k)).ok().flatten().unwrap_or(0) as u64); }
                }
            }
            v
        }
        _ => vec![],
    }
}

// ---------------------------------------------------------------------------------------------
// Specification-side schedule evaluator (independent of opcodes_impl.rs, of the Lean model and of
// `DependentCost::resolve*`): which schedule entries an instruction is charged, in which order, over which unit counts.

/// schedule entry by name in the schedule's own version; `None`: this version does not define it
fn fixed_cost(v: &GasCostsValues, field: &str) -> Option<u64> {
    let i = gas_gen::fixed_names(gas_gen::version(v)).iter().position(|f| *f == field)?;
    Some(gas_gen::fixed_values_any(v)[i])
}
/// versions that price an instruction with a plain word serve it as a heavy operation without per-unit cost;
/// V1 / V2 have no `cfe` entry and price CFE like CFEI
fn dep_cost(v: &GasCostsValues, field: &str) -> Option<DependentCost> {
    let k = gas_gen::version(v);
    if let Some(i) = gas_gen::dep_names(k).iter().position(|f| *f == field) { return Some(gas_gen::dep_values_any(v)[i]); }
    if let Some(base) = fixed_cost(v, field) { return Some(DependentCost::HeavyOperation { base, gas_per_unit: 0 }); }
    if field == "cfe" && k <= 2 { return dep_cost(v, "cfei"); }
    None
}
fn dep_base(d: &DependentCost) -> u64 { match d { DependentCost::LightOperation { base, .. } | DependentCost::HeavyOperation { base, .. } => *base } }
/// the part of a dependent cost that depends on the unit count: `units / units_per_gas` (light), `units * gas_per_unit` (heavy, saturating)
fn dep_units(d: &DependentCost, units: u64) -> Option<u64> {
    match d {
        DependentCost::LightOperation { units_per_gas, .. } => units.checked_div(*units_per_gas),
        DependentCost::HeavyOperation { gas_per_unit, .. } => Some(u64::try_from(units as u128 * *gas_per_unit as u128).unwrap_or(u64::MAX)),
    }
}
fn dep_total(d: &DependentCost, units: u64) -> Option<u64> { Some(dep_base(d).saturating_add(dep_units(d, units)?)) }

/// size in bytes of one contract balance entry (asset id + amount) that the new-storage surcharge of TR / MINT / CALL pays for
const BALANCE_ENTRY_BYTES: u64 = 32 + 8;

type SlotKey = (ContractId, Bytes32);
/// slots accessed (read, written or cleared) earlier in this transaction -> byte length of their current value (`None`: unset).
/// A slot is *hot* iff it is in this map; maintained by the oracle itself from the executed instructions.
type Hot = BTreeMap<SlotKey, Option<usize>>;

#[derive(Clone, Debug, Default)]
struct Spec {
    /// (schedule entry and unit count, amount), in the order the instruction has to make them
    charges: Vec<(String, u64)>,
    /// false: only a prefix is known - the instruction cannot complete (missing contract / blob, key range past 2^256,
    /// external context, unreadable operand memory, ...) and has to panic after at most these charges
    complete: bool,
    /// storage slots the instruction accesses with the hot flag and length the oracle's own history gives them,
    /// and what the VM's slot cache says about the same slots (compared by the caller)
    cache_mismatch: Option<String>,
    /// the next schedule entry is not defined in this schedule version: GasCostNotDefined after the listed charges
    undefined: Option<String>,
}
impl Spec {
    fn push(&mut self, what: String, amount: Option<u64>) -> bool {
        if !self.complete { return false; }
        match amount { Some(a) => { self.charges.push((what, a)); true } None => { self.complete = false; self.undefined = Some(what); false } }
    }
}

fn key_add(key: &Bytes32, i: u64) -> Option<Bytes32> {
    let mut b = **key; let mut carry = i as u128;
    for k in (0..32).rev() { let v = b[k] as u128 + (carry & 0xff); b[k] = v as u8; carry = (carry >> 8) + (v >> 8); if carry == 0 { break; } if k == 0 && carry != 0 { return None; } }
    Some(Bytes32::new(b))
}

struct SlotView<'a> { vm: &'a Vm, hot: &'a mut Hot, costs: &'a GasCostsValues, mismatch: Option<String>, seen: Vec<SlotKey> }
impl<'a> SlotView<'a> {
    fn stored_len(&self, k: &SlotKey) -> Option<usize> {
        let st: &fuel_vm::prelude::MemoryStorage = self.vm.as_ref();
        StorageSize::<ContractsState>::size_of_value(st, &ContractsStateKey::new(&k.0, &k.1)).ok().flatten()
    }
    /// (is hot, current length) by the oracle's history; cross-checked against the VM's slot cache
    fn look(&mut self, k: &SlotKey) -> (bool, Option<usize>) {
        let mine = self.hot.get(k).cloned();
        let vm = self.vm.bench_storage_slot_cache().get(k).map(|v| v.as_ref().map(|d| d.len()));
        // (the VM's cache is the state before the instruction: compare at the instruction's first access of the slot only)
        let first = !self.seen.contains(k);
        if first { self.seen.push(*k); }
        if first && mine != vm && self.mismatch.is_none() { self.mismatch = Some(format!("slot {}: access history says {:?}, VM cache says {:?}", crate::util::hex(&*k.1), mine, vm)); }
        match mine { Some(l) => (true, l), None => (false, self.stored_len(k)) }
    }
    /// one charged slot read: `storage_read_hot` / `storage_read_cold` over the value's byte length (0 if unset)
    fn read(&mut self, sp: &mut Spec, k: &SlotKey) -> Option<usize> {
        let (hot, len) = self.look(k);
        let entry = if hot { "storage_read_hot" } else { "storage_read_cold" };
        let units = len.unwrap_or(0) as u64;
        let d = dep_cost(self.costs, entry);
        sp.push(format!("{entry}[{}]({units})", d.as_ref().map(dep_str).unwrap_or_else(|| "undefined".into())), d.and_then(|d| dep_total(&d, units)));
        self.hot.insert(*k, len);
        len
    }
    /// one slot write of `new_len` bytes: `storage_write` over the new length, then `new_storage_per_byte` for every byte
    /// the value grows by (nothing when it shrinks); looking up the old length is not charged
    fn write(&mut self, sp: &mut Spec, k: &SlotKey, new_len: u64) {
        let (_, old) = self.look(k);
        let old = old.unwrap_or(0) as u64;
        let d = dep_cost(self.costs, "storage_write");
        if !sp.push(format!("storage_write[{}]({new_len})", d.as_ref().map(dep_str).unwrap_or_else(|| "undefined".into())), d.and_then(|d| dep_total(&d, new_len))) { return; }
        let grow = new_len.saturating_sub(old);
        let per = fixed_cost(self.costs, "new_storage_per_byte");
        sp.push(format!("new_storage_per_byte[{}]*{grow}(old {old})", per.unwrap_or(0)), per.map(|p| p.saturating_mul(grow)));
        self.hot.insert(*k, Some(new_len as usize));
    }
    fn clear(&mut self, sp: &mut Spec, c: &ContractId, key: &Bytes32, range: u64) {
        let d = dep_cost(self.costs, "storage_clear");
        if !sp.push(format!("storage_clear[{}]({range})", d.as_ref().map(dep_str).unwrap_or_else(|| "undefined".into())), d.and_then(|d| dep_total(&d, range))) { return; }
        for i in 0..range.min(SLOT_CAP) { if let Some(k) = key_add(key, i) { self.hot.insert((*c, k), None); } }
    }
}
/// generated programs keep slot ranges far below this; a larger range makes the expectation open-ended (not checked)
const SLOT_CAP: u64 = 64;

/// The charges instruction `mn` with operand values `a` has to make, from the state before it executes.
/// `None`: not priced by this oracle (ECAL, undecodable word).
fn spec_charges(vm: &Vm, costs: &GasCostsValues, hot: &mut Hot, mn: &str, a: &[u64]) -> Option<Spec> {
    let st: &fuel_vm::prelude::MemoryStorage = vm.as_ref();
    let csize = |id: &ContractId| st.storage_contract_size(id).ok().flatten().map(|x| x as u64);
    let bsize = |id: &BlobId| StorageSize::<BlobData>::size_of_value(st, id).ok().flatten().map(|x| x as u64);
    let has_bal = |c: &ContractId, a: &AssetId| st.contract_asset_id_balance(c, a).ok().flatten().is_some();
    let mut sp = Spec { charges: vec![], complete: true, cache_mismatch: None, undefined: None };
    let lower = mn.to_lowercase();
    let entry = match mn { "MOD" => "mod_op", "MOVE" => "move_op", "JAL" => "jmp", "CFS" => "cfsi", "LQW" | "LHW" => "lw", "SQW" | "SHW" => "sw", _ => lower.as_str() };
    let new_entry = |sp: &mut Spec| { let per = fixed_cost(costs, "new_storage_per_byte"); sp.push(format!("new_storage_per_byte[{}]*{BALANCE_ENTRY_BYTES}", per.unwrap_or(0)), per.map(|p| p.saturating_mul(BALANCE_ENTRY_BYTES))); };
    // base of a dependent entry first, the unit-dependent part once the size is known
    let base_then = |sp: &mut Spec, units: Option<u64>| {
        let d = dep_cost(costs, entry);
        let tag = d.as_ref().map(dep_str).unwrap_or_else(|| "undefined".into());
        if !sp.push(format!("{entry}[{tag}].base"), d.as_ref().map(dep_base)) { return; }
        match units { Some(u) => { sp.push(format!("{entry}[{tag}].units({u})"), d.and_then(|d| dep_units(&d, u))); } None => sp.complete = false }
    };
    match mn {
        "ECAL" | "?" => return None,
        "CALL" => {
            let id = mem32(vm, a[0]).map(ContractId::new);
            let asset = mem32(vm, a[2]).map(AssetId::new);
            base_then(&mut sp, id.as_ref().and_then(|i| csize(i)).and_then(pad8));
            match (&id, &asset) { (Some(i), Some(s)) => { if sp.complete && a[1] != 0 && !has_bal(i, s) { new_entry(&mut sp); } } _ => sp.complete = false }
        }
        "TR" => {
            sp.push("tr".into(), fixed_cost(costs, "tr"));
            match (mem32(vm, a[0]).map(ContractId::new), mem32(vm, a[2]).map(AssetId::new)) { (Some(i), Some(s)) => { if a[1] != 0 && !has_bal(&i, &s) { new_entry(&mut sp); } } _ => sp.complete = false }
        }
        "MINT" => {
            sp.push("mint".into(), fixed_cost(costs, "mint"));
            match (current_contract(vm), mem32(vm, a[1]).map(SubAssetId::new)) { (Some(c), Some(s)) => { if !has_bal(&c, &c.asset_id(&s)) { new_entry(&mut sp); } } _ => sp.complete = false }
        }
        "CSIZ" | "CROO" => base_then(&mut sp, mem32(vm, a[1]).map(ContractId::new).and_then(|i| csize(&i))),
        "CCP" => base_then(&mut sp, mem32(vm, a[1]).map(ContractId::new).and_then(|i| csize(&i)).map(|l| l.max(a[3]))),
        "BSIZ" => base_then(&mut sp, mem32(vm, a[1]).map(BlobId::new).and_then(|i| bsize(&i))),
        "BLDD" => base_then(&mut sp, mem32(vm, a[1]).map(BlobId::new).and_then(|i| bsize(&i)).map(|l| l.max(a[3]))),
        "LDC" => match a[3] {
            0 => base_then(&mut sp, mem32(vm, a[0]).map(ContractId::new).and_then(|i| csize(&i)).and_then(|l| pad8(a[2]).map(|p| l.max(p)))),
            1 => base_then(&mut sp, mem32(vm, a[0]).map(BlobId::new).and_then(|i| bsize(&i)).map(|l| l.max(pad8(a[2]).unwrap_or(u64::MAX)))),
            2 if a[2] == 0 => { sp.push("ldc.base".into(), dep_cost(costs, "ldc").as_ref().map(dep_base)); }
            2 => base_then(&mut sp, Some(pad8(a[2]).unwrap_or(u64::MAX))),
            _ => base_then(&mut sp, None),
        },
        _ if STORAGE_OPS.contains(&mn) => {
            sp.push("noop".into(), fixed_cost(costs, "noop"));
            let key_ptr = match mn { "SRW" | "SRWQ" => a[2], "SRDD" | "SRDI" | "SPLD" => a[1], _ => a[0] };
            let (Some(c), Some(key)) = (current_contract(vm), mem32(vm, key_ptr).map(Bytes32::new)) else { sp.complete = false; return Some(sp); };
            let mut view = SlotView { vm, hot, costs, mismatch: None, seen: vec![] };
            let range = match mn { "SCWQ" => Some(a[2]), "SRWQ" | "SWWQ" => Some(a[3]), _ => None };
            if let Some(range) = range {
                for i in 0..range.min(SLOT_CAP) {
                    let Some(k) = key_add(&key, i) else { sp.complete = false; break };
                    view.read(&mut sp, &(c, k));
                    if mn == "SWWQ" { view.write(&mut sp, &(c, k), 32); }
                    if !sp.complete { break; }
                }
                if range > SLOT_CAP { sp.complete = false; }
                if mn == "SCWQ" && sp.complete { view.clear(&mut sp, &c, &key, range); }
            } else {
                let k = (c, key);
                match mn {
                    "SRW" | "SRDD" | "SRDI" | "SPLD" => { view.read(&mut sp, &k); }
                    "SWW" => { view.read(&mut sp, &k); view.write(&mut sp, &k, 32); }
                    "SWRD" | "SWRI" => view.write(&mut sp, &k, a[2]),
                    "SUPD" | "SUPI" => {
                        let old = view.read(&mut sp, &k).unwrap_or(0) as u64;
                        let off = if a[2] == u64::MAX { old } else { a[2] };
                        if off > old { sp.complete = false; } else { view.write(&mut sp, &k, old.max(off.saturating_add(a[3]))); }
                    }
                    "SCLR" => { if a[1] > 1 && key_add(&key, a[1] - 1).is_none() { sp.complete = false; } else { view.clear(&mut sp, &c, &key, a[1]); } }
                    _ => return None,
                }
            }
            sp.cache_mismatch = view.mismatch;
        }
        _ => {
            if gas_gen::FIXED.contains(&entry) { sp.push(entry.to_string(), fixed_cost(costs, entry)); }
            else if gas_gen::DEP.contains(&entry) {
                let unit = match mn { "RETD" | "MCL" | "MCLI" => 1, "SMO" | "MCP" | "MCPI" | "K256" | "S256" | "EPAR" => 2, "ALOC" | "CFEI" | "CFE" => 0, "MEQ" | "LOGD" | "ED19" => 3, _ => return None };
                let mut units = *a.get(unit)?;
                if mn == "ED19" && units == 0 { units = 32; }
                let d = dep_cost(costs, entry);
                sp.push(format!("{entry}[{}]({units})", d.as_ref().map(dep_str).unwrap_or_else(|| "undefined".into())), d.and_then(|d| dep_total(&d, units)));
            } else { return None; }
        }
    }
    Some(sp)
}

fn run_case(ctx: &mut Ctx, scn: &Scn, sched_name: &str, tag: &str) -> Option<u64> { run_case_on(ctx, scn, sched_name, tag, None) }

/// (pc, $cgas, $ggas) at every stop of a run, and the encoded receipts
type GasTrace = (Vec<(u64, u64, u64)>, Vec<Vec<u8>>);

fn gas_trace(vm: &mut Vm, ready: fuel_vm::checked_transaction::Ready<fuel_tx::Script>) -> GasTrace {
    let mut t = vec![];
    run_stepped(vm, ready, 50_000, |vm, _| t.push((reg(vm, RegId::PC), reg(vm, RegId::CGAS), reg(vm, RegId::GGAS))));
    (t, vm.receipts().iter().map(|r| fuel_types::canonical::Serialize::to_bytes(r)).collect())
}

/// `dirt`: transactions run first on the SAME interpreter (see `dirty_scenarios`); the measured transaction then runs on the
/// reused interpreter - with the whole oracle and the model as for a fresh one (every transaction starts from the initial gas
/// state and a cold slot cache) - and its per-stop gas trace and receipts must equal those of a fresh interpreter over a copy
/// of the storage
fn run_case_on(ctx: &mut Ctx, scn: &Scn, sched_name: &str, tag: &str, dirt: Option<&[(Scn, u64)]>) -> Option<u64> {
    let built = match build(scn) { Ok(b) => b, Err(e) => { ctx.count(&format!("invalid-tx.{}", e.split(|c: char| !c.is_alphanumeric()).filter(|w| !w.is_empty()).take(2).collect::<Vec<_>>().join("-"))); return None; } };
    let costs: GasCostsValues = (**scn.params.gas_costs()).clone();
    let mut storage = built.storage.clone();
    if dirt.is_some() { install_dirt_contracts(&mut storage, scn.params.base_asset_id()); }
    let mut vm = new_vm(scn, storage);
    let mut fresh: Option<GasTrace> = None;
    if let Some(d) = dirt {
        let (ran, in_call) = dirty_vm(&mut vm, d);
        ctx.count_n("reuse.dirtying-transactions", ran as u64);
        ctx.count_n("reuse.dirtying-ended-inside-call", in_call as u64);
        let start: fuel_vm::prelude::MemoryStorage = { let st: &fuel_vm::prelude::MemoryStorage = vm.as_ref(); st.clone() };
        let mut fvm = new_vm(scn, start);
        let rd = built.ready.clone();
        match ctx.guard(|| gas_trace(&mut fvm, rd)) { Ok(t) => fresh = Some(t), Err(m) => { ctx.oracle_fail("panic-vm-run", &format!("{tag} (fresh copy)"), &m); return None; } }
    }
    let mut trace: Vec<(u64, u64, u64)> = vec![];
    let mut steps: Vec<StepRec> = vec![];
    let mut pending: Option<StepRec> = None;
    let mut first: Option<(u64, u64)> = None;
    let mut inv_fail: Vec<String> = vec![];
    let mut hot: Hot = Hot::new();
    let ready = built.ready;
    let res = ctx.guard(|| run_stepped(&mut vm, ready, 50_000, |vm, stop| {
        let (cg, gg) = (reg(vm, RegId::CGAS), reg(vm, RegId::GGAS));
        trace.push((reg(vm, RegId::PC), cg, gg));
        let saved = saved_cgas(vm);
        if first.is_none() { first = Some((cg, gg)); }
        // invariant on the implementation at every stop
        if cg > gg { inv_fail.push(format!("cgas>ggas cgas={cg} ggas={gg}")); }
        if (saved.iter().map(|x| *x as u128).sum::<u128>() + cg as u128) > gg as u128 { inv_fail.push(format!("cgas+saved>ggas cgas={cg} saved={saved:?} ggas={gg}")); }
        if let Some(mut p) = pending.take() { p.cgas_a = cg; p.ggas_a = gg; p.saved_a = saved.clone(); steps.push(p); }
        if let Stop::Before = stop {
            let word = current_word(vm).unwrap_or(0);
            let (mn, args) = match Instruction::try_from(word) {
                Ok(i) => {
                    let (opc, raw) = g::unpack(i);
                    let row = g::TABLE.iter().find(|r| r.0 == opc).unwrap();
                    let vals: Vec<u64> = raw.iter().zip(row.2.iter()).map(|(v, k)| if *k == 0 { vm.registers()[*v as usize] } else { *v as u64 }).collect();
                    (row.1.to_string(), vals)
                }
                Err(_) => ("?".to_string(), vec![]),
            };
            let sz = if mn == "?" { vec![] } else { sizes(vm, &mn, &args) };
            let spec = spec_charges(vm, &costs, &mut hot, &mn, &args);
            pending = Some(StepRec { pc: reg(vm, RegId::PC), mn, args, sizes: sz, cgas_b: cg, ggas_b: gg, saved_b: saved, cgas_a: 0, ggas_a: 0, saved_a: vec![], receipts_b: vm.receipts().len(), spec });
        }
    }));
    let end = match res { Ok(e) => e, Err(msg) => { ctx.oracle_fail("panic-vm-run", &format!("{tag}"), &msg); return None; } };
    let input_id = format!("{tag} sched={sched_name} limit={} steps={}", scn.gas_limit, steps.len());
    for m in inv_fail.iter().take(2) { ctx.oracle_fail("inv-cgas-saved-le-ggas", &input_id, m); }
    let receipts: Vec<Receipt> = vm.receipts().to_vec();
    if let Some((ft, fr)) = &fresh {
        let mine: Vec<Vec<u8>> = receipts.iter().map(|r| fuel_types::canonical::Serialize::to_bytes(r)).collect();
        if *ft != trace || *fr != mine {
            let k = ft.iter().zip(trace.iter()).position(|(a, b)| a != b).unwrap_or(ft.len().min(trace.len()));
            ctx.oracle_fail("reused-client-gas-differs-from-fresh", &input_id, &format!("first difference at stop {k}: reused (pc, cgas, ggas) = {:?}, fresh = {:?}; stops {} vs {}; receipts equal: {}",
                trace.get(k), ft.get(k), trace.len(), ft.len(), *fr == mine));
        }
        ctx.count("reuse.compared-with-fresh");
    }
    let panic = panic_of(&receipts);
    let panic_pc = receipts.iter().find_map(|r| match r { Receipt::Panic { pc, .. } => Some(*pc), _ => None });
    match &end.state {
        Ok(_) => {}
        Err(e) if e == "step-limit" => { ctx.count("step-limit"); return None; }
        Err(e) => {
            ctx.count("vm-error");
            ctx.oracle_fail(&format!("vm-error-{}", e.split(|c: char| !c.is_alphanumeric()).next().unwrap_or("x")), &input_id, &e.chars().take(160).collect::<String>());
            return None;
        }
    }
    ctx.emit(&sched_line(&costs), &format!("ok {} {}", gas_gen::version(&costs), gas_gen::fixed_values_any(&costs).len() + gas_gen::dep_values_any(&costs).len()));
    let (c0, g0) = first.unwrap_or((scn.gas_limit, scn.gas_limit));
    ctx.emit(&format!("begin {}", scn.gas_limit), &format!("{c0} {g0} 0"));
    let n = steps.len();
    for (k, s) in steps.iter().enumerate() {
        let last = k + 1 == n;
        let this_panicked = last && panic.is_some() && panic_pc == Some(s.pc);
        let oog = this_panicked && panic == Some(PanicReason::OutOfGas);
        let inexact = s.mn == "ECAL";
        let kind = if inexact { format!("inx {} {}", s.cgas_a, s.ggas_a) }
            else if this_panicked && !oog { format!("pan {:?} {} {}", panic.unwrap(), s.cgas_a, s.ggas_a) }
            else { "x".to_string() };
        let line = format!("i {} {} {} {} {} {}", s.mn, s.args.len(), s.args.iter().map(|x| x.to_string()).collect::<Vec<_>>().join(" "),
            s.sizes.len(), s.sizes.iter().map(|x| x.to_string()).collect::<Vec<_>>().join(" "), kind).replace("  ", " ").replace("  ", " ");
        ctx.emit(&line, &format!("{} {} {}", s.cgas_a, s.ggas_a, s.saved_a.len()));
        ctx.count(&format!("op.{}", s.mn));
        ctx.count(if oog { "outcome.oog" } else if this_panicked { "outcome.panic-other" } else { "outcome.ok" });
        if s.saved_b.len() >= 2 { ctx.count("depth>=2"); }
        // ---- oracle on the implementation ----
        let inp = format!("{input_id} step={k} {line}");
        let used = s.ggas_b.wrapping_sub(s.ggas_a);
        if s.ggas_a > s.ggas_b { ctx.oracle_fail("ggas-increased", &inp, &format!("{} -> {}", s.ggas_b, s.ggas_a)); continue; }
        if oog {
            if s.cgas_a != 0 || s.ggas_a != s.ggas_b - s.cgas_b { ctx.oracle_fail("oog-shape", &inp, &format!("after cgas={} ggas={} (before {} {})", s.cgas_a, s.ggas_a, s.cgas_b, s.ggas_b)); }
        } else if s.saved_a.len() == s.saved_b.len() + 1 {
            // CALL: forwarded <= caller cgas after charges, remainder saved, ggas only charged
            let after_charges = s.cgas_b.wrapping_sub(used);
            if s.mn != "CALL" || s.cgas_a > after_charges || s.saved_a[0].checked_add(s.cgas_a) != Some(after_charges) || s.cgas_a > s.args[3] {
                ctx.oracle_fail("call-forward", &inp, &format!("after_charges={after_charges} fwd={} saved={}", s.cgas_a, s.saved_a[0]));
            }
            if let Some(Receipt::Call { gas, .. }) = receipts.get(s.receipts_b) { if *gas != s.cgas_a { ctx.oracle_fail("call-receipt-gas", &inp, &format!("receipt gas {gas} != cgas {}", s.cgas_a)); } }
            ctx.count("call.entered");
            if s.cgas_a < s.args[3] { ctx.count("call.forward-clamped"); }
        } else if s.saved_a.len() + 1 == s.saved_b.len() {
            let exp = (s.cgas_b - used.min(s.cgas_b)).checked_add(s.saved_b[0]);
            if exp != Some(s.cgas_a) || !(s.mn == "RET" || s.mn == "RETD") { ctx.oracle_fail("ret-credit", &inp, &format!("expected cgas {exp:?} got {}", s.cgas_a)); }
            ctx.count("ret.in-call");
        } else if !(this_panicked && s.mn == "CALL") {
            if s.cgas_b.wrapping_sub(s.cgas_a) != used { ctx.oracle_fail("cgas-ggas-delta", &inp, &format!("cgas {}->{} ggas {}->{}", s.cgas_b, s.cgas_a, s.ggas_b, s.ggas_a)); }
        }
        if let Some(sp) = &s.spec {
            let list = || sp.charges.iter().map(|(w, c)| format!("{w}={c}")).collect::<Vec<_>>().join(" + ");
            let mut sums: Vec<u128> = vec![0];
            for (_, c) in &sp.charges { sums.push(sums.last().unwrap() + *c as u128); }
            // first charge the available context gas does not cover
            let short = (1..sums.len()).find(|k| sums[*k] > s.cgas_b as u128);
            let total = *sums.last().unwrap();
            if let Some(m) = &sp.cache_mismatch { ctx.oracle_fail("slot-cache-differs-from-access-history", &inp, m); }
            if !this_panicked {
                if short.is_some() { ctx.oracle_fail("oog-iff-cost-exceeds-cgas", &inp, &format!("schedule [{}] exceeds cgas {} but the instruction completed, charged {used}", list(), s.cgas_b)); }
                else if !sp.complete { ctx.oracle_fail("completed-where-spec-requires-panic", &inp, &format!("known charges [{}], charged {used}", list())); }
                else if used as u128 != total { ctx.oracle_fail("charge-differs-from-schedule", &inp, &format!("schedule {total} = [{}] charged {used}", list())); }
            } else if oog {
                if short.is_none() && sp.complete { ctx.oracle_fail("oog-iff-cost-exceeds-cgas", &inp, &format!("schedule {total} = [{}] fits cgas {} but OutOfGas", list(), s.cgas_b)); }
            } else if panic == Some(PanicReason::GasCostNotDefined) || (sp.undefined.is_some() && sp.charges.is_empty()) {
                // a schedule version without this entry: exactly the charges before it were made
                match &sp.undefined {
                    Some(_) if panic == Some(PanicReason::GasCostNotDefined) && short.is_none() && used as u128 == total => {}
                    Some(w) => ctx.oracle_fail("gas-cost-not-defined-shape", &inp, &format!("entry {w} is not defined in V{}; expected GasCostNotDefined after [{}], got {:?} charged {used}", gas_gen::version(&costs), list(), panic)),
                    None => ctx.oracle_fail("gas-cost-not-defined-shape", &inp, &format!("all entries of [{}] are defined in V{} but the instruction failed with GasCostNotDefined", list(), gas_gen::version(&costs))),
                }
                ctx.count("oracle.gas-cost-not-defined");
            } else {
                // panicked for another reason: the first charge precedes every other check, so at least one charge was
                // made, and exactly a prefix of the list was consumed; a prefix the context gas does not cover is OutOfGas
                let upto = short.unwrap_or(sums.len());
                let ok = (1..upto).any(|k| sums[k] == used as u128) || (sp.charges.is_empty() && used == 0);
                if !ok {
                    if short == Some(1) { ctx.oracle_fail("oog-iff-cost-exceeds-cgas", &inp, &format!("first charge of [{}] exceeds cgas {} but the instruction panicked otherwise (charged {used})", list(), s.cgas_b)); }
                    else { ctx.oracle_fail("charge-differs-from-schedule", &inp, &format!("panicking instruction charged {used}, not a non-empty affordable prefix of [{}]", list())); }
                }
            }
            ctx.count("oracle.schedule-checked");
            ctx.count(&format!("oracle.charges-{}", sp.charges.len().min(9)));
            if sp.charges.len() >= 2 { ctx.count(&format!("oracle.multi.{}", s.mn)); }
            for (w, _) in &sp.charges { if w.starts_with("storage_read_") || w.starts_with("storage_write") || w.starts_with("storage_clear") || w.starts_with("new_storage") { ctx.count(&format!("oracle.micro.{}", w.split(|c| c == '(' || c == '*' || c == '[').next().unwrap())); } }
        }
        let mut key = s.mn.as_bytes().to_vec(); key.extend_from_slice(&used.to_be_bytes()); key.push(s.saved_b.len() as u8); key.push(oog as u8);
        ctx.distinct(&key);
    }
    let (result, gas_used) = script_result(&receipts).unwrap_or((u64::MAX, u64::MAX));
    ctx.emit("end", &format!("{gas_used}"));
    let ggas_end = reg(&vm, RegId::GGAS);
    if scn.gas_limit.checked_sub(ggas_end) != Some(gas_used) { ctx.oracle_fail("gas-used-mismatch", &input_id, &format!("limit {} ggas {} reported {}", scn.gas_limit, ggas_end, gas_used)); }
    ctx.count(&format!("sched.{sched_name}"));
    ctx.count(&format!("result.{}", match result { 0 => "success", 1 => "revert", 2 => "panic", _ => "other" }));
    if let Some(p) = panic { ctx.count(&format!("panic.{p:?}")); if let Some(l) = steps.last() { if panic_pc == Some(l.pc) && p != PanicReason::OutOfGas { ctx.count(&format!("panic-at.{p:?}.{}.{}", l.mn, if l.saved_b.is_empty() { "script" } else { "contract" })); } } }
    for kd in &scn.kinds { ctx.count(&format!("gen.{kd}")); }
    Some(gas_used)
}

/// corpus: every opcode of the instruction table executed once (script context, operands = zeroed registers /
/// zero immediates, then `ret`) under a schedule whose entries are pairwise distinct, so that an opcode charging
/// another opcode's entry is visible to the oracle and to the model — for each `GasCostsValues` version V7 … V1
/// (old versions lack entries: those opcodes must fail with GasCostNotDefined; some serve a word as a dependent cost)
fn opcode_sweep(ctx: &mut Ctx) {
    for k in (1..=7usize).rev() {
        let f: Vec<u64> = (0..gas_gen::fixed_names(k).len() as u64).map(|i| 1000 + 7 * i).collect();
        let d: Vec<DependentCost> = (0..gas_gen::dep_names(k).len() as u64).map(|i| DependentCost::LightOperation { base: 5000 + 11 * i, units_per_gas: 3 + i }).collect();
        let costs = gas_gen::make_version(k, &f, &d);
        let name = ["", "distinct-v1", "distinct-v2", "distinct-v3", "distinct-v4", "distinct-v5", "distinct-v6", "distinct"][k];
        for row in g::TABLE {
            let mut r = ctx.rng.clone();
            let mut scn = gen_scenario(&mut r, Focus::Gas, costs.clone());
            let base = *scn.params.base_asset_id();
            let args: Vec<u32> = row.2.iter().map(|k| if *k == 0 { 0x10 } else { 0 }).collect();
            let Some(ins) = g::construct(row.0, &args) else { continue };
            let code = vec![ins, fuel_asm::op::ret(RegId::ONE)];
            let mut bytes: Vec<u8> = code.iter().flat_map(|i| i.to_bytes()).collect();
            bytes.extend_from_slice(&pool(&base));
            scn.script = bytes; scn.gas_limit = 1_000_000; scn.gas_price = 0; scn.coin_outs.clear();
            run_case(ctx, &scn, name, &format!("sweep {}", row.1));
            ctx.count("sweep.opcode");
        }
    }
}

/// a randomized schedule of an old version (V1 … V6)
fn old_version_schedule(rng: &mut crate::ctx::Rng) -> (GasCostsValues, &'static str) {
    let k = rng.range(1, 6) as usize;
    let f: Vec<u64> = (0..gas_gen::fixed_names(k).len()).map(|_| match rng.below(10) { 0 => 0, 1 => rng.range(100, 5000), _ => rng.range(1, 20) }).collect();
    let d: Vec<DependentCost> = (0..gas_gen::dep_names(k).len()).map(|_| {
        let base = match rng.below(8) { 0 => 0, 1 => rng.range(100, 3000), _ => rng.range(1, 40) };
        if rng.chance(1, 2) { DependentCost::LightOperation { base, units_per_gas: match rng.below(4) { 0 => 1, 1 => rng.range(2, 9), _ => rng.range(1, 4000) } } }
        else { DependentCost::HeavyOperation { base, gas_per_unit: match rng.below(5) { 0 => 0, _ => rng.range(1, 30) } } }
    }).collect();
    (gas_gen::make_version(k, &f, &d), ["", "random-v1", "random-v2", "random-v3", "random-v4", "random-v5", "random-v6"][k])
}

fn assemble(body: Vec<Instruction>, base: &AssetId, tail: usize) -> Vec<u8> {
    use fuel_asm::op;
    let mut code = vec![op::movi(RP, 0), op::add(RP, RP, RegId::IS)];
    code.extend(body);
    code[0] = op::movi(RP, (code.len() * 4) as u32);
    let mut bytes: Vec<u8> = code.iter().flat_map(|i| i.to_bytes()).collect();
    bytes.extend_from_slice(&pool(base));
    bytes.extend(std::iter::repeat(0u8).take(tail));
    bytes
}

/// corpus: the dependent-cost opcodes over sizes of every residue modulo 8 — callee code, blob, copy and hash
/// lengths `8k + t`, `t = 0..7` — under schedules where every single byte (heavy operation, light operation with
/// `units_per_gas` 3) or every padding step (light, `units_per_gas` 8) changes the resolved cost; and a contract that
/// walks the storage opcodes through cold / hot, unset / set, growing / shrinking / same-size slot accesses.
fn dependent_sweep(ctx: &mut Ctx) {
    use fuel_asm::op;
    let scheds: Vec<(&str, DependentCost)> = vec![
        ("heavy3", DependentCost::HeavyOperation { base: 10, gas_per_unit: 3 }),
        ("light8", DependentCost::LightOperation { base: 10, units_per_gas: 8 }),
        ("light3", DependentCost::LightOperation { base: 7, units_per_gas: 3 }),
    ];
    let (pa, pb, x, y, v) = (0x19u8, 0x1au8, 0x1bu8, 0x1cu8, 0x1du8);
    for (name, d) in &scheds {
        let f: Vec<u64> = (0..gas_gen::FIXED.len() as u64).map(|i| 2 + i % 5).collect();
        let dd: Vec<DependentCost> = (0..gas_gen::DEP.len()).map(|_| *d).collect();
        let costs = gas_gen::make(&f, &dd);
        for t in 0..8u32 {
            let mut r = ctx.rng.clone();
            let mut scn = gen_scenario(&mut r, Focus::Gas, costs.clone());
            let base = *scn.params.base_asset_id();
            let callee = assemble(vec![op::ret(RegId::ONE)], &base, t as usize);
            scn.contracts = vec![Ctr { id: contract_id(0), code: callee, balances: vec![], as_input: true, tail: t as usize }];
            scn.blobs = vec![(blob_id(0), vec![7u8; 96 + t as usize]), (blob_id(1), vec![])];
            let mut b: Vec<Instruction> = vec![];
            // LDC first (needs $ssp == $sp): contract, blob, memory source, zero length
            b.extend([op::addi(pa, RP, OFF_CONTRACT), op::movi(x, 1 + t), op::ldc(pa, RegId::ZERO, x, 0), op::movi(x, 4000 + t), op::ldc(pa, RegId::ZERO, x, 0)]);
            b.extend([op::addi(pa, RP, OFF_ADDR), op::movi(x, 16 + t), op::ldc(pa, RegId::ZERO, x, 1), op::movi(x, 200 + t), op::ldc(pa, RegId::ZERO, x, 1)]);
            b.extend([op::movi(x, 40 + t), op::ldc(RP, RegId::ZERO, x, 2), op::ldc(RP, RegId::ZERO, RegId::ZERO, 2)]);
            b.extend([op::movi(x, 8192), op::aloc(x), op::move_(v, RegId::HP)]);
            b.extend([op::addi(pa, RP, OFF_CONTRACT), op::csiz(y, pa), op::croo(v, pa), op::movi(x, 100 + t), op::ccp(v, pa, RegId::ZERO, x), op::movi(x, 4000 + t), op::ccp(v, pa, RegId::ZERO, x)]);
            b.extend([op::addi(pb, RP, OFF_ADDR), op::bsiz(y, pb), op::movi(x, 10 + t), op::bldd(v, pb, RegId::ZERO, x), op::movi(x, 300 + t), op::bldd(v, pb, RegId::ZERO, x), op::addi(pb, RP, OFF_ADDR + 32), op::bsiz(y, pb), op::bldd(v, pb, RegId::ZERO, RegId::ZERO)]);
            b.extend([op::movi(x, 64 + t), op::mcl(v, x), op::mcli(v, 24 + t), op::mcp(v, RP, x), op::mcpi(v, RP, (48 + t) as u16), op::meq(y, v, RP, x), op::s256(v, RP, x), op::k256(v, RP, x), op::logd(RegId::ZERO, RegId::ZERO, RP, x)]);
            b.extend([op::addi(pa, RP, OFF_CALL), op::addi(pb, RP, OFF_ASSET), op::movi(x, 10_000), op::call(pa, RegId::ZERO, pb, x)]);
            b.extend([op::movi(x, 8 + t), op::retd(RP, x)]);
            scn.script = assemble(b, &base, 0);
            scn.gas_limit = 1_000_000; scn.gas_price = 0; scn.coin_outs.clear();
            let used = run_case(ctx, &scn, name, &format!("dep-sweep {name} t={t}"));
            // and once more with a limit inside the consumption: out of gas in the middle of some dependent charge
            if let Some(u) = used { if u > 2 { let mut s2 = scn.clone(); s2.gas_limit = ctx.rng.range(u / 3, u - 1); run_case(ctx, &s2, name, &format!("dep-sweep {name} t={t} tight")); } }
            ctx.count("sweep.dependent");
        }
    }
    // storage walk
    let f: Vec<u64> = (0..gas_gen::FIXED.len() as u64).map(|i| 1000 + 7 * i).collect();
    let distinct: Vec<DependentCost> = (0..gas_gen::DEP.len() as u64).map(|i| DependentCost::LightOperation { base: 5000 + 11 * i, units_per_gas: 3 + i }).collect();
    let heavy: Vec<DependentCost> = (0..gas_gen::DEP.len() as u64).map(|i| DependentCost::HeavyOperation { base: 20 + i, gas_per_unit: 2 + i % 3 }).collect();
    let v6 = gas_gen::make_version(6, &(0..gas_gen::fixed_names(6).len() as u64).map(|i| 3 + i).collect::<Vec<_>>(), &(0..gas_gen::dep_names(6).len() as u64).map(|i| DependentCost::HeavyOperation { base: 20 + i, gas_per_unit: 2 }).collect::<Vec<_>>());
    for (name, costs) in [("distinct", gas_gen::make(&f, &distinct)), ("heavy", gas_gen::make(&f, &heavy)), ("heavy-v6", v6)] {
        let mut r = ctx.rng.clone();
        let mut scn = gen_scenario(&mut r, Focus::Gas, costs);
        let base = *scn.params.base_asset_id();
        let (k0, k7, k1, fl, n) = (0x10u8, 0x11u8, 0x12u8, 0x13u8, 0x14u8);
        let mut c: Vec<Instruction> = vec![op::addi(k0, RP, OFF_SUB), op::addi(k7, RP, OFF_SUB + 32)];
        c.extend([op::movi(x, 32), op::aloc(x), op::movi(x, 1), op::sb(RegId::HP, x, 31), op::move_(k1, RegId::HP)]); // key 1
        c.extend([op::movi(x, 256), op::aloc(x), op::move_(v, RegId::HP)]); // value / read buffer
        c.extend([op::spld(y, k0), op::spld(y, k0)]); // cold unset, hot unset
        c.extend([op::swri(k0, v, 5), op::swri(k0, v, 9), op::swri(k0, v, 2)]); // grow 5, grow 4, shrink
        c.extend([op::movi(n, 2), op::srdd(v, k0, RegId::ZERO, n), op::srdi(v, k0, RegId::ONE, 1)]); // hot reads of 2 bytes
        c.extend([op::sww(k7, fl, n), op::sww(k7, fl, n), op::srw(y, fl, k7, 0)]); // cold read + 32 new bytes; hot, same size; hot read
        c.extend([op::movi(n, 3), op::swwq(k1, fl, v, n), op::srwq(v, fl, k1, n)]); // keys 1..3 cold then written; hot reads
        c.extend([op::movi(n, 4), op::scwq(k1, fl, n)]); // 3 hot + 1 cold read, clear 4
        c.extend([op::not(y, RegId::ZERO), op::movi(n, 8), op::supd(k7, v, y, n), op::supi(k7, v, RegId::ZERO, 4)]); // append 8 (32 -> 40), overwrite inside
        c.extend([op::movi(n, 100), op::swrd(k1, v, n), op::movi(n, 2), op::sclr(k7, n), op::spld(y, k7), op::sclr(k0, RegId::ZERO)]);
        c.push(op::ret(RegId::ONE));
        scn.contracts = vec![Ctr { id: contract_id(0), code: assemble(c, &base, 3), balances: vec![], as_input: true, tail: 3 }];
        let b = vec![op::addi(pa, RP, OFF_CALL), op::addi(pb, RP, OFF_ASSET), op::movi(x, 200_000), op::slli(x, x, 4), op::call(pa, RegId::ZERO, pb, x), op::ret(RegId::ONE)];
        scn.script = assemble(b, &base, 0);
        scn.gas_limit = 10_000_000; scn.gas_price = 0; scn.coin_outs.clear();
        let used = run_case(ctx, &scn, name, &format!("storage-walk {name}"));
        // the same walk as the second transaction of the same interpreter (its first run left every slot in the slot cache,
        // committed values in storage and, for the V6 schedule, a frame): hot / cold must start cold again
        run_case_on(ctx, &scn, name, &format!("storage-walk {name} reused"), Some(&[(scn.clone(), 9)]));
        if let Some(u) = used { for k in 0..6u64 { let mut s2 = scn.clone(); s2.gas_limit = u * (k + 1) / 8; run_case(ctx, &s2, name, &format!("storage-walk {name} tight{k}")); } }
        ctx.count("sweep.storage-walk");
    }
}

pub fn run(ctx: &mut Ctx) {
    // the default schedule as compiled into fuel-tx vs. the table the translator extracted
    ctx.emit("dflt", &dump(&GasCostsValues::default()));
    ctx.emit("unit", &dump(&GasCostsValues::unit()));
    opcode_sweep(ctx);
    dependent_sweep(ctx);
    let n = ctx.n(120, 1500);
    for case in 0..n {
        let (costs, name) = if ctx.rng.chance(1, 8) { old_version_schedule(&mut ctx.rng) } else { schedule(&mut ctx.rng, gas_gen::FIXED.len(), gas_gen::DEP.len(), &gas_gen::make) };
        let mut scn = gen_scenario(&mut ctx.rng, Focus::Gas, costs);
        if ctx.rng.chance(2, 3) { scn.gas_limit = scn.gas_limit.max(ctx.rng.range(20_000, 2_000_000)); }
        let used = run_case(ctx, &scn, name, &format!("case={case}"));
        // the same program as the second / third / fourth transaction of a reused interpreter
        if used.is_some() && ctx.rng.chance(2, 5) {
            let dirt = dirty_scenarios(&mut ctx.rng, &scn);
            run_case_on(ctx, &scn, name, &format!("case={case}.reused"), Some(&dirt));
            ctx.count("reuse.cases");
        }
        // tight limits: rerun with a limit inside the consumption of the ample run (runs out mid-program, mid-call, mid-instruction)
        if let Some(u) = used {
            let reruns = if u > 0 { 2 } else { 0 };
            for r in 0..reruns {
                let mut s2 = scn.clone();
                s2.gas_limit = if r == 0 { ctx.rng.below(u + 1) } else { u.saturating_sub(ctx.rng.below(4)) };
                run_case(ctx, &s2, name, &format!("case={case}.tight{r}"));
                ctx.count("tight-rerun");
            }
        }
    }
}
