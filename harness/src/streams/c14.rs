//! C14 — sparse Merkle proofs prove membership / non-membership exactly.
//! Trees built by histories (incl. deletes) over clustered keys on the REAL `sparse::MerkleTree`;
//! `generate_proof` for every present key, one-bit neighbours, pool keys and random keys;
//! `InclusionProof::verify` / `ExclusionProof::verify` on the generated proofs and on structured
//! mutations (side-hash flip, truncate, extend, other key, other value, other root, exclusion leaf claiming
//! the queried key, inclusion <-> exclusion swaps).
//! ORACLE (independent of the Lean model, sha2 only): proof kind = membership in the reference map; the
//! proof set and exclusion leaf equal the reference compact-tree walk; every verifier answer equals the
//! reference recomputation; an accepted inclusion implies the stored value, an accepted exclusion implies
//! absence.
use crate::{ctx::Ctx, gen::smt::*, util::hex};
use fuel_merkle::sparse::{self, proof::{ExclusionLeaf, ExclusionLeafData, ExclusionProof, InclusionProof, Proof}};
use std::collections::BTreeMap;

type Tree = sparse::MerkleTree<NodesTable, ObsStore>;

struct Run { tree: Tree, map: BTreeMap<B32, Vec<u8>>, trace: Vec<String> }

fn fmt_sides(s: &[B32]) -> String {
    if s.is_empty() { "-".into() }
    else if s.len() <= 4 { list_arg(s) }
    else { let flat: Vec<u8> = s.iter().flat_map(|x| x.iter().copied()).collect(); format!("{}:{}", s.len(), hex(&sha(&[&flat]))) }
}
fn fmt_leaf(l: &ExclusionLeaf) -> String {
    match l { ExclusionLeaf::Placeholder => "ph".into(), ExclusionLeaf::Leaf(d) => format!("{}:{}", hex(&d.leaf_key), hex(&d.leaf_value)) }
}
pub fn fmt_proof_pub(p: &Proof) -> String { fmt_proof(p) }
fn fmt_proof(p: &Proof) -> String {
    match p {
        Proof::Inclusion(i) => format!("incl {}", fmt_sides(&i.proof_set)),
        Proof::Exclusion(e) => format!("excl {} {}", fmt_sides(&e.proof_set), fmt_leaf(&e.leaf)),
    }
}

fn apply(ctx: &mut Ctx, r: &mut Run, ins: Option<&[u8]>, k: &B32) {
    let line = match ins { Some(v) => format!("ins {} {}", hex(k), hex(v)), None => format!("del {}", hex(k)) };
    r.trace.push(line.clone());
    let res = { let tree = &mut r.tree; ctx.guard(|| match ins { Some(v) => tree.insert(tkey(k), v), None => tree.delete(tkey(k)) }) };
    let res_s = match &res {
        Ok(Ok(())) => "ok".to_string(),
        Ok(Err(e)) => { let n = super::c12::err_name(e); ctx.oracle_fail("op-returned-error", &r.trace.join(" ; "), n); n.to_string() }
        Err(p) => { ctx.oracle_fail("panic-op", &r.trace.join(" ; "), p); "panic".into() }
    };
    match ins { Some(v) => { r.map.insert(*k, v.to_vec()); } None => { r.map.remove(k); } }
    ctx.emit(&line, &format!("{res_s} {}", hex(&r.tree.root())));
}

/// reference verifiers (the property text): length bound, leaf must not claim the key, fold reaches root
fn ref_vin(root: &B32, q: &B32, value: &[u8], sides: &[B32]) -> bool {
    ref_fold(q, sides, ref_leaf(q, &sha(&[value]))).map(|c| c == *root).unwrap_or(false)
}
fn ref_vex(root: &B32, q: &B32, sides: &[B32], leaf: &ExclusionLeaf) -> bool {
    let start = match leaf {
        ExclusionLeaf::Leaf(d) => { if d.leaf_key == *q { return false; } ref_leaf(&d.leaf_key, &d.leaf_value) }
        ExclusionLeaf::Placeholder => ZERO,
    };
    ref_fold(q, sides, start).map(|c| c == *root).unwrap_or(false)
}

fn vin(ctx: &mut Ctx, r: &Run, root: &B32, q: &B32, value: &[u8], sides: &[B32], kind: &str) {
    let p = InclusionProof { proof_set: sides.to_vec() };
    let line = format!("vin {} {} {} {}", hex(root), hex(q), hex(value), list_arg(sides));
    let got = ctx.guard(|| p.verify(root, &tkey(q), value));
    let input = || format!("{} ; {line}", r.trace.join(" ; "));
    let out = match got {
        Ok(b) => {
            if b != ref_vin(root, q, value, sides) { ctx.oracle_fail("inclusion-verify-differs-from-recomputation", &input(), &format!("verify={b} ({kind})")); }
            if b && *root == r.tree.root() && r.map.get(q).map(|v| sha(&[v])) != Some(sha(&[value])) {
                ctx.oracle_fail("inclusion-accepted-for-absent-key-or-other-value", &input(), kind);
            }
            ctx.count(&format!("vin.{kind}.{b}"));
            b.to_string()
        }
        Err(p) => { ctx.oracle_fail("panic-inclusion-verify", &input(), &p); "panic".into() }
    };
    ctx.emit(&line, &out);
}
fn vex(ctx: &mut Ctx, r: &Run, root: &B32, q: &B32, sides: &[B32], leaf: &ExclusionLeaf, kind: &str) {
    let p = ExclusionProof { proof_set: sides.to_vec(), leaf: leaf.clone() };
    let line = format!("vex {} {} {} {}", hex(root), hex(q), list_arg(sides), fmt_leaf(leaf));
    let got = ctx.guard(|| p.verify(root, &tkey(q)));
    let input = || format!("{} ; {line}", r.trace.join(" ; "));
    let out = match got {
        Ok(b) => {
            if b != ref_vex(root, q, sides, leaf) { ctx.oracle_fail("exclusion-verify-differs-from-recomputation", &input(), &format!("verify={b} ({kind})")); }
            if b && *root == r.tree.root() && r.map.contains_key(q) { ctx.oracle_fail("exclusion-accepted-for-present-key", &input(), kind); }
            ctx.count(&format!("vex.{kind}.{b}"));
            b.to_string()
        }
        Err(p) => { ctx.oracle_fail("panic-exclusion-verify", &input(), &p); "panic".into() }
    };
    ctx.emit(&line, &out);
}

fn flip_bit(k: &B32, i: usize) -> B32 { let mut a = *k; a[i / 8] ^= 1 << (7 - i % 8); a }

fn query(ctx: &mut Ctx, r: &Run, q: &B32, mutate: bool) {
    let root = r.tree.root();
    let line = format!("prove {}", hex(q));
    let input = format!("{} ; {line}", r.trace.join(" ; "));
    let got = { let tree = &r.tree; ctx.guard(|| tree.generate_proof(&tkey(q))) };
    let proof = match got {
        Ok(Ok(p)) => p,
        Ok(Err(e)) => { ctx.oracle_fail("generate_proof-returned-error", &input, super::c12::err_name(&e)); ctx.emit(&line, super::c12::err_name(&e)); return; }
        Err(p) => { ctx.oracle_fail("panic-generate_proof", &input, &p); ctx.emit(&line, "panic"); return; }
    };
    ctx.emit(&line, &fmt_proof(&proof));
    let present = r.map.contains_key(q);
    if proof.is_inclusion() != present {
        ctx.oracle_fail(if present { "exclusion-proof-generated-for-present-key" } else { "inclusion-proof-generated-for-absent-key" }, &input, &fmt_proof(&proof));
    }
    let (rsides, rterm) = ref_path(&r.map, q);
    if *proof.proof_set() != rsides { ctx.oracle_fail("proof-set-differs-from-compact-tree-walk", &input, &format!("len {} vs {}", proof.proof_set().len(), rsides.len())); }
    ctx.count(match rsides.len() { 0 => "proof.depth.0", 1..=8 => "proof.depth.1-8", 9..=64 => "proof.depth.9-64", 65..=200 => "proof.depth.65-200", 201..=254 => "proof.depth.201-254", _ => "proof.depth.255-256" });
    let sides = proof.proof_set().clone();
    match &proof {
        Proof::Inclusion(_) => {
            ctx.count("prove.inclusion");
            let v = r.map.get(q).cloned().unwrap_or_default();
            // stored value: must verify
            let ok = InclusionProof { proof_set: sides.clone() }.verify(&root, &tkey(q), &v);
            if present && !ok { ctx.oracle_fail("generated-inclusion-proof-rejected", &input, "verify=false with the stored value"); }
            vin(ctx, r, &root, q, &v, &sides, "generated");
            if mutate {
                let mut other = v.clone(); other.push(1);
                vin(ctx, r, &root, q, &other, &sides, "other-value");
                // presented as an exclusion proof (placeholder / own leaf / neighbour leaf)
                vex(ctx, r, &root, q, &sides, &ExclusionLeaf::Placeholder, "inclusion-as-exclusion-placeholder");
                vex(ctx, r, &root, q, &sides, &ExclusionLeaf::Leaf(ExclusionLeafData { leaf_key: *q, leaf_value: sha(&[&v]) }), "leaf-claims-queried-key");
            }
        }
        Proof::Exclusion(e) => {
            ctx.count(match &e.leaf { ExclusionLeaf::Placeholder => "prove.exclusion-placeholder", _ => "prove.exclusion-leaf" });
            let want_leaf = match rterm { None => ExclusionLeaf::Placeholder, Some((k, vh)) => ExclusionLeaf::Leaf(ExclusionLeafData { leaf_key: k, leaf_value: vh }) };
            if e.leaf != want_leaf { ctx.oracle_fail("exclusion-leaf-differs-from-compact-tree-walk", &input, &fmt_leaf(&e.leaf)); }
            let ok = e.verify(&root, &tkey(q));
            if !present && !ok { ctx.oracle_fail("generated-exclusion-proof-rejected", &input, "verify=false"); }
            vex(ctx, r, &root, q, &sides, &e.leaf, "generated");
            if mutate {
                // the same proof set as an inclusion proof for some value
                vin(ctx, r, &root, q, b"DATA", &sides, "exclusion-as-inclusion");
                // a leaf claiming the queried key (value hash of DATA / the real leaf's value hash)
                let vh = match &e.leaf { ExclusionLeaf::Leaf(d) => d.leaf_value, _ => sha(&[b"DATA"]) };
                vex(ctx, r, &root, q, &sides, &ExclusionLeaf::Leaf(ExclusionLeafData { leaf_key: *q, leaf_value: vh }), "leaf-claims-queried-key");
                if let ExclusionLeaf::Leaf(d) = &e.leaf {
                    vex(ctx, r, &root, q, &sides, &ExclusionLeaf::Placeholder, "leaf-replaced-by-placeholder");
                    let mut d2 = d.clone(); d2.leaf_value[0] ^= 1;
                    vex(ctx, r, &root, q, &sides, &ExclusionLeaf::Leaf(d2), "leaf-value-flipped");
                    // the leaf's own key queried with this exclusion proof (it is present)
                    vex(ctx, r, &root, &d.leaf_key, &sides, &e.leaf, "other-key-the-leaf-itself");
                }
            }
        }
    }
    if !mutate { return; }
    // mutations common to both kinds, judged by the reference recomputation + the soundness oracle
    let value = r.map.get(q).cloned().unwrap_or_else(|| b"DATA".to_vec());
    let leaf = match &proof { Proof::Exclusion(e) => e.leaf.clone(), _ => ExclusionLeaf::Placeholder };
    let incl = proof.is_inclusion();
    let both = |ctx: &mut Ctx, root: &B32, q: &B32, s: &[B32], kind: &str| {
        if incl { vin(ctx, r, root, q, &value, s, kind); } else { vex(ctx, r, root, q, s, &leaf, kind); }
    };
    if !sides.is_empty() {
        let i = ctx.rng.below(sides.len() as u64) as usize;
        let mut s = sides.clone(); s[i][ctx.rng.below(32) as usize] ^= 1 << ctx.rng.below(8);
        both(ctx, &root, q, &s, "side-hash-flipped");
        both(ctx, &root, q, &sides[1..], "truncated-first");
        both(ctx, &root, q, &sides[..sides.len() - 1], "truncated-last");
        let mut s = sides.clone(); s.swap(0, sides.len() - 1);
        if sides.len() > 1 { both(ctx, &root, q, &s, "sides-swapped"); }
    }
    let mut s = sides.clone(); s.push(ZERO); both(ctx, &root, q, &s, "extended-zero-at-root-end");
    let mut s = sides.clone(); s.insert(0, ZERO); both(ctx, &root, q, &s, "extended-zero-at-leaf-end");
    let mut s = sides.clone(); s.push(ctx.rng.arr32()); both(ctx, &root, q, &s, "extended-random");
    if ctx.rng.chance(1, 8) {
        let mut s = sides.clone(); while s.len() < 257 { s.push(ZERO); }
        both(ctx, &root, q, &s, "length-257");
        s.truncate(256); both(ctx, &root, q, &s, "length-256");
    }
    // other keys: same first `len` bits (same path!), differing inside the path, differing in the last bit
    let len = sides.len();
    if len < 256 { let q2 = flip_bit(q, len + ctx.rng.below((256 - len) as u64) as usize); both(ctx, &root, &q2, &sides, "other-key-same-path"); }
    if len > 0 { let q2 = flip_bit(q, ctx.rng.below(len as u64) as usize); both(ctx, &root, &q2, &sides, "other-key-off-path"); }
    both(ctx, &root, &flip_bit(q, 255), &sides, "other-key-last-bit");
    // other root
    let mut root2 = root; root2[31] ^= 1;
    both(ctx, &root2, q, &sides, "other-root");
    both(ctx, &ZERO, q, &sides, "zero-root");
}

pub fn run(ctx: &mut Ctx) {
    for h in 0..ctx.n(150, 1500) {
        let size = 1 + ctx.rng.below(if h % 4 == 0 { 14 } else { 7 }) as usize;
        let pool = key_pool(&mut ctx.rng, size);
        ctx.emit("new", "ok");
        let mut r = Run { tree: Tree::new(ObsStore::default()), map: BTreeMap::new(), trace: vec!["new".into()] };
        let nops = ctx.rng.below(3 * size as u64 + 2);
        for _ in 0..nops {
            let k = *ctx.rng.pick(&pool);
            if ctx.rng.chance(7, 10) { let v = value(&mut ctx.rng); apply(ctx, &mut r, Some(&v), &k); ctx.count("op.ins"); }
            else { apply(ctx, &mut r, None, &k); ctx.count("op.del"); }
        }
        if r.map.is_empty() { ctx.count("tree.empty"); } else if r.map.len() == 1 { ctx.count("tree.single-leaf"); } else { ctx.count("tree.two-or-more"); }
        // queries: every pool key (present or deleted/never inserted), one-bit neighbours, random keys
        let mut qs: Vec<B32> = pool.clone();
        for k in pool.iter().take(4) {
            qs.push(flip_bit(k, 255));
            qs.push(flip_bit(k, 0));
            qs.push(flip_bit(k, ctx.rng.below(256) as usize));
            let (s, _) = ref_path(&r.map, k);
            if s.len() < 256 { qs.push(flip_bit(k, s.len())); }
            if !s.is_empty() { qs.push(flip_bit(k, s.len() - 1)); }
        }
        qs.push(ctx.rng.arr32()); qs.push(ZERO); qs.push([0xffu8; 32]);
        for (i, q) in qs.iter().enumerate() {
            ctx.count(if r.map.contains_key(q) { "query.present" } else { "query.absent" });
            let deep = ref_path(&r.map, q).0.len() > 40;
            // deep proofs make long lines: mutate them less often
            let mutate = if deep { ctx.rng.chance(1, 6) } else { i < pool.len() || ctx.rng.chance(1, 2) };
            query(ctx, &r, q, mutate);
            let mut key = r.tree.root().to_vec(); key.extend_from_slice(q);
            ctx.distinct(&key);
        }
    }
}
