//! C01 — canonical encoding round-trips and reports its own size. Calls the real
//! `Serialize::{to_bytes,size,size_static,size_dynamic}` and `Deserialize::decode` of fuel-tx / fuel-types
//! on structured values of every protocol type; the Lean driver (`Drv/C01.lean`) answers the same
//! requests with the model. Oracle: length = size, word aligned, decode consumes exactly the encoding and
//! returns an equal value.
#[path = "../codec/mod.rs"]
mod codec;
use crate::ctx::Ctx;
use codec::*;
use fuel_tx::{policies::{Policies, PolicyType}, Input, Output, Receipt, StorageSlot, Transaction, TxPointer, UpgradePurpose, UtxoId, Witness};

fn trailing(ctx: &mut Ctx) -> Vec<u8> {
    match ctx.rng.below(4) { 0 => vec![], 1 => vec![0xff], 2 => ctx.rng.bytes(8), _ => { let n = ctx.rng.below(20) as usize; ctx.rng.bytes(n) } }
}

fn input_class(i: &Input) -> String {
    let pe = |p: &[u8]| if p.is_empty() { "-empty-predicate" } else { "" };
    let de = |p: &[u8]| if p.is_empty() { "-empty-data" } else { "" };
    let extra = match i {
        Input::CoinPredicate(c) => pe(&c.predicate).to_string(),
        Input::MessageCoinPredicate(m) => pe(&m.predicate).to_string(),
        Input::MessageDataSigned(m) => de(&m.data).to_string(),
        Input::MessageDataPredicate(m) => format!("{}{}", de(&m.data), pe(&m.predicate)),
        _ => String::new(),
    };
    format!("input-{}{}", INPUT_NAMES[input_variant(i)], extra)
}
fn policies_class(p: &Policies) -> String {
    let big = |t| p.get(t).map(|v| v > u32::MAX as u64).unwrap_or(false);
    match (big(PolicyType::Maturity), big(PolicyType::Expiration)) {
        (true, _) => "policies-maturity-above-u32".into(),
        (_, true) => "policies-expiration-above-u32".into(),
        _ => "policies".into(),
    }
}
fn tx_has_illformed(t: &Transaction) -> Option<String> {
    use fuel_tx::field::{Inputs, Policies as P};
    fn chk<T: Inputs + P>(t: &T) -> Option<String> {
        let pc = policies_class(t.policies());
        if pc != "policies" { return Some(pc); }
        t.inputs().iter().map(input_class).find(|c| c.contains("-empty-"))
    }
    match t { Transaction::Script(t) => chk(t), Transaction::Create(t) => chk(t), Transaction::Upgrade(t) => chk(t), Transaction::Upload(t) => chk(t), Transaction::Blob(t) => chk(t), Transaction::Mint(_) => None }
}

fn rt_input(ctx: &mut Ctx, i: &Input) {
    let t = trailing(ctx);
    ctx.count(&format!("gen.{}", input_class(i)));
    ctx.distinct(i.vt().as_bytes());
    roundtrip(ctx, "input", i, &input_class(i), &t);
}
fn rt_policies(ctx: &mut Ctx, p: &Policies) {
    let t = trailing(ctx);
    ctx.count(&format!("gen.policies.mask{:02}", p.bits()));
    ctx.distinct(p.vt().as_bytes());
    roundtrip(ctx, "policies", p, &policies_class(p), &t);
}
fn rt_tx(ctx: &mut Ctx, tx: &Transaction) {
    let t = trailing(ctx);
    let k = tx_variant(tx);
    let class = match tx_has_illformed(tx) { Some(c) => format!("tx-{}-with-{}", TX_NAMES[k], c), None => format!("tx-{}", TX_NAMES[k]) };
    ctx.count(&format!("gen.tx.{}", TX_NAMES[k]));
    ctx.distinct(tx.vt().as_bytes());
    roundtrip(ctx, "tx", tx, &class, &t);
    // the same value through the concrete type's own impl
    match tx {
        Transaction::Script(x) => roundtrip(ctx, "script", x, &class, &t),
        Transaction::Create(x) => roundtrip(ctx, "create", x, &class, &t),
        Transaction::Mint(x) => roundtrip(ctx, "mint", x, &class, &t),
        Transaction::Upgrade(x) => roundtrip(ctx, "upgrade", x, &class, &t),
        Transaction::Upload(x) => roundtrip(ctx, "upload", x, &class, &t),
        Transaction::Blob(x) => roundtrip(ctx, "blob", x, &class, &t),
    }
}

pub fn run(ctx: &mut Ctx) {
    // 0. regression corpus: boundary cases and the inputs of the known findings (F1-F3)
    {
        let mut p = Policies::new();
        rt_policies(ctx, &p);
        p.set(PolicyType::Maturity, Some(u32::MAX as u64));
        rt_policies(ctx, &p);
        p.set(PolicyType::Maturity, Some(1u64 << 32)); // F1
        rt_policies(ctx, &p);
        let mut p = Policies::new();
        p.set(PolicyType::Expiration, Some(u64::MAX)); // F1
        rt_policies(ctx, &p);
        for kind in [1usize, 4, 6] { let i = input_of(&mut ctx.rng, kind, 0, 3, 5); rt_input(ctx, &i); } // F2: empty predicate
        for kind in [5usize, 6] { let i = input_of(&mut ctx.rng, kind, 4, 3, 0); rt_input(ctx, &i); }     // F3: empty data
        let i = input_of(&mut ctx.rng, 6, 0, 0, 0); rt_input(ctx, &i);
        rt_tx(ctx, &Transaction::default_test_tx());
        rt_tx(ctx, &Transaction::script(0, vec![], vec![], Policies::new(), vec![], vec![], vec![]).into());
    }
    // 1. policies: all 64 masks x boundary-biased values
    for mask in 0u32..64 {
        for _ in 0..ctx.n(12, 120) { let p = policies(&mut ctx.rng, mask); rt_policies(ctx, &p); }
    }
    // 2. inputs: every variant x every length class of predicate / predicate data / data (well-formed)
    for kind in 0..7usize {
        for &l in LENS.iter() {
            for _ in 0..ctx.n(1, 4) {
                let (p, d, x) = (l.max(1), *ctx.rng.pick(&LENS), if ctx.rng.chance(1, 2) { l.max(1) } else { nonzero_len(&mut ctx.rng) });
                let i = input_of(&mut ctx.rng, kind, p, d, x); rt_input(ctx, &i);
                let nz = nonzero_len(&mut ctx.rng); let i = input_of(&mut ctx.rng, kind, nz, l, x); rt_input(ctx, &i);
            }
        }
        for _ in 0..ctx.n(150, 4000) { let i = { let (p, d, x) = (nonzero_len(&mut ctx.rng), len(&mut ctx.rng), nonzero_len(&mut ctx.rng)); input_of(&mut ctx.rng, kind, p, d, x) }; rt_input(ctx, &i); }
    }
    // 3. outputs, witnesses, storage slots, utxo ids, tx pointers, upgrade purposes
    for kind in 0..5usize {
        for _ in 0..ctx.n(120, 3000) { let o = output_of(&mut ctx.rng, kind); let t = trailing(ctx); ctx.count(&format!("gen.output.{kind}")); ctx.distinct(o.vt().as_bytes()); roundtrip(ctx, "output", &o, &format!("output-{kind}"), &t); }
    }
    for l in 0..80usize { let w: Witness = ctx.rng.bytes(l).into(); let t = trailing(ctx); ctx.count(&format!("gen.witness.len-mod8-{}", l % 8)); ctx.distinct(w.vt().as_bytes()); roundtrip(ctx, "witness", &w, "witness", &t); }
    for _ in 0..ctx.n(150, 3000) {
        let t = trailing(ctx);
        let w = witness(&mut ctx.rng); ctx.count(&format!("gen.witness.len-mod8-{}", w.as_ref().len() % 8)); roundtrip(ctx, "witness", &w, "witness", &t);
        let s = StorageSlot::new(b32(&mut ctx.rng).into(), b32(&mut ctx.rng).into()); ctx.count("gen.storageslot"); roundtrip(ctx, "storageslot", &s, "storageslot", &t);
        let u: UtxoId = utxo(&mut ctx.rng); ctx.count("gen.utxoid"); roundtrip(ctx, "utxoid", &u, "utxoid", &t);
        let p: TxPointer = txptr(&mut ctx.rng); ctx.count("gen.txpointer"); roundtrip(ctx, "txpointer", &p, "txpointer", &t);
        let k = ctx.rng.below(2) as usize;
        let up: UpgradePurpose = purpose(&mut ctx.rng, k); ctx.count(&format!("gen.upgradepurpose.{k}")); roundtrip(ctx, "upgradepurpose", &up, "upgradepurpose", &t);
    }
    // 4. receipts: every variant, payload present / absent (the exempt fields)
    for kind in 0..13usize {
        for _ in 0..ctx.n(100, 3000) {
            let r: Receipt = receipt_of(&mut ctx.rng, kind); let t = trailing(ctx);
            ctx.count(&format!("gen.receipt.{kind}")); ctx.distinct(r.vt().as_bytes());
            roundtrip(ctx, "receipt", &r, &format!("receipt-{kind}"), &t);
            // exempt fields really come back as their default
            if let Ok((d, _)) = decode_impl::<Receipt>(&fuel_types::canonical::Serialize::to_bytes(&r)) {
                let dflt = match &d { Receipt::ReturnData { data, .. } | Receipt::LogData { data, .. } | Receipt::MessageOut { data, .. } => data.is_none(),
                    Receipt::Panic { contract_id, .. } => contract_id.is_none(), _ => true };
                if !dflt { ctx.oracle_fail(&format!("skipped-field-not-default-receipt-{kind}"), &r.vt(), "a #[canonical(skip)] field decoded to a non-default value"); }
            }
        }
    }
    // 5. transactions: every kind x every policy mask, then random compositions
    for kind in 0..6usize {
        for mask in 0u32..64 {
            for _ in 0..ctx.n(2, 10) { let tx = tx_of(&mut ctx.rng, kind, mask); rt_tx(ctx, &tx); }
        }
        for _ in 0..ctx.n(150, 8000) { let mask = ctx.rng.below(64) as u32; let tx = tx_of(&mut ctx.rng, kind, mask); rt_tx(ctx, &tx); }
    }
    // 6. ill-formed values (separate, so that they do not drown the valid ones): what the public setters /
    //    constructors accept but the decoder maps elsewhere (F1-F3)
    for _ in 0..ctx.n(30, 600) {
        let mask = ctx.rng.below(64) as u32 | 0b10100;
        let mut p = policies(&mut ctx.rng, mask);
        let which = if ctx.rng.chance(1, 2) { PolicyType::Maturity } else { PolicyType::Expiration };
        p.set(which, Some((u32::MAX as u64) + 1 + ctx.rng.below(1 << 20)));
        rt_policies(ctx, &p);
        let kind = *ctx.rng.pick(&[1usize, 4, 5, 6, 6]);
        let (pl, dl) = match kind { 5 => (1, 0), 6 => *ctx.rng.pick(&[(0usize, 0usize), (0, 3), (3, 0)]), _ => (0, 0) };
        let pd = len(&mut ctx.rng);
        let i = input_of(&mut ctx.rng, kind, pl, pd, dl); rt_input(ctx, &i);
    }
    // 7. LARGE element counts (added after seeded change C01-2: `Vec<T>::decode_static` pre-allocating at most 1024
    //    elements while `decode_dynamic` iterates over `capacity()`): every vector field of non-byte elements with
    //    255 / 256 / 1023 / 1024 / 1025 / 3000 entries (thorough: also 70 000)
    {
        use fuel_tx::{UploadBody};
        let mut counts: Vec<usize> = vec![256, 1024, 1025];
        if ctx.thorough() { counts.extend([255, 1023, 3000]); }
        for n in counts {
            let pol = policies(&mut ctx.rng, 0b1000);
            let wits: Vec<Witness> = (0..n).map(|i| vec![(i % 251) as u8; i % 3].into()).collect();
            let outs: Vec<Output> = (0..n).map(|_| output_of(&mut ctx.rng, 3)).collect();
            let ins: Vec<Input> = (0..n).map(|_| input_of(&mut ctx.rng, 0, 0, 0, 0)).collect();
            ctx.count(&format!("gen.large-count.{n}"));
            rt_tx(ctx, &Transaction::script(1, vec![1, 2, 3], vec![], pol, vec![], vec![], wits.clone()).into());
            rt_tx(ctx, &Transaction::script(1, vec![], vec![9], pol, vec![], outs.clone(), vec![]).into());
            rt_tx(ctx, &Transaction::script(1, vec![], vec![], pol, ins.clone(), vec![], vec![]).into());
            let slots: Vec<StorageSlot> = (0..n).map(|i| { let mut k = [0u8; 32]; k[28..].copy_from_slice(&(i as u32).to_be_bytes()); StorageSlot::new(k.into(), b32(&mut ctx.rng).into()) }).collect();
            let salt = b32(&mut ctx.rng); rt_tx(ctx, &Transaction::create(0, pol, salt.into(), slots, vec![], vec![], vec![vec![1u8].into()]).into());
            let proof: Vec<fuel_types::Bytes32> = (0..n).map(|_| b32(&mut ctx.rng).into()).collect();
            let root = b32(&mut ctx.rng); rt_tx(ctx, &Transaction::upload(UploadBody { root: root.into(), witness_index: 0, subsection_index: 0, subsections_number: 1, proof_set: proof }, pol, vec![], vec![], vec![vec![1u8].into()]).into());
        }
    }
    ctx.note("non-trivial = distinct value text of an input / policy set / receipt / output / transaction that was encoded and decoded");
}
