//! C07 — DA compression round trip through the REAL derive-generated `CompressibleBy` / `DecompressibleBy` impls
//! (fuel-derive) of every transaction kind, over SEQUENCES of transactions sharing one context.
//! The context is this file's copy of the test-only one of fuel-tx/src/tests/da_compression.rs (which is
//! `#[cfg(test)]`), extended with a bounded ring of registry keys (size chosen per sequence, tiny to force key
//! reuse and eviction, or the real 2^24-1 key space started just below MAX_WRITABLE to force the wrap-around of
//! `RegistryKey::next`). Keys handed out during the current transaction are not evicted before it ends.
//! Each transaction is flattened (through its serde `Serialize` impl, which names every struct / variant / field)
//! into its leaf fields in declaration order; the Lean driver predicts the compressed leaves (skipped fields
//! gone, registry fields replaced by keys) and the decompressed leaves from the translator's field table.
use crate::{ctx::Ctx, gen::fields_gen, util::hex};
use fuel_compression::{Compressible, CompressibleBy, ContextError, Decompress, DecompressibleBy, RegistryKey};
use fuel_tx::{
    input::{
        coin::{Coin, CoinSpecification},
        message::{Message, MessageSpecification},
        AsField, PredicateCode,
    },
    test_helper::TransactionFactory,
    Blob, CompressedUtxoId, Create, Input, Mint, Output, Script, ScriptCode, Transaction, TxPointer, UniqueIdentifier, Upgrade, Upload, UtxoId,
};
use fuel_types::{bytes::Bytes, canonical::{Deserialize as _, Serialize as _}, Address, AssetId, ChainId, ContractId, Nonce, Word};
use serde::{ser, Serialize};
use std::collections::{BTreeMap, HashMap};
use std::{future::Future, task::{Context as TaskCx, Poll, Waker}};

fn block_on<F: Future>(f: F) -> F::Output {
    let mut f = std::pin::pin!(f);
    let mut cx = TaskCx::from_waker(Waker::noop());
    loop { if let Poll::Ready(v) = f.as_mut().poll(&mut cx) { return v; } }
}

// ------------------------------------------------------------------ the context
#[derive(Debug, Default, Clone, PartialEq)]
struct CoinInfo { owner: Address, amount: u64, asset_id: AssetId }
#[derive(Debug, Default, Clone, PartialEq)]
struct MessageInfo { sender: Address, recipient: Address, amount: Word, data: Vec<u8> }
#[derive(Debug, Default, Clone)]
struct Reg { entries: Vec<(u32, Vec<u8>)>, next: u32 }

#[derive(Debug, Default, Clone)]
pub struct RingCtx {
    size: u32,
    start: u32,
    regs: BTreeMap<&'static str, Reg>,
    touched: Vec<(&'static str, u32)>,
    utxos: Vec<UtxoId>,
    coins: HashMap<UtxoId, CoinInfo>,
    msgs: HashMap<Nonce, MessageInfo>,
    mint_ptr: Option<TxPointer>,
    /// statistics
    pub evictions: u64,
    pub reuses: u64,
    pub wraps: u64,
}
impl ContextError for RingCtx { type Error = String; }

impl RingCtx {
    fn new(size: u32, start: u32) -> Self { RingCtx { size, start, ..Default::default() } }
    /// the real `RegistryKey::next`, wrapped at the ring size
    fn advance(&mut self, k: u32) -> u32 {
        let n = RegistryKey::try_from(k).expect("key in range").next().as_u32();
        if n < k || n >= self.size { self.wraps += 1; }
        // a ring smaller than the key space wraps here; the full ring relies on `next`'s own wrap-around, so a
        // `next` that hands out the reserved key (or any other wrong key) is used exactly as a real context would
        if self.size < RegistryKey::DEFAULT_VALUE.as_u32() && n >= self.size { 0 } else { n }
    }
    fn reg_compress(&mut self, ks: &'static str, v: &[u8]) -> Result<RegistryKey, String> {
        let start = self.start;
        let g = self.regs.entry(ks).or_insert_with(|| Reg { entries: vec![], next: start }).clone();
        if let Some((k, _)) = g.entries.iter().find(|e| e.1 == v) {
            self.touched.push((ks, *k));
            self.reuses += 1;
            return Ok(RegistryKey::try_from(*k).unwrap());
        }
        let mine: Vec<u32> = self.touched.iter().filter(|t| t.0 == ks).map(|t| t.1).collect();
        let mut k = g.next;
        let mut found = None;
        for _ in 0..mine.len() + 1 {
            if mine.contains(&k) { k = self.advance(k); } else { found = Some(k); break; }
        }
        let Some(k) = found else { return Err("registry-full".into()) };
        let next = self.advance(k);
        let g = self.regs.get_mut(ks).unwrap();
        if g.entries.iter().any(|e| e.0 == k) { self.evictions += 1; }
        g.entries.retain(|e| e.0 != k);
        g.entries.insert(0, (k, v.to_vec()));
        g.next = next;
        self.touched.push((ks, k));
        Ok(RegistryKey::try_from(k).unwrap())
    }
    fn reg_decompress(&self, ks: &'static str, key: RegistryKey) -> Vec<u8> {
        let g = self.regs.get(ks).expect("keyspace not found");
        g.entries.iter().find(|e| e.0 == key.as_u32()).expect("key not found").1.clone()
    }
    fn end_tx(&mut self) { self.touched.clear(); }
    fn store_tx_info(&mut self, tx: &Transaction) {
        let inputs: &[Input] = match tx {
            Transaction::Script(t) => fuel_tx::field::Inputs::inputs(t), Transaction::Create(t) => fuel_tx::field::Inputs::inputs(t),
            Transaction::Upgrade(t) => fuel_tx::field::Inputs::inputs(t), Transaction::Upload(t) => fuel_tx::field::Inputs::inputs(t),
            Transaction::Blob(t) => fuel_tx::field::Inputs::inputs(t),
            Transaction::Mint(m) => { self.mint_ptr = Some(*fuel_tx::field::TxPointer::tx_pointer(m)); &[] }
        };
        for input in inputs {
            if input.is_coin() {
                self.coins.insert(*input.utxo_id().unwrap(), CoinInfo { owner: *input.input_owner().unwrap(), amount: input.amount().unwrap(), asset_id: *input.asset_id(&AssetId::default()).unwrap() });
            }
            if input.is_message() {
                self.msgs.insert(*input.nonce().unwrap(), MessageInfo { sender: *input.sender().unwrap(), recipient: *input.recipient().unwrap(), amount: input.amount().unwrap(), data: input.input_data().unwrap_or_default().to_vec() });
            }
        }
    }
}

macro_rules! impl_registry {
    ($t:ty, $ks:expr, $raw:expr, $mk:expr) => {
        impl CompressibleBy<RingCtx> for $t {
            async fn compress_with(&self, ctx: &mut RingCtx) -> Result<RegistryKey, String> { let raw: Vec<u8> = $raw(self); ctx.reg_compress($ks, &raw) }
        }
        impl DecompressibleBy<RingCtx> for $t {
            async fn decompress_with(key: RegistryKey, ctx: &RingCtx) -> Result<$t, String> { Ok($mk(ctx.reg_decompress($ks, key))) }
        }
    };
}
fn arr32(v: Vec<u8>) -> [u8; 32] { v.try_into().expect("32 bytes") }
impl_registry!(Address, "Address", |s: &Address| s.as_ref().to_vec(), |v| Address::new(arr32(v)));
impl_registry!(AssetId, "AssetId", |s: &AssetId| s.as_ref().to_vec(), |v| AssetId::new(arr32(v)));
impl_registry!(ContractId, "ContractId", |s: &ContractId| s.as_ref().to_vec(), |v| ContractId::new(arr32(v)));
impl_registry!(ScriptCode, "ScriptCode", |s: &ScriptCode| s.bytes.to_vec(), |v: Vec<u8>| ScriptCode::from(v));
impl_registry!(PredicateCode, "PredicateCode", |s: &PredicateCode| s.bytes.to_vec(), |v: Vec<u8>| PredicateCode::from(v));

impl CompressibleBy<RingCtx> for UtxoId {
    async fn compress_with(&self, ctx: &mut RingCtx) -> Result<CompressedUtxoId, String> {
        let i = match ctx.utxos.iter().position(|u| u == self) { Some(i) => i, None => { ctx.utxos.push(*self); ctx.utxos.len() - 1 } };
        Ok(CompressedUtxoId { tx_pointer: TxPointer::new((i as u32).into(), 0), output_index: 0 })
    }
}
impl DecompressibleBy<RingCtx> for UtxoId {
    async fn decompress_with(key: CompressedUtxoId, ctx: &RingCtx) -> Result<UtxoId, String> {
        Ok(*ctx.utxos.get(u32::from(key.tx_pointer.block_height()) as usize).expect("key not found"))
    }
}
// the three hand-written impls, as in fuel-tx/src/tests/da_compression.rs
impl<Specification> DecompressibleBy<RingCtx> for Coin<Specification>
where
    Specification: CoinSpecification,
    Specification::Predicate: DecompressibleBy<RingCtx>,
    Specification::PredicateData: DecompressibleBy<RingCtx>,
    Specification::PredicateGasUsed: DecompressibleBy<RingCtx>,
    Specification::Witness: DecompressibleBy<RingCtx>,
{
    async fn decompress_with(c: <Coin<Specification> as Compressible>::Compressed, ctx: &RingCtx) -> Result<Coin<Specification>, String> {
        let utxo_id = UtxoId::decompress_with(c.utxo_id, ctx).await?;
        let coin_info = ctx.coins.get(&utxo_id).expect("coin not found");
        let witness_index = c.witness_index.decompress(ctx).await?;
        let predicate_gas_used = c.predicate_gas_used.decompress(ctx).await?;
        let predicate = c.predicate.decompress(ctx).await?;
        let predicate_data = c.predicate_data.decompress(ctx).await?;
        Ok(Self { utxo_id, owner: coin_info.owner, amount: coin_info.amount, asset_id: coin_info.asset_id, tx_pointer: Default::default(),
                  witness_index, predicate_gas_used, predicate, predicate_data })
    }
}
impl<Specification> DecompressibleBy<RingCtx> for Message<Specification>
where
    Specification: MessageSpecification,
    Specification::Data: DecompressibleBy<RingCtx> + Default,
    Specification::Predicate: DecompressibleBy<RingCtx>,
    Specification::PredicateData: DecompressibleBy<RingCtx>,
    Specification::PredicateGasUsed: DecompressibleBy<RingCtx>,
    Specification::Witness: DecompressibleBy<RingCtx>,
{
    async fn decompress_with(c: <Message<Specification> as Compressible>::Compressed, ctx: &RingCtx) -> Result<Message<Specification>, String> {
        let msg = ctx.msgs.get(&c.nonce).expect("message not found");
        let witness_index = c.witness_index.decompress(ctx).await?;
        let predicate_gas_used = c.predicate_gas_used.decompress(ctx).await?;
        let predicate = c.predicate.decompress(ctx).await?;
        let predicate_data = c.predicate_data.decompress(ctx).await?;
        let mut message: Message<Specification> = Message { sender: msg.sender, recipient: msg.recipient, amount: msg.amount, nonce: c.nonce,
            witness_index, predicate_gas_used, data: Default::default(), predicate, predicate_data };
        if let Some(data) = message.data.as_mut_field() { *data = Bytes::new(msg.data.clone()) }
        Ok(message)
    }
}
impl DecompressibleBy<RingCtx> for Mint {
    async fn decompress_with(c: Self::Compressed, ctx: &RingCtx) -> Result<Self, String> {
        Ok(Transaction::mint(ctx.mint_ptr.expect("no latest tx pointer"), c.input_contract.decompress(ctx).await?, c.output_contract.decompress(ctx).await?,
            c.mint_amount.decompress(ctx).await?, c.mint_asset_id.decompress(ctx).await?, c.gas_price.decompress(ctx).await?))
    }
}

// ------------------------------------------------------------------ flattening a value through serde
#[derive(Debug, Clone)]
enum T { Num(u128), Bytes(Vec<u8>), Seq(Vec<T>), Node { ty: String, fields: Vec<(String, T)> }, Var(String, Box<T>), Unit }
#[derive(Debug)]
struct WErr(String);
impl std::fmt::Display for WErr { fn fmt(&self, f: &mut std::fmt::Formatter) -> std::fmt::Result { f.write_str(&self.0) } }
impl std::error::Error for WErr {}
impl ser::Error for WErr { fn custom<M: std::fmt::Display>(m: M) -> Self { WErr(m.to_string()) } }
struct W;
struct WSeq { ty: String, var: Option<String>, items: Vec<(String, T)>, named: bool }
fn seq_end(s: WSeq) -> T {
    let body = if s.named { T::Node { ty: s.ty.clone(), fields: s.items } }
        else if s.ty.is_empty() {
            // a sequence / tuple of u8 is a byte string
            if s.items.iter().all(|(_, t)| matches!(t, T::Num(n) if *n < 256)) && s.var.is_none() && s.items.iter().all(|(k, _)| k == "u8") {
                T::Bytes(s.items.iter().map(|(_, t)| if let T::Num(n) = t { *n as u8 } else { 0 }).collect())
            } else { T::Seq(s.items.into_iter().map(|x| x.1).collect()) }
        } else { T::Node { ty: s.ty.clone(), fields: s.items.into_iter().enumerate().map(|(i, x)| (i.to_string(), x.1)).collect() } };
    match s.var { Some(v) => T::Var(v, Box::new(body)), None => body }
}
macro_rules! wnum { ($($f:ident($t:ty)),*) => { $(fn $f(self, v: $t) -> Result<T, WErr> { Ok(T::Num(v as u128)) })* } }
macro_rules! wunsup { ($($f:ident($t:ty)),*) => { $(fn $f(self, _v: $t) -> Result<T, WErr> { Err(WErr(concat!("unsupported ", stringify!($f)).into())) })* } }
impl ser::Serializer for W {
    type Ok = T; type Error = WErr;
    type SerializeSeq = WSeq; type SerializeTuple = WSeq; type SerializeTupleStruct = WSeq; type SerializeTupleVariant = WSeq;
    type SerializeMap = WSeq; type SerializeStruct = WSeq; type SerializeStructVariant = WSeq;
    fn is_human_readable(&self) -> bool { false }
    wnum!(serialize_bool(bool), serialize_u8(u8), serialize_u16(u16), serialize_u32(u32), serialize_u64(u64), serialize_u128(u128));
    wunsup!(serialize_i8(i8), serialize_i16(i16), serialize_i32(i32), serialize_i64(i64), serialize_f32(f32), serialize_f64(f64), serialize_char(char));
    fn serialize_str(self, v: &str) -> Result<T, WErr> { Ok(T::Bytes(v.as_bytes().to_vec())) }
    fn serialize_bytes(self, v: &[u8]) -> Result<T, WErr> { Ok(T::Bytes(v.to_vec())) }
    fn serialize_none(self) -> Result<T, WErr> { Ok(T::Var("None".into(), Box::new(T::Unit))) }
    fn serialize_some<V: ?Sized + Serialize>(self, v: &V) -> Result<T, WErr> { Ok(T::Var("Some".into(), Box::new(v.serialize(W)?))) }
    fn serialize_unit(self) -> Result<T, WErr> { Ok(T::Unit) }
    fn serialize_unit_struct(self, _: &'static str) -> Result<T, WErr> { Ok(T::Unit) }
    fn serialize_unit_variant(self, _: &'static str, _: u32, v: &'static str) -> Result<T, WErr> { Ok(T::Var(v.into(), Box::new(T::Unit))) }
    fn serialize_newtype_struct<V: ?Sized + Serialize>(self, n: &'static str, v: &V) -> Result<T, WErr> {
        Ok(T::Node { ty: n.into(), fields: vec![("0".into(), v.serialize(W)?)] }) }
    fn serialize_newtype_variant<V: ?Sized + Serialize>(self, n: &'static str, _: u32, var: &'static str, v: &V) -> Result<T, WErr> {
        Ok(T::Var(var.into(), Box::new(T::Node { ty: format!("{n}::{var}"), fields: vec![("0".into(), v.serialize(W)?)] }))) }
    fn serialize_seq(self, _: Option<usize>) -> Result<WSeq, WErr> { Ok(WSeq { ty: String::new(), var: None, items: vec![], named: false }) }
    fn serialize_tuple(self, _: usize) -> Result<WSeq, WErr> { Ok(WSeq { ty: String::new(), var: None, items: vec![], named: false }) }
    fn serialize_tuple_struct(self, n: &'static str, _: usize) -> Result<WSeq, WErr> { Ok(WSeq { ty: n.into(), var: None, items: vec![], named: false }) }
    fn serialize_tuple_variant(self, n: &'static str, _: u32, v: &'static str, _: usize) -> Result<WSeq, WErr> { Ok(WSeq { ty: format!("{n}::{v}"), var: Some(v.into()), items: vec![], named: false }) }
    fn serialize_map(self, _: Option<usize>) -> Result<WSeq, WErr> { Ok(WSeq { ty: String::new(), var: None, items: vec![], named: false }) }
    fn serialize_struct(self, n: &'static str, _: usize) -> Result<WSeq, WErr> { Ok(WSeq { ty: n.into(), var: None, items: vec![], named: true }) }
    fn serialize_struct_variant(self, n: &'static str, _: u32, v: &'static str, _: usize) -> Result<WSeq, WErr> { Ok(WSeq { ty: format!("{n}::{v}"), var: Some(v.into()), items: vec![], named: true }) }
}
fn elem_key<V: ?Sized + Serialize>(_v: &V) -> String { if std::any::type_name::<V>() == "u8" { "u8".into() } else { String::new() } }
macro_rules! wseq { ($tr:ident, $m:ident) => {
    impl ser::$tr for WSeq { type Ok = T; type Error = WErr;
        fn $m<V: ?Sized + Serialize>(&mut self, v: &V) -> Result<(), WErr> { self.items.push((elem_key(v), v.serialize(W)?)); Ok(()) }
        fn end(self) -> Result<T, WErr> { Ok(seq_end(self)) } } } }
wseq!(SerializeSeq, serialize_element); wseq!(SerializeTuple, serialize_element);
wseq!(SerializeTupleStruct, serialize_field); wseq!(SerializeTupleVariant, serialize_field);
impl ser::SerializeStruct for WSeq { type Ok = T; type Error = WErr;
    fn serialize_field<V: ?Sized + Serialize>(&mut self, k: &'static str, v: &V) -> Result<(), WErr> { self.items.push((k.into(), v.serialize(W)?)); Ok(()) }
    fn end(self) -> Result<T, WErr> { Ok(seq_end(self)) } }
impl ser::SerializeStructVariant for WSeq { type Ok = T; type Error = WErr;
    fn serialize_field<V: ?Sized + Serialize>(&mut self, k: &'static str, v: &V) -> Result<(), WErr> { self.items.push((k.into(), v.serialize(W)?)); Ok(()) }
    fn end(self) -> Result<T, WErr> { Ok(seq_end(self)) } }
impl ser::SerializeMap for WSeq { type Ok = T; type Error = WErr;
    fn serialize_key<V: ?Sized + Serialize>(&mut self, k: &V) -> Result<(), WErr> { self.items.push((String::new(), k.serialize(W)?)); Ok(()) }
    fn serialize_value<V: ?Sized + Serialize>(&mut self, v: &V) -> Result<(), WErr> { self.items.push((String::new(), v.serialize(W)?)); Ok(()) }
    fn end(self) -> Result<T, WErr> { Ok(seq_end(self)) } }

#[derive(Clone, Debug, PartialEq)]
struct Leaf { path: Vec<(String, String)>, group: String, val: String }

fn num_of(t: &T) -> u128 { if let T::Num(n) = t { *n } else { 0 } }
fn field<'a>(fields: &'a [(String, T)], k: &str) -> Option<&'a T> { fields.iter().find(|f| f.0 == k).map(|f| &f.1) }
fn bytes_of(t: &T) -> Vec<u8> { match t { T::Bytes(b) => b.clone(), T::Node { fields, .. } => fields.iter().flat_map(|f| bytes_of(&f.1)).collect(), T::Num(n) => (*n as u16).to_be_bytes().to_vec(), _ => vec![] } }

fn flatten(t: &T, path: &mut Vec<(String, String)>, group: &str, out: &mut Vec<Leaf>) {
    match t {
        T::Unit => {}
        T::Num(n) => out.push(Leaf { path: path.clone(), group: group.into(), val: format!("n{n}") }),
        T::Bytes(b) => out.push(Leaf { path: path.clone(), group: group.into(), val: format!("x{}", hex(b)) }),
        T::Seq(xs) => { out.push(Leaf { path: path.clone(), group: group.into(), val: format!("n{}", xs.len()) }); for x in xs { flatten(x, path, group, out); } }
        T::Var(v, inner) => { out.push(Leaf { path: path.clone(), group: group.into(), val: format!("v{v}") }); flatten(inner, path, group, out); }
        T::Node { ty, fields } => {
            // atomic context-compressed objects
            if ty == "UtxoId" {
                let mut b = bytes_of(field(fields, "tx_id").unwrap()); b.extend((num_of(field(fields, "output_index").unwrap()) as u16).to_be_bytes());
                out.push(Leaf { path: path.clone(), group: group.into(), val: format!("x{}", hex(&b)) }); return;
            }
            if ty == "CompressedUtxoId" {
                let tp = field(fields, "tx_pointer").unwrap();
                let (bh, ti) = if let T::Node { fields: f, .. } = tp { (num_of(field(f, "block_height").map(|x| if let T::Node { fields, .. } = x { &fields[0].1 } else { x }).unwrap()), num_of(field(f, "tx_index").unwrap())) } else { (0, 0) };
                let mut b = (bh as u32).to_be_bytes().to_vec(); b.extend((ti as u16).to_be_bytes()); b.extend((num_of(field(fields, "output_index").unwrap()) as u16).to_be_bytes());
                out.push(Leaf { path: path.clone(), group: group.into(), val: format!("x{}", hex(&b)) }); return;
            }
            // the two structs called `Contract`
            let ty = if ty == "Contract" { if field(fields, "contract_id").is_some() { "InputContract".to_string() } else { "OutputContract".to_string() } } else { ty.clone() };
            let g = match ty.as_str() {
                "Coin" => { let u = field(fields, "utxo_id").unwrap(); let mut l = vec![]; flatten(u, &mut vec![], "", &mut l); format!("utxo:{}", &l[0].val[1..]) }
                "Message" => format!("nonce:{}", hex(&bytes_of(field(fields, "nonce").unwrap()))),
                "Mint" => "mint".to_string(),
                _ => group.to_string(),
            };
            for (k, v) in fields { path.push((ty.clone(), k.clone())); flatten(v, path, &g, out); path.pop(); }
        }
    }
}
fn leaves<V: Serialize>(v: &V) -> Vec<Leaf> { let t = v.serialize(W).expect("walk"); let mut out = vec![]; flatten(&t, &mut vec![], "", &mut out); out }
fn show_path(p: &[(String, String)]) -> String { if p.is_empty() { "-".into() } else { p.iter().map(|(a, b)| format!("{a}.{b}")).collect::<Vec<_>>().join("/") } }
fn vals(ls: &[Leaf]) -> String { ls.iter().map(|l| l.val.clone()).collect::<Vec<_>>().join(",") }

/// the oracle's own reading of the generated table: is the leaf under a `compress(skip)` field, and is that field
/// restored from the context by a hand-written impl
fn skip_info(l: &Leaf) -> Option<bool> {
    for (o, f) in &l.path {
        if let Some(r) = fields_gen::FIELDS.iter().find(|r| r.0 == o && r.1 == f) { if r.2 { return Some(r.3); } }
    }
    None
}
fn is_zero(v: &str) -> bool { v == "n0" || (v.starts_with('x') && v[1..].chars().all(|c| c == '0' || c == '-')) }

// ------------------------------------------------------------------ generation
struct Pools { addrs: Vec<Address>, assets: Vec<AssetId>, contracts: Vec<ContractId>, coins: Vec<(UtxoId, Address, u64, AssetId)>,
               msgs_coin: Vec<(Nonce, Address, Address, u64)>, msgs_data: Vec<(Nonce, Address, Address, u64, Vec<u8>)>, codes: Vec<Vec<u8>> }
fn pools(ctx: &mut Ctx) -> Pools {
    let addrs: Vec<Address> = (0..4).map(|_| Address::new(ctx.rng.arr32())).collect();
    let assets: Vec<AssetId> = (0..3).map(|_| AssetId::new(ctx.rng.arr32())).collect();
    Pools {
        contracts: (0..3).map(|_| ContractId::new(ctx.rng.arr32())).collect(),
        coins: (0..5).map(|i| (UtxoId::new(ctx.rng.arr32().into(), i as u16), addrs[i % 4], ctx.rng.word(), assets[i % 3])).collect(),
        msgs_coin: (0..3).map(|i| (Nonce::new(ctx.rng.arr32()), addrs[i % 4], addrs[(i + 1) % 4], ctx.rng.word())).collect(),
        msgs_data: (0..3).map(|i| { let n = 1 + ctx.rng.below(40) as usize; (Nonce::new(ctx.rng.arr32()), addrs[i % 4], addrs[(i + 2) % 4], ctx.rng.word(), ctx.rng.bytes(n)) }).collect(),
        codes: (0..3).map(|_| { let n = 4 * (1 + ctx.rng.below(5) as usize); ctx.rng.bytes(n) }).collect(),
        addrs, assets,
    }
}
/// replace fields by pool values so that registry values, coins and messages recur across the sequence
fn remap(ctx: &mut Ctx, p: &Pools, inputs: &mut Vec<Input>, outputs: &mut Vec<Output>) {
    let mut used_coin = vec![false; p.coins.len()];
    let mut used_mc = vec![false; p.msgs_coin.len()];
    let mut used_md = vec![false; p.msgs_data.len()];
    let mut seen_utxo: Vec<UtxoId> = vec![];
    let mut seen_nonce: Vec<Nonce> = vec![];
    for i in inputs.iter_mut() {
        let pick = ctx.rng.chance(1, 2);
        match i {
            Input::CoinSigned(c) => { if pick { let k = ctx.rng.below(p.coins.len() as u64) as usize; if !used_coin[k] { used_coin[k] = true; let (u, o, a, s) = p.coins[k]; c.utxo_id = u; c.owner = o; c.amount = a; c.asset_id = s; } } }
            Input::CoinPredicate(c) => { if pick { let k = ctx.rng.below(p.coins.len() as u64) as usize; if !used_coin[k] { used_coin[k] = true; let (u, o, a, s) = p.coins[k]; c.utxo_id = u; c.owner = o; c.amount = a; c.asset_id = s; } }
                                         if ctx.rng.chance(1, 2) { c.predicate = PredicateCode::from(ctx.rng.pick(&p.codes).clone()); } }
            Input::Contract(c) => { if pick { c.contract_id = *ctx.rng.pick(&p.contracts); } }
            Input::MessageCoinSigned(m) => { if pick { let k = ctx.rng.below(p.msgs_coin.len() as u64) as usize; if !used_mc[k] { used_mc[k] = true; let (n, s, r, a) = p.msgs_coin[k]; m.nonce = n; m.sender = s; m.recipient = r; m.amount = a; } } }
            Input::MessageCoinPredicate(m) => { if pick { let k = ctx.rng.below(p.msgs_coin.len() as u64) as usize; if !used_mc[k] { used_mc[k] = true; let (n, s, r, a) = p.msgs_coin[k]; m.nonce = n; m.sender = s; m.recipient = r; m.amount = a; } }
                                                if ctx.rng.chance(1, 2) { m.predicate = PredicateCode::from(ctx.rng.pick(&p.codes).clone()); } }
            Input::MessageDataSigned(m) => { if pick { let k = ctx.rng.below(p.msgs_data.len() as u64) as usize; if !used_md[k] { used_md[k] = true; let (n, s, r, a, d) = p.msgs_data[k].clone(); m.nonce = n; m.sender = s; m.recipient = r; m.amount = a; m.data = Bytes::new(d); } } }
            Input::MessageDataPredicate(m) => { if pick { let k = ctx.rng.below(p.msgs_data.len() as u64) as usize; if !used_md[k] { used_md[k] = true; let (n, s, r, a, d) = p.msgs_data[k].clone(); m.nonce = n; m.sender = s; m.recipient = r; m.amount = a; m.data = Bytes::new(d); } } }
        }
        let _ = &mut seen_utxo; let _ = &mut seen_nonce;
    }
    for o in outputs.iter_mut() {
        if !ctx.rng.chance(1, 2) { continue; }
        match o {
            Output::Coin { to, asset_id, .. } | Output::Change { to, asset_id, .. } | Output::Variable { to, asset_id, .. } => { *to = *ctx.rng.pick(&p.addrs); *asset_id = *ctx.rng.pick(&p.assets); }
            Output::ContractCreated { contract_id, .. } => { *contract_id = *ctx.rng.pick(&p.contracts); }
            Output::Contract(_) => {}
        }
    }
}
/// two inputs of one transaction must not name the same coin / message with different data (the context holds one record per key)
fn consistent(inputs: &[Input]) -> bool {
    let mut utxos: Vec<&UtxoId> = inputs.iter().filter(|i| i.is_coin()).filter_map(|i| i.utxo_id()).collect();
    let mut nonces: Vec<&Nonce> = inputs.iter().filter_map(|i| i.nonce()).collect();
    let (a, b) = (utxos.len(), nonces.len());
    utxos.sort(); utxos.dedup(); nonces.sort(); nonces.dedup();
    utxos.len() == a && nonces.len() == b
}

/// policies over all 64 masks (cycled so that every mask occurs), every policy type with boundary values
/// (Maturity / Expiration within u32: larger values do not survive the canonical codec, finding F1 of C01)
fn gen_policies(ctx: &mut Ctx, mask_counter: &mut u32) -> fuel_tx::policies::Policies {
    use fuel_tx::policies::{Policies, PolicyType};
    let mask = *mask_counter % 64;
    *mask_counter = mask_counter.wrapping_add(1);
    let mut pol = Policies::new();
    let types = [PolicyType::Tip, PolicyType::WitnessLimit, PolicyType::Maturity, PolicyType::MaxFee, PolicyType::Expiration, PolicyType::Owner];
    for t in types {
        if mask & t.bit().bits() != 0 {
            let v = match t {
                PolicyType::Maturity | PolicyType::Expiration => *ctx.rng.pick(&[0u64, 1, 2, u32::MAX as u64 - 1, u32::MAX as u64, 12345]),
                PolicyType::Owner => *ctx.rng.pick(&[0u64, 1, 2, 7, 255, u16::MAX as u64, u64::MAX]),
                _ => ctx.rng.word(),
            };
            pol.set(t, Some(v));
        }
    }
    ctx.count(&format!("policies.mask.{mask:02}"));
    if mask & PolicyType::Owner.bit().bits() != 0 { ctx.count("policies.owner-set"); }
    if mask & PolicyType::Expiration.bit().bits() != 0 { ctx.count("policies.expiration-set"); }
    pol
}

fn gen_tx(ctx: &mut Ctx, p: &Pools, seed: u64, mask_counter: &mut u32) -> (Transaction, &'static str) {
    use fuel_tx::field::{Inputs, Outputs, Policies as _};
    macro_rules! charge { ($t:ty, $name:expr, $wrap:path) => {{
        let (mut tx, _) = TransactionFactory::<_, $t>::from_seed(seed).next().unwrap();
        let mut ins = tx.inputs().clone(); let mut outs = tx.outputs().clone();
        remap(ctx, p, &mut ins, &mut outs);
        if consistent(&ins) { *tx.inputs_mut() = ins; *tx.outputs_mut() = outs; }
        // 3 of 4 transactions get generated policies (the factory only ever sets a few of them)
        if !ctx.rng.chance(1, 4) { *tx.policies_mut() = gen_policies(ctx, mask_counter); ctx.count(concat!("policies.kind.", $name)); }
        ($wrap(tx), $name)
    }} }
    match ctx.rng.below(11) {
        0..=3 => { let (t, n) = charge!(Script, "script", Transaction::Script);
                   if let (Transaction::Script(mut s), true) = (t.clone(), ctx.rng.chance(1, 2)) { *fuel_tx::field::Script::script_mut(&mut s) = ctx.rng.pick(&p.codes).clone().into(); (Transaction::Script(s), n) } else { (t, n) } }
        4 | 5 => charge!(Create, "create", Transaction::Create),
        6 => charge!(Upgrade, "upgrade", Transaction::Upgrade),
        7 => charge!(Upload, "upload", Transaction::Upload),
        8 | 9 => charge!(Blob, "blob", Transaction::Blob),
        _ => { let mut m = TransactionFactory::<_, Mint>::from_seed(seed).next().unwrap();
               if ctx.rng.chance(1, 2) { *fuel_tx::field::MintAssetId::mint_asset_id_mut(&mut m) = *ctx.rng.pick(&p.assets); }
               (Transaction::Mint(m), "mint") }
    }
}

fn one_tx(ctx: &mut Ctx, rc: &mut RingCtx, tx: &Transaction, kind: &str) {
    // drop cached metadata (the factory precomputes the id; the fields were changed afterwards)
    let tx = match Transaction::from_bytes(&tx.to_bytes()) { Ok(t) => t, Err(_) => { ctx.count("gen.not-canonical"); return; } };
    rc.end_tx();
    rc.store_tx_info(&tx);
    let orig = leaves(&tx);
    let line = format!("tx {}", orig.iter().map(|l| format!("{}|{}|{}", show_path(&l.path), if l.group.is_empty() { "-" } else { &l.group }, l.val)).collect::<Vec<_>>().join(" "));
    ctx.distinct(&tx.to_bytes());
    let input_desc = format!("ring={} start={} kind={kind} tx={}", rc.size, rc.start, hex(&tx.to_bytes()));
    // a failed compression leaves the context as it was (transactional)
    let before = rc.clone();
    let compressed = match ctx.guard(|| block_on(tx.compress_with(rc))) {
        Err(m) => { ctx.oracle_fail("panic-compress", &input_desc, &m); ctx.emit(&line, "panic"); return; }
        Ok(Err(e)) => { *rc = before; ctx.count(&format!("compress.err.{e}")); ctx.emit(&line, &format!("err:{e}")); return; }
        Ok(Ok(c)) => c,
    };
    let cl = leaves(&compressed);
    // postcard round trip of the compressed form (as the repository's own test does)
    match postcard::to_stdvec(&compressed).ok().and_then(|b| postcard::from_bytes::<fuel_tx::CompressedTransaction>(&b).ok()) {
        Some(back) if back == compressed => {}
        _ => ctx.oracle_fail("compressed-postcard-roundtrip", &input_desc, "postcard(from(to(compressed))) != compressed"),
    }
    let dec = match ctx.guard(|| block_on(Transaction::decompress_with(compressed.clone(), rc))) {
        Err(m) => { ctx.oracle_fail("panic-decompress", &input_desc, &m); ctx.emit(&line, &format!("c={} d=FAILED", vals(&cl))); return; }
        Ok(Err(e)) => { ctx.oracle_fail("decompress-error", &input_desc, &e); ctx.emit(&line, &format!("c={} d=FAILED", vals(&cl))); return; }
        Ok(Ok(d)) => d,
    };
    let dl = leaves(&dec);
    ctx.emit(&line, &format!("c={} d={}", vals(&cl), vals(&dl)));
    ctx.count(&format!("kind.{kind}"));
    // ---- oracle, independent of the Lean model
    // (1) identity
    for chain in [ChainId::new(0), ChainId::new(ctx.rng.word())] {
        if tx.id(&chain) != dec.id(&chain) {
            ctx.oracle_fail("id-changed-by-roundtrip", &input_desc, &format!("chain {}: {} -> {}", u64::from(chain), hex(tx.id(&chain).as_ref()), hex(dec.id(&chain).as_ref())));
        }
    }
    // (2) every field that is not deliberately skipped is unchanged; skipped ones are defaults or restored
    if orig.len() != dl.len() || orig.iter().zip(&dl).any(|(a, b)| a.path != b.path) {
        ctx.oracle_fail("shape-changed-by-roundtrip", &input_desc, "decompressed transaction has different fields");
    } else {
        for (a, b) in orig.iter().zip(&dl) {
            match skip_info(a) {
                None => if a.val != b.val { ctx.oracle_fail("unskipped-field-changed", &input_desc, &format!("{}: {} -> {}", show_path(&a.path), a.val, b.val)); },
                Some(true) => { ctx.count("leaf.restored"); if a.val != b.val { ctx.oracle_fail("restored-field-differs", &input_desc, &format!("{}: {} -> {}", show_path(&a.path), a.val, b.val)); } },
                Some(false) => { ctx.count("leaf.defaulted"); if !is_zero(&b.val) { ctx.oracle_fail("skipped-field-not-default", &input_desc, &format!("{}: {} -> {}", show_path(&a.path), a.val, b.val)); } },
            }
        }
    }
    // (3) skipped fields are not part of the compressed form: it has exactly the non-skipped leaves
    let kept = orig.iter().filter(|l| skip_info(l).is_none()).count();
    if kept != cl.len() { ctx.oracle_fail("compressed-form-field-count", &input_desc, &format!("{} non-skipped leaves, compressed form has {}", kept, cl.len())); }
}

pub fn run(ctx: &mut Ctx) {
    if std::env::var("FV_DEBUG_PANIC").is_ok() { std::panic::set_hook(Box::new(|i| eprintln!("{i}"))); }
    let default = RegistryKey::DEFAULT_VALUE.as_u32();
    // key arithmetic against the real code, at the boundary
    // every combination of boundary bytes (carry in / carry out of each of the three key bytes) and random keys:
    // next(k) is k + 1, wrapping from the last writable key to zero, and is never the reserved default key
    let bb = [0u32, 1, 0x7f, 0x80, 0xfe, 0xff];
    let mut keys: Vec<u32> = vec![];
    for a in bb { for b in bb { for c in bb { keys.push(a << 16 | b << 8 | c); } } }
    for _ in 0..ctx.n(200, 20_000) { keys.push(ctx.rng.below(default as u64) as u32); }
    for k in keys {
        if k == default { continue; }
        let kk = RegistryKey::try_from(k).unwrap();
        match ctx.guard(|| kk.next().as_u32()) {
            Ok(n) => { ctx.count("key-next"); if n != (k + 1) % default { ctx.oracle_fail("registry-key-next", &format!("key {k:#08x}"), &format!("next = {n:#08x}, expected {:#08x}", (k + 1) % default)); } }
            Err(m) => ctx.oracle_fail("registry-key-next", &format!("key {k:#08x}"), &format!("panic: {m}")),
        }
    }
    // short histories over the full ring whose cursor starts a few allocations before a byte carry
    // (each key byte at its maximum, one below it, or zero)
    let mut cseed = ctx.seed.wrapping_mul(7_000_003);
    let mut cmask: u32 = (ctx.seed as u32).wrapping_mul(37) % 1_000_000;
    for a in [0xffu32, 0xfe, 0] { for b in [0xffu32, 0xfe, 0] { for c in [0xffu32, 0xfe, 0] {
        let start = a << 16 | b << 8 | c;
        if start == default { continue; }
        let mut rc = RingCtx::new(default, start);
        ctx.emit(&format!("new {default} {start}"), "ok");
        ctx.count("carry-start");
        let p = pools(ctx);
        for _ in 0..ctx.n(2, 6) {
            cseed = cseed.wrapping_add(1);
            let (tx, kind) = gen_tx(ctx, &p, cseed, &mut cmask);
            one_tx(ctx, &mut rc, &tx, kind);
        }
    } } }
    let nseq = ctx.n(24, 400);
    let mut seed = ctx.seed.wrapping_mul(1_000_003);
    let mut mask_counter: u32 = ctx.seed as u32;
    for s in 0..nseq {
        let (size, start) = match s % 6 { 5 => (1, 0), 0 => (2, 0), 1 => (3, 1), 2 => (6, 0), 3 => (default, default - 1 - ctx.rng.below(6) as u32), _ => (default, 0) };
        let mut rc = RingCtx::new(size, start);
        ctx.emit(&format!("new {size} {start}"), "ok");
        let p = pools(ctx);
        let len = 4 + ctx.rng.below(8);
        let mut history: Vec<(Transaction, &'static str)> = vec![];
        for _ in 0..len {
            seed = seed.wrapping_add(1);
            // sometimes the very same transaction again (all its keys must be found, nothing new allocated)
            let (tx, kind) = if !history.is_empty() && ctx.rng.chance(1, 5) { ctx.count("repeat"); ctx.rng.pick(&history).clone() } else { gen_tx(ctx, &p, seed, &mut mask_counter) };
            history.push((tx.clone(), kind));
            one_tx(ctx, &mut rc, &tx, kind);
        }
        ctx.count_n("registry.evictions", rc.evictions);
        ctx.count_n("registry.value-reuse", rc.reuses);
        ctx.count_n("registry.wrap-around", rc.wraps);
    }
}
