//! C09 — binary Merkle roots equal the RFC 6962 tree hash.
//! Implementations called (the real crates): `MerkleRootCalculator::{push, root}`,
//! `binary::in_memory::MerkleTree`, the storage-backed `binary::MerkleTree` over a `StorageMap`,
//! `MerkleRootCalculator::new_from_existing_leaves`, `fuel_vm::crypto::ephemeral_merkle_root`,
//! `ReceiptsCtx::root` and `Interpreter::compute_receipts_root`.
//! Oracle: every one of these roots equals `gen::bmt_ref::mth` (RFC 6962 §2.1 over `sha2`, independent
//! of fuel-merkle). The Lean driver answers the same request with the model's roots and its own `mth`.
use crate::{ctx::Ctx, gen::bmt_ref as r, util::hex};
use fuel_merkle::{
    binary::{self, in_memory, leaf_sum, root_calculator::MerkleRootCalculator},
    common::StorageMap,
};
use fuel_tx::{PanicInstruction, Receipt, ScriptExecutionResult};
use fuel_types::{canonical::Serialize, Address, AssetId, Bytes32, ContractId, Nonce, SubAssetId};
use fuel_vm::{interpreter::ReceiptsCtx, prelude::{Interpreter, MemoryInstance, MemoryStorage, Script}};

fn roots(ctx: &mut Ctx, leaves: &[Vec<u8>], req: &str) {
    let n = leaves.len();
    let want = r::mth(leaves);
    let res = ctx.guard(|| {
        let mut calc = MerkleRootCalculator::new();
        for l in leaves { calc.push(l); }
        let calc_root = calc.root();
        let mut mem = in_memory::MerkleTree::new();
        for l in leaves { mem.push(l); }
        let mem_root = mem.root();
        let mut storage = StorageMap::<in_memory::NodesTable>::new();
        let (stor_root, stor_count) = {
            let mut tree = binary::MerkleTree::<in_memory::NodesTable, _>::new(&mut storage);
            for l in leaves { tree.push(l).expect("infallible storage"); }
            (tree.root(), tree.leaves_count())
        };
        let from_hashes = MerkleRootCalculator::new_from_existing_leaves(leaves.iter().map(|l| leaf_sum(l))).root();
        let eph: [u8; 32] = fuel_vm::crypto::ephemeral_merkle_root(leaves.iter()).into();
        let it = MerkleRootCalculator::new().root_from_iterator(leaves.iter());
        (calc_root, mem_root, stor_root, stor_count, from_hashes, eph, it)
    });
    match res {
        Err(p) => {
            ctx.oracle_fail("panic-root", req, &p);
            ctx.emit(req, "panic");
        }
        Ok((calc, mem, stor, count, fh, eph, it)) => {
            for (name, got) in [("calculator", calc), ("in-memory", mem), ("storage-tree", stor), ("from-leaf-hashes", fh), ("ephemeral", eph), ("root-from-iterator", it)] {
                if got != want {
                    ctx.oracle_fail(&format!("root-differs-from-rfc6962-{name}"), req, &format!("n={n} got {} want {}", hex(&got), hex(&want)));
                }
            }
            if count != n as u64 { ctx.oracle_fail("leaves-count-differs", req, &format!("n={n} leaves_count()={count}")); }
            ctx.emit(req, &format!("{} {} {} {} {} {}", hex(&calc), hex(&mem), hex(&stor), hex(&fh), hex(&eph), hex(&want)));
        }
    }
    ctx.count(match n { 0 => "n=0", 1 => "n=1", _ if n.is_power_of_two() => "n=2^k", _ if (n + 1).is_power_of_two() => "n=2^k-1", _ if (n - 1).is_power_of_two() => "n=2^k+1", _ => "n=other" });
    if leaves.iter().any(|l| l.is_empty()) { ctx.count("has-empty-leaf"); }
    if n >= 2 { ctx.distinct(&want); }
}

fn explicit(ctx: &mut Ctx, leaves: Vec<Vec<u8>>) {
    let req = format!("L {}", leaves.iter().map(|l| hex(l)).collect::<Vec<_>>().join(" "));
    roots(ctx, &leaves, req.trim_end());
}

fn seq(ctx: &mut Ctx, n: u64, len: usize, mul: u64, add: u64) {
    let leaves: Vec<Vec<u8>> = (0..n).map(|i| {
        let v = i.wrapping_mul(mul).wrapping_add(add);
        let be = v.to_be_bytes();
        let mut out = vec![0u8; len];
        for j in 0..len { if j < 8 { out[len - 1 - j] = be[7 - j]; } }
        out
    }).collect();
    roots(ctx, &leaves, &format!("S {n} {len} {mul} {add}"));
}

fn rand_leaf(ctx: &mut Ctx) -> Vec<u8> {
    let len = match ctx.rng.below(10) { 0 => 0, 1 => 1, 2 => 32, 3 => 31, 4 => 33, 5 => 64, _ => ctx.rng.below(80) as usize };
    ctx.rng.bytes(len)
}

fn rand_receipt(ctx: &mut Ctx) -> Receipt {
    let w = |c: &mut Ctx| c.rng.word();
    let cid = |c: &mut Ctx| if c.rng.chance(1, 4) { ContractId::zeroed() } else { ContractId::from(c.rng.arr32()) };
    let data = |c: &mut Ctx| { let n = *c.rng.pick(&[0usize, 1, 7, 8, 9, 31, 32, 33, 100]); c.rng.bytes(n) };
    match ctx.rng.below(13) {
        0 => Receipt::call(cid(ctx), cid(ctx), w(ctx), AssetId::from(ctx.rng.arr32()), w(ctx), w(ctx), w(ctx), w(ctx), w(ctx)),
        1 => Receipt::ret(cid(ctx), w(ctx), w(ctx), w(ctx)),
        2 => { let d = data(ctx); Receipt::return_data(cid(ctx), w(ctx), w(ctx), w(ctx), d) }
        3 => Receipt::panic(cid(ctx), PanicInstruction::error(fuel_asm::PanicReason::OutOfGas, ctx.rng.next() as u32), w(ctx), w(ctx)),
        4 => Receipt::revert(cid(ctx), w(ctx), w(ctx), w(ctx)),
        5 => Receipt::log(cid(ctx), w(ctx), w(ctx), w(ctx), w(ctx), w(ctx), w(ctx)),
        6 => { let d = data(ctx); Receipt::log_data(cid(ctx), w(ctx), w(ctx), w(ctx), w(ctx), w(ctx), d) }
        7 => Receipt::transfer(cid(ctx), cid(ctx), w(ctx), AssetId::from(ctx.rng.arr32()), w(ctx), w(ctx)),
        8 => Receipt::transfer_out(cid(ctx), Address::from(ctx.rng.arr32()), w(ctx), AssetId::from(ctx.rng.arr32()), w(ctx), w(ctx)),
        9 => Receipt::script_result(ScriptExecutionResult::Success, w(ctx)),
        10 => { let d = data(ctx); Receipt::message_out_with_len(Address::from(ctx.rng.arr32()), Address::from(ctx.rng.arr32()), w(ctx), Nonce::from(ctx.rng.arr32()), d.len() as u64, Bytes32::from(ctx.rng.arr32()), Some(d)) }
        11 => Receipt::mint(SubAssetId::from(ctx.rng.arr32()), cid(ctx), w(ctx), w(ctx), w(ctx)),
        _ => Receipt::burn(SubAssetId::from(ctx.rng.arr32()), cid(ctx), w(ctx), w(ctx), w(ctx)),
    }
}

fn receipts(ctx: &mut Ctx, n: usize) {
    let rs: Vec<Receipt> = (0..n).map(|_| rand_receipt(ctx)).collect();
    let enc: Vec<Vec<u8>> = rs.iter().map(|x| x.to_bytes()).collect();
    let req = format!("R {}", enc.iter().map(|l| hex(l)).collect::<Vec<_>>().join(" "));
    let req = req.trim_end().to_string();
    let want = r::mth(&enc);
    let res = ctx.guard(|| {
        let mut rc = ReceiptsCtx::default();
        for x in &rs { rc.push(x.clone()).expect("not full"); }
        let a: [u8; 32] = rc.root().into();
        let mut vm = Interpreter::<MemoryInstance, MemoryStorage, Script>::with_memory_storage();
        for x in &rs { vm.receipts_mut().push(x.clone()).expect("not full"); }
        let b: [u8; 32] = vm.compute_receipts_root().into();
        // mutation through the lock recalculates the root from scratch
        { let mut l = vm.receipts_mut().lock(); l.receipts_mut().reverse(); }
        { let mut l = vm.receipts_mut().lock(); l.receipts_mut().reverse(); }
        let c: [u8; 32] = vm.compute_receipts_root().into();
        (a, b, c)
    });
    match res {
        Err(p) => { ctx.oracle_fail("panic-receipts-root", &req, &p); ctx.emit(&req, "panic"); }
        Ok((a, b, c)) => {
            if a != want { ctx.oracle_fail("receipts-root-differs-from-rfc6962", &req, &format!("ReceiptsCtx::root {}", hex(&a))); }
            if b != want { ctx.oracle_fail("receipts-root-differs-from-rfc6962-interpreter", &req, &format!("compute_receipts_root {}", hex(&b))); }
            if c != want { ctx.oracle_fail("receipts-root-differs-from-rfc6962-recalculated", &req, &format!("after lock/unlock {}", hex(&c))); }
            ctx.emit(&req, &format!("{} {}", hex(&b), hex(&want)));
        }
    }
    ctx.count("receipts");
    for x in &rs { ctx.count(&format!("receipt-variant-{}", x.to_bytes()[7])); }
}

pub fn run(ctx: &mut Ctx) {
    // constants regenerated into the model: prefixes and the empty root literal
    {
        let es: [u8; 32] = fuel_merkle::binary::in_memory::MerkleTree::new().root();
        let sha_empty = r::sha(&[]);
        if es != sha_empty { ctx.oracle_fail("empty-root-not-sha256-of-empty", "K", &hex(&es)); }
        ctx.emit("K", &format!("0 1 {} {}", hex(&es), hex(&sha_empty)));
    }
    // regression corpus: boundary shapes
    explicit(ctx, vec![]);
    explicit(ctx, vec![vec![]]);
    explicit(ctx, vec![vec![], vec![]]);
    explicit(ctx, vec![vec![0], vec![], vec![1], vec![], vec![2]]);
    explicit(ctx, vec![vec![0u8; 32], vec![1u8; 32]]);
    // a leaf that looks like an interior node preimage (0x01 ‖ 64 bytes): domain separation
    explicit(ctx, vec![{ let mut v = vec![1u8]; v.extend_from_slice(&[7u8; 64]); v }, vec![7u8; 32]]);
    // dense counts, random leaf contents incl. empty leaves
    let dense = ctx.n(300, 1200) as usize;
    for n in 0..=dense {
        let leaves: Vec<Vec<u8>> = (0..n).map(|_| rand_leaf(ctx)).collect();
        explicit(ctx, leaves);
    }
    // sparse: 2^k - 1, 2^k, 2^k + 1 and neighbours of other shapes
    let maxk = if ctx.thorough() { 17 } else { 13 };
    for k in 8..=maxk {
        for d in [-1i64, 0, 1] {
            let n = ((1i64 << k) + d) as u64;
            let len = *ctx.rng.pick(&[0usize, 1, 8, 32]);
            let (mul, add) = (ctx.rng.next() | 1, ctx.rng.next());
            seq(ctx, n, len, mul, add);
        }
        let n = (1u64 << k) + ctx.rng.below(1 << k);
        seq(ctx, n, 8, 1, 0);
    }
    // random mid-size counts
    for _ in 0..ctx.n(20, 200) {
        let n = ctx.rng.range(300, if ctx.thorough() { 20_000 } else { 3_000 });
        let len = ctx.rng.below(40) as usize;
        let (mul, add) = (ctx.rng.next(), ctx.rng.next());
        seq(ctx, n, len, mul, add);
    }
    // receipts roots
    for n in 0..=ctx.n(40, 300) as usize { receipts(ctx, n); }
}
