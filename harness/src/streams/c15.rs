//! C15 — contract and predicate identifiers follow the specification.
//! Implementations called (the REAL crates): `Contract::{root_from_code, root, initial_state_root,
//! default_state_root, id, EMPTY_CONTRACT_ID}`, `Input::{predicate_owner, is_predicate_owner_valid}`,
//! `FormatValidityChecks::check_signatures` (→ `InputPredicateOwner`), `CheckPredicates::check_predicates`
//! (→ `PredicateVerificationFailed::InvalidOwner`), `CreateMetadata::compute`, `Cacheable::precompute`,
//! `IntoChecked::into_checked`, `Transactor::deploy` and `Transactor::<_, _, Create>::transact` (both reach
//! `deploy_inner`), `MemoryStorage` read-back, the `CROO` instruction both through `Transactor::transact` of a
//! script (RETD receipt) and single-stepped with `Interpreter::instruction` (32 bytes read from VM memory at `$hp`).
//! ORACLE (independent of fuel-*; `sha2` only, through `gen::bmt_ref` = RFC 6962 and `gen::smt::ref_root` = the
//! compact sparse Merkle root): code root = MTH of the 16 KiB chunks with the last partial chunk zero-padded to a
//! multiple of 8; state root = compact sparse root of {sha256(key) -> value}; id = sha256("FUEL"‖salt‖root‖sroot);
//! owner = sha256("FUEL"‖root); cached metadata = recomputed values; deployed code/slots are the transaction's;
//! CROO = oracle root of the stored code.
use crate::{ctx::Ctx, gen::{bmt_ref as br, smt}, util::hex};
use fuel_asm::{op, GTFArgs, Instruction, PanicReason, RegId};
use fuel_tx::{
    field::*, field::Salt as SaltField, Executable, policies::Policies, Cacheable, ConsensusParameters, Contract, ContractParameters, Create, CreateMetadata,
    Finalizable, FormatValidityChecks, Input, Output, PredicateParameters, Receipt, Script, ScriptParameters,
    Signable, StorageSlot, Transaction, TransactionBuilder, TxParameters, TxPointer, UtxoId, ValidityError, Witness,
};
use fuel_crypto::SecretKey;
use fuel_types::{Address, AssetId, Bytes32, ContractId, Salt};
use fuel_vm::{
    checked_transaction::{CheckError, CheckPredicateParams, CheckPredicates, EstimatePredicates, IntoChecked},
    error::{InterpreterError, PredicateVerificationFailed},
    interpreter::{InterpreterParams, NotSupportedEcal},
    prelude::{Interpreter, MemoryInstance, MemoryStorage, Transactor},
    storage::{ContractsRawCode, ContractsState, ContractsStateKey, InterpreterStorage},
};
use fuel_storage::{StorageInspect, StorageMutate};
use std::collections::BTreeMap;

type B32 = [u8; 32];
const LEAF: usize = 16 * 1024;

// ---------------------------------------------------------------- the oracle (sha2 only)
fn ref_leaves(code: &[u8]) -> Vec<Vec<u8>> {
    let mut leaves = vec![];
    let mut i = 0;
    while i < code.len() {
        let end = (i + LEAF).min(code.len());
        let mut l = code[i..end].to_vec();
        if l.len() < LEAF { while l.len() % 8 != 0 { l.push(0); } }
        leaves.push(l);
        i = end;
    }
    leaves
}
fn ref_code_root(code: &[u8]) -> B32 { br::mth(&ref_leaves(code)) }
fn ref_state_root(slots: &[(B32, B32)]) -> B32 {
    let mut m: BTreeMap<B32, Vec<u8>> = BTreeMap::new();
    for (k, v) in slots { m.insert(br::sha(&[k]), v.to_vec()); }
    smt::ref_root(&m)
}
fn ref_id(salt: &B32, root: &B32, sroot: &B32) -> B32 { br::sha(&[b"FUEL", salt, root, sroot]) }
fn ref_owner(code: &[u8]) -> B32 { br::sha(&[b"FUEL", &ref_code_root(code)]) }

// ---------------------------------------------------------------- byte-string specs shared with the driver
#[derive(Clone)]
enum Spec { G(usize, u64, u64), X(Vec<u8>) }
impl Spec {
    fn bytes(&self) -> Vec<u8> {
        match self {
            Spec::G(len, mul, add) => (0..*len as u64).map(|i| (i.wrapping_mul(*mul).wrapping_add(*add) >> 24) as u8).collect(),
            Spec::X(b) => b.clone(),
        }
    }
    fn arg(&self) -> String {
        match self { Spec::G(l, m, a) => format!("G:{l}:{m}:{a}"), Spec::X(b) => format!("X:{}", hex(b)) }
    }
}
fn slots_arg(slots: &[(B32, B32)]) -> String {
    if slots.is_empty() { return "-".into(); }
    slots.iter().map(|(k, v)| format!("{}:{}", hex(k), hex(v))).collect::<Vec<_>>().join(",")
}
fn wits_arg(ws: &[Spec]) -> String {
    if ws.is_empty() { return "-".into(); }
    ws.iter().map(|w| w.arg()).collect::<Vec<_>>().join(";")
}
fn to_slots(slots: &[(B32, B32)]) -> Vec<StorageSlot> {
    slots.iter().map(|(k, v)| StorageSlot::new(Bytes32::new(*k), Bytes32::new(*v))).collect()
}

fn len_class(n: usize) -> &'static str {
    if n == 0 { "len=0" }
    else if n % LEAF == 0 { "len%16384=0" }
    else if n % 8 == 0 { "len%8=0" }
    else { "len-padded" }
}

// ---------------------------------------------------------------- K
fn consts(ctx: &mut Ctx) {
    let r = ctx.guard(|| {
        let root: B32 = Contract::root_from_code([0u8; 0]).into();
        let sroot: B32 = Contract::default_state_root().into();
        let id: B32 = Contract::id(&Salt::zeroed(), &Bytes32::new(root), &Bytes32::new(sroot)).into();
        let empty: B32 = Contract::EMPTY_CONTRACT_ID.into();
        (root, sroot, id, empty)
    });
    match r {
        Err(p) => { ctx.oracle_fail("panic-constants", "K", &p); ctx.emit("K", "panic"); }
        Ok((root, sroot, id, empty)) => {
            if ContractId::SEED != *b"FUEL" { ctx.oracle_fail("seed-not-FUEL", "K", &hex(&ContractId::SEED)); }
            if root != br::sha(&[]) { ctx.oracle_fail("empty-code-root-not-sha256-of-empty", "K", &hex(&root)); }
            if sroot != [0u8; 32] { ctx.oracle_fail("default-state-root-not-zero", "K", &hex(&sroot)); }
            if id != ref_id(&[0; 32], &br::sha(&[]), &[0; 32]) { ctx.oracle_fail("contract-id-differs-from-formula", "K", &hex(&id)); }
            if empty != id { ctx.oracle_fail("EMPTY_CONTRACT_ID-differs", "K", &format!("const {} computed {}", hex(&empty), hex(&id))); }
            ctx.emit("K", &format!("{} {} {} {} {}", hex(&ContractId::SEED), hex(&root), hex(&sroot), hex(&br::sha(&[])), hex(&empty)));
        }
    }
}

// ---------------------------------------------------------------- code root / predicate owner
fn code_case(ctx: &mut Ctx, spec: Spec) {
    let code = spec.bytes();
    let req = format!("code {}", spec.arg());
    let want = ref_code_root(&code);
    let want_owner = ref_owner(&code);
    let r = ctx.guard(|| {
        let a: B32 = Contract::root_from_code(&code).into();
        let b: B32 = Contract::from(code.clone()).root().into();
        let o: B32 = Input::predicate_owner(&code).into();
        (a, b, o)
    });
    match r {
        Err(p) => { ctx.oracle_fail("panic-root_from_code", &req, &p); ctx.emit(&req, "panic"); }
        Ok((a, b, o)) => {
            if a != want { ctx.oracle_fail(&format!("code-root-differs-{}", len_class(code.len())), &req, &format!("len={} got {} want {}", code.len(), hex(&a), hex(&want))); }
            if b != want { ctx.oracle_fail("contract-root-differs", &req, &format!("len={} Contract::root {} want {}", code.len(), hex(&b), hex(&want))); }
            if o != want_owner { ctx.oracle_fail("predicate-owner-differs-from-formula", &req, &format!("len={} got {} want {}", code.len(), hex(&o), hex(&want_owner))); }
            ctx.emit(&req, &format!("{} {} {} {}", hex(&a), hex(&b), hex(&o), hex(&want)));
        }
    }
    ctx.count(len_class(code.len()));
    ctx.count(&format!("leaves={}", match ref_leaves(&code).len() { 0 => "0".to_string(), 1 => "1".into(), 2 => "2".into(), n if n.is_power_of_two() => "2^k".into(), _ => "other".into() }));
    ctx.count(&format!("len-mod-8={}", code.len() % 8));
    if code.len() > 8 { ctx.distinct(&want); }
}

// ---------------------------------------------------------------- state root
fn slots_case(ctx: &mut Ctx, slots: &[(B32, B32)]) {
    let req = format!("slots {}", slots_arg(slots));
    let want = ref_state_root(slots);
    let ss = to_slots(slots);
    match ctx.guard(|| { let r: B32 = Contract::initial_state_root(ss.iter()).into(); r }) {
        Err(p) => { ctx.oracle_fail("panic-initial_state_root", &req, &p); ctx.emit(&req, "panic"); }
        Ok(r) => {
            if r != want { ctx.oracle_fail("state-root-differs-from-compact-root", &req, &format!("n={} got {} want {}", slots.len(), hex(&r), hex(&want))); }
            ctx.emit(&req, &format!("{} {}", hex(&r), hex(&want)));
        }
    }
    ctx.count(match slots.len() { 0 => "slots=0", 1 => "slots=1", 2..=8 => "slots=2..8", _ => "slots>8" });
    let mut keys: Vec<B32> = slots.iter().map(|s| s.0).collect();
    keys.sort(); keys.dedup();
    if keys.len() < slots.len() { ctx.count("slots-duplicate-key"); }
    let hk: Vec<B32> = keys.iter().map(|k| br::sha(&[k])).collect();
    let mut deepest = 0;
    for i in 0..hk.len() { for j in 0..i { deepest = deepest.max(smt::common_prefix(&hk[i], &hk[j])); } }
    ctx.count(&format!("deepest-common-hashed-prefix={}", match deepest { 0..=3 => "0..3", 4..=7 => "4..7", 8..=11 => "8..11", 12..=15 => "12..15", _ => ">=16" }));
    if slots.len() >= 2 { ctx.distinct(&want); }
}

/// raw keys: clustered (shared prefixes / last-bit neighbours / all-zero / all-one) AND keys whose SHA-256
/// shares `t` leading bits with the hash of an anchor (found by search), which is what makes the tree deep
fn slot_keys(ctx: &mut Ctx, n: usize, max_bits: usize) -> Vec<B32> {
    let mut pool = smt::key_pool(&mut ctx.rng, (n / 2).max(1));
    let anchor = br::sha(&[&pool[0]]);
    let mut ctr: u64 = ctx.rng.next();
    while pool.len() < n {
        let t = 1 + ctx.rng.below(max_bits as u64) as usize;
        // a key whose hash shares at least t bits with the anchor's hash
        let mut k = [0u8; 32];
        loop {
            ctr = ctr.wrapping_add(1);
            k[24..].copy_from_slice(&ctr.to_be_bytes());
            let h = br::sha(&[&k]);
            if smt::common_prefix(&h, &anchor) >= t { break; }
        }
        if !pool.contains(&k) { pool.push(k); }
    }
    pool
}
fn slot_value(ctx: &mut Ctx) -> B32 {
    match ctx.rng.below(5) { 0 => [0u8; 32], 1 => [0xff; 32], 2 => { let mut v = [0u8; 32]; v[31] = 1; v } _ => ctx.rng.arr32() }
}
fn slot_set(ctx: &mut Ctx, n: usize, sorted_unique: bool) -> Vec<(B32, B32)> {
    let bits = if ctx.thorough() { 18 } else { 12 };
    let keys = slot_keys(ctx, n.max(1), bits);
    let mut s: Vec<(B32, B32)> = (0..n).map(|i| (keys[i % keys.len()], slot_value(ctx))).collect();
    if sorted_unique { s.sort_by(|a, b| a.0.cmp(&b.0)); s.dedup_by(|a, b| a.0 == b.0); }
    else {
        // duplicates (later wins) and arbitrary order
        if n >= 2 && ctx.rng.chance(1, 2) { let i = ctx.rng.below(n as u64) as usize; let j = ctx.rng.below(n as u64) as usize; s[i].0 = s[j].0; }
        for i in (1..s.len()).rev() { let j = ctx.rng.below(i as u64 + 1) as usize; s.swap(i, j); }
    }
    s
}

// ---------------------------------------------------------------- Contract::id
fn id_case(ctx: &mut Ctx, salt: B32, root: B32, sroot: B32) {
    let req = format!("id {} {} {}", hex(&salt), hex(&root), hex(&sroot));
    let want = ref_id(&salt, &root, &sroot);
    match ctx.guard(|| { let r: B32 = Contract::id(&Salt::new(salt), &Bytes32::new(root), &Bytes32::new(sroot)).into(); r }) {
        Err(p) => { ctx.oracle_fail("panic-contract-id", &req, &p); ctx.emit(&req, "panic"); }
        Ok(r) => {
            if r != want { ctx.oracle_fail("contract-id-differs-from-formula", &req, &format!("got {} want {}", hex(&r), hex(&want))); }
            ctx.emit(&req, &format!("{} {}", hex(&r), hex(&want)));
        }
    }
    ctx.count("id");
    ctx.distinct(&want);
}

// ---------------------------------------------------------------- predicate owner check (three call sites)
fn params() -> ConsensusParameters {
    ConsensusParameters::new(
        TxParameters::DEFAULT.with_max_gas_per_tx(u64::MAX).with_max_size(u64::MAX),
        PredicateParameters::DEFAULT.with_max_predicate_length(u64::MAX).with_max_gas_per_predicate(1_000_000_000),
        ScriptParameters::DEFAULT,
        ContractParameters::DEFAULT.with_contract_max_size(u64::MAX).with_max_storage_slots(u64::MAX),
        Default::default(),
        Default::default(),
        Default::default(),
        AssetId::zeroed(),
        u64::MAX,
        u64::MAX,
        Address::zeroed(),
    )
}

fn powner_case(ctx: &mut Ctx, tail: Spec, owner_kind: u64) {
    // a predicate that returns 1 immediately; the tail is never executed but is part of the code root
    let mut pred: Vec<u8> = op::ret(RegId::ONE).to_bytes().to_vec();
    pred.extend(tail.bytes());
    let spec = Spec::X(pred.clone());
    let good = ref_owner(&pred);
    let owner: B32 = match owner_kind {
        0 => good,
        1 => { let mut o = good; o[31] ^= 1; o }
        2 => { let mut o = good; o[0] ^= 0x80; o }
        3 => ref_code_root(&pred),                    // the code root itself (seed forgotten)
        4 => br::sha(&[b"FUEL", &pred]),              // hash of the code instead of its root
        _ => ctx.rng.arr32(),
    };
    let req = format!("powner {} {}", hex(&owner), spec.arg());
    let cp = params();
    let r = ctx.guard(|| {
        let valid = Input::is_predicate_owner_valid(&Address::new(owner), &pred);
        let mut b = TransactionBuilder::script(vec![], vec![]);
        b.with_params(cp.clone());
        b.add_input(Input::coin_predicate(UtxoId::new(Bytes32::new([7; 32]), 0), Address::new(owner), 1000, AssetId::zeroed(), TxPointer::default(), 0, pred.clone(), vec![]));
        let mut tx: Script = b.finalize();
        let sig = match tx.check_signatures(&cp.chain_id()) {
            Ok(()) => "ok".to_string(),
            Err(ValidityError::InputPredicateOwner { index: 0 }) => "InputPredicateOwner".to_string(),
            Err(e) => format!("other:{e:?}"),
        };
        let cpp = CheckPredicateParams::from(&cp);
        let st = MemoryStorage::default();
        let est = tx.estimate_predicates(&cpp, MemoryInstance::new(), &st);
        let vm = match est {
            Err(e) => format!("estimate-failed:{e:?}"),
            Ok(()) => match tx.clone().into_checked_basic(Default::default(), &cp) {
                Err(e) => format!("basic-failed:{e:?}"),
                Ok(ch) => match ch.check_predicates(&cpp, MemoryInstance::new(), &st, NotSupportedEcal) {
                    Ok(_) => "ok".to_string(),
                    Err(CheckError::PredicateVerificationFailed(PredicateVerificationFailed::InvalidOwner { index: 0 })) => "InvalidOwner".to_string(),
                    Err(e) => format!("other:{e:?}"),
                },
            },
        };
        (valid, sig, vm)
    });
    match r {
        Err(p) => { ctx.oracle_fail("panic-predicate-owner-check", &req, &p); ctx.emit(&req, "panic"); }
        Ok((valid, sig, vm)) => {
            let want = owner == good;
            if valid != want { ctx.oracle_fail("is_predicate_owner_valid-differs-from-formula", &req, &format!("got {valid} want {want}")); }
            if sig != if want { "ok" } else { "InputPredicateOwner" } { ctx.oracle_fail("check_signatures-owner-check-differs", &req, &sig); }
            if vm != if want { "ok" } else { "InvalidOwner" } { ctx.oracle_fail("check_predicates-owner-check-differs", &req, &vm); }
            ctx.emit(&req, &format!("{valid} {sig} {vm}"));
        }
    }
    ctx.count(if owner == good { "powner-valid" } else { "powner-invalid" });
    ctx.distinct(&owner);
}

// ---------------------------------------------------------------- CreateMetadata::compute / precompute
struct CreateReq { widx: u16, salt: B32, slots: Vec<(B32, B32)>, wits: Vec<Spec> }
impl CreateReq {
    fn args(&self) -> String { format!("{} {} {} {}", self.widx, hex(&self.salt), slots_arg(&self.slots), wits_arg(&self.wits)) }
    fn tx(&self) -> Create {
        Transaction::create(self.widx, Policies::new().with_max_fee(0), Salt::new(self.salt), to_slots(&self.slots), vec![], vec![],
            self.wits.iter().map(|w| Witness::from(w.bytes())).collect())
    }
    fn code(&self) -> Option<Vec<u8>> { self.wits.get(self.widx as usize).map(|w| w.bytes()) }
    /// the oracle's (id, root, sroot)
    fn want(&self) -> Option<(B32, B32, B32)> {
        let code = self.code()?;
        let root = ref_code_root(&code);
        let sroot = ref_state_root(&self.slots);
        Some((ref_id(&self.salt, &root, &sroot), root, sroot))
    }
}
fn fmt_meta(m: &Result<CreateMetadata, ValidityError>) -> String {
    match m {
        Ok(m) => format!("{},{},{}", hex(m.contract_id.as_ref()), hex(m.contract_root.as_ref()), hex(m.state_root.as_ref())),
        Err(ValidityError::TransactionCreateBytecodeWitnessIndex) => "err:TransactionCreateBytecodeWitnessIndex".into(),
        Err(e) => format!("err:other:{e:?}"),
    }
}
fn meta_case(ctx: &mut Ctx, c: &CreateReq) {
    let req = format!("meta {}", c.args());
    let want = c.want();
    let r = ctx.guard(|| {
        let mut tx = c.tx();
        let fresh = CreateMetadata::compute(&tx);
        let pre = tx.precompute(&Default::default());
        let cached = match pre {
            Ok(()) => match tx.metadata() { Some(m) => fmt_meta(&Ok(m.body.clone())), None => "missing".into() },
            Err(e) => fmt_meta(&Err(e)),
        };
        (fresh, cached)
    });
    match r {
        Err(p) => { ctx.oracle_fail("panic-create-metadata", &req, &p); ctx.emit(&req, "panic"); }
        Ok((fresh, cached)) => {
            let f = fmt_meta(&fresh);
            let w = match want { Some((id, root, sroot)) => format!("{},{},{}", hex(&id), hex(&root), hex(&sroot)), None => "err:TransactionCreateBytecodeWitnessIndex".into() };
            if f != w { ctx.oracle_fail("create-metadata-differs-from-formula", &req, &format!("got {f} want {w}")); }
            if cached != f { ctx.oracle_fail("cached-metadata-differs-from-recomputed", &req, &format!("cached {cached} fresh {f}")); }
            ctx.emit(&req, &format!("{f} {cached}"));
        }
    }
    ctx.count(if want.is_some() { "meta-ok" } else { "meta-bad-witness-index" });
}

// ---------------------------------------------------------------- deployment, storage read-back, CROO
struct World { storage: MemoryStorage, cp: ConsensusParameters, deployed: Vec<(B32, Vec<u8>, Vec<(B32, B32)>)> }
impl World {
    fn new() -> Self { World { storage: MemoryStorage::default(), cp: params(), deployed: vec![] } }
    fn ip(&self) -> InterpreterParams { InterpreterParams::new(0, &self.cp) }
}

fn err_name<E: std::fmt::Debug>(e: &InterpreterError<E>) -> String {
    match e {
        InterpreterError::Panic(r) => format!("{r:?}"),
        InterpreterError::PanicInstruction(pi) => format!("{:?}", pi.reason()),
        InterpreterError::CheckError(CheckError::Validity(ValidityError::TransactionCreateBytecodeWitnessIndex)) => "TransactionCreateBytecodeWitnessIndex".into(),
        e => format!("other:{e:?}"),
    }
}

/// variant: 0 plain (builder, Transactor::deploy), 1 stale salt, 2 stale slots, 3 stale bytecode witness,
/// 4 Transactor::<Create>::transact
fn deploy_case(ctx: &mut Ctx, w: &mut World, c: &CreateReq, variant: u64) {
    let vname = ["plain", "stale-salt", "stale-slots", "stale-code", "transact"][variant as usize];
    let req = format!("deploy {vname} {}", c.args());
    let want = c.want();
    let cp = w.cp.clone();
    let ipar = w.ip();
    let storage = w.storage.clone();
    let r = ctx.guard(|| -> Result<(MemoryStorage, B32), String> {
        // the transaction: witnesses as requested, one fee coin (its signature witness is appended by `finalize`),
        // the ContractCreated output with the values `CreateMetadata::compute` gives for the FINAL fields
        let secret = SecretKey::try_from(&[0x11u8; 32][..]).expect("valid secret key");
        let mut tx: Create = c.tx();
        let sig_idx = tx.witnesses().len() as u16;
        tx.witnesses_mut().push(Witness::default());
        tx.add_unsigned_coin_input(UtxoId::new(Bytes32::new([3; 32]), 0), &secret.public_key(), u32::MAX as u64, AssetId::zeroed(), TxPointer::default(), sig_idx);
        if let Ok(m) = CreateMetadata::compute(&tx) {
            tx.outputs_mut().push(Output::contract_created(m.contract_id, m.state_root));
        }
        tx.sign_inputs(&secret, &cp.chain_id());
        if variant >= 1 && variant <= 3 {
            // make the cached metadata STALE: cache it for a different salt / slot list / bytecode, then put the
            // final field back without precomputing. `into_checked` must recompute it.
            let keep_w = tx.witnesses().clone();
            match variant {
                1 => { *tx.salt_mut() = Salt::new([0xAB; 32]); }
                2 => { tx.storage_slots_mut().as_mut().push(StorageSlot::new(Bytes32::new([0xFE; 32]), Bytes32::new([1; 32]))); }
                _ => { if let Some(wt) = tx.witnesses_mut().get_mut(c.widx as usize) { let mut x = wt.as_ref().to_vec(); x.push(0x5A); *wt = Witness::from(x); } }
            }
            let _ = tx.precompute(&cp.chain_id());
            *tx.salt_mut() = Salt::new(c.salt);
            *tx.storage_slots_mut().as_mut() = to_slots(&c.slots);
            *tx.witnesses_mut() = keep_w;
        }
        let checked = tx.into_checked(Default::default(), &cp).map_err(|e| match e {
            CheckError::Validity(ValidityError::TransactionCreateBytecodeWitnessIndex) => "TransactionCreateBytecodeWitnessIndex".to_string(),
            e => format!("other:{e:?}"),
        })?;
        let meta_id: B32 = checked.transaction().metadata().as_ref().map(|m| m.body.contract_id.into()).unwrap_or([0; 32]);
        if variant == 4 {
            let mut t = Transactor::<_, _, Create>::new(MemoryInstance::new(), storage, ipar);
            t.transact(checked);
            if let Some(e) = t.error() { return Err(err_name(e)); }
            let st: &MemoryStorage = t.as_ref();
            Ok((st.clone(), meta_id))
        } else {
            let mut t = Transactor::<_, _, Script>::new(MemoryInstance::new(), storage, ipar);
            t.deploy(checked).map_err(|e| err_name(&e))?;
            let st: &MemoryStorage = t.as_ref();
            Ok((st.clone(), meta_id))
        }
    });
    match r {
        Err(p) => { ctx.oracle_fail("panic-deploy", &req, &p); ctx.emit(&req, "panic"); }
        Ok(Err(name)) => {
            // expected failures: bad witness index, or the id is already deployed
            let expect = match want {
                None => "TransactionCreateBytecodeWitnessIndex".to_string(),
                Some((id, _, _)) if w.deployed.iter().any(|d| d.0 == id) => "ContractIdAlreadyDeployed".to_string(),
                Some(_) => "no-error".to_string(),
            };
            if name != expect { ctx.oracle_fail("deploy-outcome-differs", &req, &format!("got {name} expected {expect}")); }
            ctx.count(&format!("deploy-{vname}-err-{}", if name.len() < 40 { name.clone() } else { "other".into() }));
            ctx.emit(&req, &format!("err:{name}"));
        }
        Ok(Ok((st, meta_id))) => {
            let (id, _root, _sroot) = match want { Some(x) => x, None => { ctx.oracle_fail("deploy-outcome-differs", &req, "deployed although the bytecode witness index is invalid"); ([0; 32], [0; 32], [0; 32]) } };
            let code = c.code().unwrap_or_default();
            if meta_id != id { ctx.oracle_fail("deployed-metadata-id-differs-from-formula", &req, &format!("cached {} want {}", hex(&meta_id), hex(&id))); }
            if w.deployed.iter().any(|d| d.0 == id) { ctx.oracle_fail("deploy-outcome-differs", &req, "redeployment of an existing id succeeded"); }
            // read back: the code under the formula id, every slot, nothing else for this id
            let cid = ContractId::new(id);
            let stored: Option<Vec<u8>> = st.storage_contract(&cid).ok().flatten().map(|c| c.as_ref().as_ref().to_vec());
            match &stored {
                None => ctx.oracle_fail("deployed-code-not-under-formula-id", &req, &format!("no contract under {}", hex(&id))),
                Some(s) if *s != code => ctx.oracle_fail("deployed-code-differs", &req, &format!("stored {} bytes, bytecode witness {} bytes", s.len(), code.len())),
                _ => {}
            }
            for (k, v) in &c.slots {
                let key = ContractsStateKey::new(&cid, &Bytes32::new(*k));
                let got: Option<Vec<u8>> = StorageInspect::<ContractsState>::get(&st, &key).ok().flatten().map(|d| d.as_ref().as_ref().to_vec());
                if got.as_deref() != Some(&v[..]) { ctx.oracle_fail("deployed-slot-differs", &req, &format!("key {} stored {:?}", hex(k), got.map(|g| hex(&g)))); }
            }
            let n_state = st.all_contract_state().filter(|(k, _)| *k.contract_id() == cid).count();
            if n_state != c.slots.len() { ctx.oracle_fail("deployed-slot-count-differs", &req, &format!("{} state entries for {} slots", n_state, c.slots.len())); }
            let s = stored.unwrap_or_default();
            ctx.emit(&req, &format!("ok {} {}:{} {}", hex(&id), s.len(), hex(&br::sha(&[&s])), n_state));
            w.storage = st;
            w.deployed.push((id, code, c.slots.clone()));
            ctx.count(&format!("deploy-{vname}-ok"));
            ctx.distinct(&id);
        }
    }
}

// ---------------------------------------------------------------- the ContractCreated clause of the Create validity rules
#[derive(Clone)]
enum OutSpec { Other, CC(B32, B32) }
fn outs_arg(o: &[OutSpec]) -> String {
    if o.is_empty() { return "-".into(); }
    o.iter().map(|x| match x { OutSpec::Other => "O".to_string(), OutSpec::CC(i, s) => format!("C:{}:{}", hex(i), hex(s)) }).collect::<Vec<_>>().join(";")
}
fn verr_name(e: &ValidityError) -> String {
    match e {
        ValidityError::TransactionCreateBytecodeWitnessIndex => "TransactionCreateBytecodeWitnessIndex".into(),
        ValidityError::TransactionCreateOutputContractCreatedDoesntMatch { .. } => "TransactionCreateOutputContractCreatedDoesntMatch".into(),
        ValidityError::TransactionCreateOutputContractCreatedMultiple { .. } => "TransactionCreateOutputContractCreatedMultiple".into(),
        ValidityError::TransactionOutputDoesntContainContractCreated => "TransactionOutputDoesntContainContractCreated".into(),
        e => format!("other:{e:?}"),
    }
}
fn cerr_name(e: &CheckError) -> String { match e { CheckError::Validity(v) => verr_name(v), e => format!("other:{e:?}") } }

/// A Create with EXPLICIT outputs (the announced contract id / state root are chosen by the generator, not by a
/// builder), judged by `check`, `into_checked_basic` and `into_checked`, and deployed when accepted.
/// ORACLE (sha2 only): accepted ⇒ exactly one ContractCreated output, its contract_id = H("FUEL"‖salt‖code root‖state root),
/// its state_root = sparse root of the slots, and after deployment the code sits under the ANNOUNCED id;
/// a transaction announcing exactly those values is accepted; the error otherwise is the one the rules name.
fn deployo_case(ctx: &mut Ctx, w: &mut World, c: &CreateReq, outs: &[OutSpec], kind: &str, via_transact: bool) {
    let req = format!("deployo {} {}", c.args(), outs_arg(outs));
    let want = c.want();
    let cp = w.cp.clone();
    let ipar = w.ip();
    let storage = w.storage.clone();
    let r = ctx.guard(|| -> (String, String, String, Option<Result<MemoryStorage, String>>) {
        let secret = SecretKey::try_from(&[0x11u8; 32][..]).expect("valid secret key");
        let mut tx: Create = c.tx();
        let sig_idx = tx.witnesses().len() as u16;
        tx.witnesses_mut().push(Witness::default());
        tx.add_unsigned_coin_input(UtxoId::new(Bytes32::new([3; 32]), 0), &secret.public_key(), u32::MAX as u64, AssetId::zeroed(), TxPointer::default(), sig_idx);
        for (i, o) in outs.iter().enumerate() {
            tx.outputs_mut().push(match o {
                OutSpec::Other => Output::coin(Address::new([i as u8 + 1; 32]), 1 + i as u64, AssetId::zeroed()),
                OutSpec::CC(id, sr) => Output::contract_created(ContractId::new(*id), Bytes32::new(*sr)),
            });
        }
        tx.sign_inputs(&secret, &cp.chain_id());
        // (1) FormatValidityChecks::check on the precomputed transaction
        let v1 = { let mut t = tx.clone(); match t.precompute(&cp.chain_id()) { Err(e) => verr_name(&e), Ok(()) => match t.check(Default::default(), &cp) { Ok(()) => "accept".into(), Err(e) => verr_name(&e) } } };
        // (2) into_checked_basic, (3) into_checked
        let v2 = match tx.clone().into_checked_basic(Default::default(), &cp) { Ok(_) => "accept".to_string(), Err(e) => cerr_name(&e) };
        let (v3, dep) = match tx.into_checked(Default::default(), &cp) {
            Err(e) => (cerr_name(&e), None),
            Ok(checked) => {
                let d = if via_transact {
                    let mut t = Transactor::<_, _, Create>::new(MemoryInstance::new(), storage, ipar);
                    t.transact(checked);
                    if let Some(e) = t.error() { Err(err_name(e)) } else { let st: &MemoryStorage = t.as_ref(); Ok(st.clone()) }
                } else {
                    let mut t = Transactor::<_, _, Script>::new(MemoryInstance::new(), storage, ipar);
                    match t.deploy(checked) { Err(e) => Err(err_name(&e)), Ok(_) => { let st: &MemoryStorage = t.as_ref(); Ok(st.clone()) } }
                };
                ("accept".to_string(), Some(d))
            }
        };
        (v1, v2, v3, dep)
    });
    match r {
        Err(p) => { ctx.oracle_fail("panic-create-check", &req, &p); ctx.emit(&req, "panic"); }
        Ok((v1, v2, v3, dep)) => {
            let ccs: Vec<(B32, B32)> = outs.iter().filter_map(|o| match o { OutSpec::CC(i, s) => Some((*i, *s)), _ => None }).collect();
            // the verdict the rules name, computed from the oracle's values
            let expect = match want {
                None => "TransactionCreateBytecodeWitnessIndex".to_string(),
                Some((id, _, sroot)) => {
                    let mut seen = false; let mut e = String::new();
                    for (i, s) in &ccs {
                        if *i != id || *s != sroot { e = "TransactionCreateOutputContractCreatedDoesntMatch".into(); break; }
                        if seen { e = "TransactionCreateOutputContractCreatedMultiple".into(); break; }
                        seen = true;
                    }
                    if !e.is_empty() { e } else if !seen { "TransactionOutputDoesntContainContractCreated".into() } else { "accept".into() }
                }
            };
            if v1 != v2 || v2 != v3 { ctx.oracle_fail("create-verdicts-disagree", &req, &format!("check {v1} / into_checked_basic {v2} / into_checked {v3}")); }
            for (name, v) in [("check", &v1), ("into_checked_basic", &v2), ("into_checked", &v3)] {
                if v == "accept" {
                    match want {
                        None => ctx.oracle_fail("create-accepted-with-invalid-bytecode-index", &req, name),
                        Some((id, _, sroot)) => {
                            if ccs.len() != 1 { ctx.oracle_fail("create-accepted-without-single-contract-created", &req, &format!("{name}: {} ContractCreated outputs", ccs.len())); }
                            for (i, s) in &ccs {
                                if *i != id { ctx.oracle_fail("create-accepted-with-wrong-announced-contract-id", &req, &format!("{name}: announced {} formula {} (kind {kind})", hex(i), hex(&id))); }
                                if *s != sroot { ctx.oracle_fail("create-accepted-with-wrong-announced-state-root", &req, &format!("{name}: announced {} sparse root of the slots {} (kind {kind})", hex(s), hex(&sroot))); }
                            }
                        }
                    }
                } else if expect == "accept" {
                    ctx.oracle_fail("create-rejected-with-correct-announcement", &req, &format!("{name}: {v}"));
                } else if *v != expect {
                    ctx.oracle_fail("create-verdict-differs-from-rules", &req, &format!("{name}: {v}, rules: {expect}"));
                }
            }
            let verdict = if v1 == v2 && v2 == v3 { if v3 == "accept" { v3.clone() } else { format!("err:{v3}") } } else { format!("{v1}/{v2}/{v3}") };
            let deploy = match dep {
                None => "-".to_string(),
                Some(Err(name)) => {
                    let already = want.map(|x| w.deployed.iter().any(|d| d.0 == x.0)).unwrap_or(false);
                    if !(already && name == "ContractIdAlreadyDeployed") { ctx.oracle_fail("deploy-outcome-differs", &req, &format!("accepted Create failed to deploy: {name}")); }
                    format!("err:{name}")
                }
                Some(Ok(st)) => {
                    let code = c.code().unwrap_or_default();
                    let announced = ccs.first().map(|x| x.0).unwrap_or([0; 32]);
                    let stored: Option<Vec<u8>> = st.storage_contract(&ContractId::new(announced)).ok().flatten().map(|c| c.as_ref().as_ref().to_vec());
                    if stored.as_deref() != Some(&code[..]) { ctx.oracle_fail("deployed-code-not-under-announced-id", &req, &format!("announced {} holds {:?} bytes, bytecode {} bytes (kind {kind})", hex(&announced), stored.as_ref().map(|s| s.len()), code.len())); }
                    // for the line: where the code actually went = the formula id
                    let fid = want.map(|x| x.0).unwrap_or([0; 32]);
                    let s2: Vec<u8> = st.storage_contract(&ContractId::new(fid)).ok().flatten().map(|c| c.as_ref().as_ref().to_vec()).unwrap_or_default();
                    let n_state = st.all_contract_state().filter(|(k, _)| *k.contract_id() == ContractId::new(fid)).count();
                    if w.deployed.iter().any(|d| d.0 == fid) { ctx.oracle_fail("deploy-outcome-differs", &req, "redeployment of an existing id succeeded"); }
                    w.storage = st;
                    w.deployed.push((fid, code, c.slots.clone()));
                    format!("ok {} {}:{} {}", hex(&fid), s2.len(), hex(&br::sha(&[&s2])), n_state)
                }
            };
            ctx.emit(&req, &format!("{verdict} {deploy}"));
            ctx.count(&format!("deployo-{kind}-{}", if v3 == "accept" { "accept" } else { "reject" }));
        }
    }
}

const OUT_KINDS: &[&str] = &["correct", "id-first-byte", "id-last-byte", "id-random-byte", "id-other-salt", "id-other-contract", "sroot-first-byte",
    "sroot-last-byte", "sroot-random-byte", "sroot-default-or-foreign", "both-wrong", "two-correct", "none", "swapped", "id-wrong-second-output-correct"];

/// outputs for a Create: the ContractCreated output(s) per `kind`, surrounded by 0..2 other outputs
fn make_outs(ctx: &mut Ctx, w: &World, c: &CreateReq, kind: &str) -> Vec<OutSpec> {
    let (id, root, sroot) = c.want().unwrap_or((ctx.rng.arr32(), ctx.rng.arr32(), ctx.rng.arr32()));
    let flip = |x: &B32, i: usize, m: u8| { let mut y = *x; y[i] ^= m; y };
    let rb = ctx.rng.below(32) as usize; let rm = 1u8 << ctx.rng.below(8);
    let other_sroot = if c.slots.is_empty() { ref_state_root(&[([5; 32], [6; 32])]) } else { [0u8; 32] };
    let ccs: Vec<OutSpec> = match kind {
        "correct" => vec![OutSpec::CC(id, sroot)],
        "id-first-byte" => vec![OutSpec::CC(flip(&id, 0, 0x80), sroot)],
        "id-last-byte" => vec![OutSpec::CC(flip(&id, 31, 1), sroot)],
        "id-random-byte" => vec![OutSpec::CC(flip(&id, rb, rm), sroot)],
        "id-other-salt" => vec![OutSpec::CC(ref_id(&flip(&c.salt, 31, 1), &root, &sroot), sroot)],
        "id-other-contract" => vec![OutSpec::CC(w.deployed.iter().map(|d| d.0).find(|x| *x != id).unwrap_or(ref_id(&c.salt, &sroot, &root)), sroot)],
        "sroot-first-byte" => vec![OutSpec::CC(id, flip(&sroot, 0, 0x80))],
        "sroot-last-byte" => vec![OutSpec::CC(id, flip(&sroot, 31, 1))],
        "sroot-random-byte" => vec![OutSpec::CC(id, flip(&sroot, rb, rm))],
        "sroot-default-or-foreign" => vec![OutSpec::CC(id, other_sroot)],
        "both-wrong" => vec![OutSpec::CC(flip(&id, rb, rm), flip(&sroot, 31 - rb, rm))],
        "two-correct" => vec![OutSpec::CC(id, sroot), OutSpec::CC(id, sroot)],
        "none" => vec![],
        "swapped" => vec![OutSpec::CC(sroot, id)],
        _ => vec![OutSpec::CC(flip(&id, rb, rm), sroot), OutSpec::CC(id, sroot)],
    };
    let mut outs = vec![];
    for _ in 0..ctx.rng.below(3) { outs.push(OutSpec::Other); }
    for (i, x) in ccs.into_iter().enumerate() { if i > 0 && ctx.rng.chance(1, 2) { outs.push(OutSpec::Other); } outs.push(x); }
    for _ in 0..ctx.rng.below(2) { outs.push(OutSpec::Other); }
    outs
}

fn croo_script() -> Vec<u8> {
    let ins: Vec<Instruction> = vec![
        op::gtf_args(0x10, 0x00, GTFArgs::ScriptData),
        op::movi(0x11, 32),
        op::aloc(0x11),
        op::croo(RegId::HP, 0x10),
        op::retd(RegId::HP, 0x11),
    ];
    ins.into_iter().collect()
}

/// CROO of `id` with the given input contracts (all deployed), through `transact` and single-stepped
fn croo_case(ctx: &mut Ctx, w: &World, inputs: &[B32], id: B32) {
    let req = format!("croo {} {}", smt::list_arg(inputs), hex(&id));
    let cp = w.cp.clone();
    let build = |cp: &ConsensusParameters| {
        let mut b = TransactionBuilder::script(croo_script(), id.to_vec());
        b.with_params(cp.clone());
        b.script_gas_limit(50_000_000);
        b.add_fee_input();
        for (i, c) in inputs.iter().enumerate() {
            b.add_input(Input::contract(UtxoId::new(Bytes32::new([9; 32]), i as u16), Bytes32::zeroed(), Bytes32::zeroed(), TxPointer::default(), ContractId::new(*c)));
            b.add_output(Output::contract((i + 1) as u16, Bytes32::zeroed(), Bytes32::zeroed()));
        }
        b.finalize()
    };
    let storage = w.storage.clone();
    let ipar = w.ip();
    let r = ctx.guard(|| -> (String, String) {
        // (a) whole script through the Transactor: the RETD receipt carries MEM[$hp, 32]
        let tx: Script = build(&cp);
        let a = match tx.clone().into_checked(Default::default(), &cp) {
            Err(e) => format!("check-failed:{e:?}"),
            Ok(checked) => {
                let mut t = Transactor::<_, _, Script>::new(MemoryInstance::new(), storage.clone(), ipar.clone());
                t.transact(checked);
                if let Some(e) = t.error() { format!("err:{}", err_name(e)) }
                else {
                    let rs = t.receipts().unwrap_or_default().to_vec();
                    let mut out = "no-receipt".to_string();
                    for r in &rs {
                        match r {
                            Receipt::ReturnData { data: Some(d), .. } => { out = hex(d); }
                            Receipt::Panic { reason, .. } => { out = format!("err:{:?}", reason.reason()); }
                            _ => {}
                        }
                    }
                    out
                }
            }
        };
        // (b) single-stepped: the same four instructions one by one, then read VM memory at $hp
        let b = match tx.into_checked(Default::default(), &cp) {
            Err(e) => format!("check-failed:{e:?}"),
            Ok(checked) => {
                let mut vm = Interpreter::<MemoryInstance, MemoryStorage, Script>::with_storage(MemoryInstance::new(), storage.clone(), ipar.clone());
                let gp = vm.gas_price();
                match checked.into_ready(gp, vm.gas_costs(), vm.fee_params(), None) {
                    Err(e) => format!("ready-failed:{e:?}"),
                    Ok(ready) => match vm.init_script(ready) {
                        Err(e) => format!("err:{}", err_name(&e)),
                        Ok(()) => {
                            let mut res = String::new();
                            for ins in [op::gtf_args(0x10, 0x00, GTFArgs::ScriptData), op::movi(0x11, 32), op::aloc(0x11), op::croo(RegId::HP, 0x10)] {
                                if let Err(e) = vm.instruction::<_, false>(ins) { res = format!("err:{}", err_name(&e)); break; }
                            }
                            if res.is_empty() {
                                let hp = vm.registers()[RegId::HP];
                                match vm.memory().read(hp, 32usize) { Ok(m) => hex(m), Err(e) => format!("mem-read-failed:{e:?}") }
                            } else { res }
                        }
                    },
                }
            }
        };
        (a, b)
    });
    match r {
        Err(p) => { ctx.oracle_fail("panic-croo", &req, &p); ctx.emit(&req, "panic"); }
        Ok((a, b)) => {
            let want = if !inputs.contains(&id) { format!("err:{:?}", PanicReason::ContractNotInInputs) }
                else { match w.deployed.iter().find(|d| d.0 == id) { Some(d) => hex(&ref_code_root(&d.1)), None => format!("err:{:?}", PanicReason::ContractNotFound) } };
            if a != want { ctx.oracle_fail("croo-differs-from-code-root-of-stored-code", &req, &format!("transact: got {a} want {want}")); }
            if b != want { ctx.oracle_fail("croo-single-step-differs-from-code-root-of-stored-code", &req, &format!("single-step: got {b} want {want}")); }
            if a == b { ctx.emit(&req, &a); } else { ctx.emit(&req, &format!("{a} / {b}")); }
            ctx.count(if want.starts_with("err:") { "croo-err" } else { "croo-ok" });
        }
    }
}

/// CROO single-stepped on a listed input contract whose code has been REMOVED from the VM's storage after
/// `init_script` (the only way to reach `ContractNotFound` inside CROO: `init_script` itself requires the inputs to exist)
fn croo_missing_case(ctx: &mut Ctx, w: &World, inputs: &[B32], id: B32) {
    let req = format!("croomissing {} {}", smt::list_arg(inputs), hex(&id));
    let cp = w.cp.clone();
    let storage = w.storage.clone();
    let ipar = w.ip();
    let r = ctx.guard(|| -> String {
        let mut b = TransactionBuilder::script(croo_script(), id.to_vec());
        b.with_params(cp.clone());
        b.script_gas_limit(50_000_000);
        b.add_fee_input();
        for (i, c) in inputs.iter().enumerate() {
            b.add_input(Input::contract(UtxoId::new(Bytes32::new([9; 32]), i as u16), Bytes32::zeroed(), Bytes32::zeroed(), TxPointer::default(), ContractId::new(*c)));
            b.add_output(Output::contract((i + 1) as u16, Bytes32::zeroed(), Bytes32::zeroed()));
        }
        let tx: Script = b.finalize();
        match tx.into_checked(Default::default(), &cp) {
            Err(e) => format!("check-failed:{e:?}"),
            Ok(checked) => {
                let mut vm = Interpreter::<MemoryInstance, MemoryStorage, Script>::with_storage(MemoryInstance::new(), storage.clone(), ipar.clone());
                let gp = vm.gas_price();
                match checked.into_ready(gp, vm.gas_costs(), vm.fee_params(), None) {
                    Err(e) => format!("ready-failed:{e:?}"),
                    Ok(ready) => match vm.init_script(ready) {
                        Err(e) => format!("err:{}", err_name(&e)),
                        Ok(()) => {
                            let st: &mut MemoryStorage = vm.as_mut();
                            let _ = StorageMutate::<ContractsRawCode>::take(st, &ContractId::new(id));
                            let mut res = String::new();
                            for ins in [op::gtf_args(0x10, 0x00, GTFArgs::ScriptData), op::movi(0x11, 32), op::aloc(0x11), op::croo(RegId::HP, 0x10)] {
                                if let Err(e) = vm.instruction::<_, false>(ins) { res = format!("err:{}", err_name(&e)); break; }
                            }
                            if res.is_empty() {
                                let hp = vm.registers()[RegId::HP];
                                match vm.memory().read(hp, 32usize) { Ok(m) => hex(m), Err(e) => format!("mem-read-failed:{e:?}") }
                            } else { res }
                        }
                    },
                }
            }
        }
    });
    match r {
        Err(p) => { ctx.oracle_fail("panic-croo", &req, &p); ctx.emit(&req, "panic"); }
        Ok(a) => {
            let want = if !inputs.contains(&id) { format!("err:{:?}", PanicReason::ContractNotInInputs) } else { format!("err:{:?}", PanicReason::ContractNotFound) };
            if a != want { ctx.oracle_fail("croo-on-missing-contract-differs", &req, &format!("got {a} want {want}")); }
            ctx.emit(&req, &a);
            ctx.count("croo-missing");
        }
    }
}

fn state_case(ctx: &mut Ctx, w: &World, id: B32, key: B32) {
    let req = format!("state {} {}", hex(&id), hex(&key));
    let k = ContractsStateKey::new(&ContractId::new(id), &Bytes32::new(key));
    let got: Option<Vec<u8>> = StorageInspect::<ContractsState>::get(&w.storage, &k).ok().flatten().map(|d| d.as_ref().as_ref().to_vec());
    let want: Option<Vec<u8>> = w.deployed.iter().find(|d| d.0 == id).and_then(|d| d.2.iter().rev().find(|s| s.0 == key).map(|s| s.1.to_vec()));
    if got != want { ctx.oracle_fail("state-read-back-differs", &req, &format!("got {:?} want {:?}", got.as_ref().map(|g| hex(g)), want.as_ref().map(|g| hex(g)))); }
    ctx.emit(&req, &match got { Some(v) => hex(&v), None => "none".into() });
    ctx.count("state-read");
}

fn contract_case(ctx: &mut Ctx, w: &World, id: B32) {
    let req = format!("contract {}", hex(&id));
    let got: Option<Vec<u8>> = w.storage.storage_contract(&ContractId::new(id)).ok().flatten().map(|c| c.as_ref().as_ref().to_vec());
    let want: Option<Vec<u8>> = w.deployed.iter().find(|d| d.0 == id).map(|d| d.1.clone());
    if got != want { ctx.oracle_fail("contract-read-back-differs", &req, "stored code differs from the deployed bytecode"); }
    ctx.emit(&req, &match got { Some(c) => format!("{}:{}", c.len(), hex(&br::sha(&[&c]))), None => "none".into() });
    ctx.count("contract-read");
}

// ---------------------------------------------------------------- generators
fn code_spec(ctx: &mut Ctx, len: usize) -> Spec {
    match ctx.rng.below(10) {
        0 => Spec::G(len, 0, 0),                                  // all zero: padding is indistinguishable from content
        1 => Spec::G(len, 0, 0xff00_0000),                        // all 0xff
        2 if len <= 300 => Spec::X(ctx.rng.bytes(len)),
        3 if len <= 300 => { let mut b = ctx.rng.bytes(len); let z = ctx.rng.below(9).min(len as u64) as usize; for x in b.iter_mut().rev().take(z) { *x = 0; } Spec::X(b) }
        _ => Spec::G(len, ctx.rng.next() | 1, ctx.rng.next()),
    }
}
fn boundary_lengths(maxk: usize) -> Vec<usize> {
    let mut v = vec![0usize, 1, 2, 3, 4, 5, 6, 7, 8, 9, 15, 16, 17, 23, 24, 25, 31, 32, 33, 63, 64, 65, 4095, 4096, 4097];
    for k in 1..=maxk {
        for d in [-9i64, -8, -7, -1, 0, 1, 7, 8, 9] { v.push((16384 * k as i64 + d) as usize); }
    }
    v
}
fn short_witness(ctx: &mut Ctx) -> Spec { let n = *ctx.rng.pick(&[0usize, 1, 8, 64, 65]); Spec::X(ctx.rng.bytes(n)) }
fn code_len(ctx: &mut Ctx) -> usize {
    match ctx.rng.below(8) {
        0 => *ctx.rng.pick(&[0usize, 1, 7, 8, 9, 16]),
        1 => *ctx.rng.pick(&[16383usize, 16384, 16385, 16376, 16392, 32767, 32768, 32769, 32776]),
        2 => ctx.rng.range(1, 40) as usize * 4,
        _ => ctx.rng.below(300) as usize,
    }
}
fn create_req(ctx: &mut Ctx, nslots: usize, sorted: bool) -> CreateReq {
    let nw = 1 + ctx.rng.below(3) as usize;
    let widx = ctx.rng.below(nw as u64) as usize;
    let len = code_len(ctx);
    let wits: Vec<Spec> = (0..nw).map(|i| if i == widx { code_spec(ctx, len) } else { short_witness(ctx) }).collect();
    let salt = match ctx.rng.below(4) { 0 => [0u8; 32], 1 => [0xff; 32], _ => ctx.rng.arr32() };
    CreateReq { widx: widx as u16, salt, slots: slot_set(ctx, nslots, sorted), wits }
}

pub fn run(ctx: &mut Ctx) {
    consts(ctx);
    // ---- regression corpus: explicit boundary cases
    for b in [vec![], vec![0u8], vec![1u8], vec![0u8; 7], vec![0u8; 8], vec![1, 0, 0, 0, 0, 0, 0, 0], vec![1, 0, 0, 0, 0, 0, 0, 0, 0]] {
        code_case(ctx, Spec::X(b));
    }
    slots_case(ctx, &[]);
    slots_case(ctx, &[([0; 32], [0; 32])]);
    slots_case(ctx, &[([1; 32], [1; 32]), ([1; 32], [2; 32])]);            // duplicate key: later wins
    slots_case(ctx, &[([2; 32], [0; 32]), ([1; 32], [0; 32])]);            // unsorted
    id_case(ctx, [0; 32], br::sha(&[]), [0; 32]);
    // ---- code roots: every boundary length, several contents
    let maxk = if ctx.thorough() { 40 } else { 6 };
    for len in boundary_lengths(maxk) {
        let reps = if len < 120_000 { 3 } else { 1 };
        for _ in 0..reps { let s = code_spec(ctx, len); code_case(ctx, s); }
    }
    if ctx.thorough() { for k in [63usize, 64, 65, 127, 128, 129] { for d in [-1i64, 0, 1] { let s = Spec::G((16384 * k as i64 + d) as usize, ctx.rng.next() | 1, ctx.rng.next()); code_case(ctx, s); } } }
    for len in 0..=ctx.n(300, 1200) as usize { let s = code_spec(ctx, len); code_case(ctx, s); }
    for _ in 0..ctx.n(150, 1500) {
        let len = match ctx.rng.below(4) { 0 => ctx.rng.range(16385, 70_000) as usize, 1 => ctx.rng.range(300, 16383) as usize, 2 => (ctx.rng.range(1, 4) * 16384 + ctx.rng.below(17)) as usize - 8, _ => ctx.rng.below(3000) as usize };
        let s = code_spec(ctx, len); code_case(ctx, s);
    }
    // ---- state roots
    for n in 0..=ctx.n(40, 120) as usize { let s = slot_set(ctx, n, false); slots_case(ctx, &s); }
    for _ in 0..ctx.n(250, 2500) { let n = ctx.rng.below(40) as usize; let sorted = ctx.rng.chance(1, 2); let s = slot_set(ctx, n, sorted); slots_case(ctx, &s); }
    for _ in 0..ctx.n(6, 60) { let n = ctx.rng.range(100, 300) as usize; let s = slot_set(ctx, n, true); slots_case(ctx, &s); }
    // ---- ids
    for _ in 0..ctx.n(300, 3000) {
        let f = |c: &mut Ctx| match c.rng.below(4) { 0 => [0u8; 32], 1 => [0xff; 32], _ => c.rng.arr32() };
        let (a, b, c) = (f(ctx), f(ctx), f(ctx));
        id_case(ctx, a, b, c);
    }
    // ---- predicate owner checks
    for kind in 0..6 { powner_case(ctx, Spec::X(vec![]), kind); }
    for _ in 0..ctx.n(400, 4000) {
        let len = match ctx.rng.below(6) { 0 => *ctx.rng.pick(&[0usize, 1, 3, 4, 5, 11, 12, 13]), 1 => *ctx.rng.pick(&[16379usize, 16380, 16381, 16388]), _ => ctx.rng.below(200) as usize };
        let tail = if len <= 300 { Spec::X(ctx.rng.bytes(len)) } else { Spec::X(Spec::G(len, ctx.rng.next() | 1, ctx.rng.next()).bytes()) };
        let kind = if ctx.rng.chance(1, 2) { 0 } else { 1 + ctx.rng.below(5) };
        powner_case(ctx, tail, kind);
    }
    // ---- Create metadata
    for _ in 0..ctx.n(500, 5000) {
        let n = ctx.rng.below(6) as usize;
        let sorted = ctx.rng.chance(2, 3);
        let mut c = create_req(ctx, n, sorted);
        if ctx.rng.chance(1, 6) { c.widx = *ctx.rng.pick(&[c.wits.len() as u16, c.wits.len() as u16 + 1, u16::MAX]); }
        meta_case(ctx, &c);
    }
    // ---- deployment histories: deploy, redeploy, same code under other salt / slots, read back, CROO
    for _ in 0..ctx.n(120, 1200) {
        ctx.emit("new", "ok");
        let mut w = World::new();
        let steps = 2 + ctx.rng.below(4);
        let mut last: Option<CreateReq> = None;
        for _ in 0..steps {
            let n = ctx.rng.below(5) as usize;
            let mut c = match (&last, ctx.rng.below(5)) {
                (Some(l), 0) => CreateReq { widx: l.widx, salt: l.salt, slots: l.slots.clone(), wits: l.wits.clone() },                  // identical: already deployed
                (Some(l), 1) => CreateReq { widx: l.widx, salt: ctx.rng.arr32(), slots: l.slots.clone(), wits: l.wits.clone() },           // other salt
                (Some(l), 2) => CreateReq { widx: l.widx, salt: l.salt, slots: slot_set(ctx, n + 1, true), wits: l.wits.clone() },         // other slots
                _ => create_req(ctx, n, true),
            };
            if ctx.rng.chance(1, 12) { c.widx = *ctx.rng.pick(&[c.wits.len() as u16 + 1, c.wits.len() as u16 + 7, u16::MAX]); }
            let variant = if ctx.rng.chance(1, 2) { 0 } else { 1 + ctx.rng.below(4) };
            deploy_case(ctx, &mut w, &c, variant);
            last = Some(c);
        }
        // read back and CROO for every deployed contract
        let deployed: Vec<(B32, Vec<(B32, B32)>)> = w.deployed.iter().map(|d| (d.0, d.2.clone())).collect();
        let all_ids: Vec<B32> = deployed.iter().map(|d| d.0).collect();
        for (id, slots) in &deployed {
            contract_case(ctx, &w, *id);
            for (k, _) in slots.iter().take(3) { state_case(ctx, &w, *id, *k); }
            let missing = ctx.rng.arr32();
            state_case(ctx, &w, *id, missing);
            croo_case(ctx, &w, &[*id], *id);
            if ctx.rng.chance(1, 3) { croo_missing_case(ctx, &w, &all_ids, *id); }
            if all_ids.len() >= 2 {
                croo_case(ctx, &w, &all_ids, *id);
                let others: Vec<B32> = all_ids.iter().copied().filter(|x| x != id).collect();
                croo_case(ctx, &w, &others, *id);                 // not among the inputs
            }
        }
        let unknown = ctx.rng.arr32();
        contract_case(ctx, &w, unknown);
        if let Some((id, _)) = deployed.first() { croo_case(ctx, &w, &[*id], unknown); }
    }
    // ---- the ContractCreated clause: every kind of announcement, empty and non-empty slot lists, both deployment paths
    {
        let mut round = 0u64;
        for _ in 0..ctx.n(30, 300) {
            ctx.emit("new", "ok");
            let mut w = World::new();
            // something already deployed, so that a foreign but existing contract id can be announced
            let first = create_req(ctx, 2, true);
            let o = make_outs(ctx, &w, &first, "correct");
            deployo_case(ctx, &mut w, &first, &o, "correct", false);
            for kind in OUT_KINDS {
                round += 1;
                let n = if round % 2 == 0 { 0 } else { 1 + ctx.rng.below(4) as usize };
                let mut c = create_req(ctx, n, true);
                if ctx.rng.chance(1, 25) { c.widx = c.wits.len() as u16 + 1; }
                let o = make_outs(ctx, &w, &c, kind);
                let via = ctx.rng.chance(1, 3);
                deployo_case(ctx, &mut w, &c, &o, kind, via);
            }
            // read back / CROO on what was deployed through this path
            let ids: Vec<B32> = w.deployed.iter().map(|d| d.0).collect();
            for id in ids.iter().take(3) { contract_case(ctx, &w, *id); croo_case(ctx, &w, &ids, *id); }
        }
    }
    // ---- a few large deployments (multi-chunk code) with CROO
    for k in 0..ctx.n(7, 28) as usize {
        ctx.emit("new", "ok");
        let mut w = World::new();
        let len = [16384usize, 16385, 32768 + 9, 49152 - 1, 65536, 100_000, 16384 * 7 + 8][k % 7] + if k >= 7 { ctx.rng.below(64) as usize } else { 0 };
        let c = CreateReq { widx: 0, salt: ctx.rng.arr32(), slots: slot_set(ctx, 3, true), wits: vec![Spec::G(len, ctx.rng.next() | 1, ctx.rng.next())] };
        deploy_case(ctx, &mut w, &c, (k % 2) as u64 * 4);
        if let Some(d) = w.deployed.first() { let id = d.0; contract_case(ctx, &w, id); croo_case(ctx, &w, &[id], id); }
    }
}
