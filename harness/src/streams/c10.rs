//! C10 — binary Merkle proofs are complete and sound.
//! Real code called: `in_memory::MerkleTree::prove`, storage-backed `binary::MerkleTree::prove`,
//! `binary::verify`. Oracle (independent RFC 6962 reference `gen::bmt_ref`, over `sha2`):
//!   * completeness: the produced (root, proof) equal MTH / PATH(i, D) of the reference and `verify` accepts them;
//!   * soundness/exactness: for ANY tuple, `verify(root, data, proof, index, n)` is true exactly when
//!     `index < n` and the audit-path recomputation `root_from_path(index, n, leaf_hash(data), proof)` reaches `root`;
//!   * `verify` never panics.
use crate::{ctx::Ctx, gen::bmt_ref as r, util::hex};
use fuel_merkle::{binary::{self, in_memory::{self, NodesTable}}, common::StorageMap};

type B32 = [u8; 32];

fn seq_leaves(n: u64, len: usize, mul: u64, add: u64) -> Vec<Vec<u8>> {
    (0..n).map(|i| {
        let be = i.wrapping_mul(mul).wrapping_add(add).to_be_bytes();
        let mut out = vec![0u8; len];
        for j in 0..len { if j < 8 { out[len - 1 - j] = be[7 - j]; } }
        out
    }).collect()
}

struct Built { leaves: Vec<Vec<u8>>, hashes: Vec<B32>, mem: in_memory::MerkleTree, root: B32 }

fn build(ctx: &mut Ctx, n: u64, len: usize, mul: u64, add: u64) -> Built {
    let leaves = seq_leaves(n, len, mul, add);
    let mut mem = in_memory::MerkleTree::new();
    for l in &leaves { mem.push(l); }
    let root = mem.root();
    let hashes: Vec<B32> = leaves.iter().map(|l| r::leaf_hash(l)).collect();
    if root != r::mth_hashes(&hashes) { ctx.oracle_fail("root-differs-from-rfc6962", &format!("B {n} {len} {mul} {add}"), ""); }
    ctx.emit(&format!("B {n} {len} {mul} {add}"), &hex(&root));
    Built { leaves, hashes, mem, root }
}

fn fmt_v(root: &B32, data: &[u8], index: u64, n: u64, proof: &[B32]) -> String {
    let mut s = format!("V {} {} {index} {n}", hex(root), hex(data));
    for p in proof { s.push(' '); s.push_str(&hex(p)); }
    s
}

/// one call of the real `verify` on an arbitrary tuple + exactness oracle
fn verify_case(ctx: &mut Ctx, kind: &str, root: &B32, data: &[u8], index: u64, n: u64, proof: &[B32]) -> Option<bool> {
    let req = fmt_v(root, data, index, n, proof);
    let want = index < n && r::root_from_path(index, n, r::leaf_hash(data), proof) == Some(*root);
    let pv: Vec<B32> = proof.to_vec();
    let dv = data.to_vec();
    let got = ctx.guard(|| binary::verify(root, &dv, &pv, index, n));
    ctx.count(&format!("{kind}:{}", if want { "valid" } else { "invalid" }));
    match got {
        Ok(b) => {
            if b != want {
                let fp = if b { format!("verify-accepts-what-recomputation-rejects-{kind}") } else { format!("verify-rejects-what-recomputation-accepts-{kind}") };
                ctx.oracle_fail(&fp, &req, &format!("verify={b} reference={want}"));
            }
            ctx.emit(&req, if b { "true" } else { "false" });
            Some(b)
        }
        Err(p) => {
            let fp = if p.contains("shift left") { "panic-verify-shl-overflow" } else if p.contains("add with overflow") { "panic-verify-add-overflow" } else { "panic-verify" };
            ctx.oracle_fail(fp, &req, &format!("{p}; reference={want}"));
            ctx.emit(&req, "panic");
            None
        }
    }
}

/// `p i` on the built tree: both prove implementations, completeness oracle
fn prove_case(ctx: &mut Ctx, b: &Built, storage_tree: Option<&binary::MerkleTree<NodesTable, StorageMap<NodesTable>>>, i: u64) -> Option<Vec<B32>> {
    let n = b.leaves.len() as u64;
    let req = format!("p {i}");
    let res = ctx.guard(|| b.mem.prove(i));
    match res {
        Err(p) => { ctx.oracle_fail("panic-prove", &format!("n={n} {req}"), &p); ctx.emit(&req, "panic"); None }
        Ok(None) => {
            if i < n { ctx.oracle_fail("prove-refused-in-range", &format!("n={n} {req}"), ""); }
            ctx.count("prove-refused");
            ctx.emit(&req, "err:InvalidProofIndex");
            None
        }
        Ok(Some((root, proof))) => {
            if i >= n { ctx.oracle_fail("prove-accepts-index-beyond-count", &format!("n={n} {req}"), ""); return None; }
            let want = r::audit_path(i as usize, &b.hashes);
            if root != b.root || proof != want { ctx.oracle_fail("proof-differs-from-rfc6962-audit-path", &format!("n={n} {req}"), &format!("len {} vs {}", proof.len(), want.len())); }
            if let Some(t) = storage_tree {
                match t.prove(i) { Ok((r2, p2)) if r2 == root && p2 == proof => {}, _ => ctx.oracle_fail("storage-tree-proof-differs-from-in-memory", &format!("n={n} {req}"), "") }
            }
            let data = b.leaves[i as usize].clone();
            let pv = proof.clone();
            let v = ctx.guard(|| binary::verify(&root, &data, &pv, i, n));
            let vs = match &v { Ok(true) => "true", Ok(false) => "false", Err(_) => "panic" };
            if !matches!(v, Ok(true)) { ctx.oracle_fail("own-proof-does-not-verify", &format!("n={n} {req}"), vs); }
            let mut out = format!("ok {}", hex(&root));
            for p in &proof { out.push(' '); out.push_str(&hex(p)); }
            out.push_str(&format!(" v={vs}"));
            ctx.emit(&req, &out);
            ctx.count("prove-ok");
            ctx.distinct(&[&root[..], &i.to_be_bytes()].concat());
            Some(proof)
        }
    }
}

fn flip(h: &B32, bit: usize) -> B32 { let mut x = *h; x[bit / 8] ^= 1 << (bit % 8); x }

/// structured mutations of a valid tuple
fn mutations(ctx: &mut Ctx, b: &Built, i: u64, proof: &[B32], budget: usize) {
    let n = b.leaves.len() as u64;
    let data = b.leaves[i as usize].clone();
    let root = b.root;
    let l = proof.len();
    let mut cases: Vec<(&str, B32, Vec<u8>, u64, u64, Vec<B32>)> = vec![];
    let base = |k: &'static str| (k, root, data.clone(), i, n, proof.to_vec());
    if l > 0 {
        let mut c = base("drop-first"); c.5.remove(0); cases.push(c);
        let mut c = base("drop-last"); c.5.pop(); cases.push(c);
        let j = ctx.rng.below(l as u64) as usize;
        let mut c = base("drop-mid"); c.5.remove(j); cases.push(c);
        let bit = ctx.rng.below(256) as usize;
        let mut c = base("flip-bit"); c.5[j] = flip(&c.5[j], bit); cases.push(c);
        let mut c = base("dup-elem"); c.5.insert(j, proof[j]); cases.push(c);
    }
    if l > 1 {
        let j = ctx.rng.below(l as u64 - 1) as usize;
        let mut c = base("swap-adjacent"); c.5.swap(j, j + 1); cases.push(c);
        let mut c = base("reverse"); c.5.reverse(); cases.push(c);
    }
    let extra = ctx.rng.arr32();
    let mut c = base("add-front"); c.5.insert(0, extra); cases.push(c);
    let mut c = base("add-back"); c.5.push(extra); cases.push(c);
    let mut c = base("add-back-own-root"); c.5.push(root); cases.push(c);
    // over-long proofs whose extra elements are consistent with a naive fold (only the length rule rejects them)
    let mut c = base("extend-left-sibling-and-root"); c.5.push(extra); c.1 = r::node_hash(&extra, &root); cases.push(c);
    { let e2 = ctx.rng.arr32(); let mut c = base("extend-two-left-siblings-and-root"); c.5.push(extra); c.5.push(e2); c.1 = r::node_hash(&e2, &r::node_hash(&extra, &root)); cases.push(c); }
    // a proof cut to its first element(s) with the root of the smaller subtree it does prove
    if l > 1 { let mut c = base("truncate-to-subtree-root"); c.5.truncate(1); let lh = r::leaf_hash(&data); c.1 = if i % 2 == 0 { r::node_hash(&lh, &proof[0]) } else { r::node_hash(&proof[0], &lh) }; cases.push(c); }
    if i > 0 { let mut c = base("index-1"); c.3 = i - 1; cases.push(c); }
    let mut c = base("index+1"); c.3 = i + 1; cases.push(c);
    let mut c = base("index=n"); c.3 = n; cases.push(c);
    let mut c = base("index-other"); c.3 = ctx.rng.below(n + 2); cases.push(c);
    let mut c = base("index+2^k"); c.3 = i + (1u64 << ctx.rng.below(8)); cases.push(c);
    if n > 1 { let mut c = base("count-1"); c.4 = n - 1; cases.push(c); }
    let mut c = base("count+1"); c.4 = n + 1; cases.push(c);
    // another count whose path for this index has the same length (same-height other count)
    for _ in 0..3 {
        let n2 = ctx.rng.range(i + 1, (n * 2).max(i + 2));
        let mut c = base("count-other"); c.4 = n2; cases.push(c);
    }
    let mut c = base("count-huge"); c.4 = *ctx.rng.pick(&[1u64 << 62, (1 << 63) - 1, 1 << 63, (1 << 63) + 1, u64::MAX]); cases.push(c);
    let mut c = base("count=0"); c.4 = 0; cases.push(c);
    let mut c = base("data-flip"); if c.2.is_empty() { c.2.push(0); } else { c.2[0] ^= 1; } cases.push(c);
    let mut c = base("data-append"); c.2.push(0); cases.push(c);
    let mut c = base("data-as-node-preimage"); c.2 = { let mut v = vec![1u8]; v.extend_from_slice(&[0u8; 64]); v }; cases.push(c);
    let bit = ctx.rng.below(256) as usize;
    let mut c = base("root-flip"); c.1 = flip(&root, bit); cases.push(c);
    // a valid proof of another leaf of the same tree, used for this index / this leaf's data
    if n > 1 {
        let i2 = (i + 1 + ctx.rng.below(n - 1)) % n;
        if let Some((_, p2)) = b.mem.prove(i2) {
            let mut c = base("other-leafs-proof"); c.5 = p2.clone(); cases.push(c);
            let mut c = base("other-leafs-proof-and-index"); c.5 = p2; c.3 = i2; cases.push(c);
        }
    }
    // keep within the budget, but always keep the structural ones first
    if cases.len() > budget { let mut keep = vec![]; for _ in 0..budget { let j = ctx.rng.below(cases.len() as u64) as usize; keep.push(cases.swap_remove(j)); } cases = keep; }
    for (k, rt, d, idx, cnt, p) in cases { verify_case(ctx, k, &rt, &d, idx, cnt, &p); }
}

pub fn run(ctx: &mut Ctx) {
    // ---- regression corpus: the u64 boundary of `verify` (DESIGN §6 F5) ----
    let z = [0u8; 32];
    let data = vec![7u8];
    for (n, idx, plen) in [
        (1u64 << 63, 0u64, 63usize),                 // complete tree of 2^63 leaves: loop reaches height 64
        ((1u64 << 63) + 1, 0, 64),                   // 64-hash proof
        ((1u64 << 63) + 1, 1u64 << 63, 1),           // right-most leaf of 2^63+1: short proof
        (u64::MAX, (1u64 << 63) + 5, 64),            // start + size overflows at height 63
        (u64::MAX, u64::MAX - 1, 64),
        ((1u64 << 63) - 1, 0, 63),                   // largest count below the boundary
        ((1u64 << 62) + 1, 0, 63),
        (1u64 << 62, (1u64 << 62) - 1, 62),
    ] {
        let proof: Vec<B32> = (0..plen).map(|j| { let mut h = z; h[0] = j as u8; h }).collect();
        // the root the RFC recomputation yields for this tuple, so that the tuple is VALID by the reference
        let root = r::root_from_path(idx, n, r::leaf_hash(&data), &proof).unwrap_or(z);
        verify_case(ctx, "u64-boundary", &root, &data, idx, n, &proof);
        verify_case(ctx, "u64-boundary", &z, &data, idx, n, &proof);
    }
    // degenerate counts
    verify_case(ctx, "degenerate", &r::leaf_hash(&data), &data, 0, 1, &[]);
    verify_case(ctx, "degenerate", &r::leaf_hash(&data), &data, 0, 0, &[]);
    verify_case(ctx, "degenerate", &r::leaf_hash(&data), &data, 1, 1, &[]);
    verify_case(ctx, "degenerate", &r::leaf_hash(&data), &data, 0, 1, &[z]);
    verify_case(ctx, "degenerate", &r::leaf_hash(&data), &data, 0, 2, &[]);
    verify_case(ctx, "degenerate", &r::sha(&[]), &data, 0, 0, &[]);

    // ---- exhaustive small trees: every (n, i), i up to n+1 (refusal), mutations of every valid proof ----
    let small = ctx.n(48, 300);
    for n in 1..=small {
        let len = *ctx.rng.pick(&[0usize, 1, 8, 32]);
        let (mul, add) = (ctx.rng.next() | 1, ctx.rng.next());
        let b = build(ctx, n, len, mul, add);
        // storage-backed tree over an owned StorageMap, same leaves
        let mut st = binary::MerkleTree::<NodesTable, _>::new(StorageMap::<NodesTable>::new());
        for l in &b.leaves { st.push(l).unwrap(); }
        for i in 0..=n + 1 {
            if let Some(p) = prove_case(ctx, &b, Some(&st), i) {
                let budget = if n <= 20 { 100 } else if n <= 64 { 6 } else { 2 };
                mutations(ctx, &b, i, &p, budget);
            }
        }
    }
    // ---- trees that are NOT fresh: reset and reload over storage left behind by a longer history ----
    // (added after seeded change C10-1: `prove` preferring stale nodes of main storage over its scratch storage)
    {
        let lim = ctx.n(20, 40);
        for first in 1..=lim {
            for second in 1..=first {
                if !ctx.thorough() && (first + second) % 3 != 0 && !(first == 8 && second == 7) { continue; }
                let leaves = seq_leaves(first, 8, 0x9E37_79B9, first * 1000 + second);
                let hashes: Vec<B32> = leaves.iter().take(second as usize).map(|l| r::leaf_hash(l)).collect();
                let want_root = r::mth_hashes(&hashes);
                // (a) in-memory tree: push `first`, reset, push `second`
                let mut mem = in_memory::MerkleTree::new();
                for l in &leaves { mem.push(l); }
                mem.reset();
                for l in leaves.iter().take(second as usize) { mem.push(l); }
                // (b) storage-backed tree loaded at `second` over the storage of the `first`-leaf tree
                let mut sm = StorageMap::<NodesTable>::new();
                { let mut st = binary::MerkleTree::<NodesTable, _>::new(&mut sm); for l in &leaves { st.push(l).unwrap(); } }
                let loaded = binary::MerkleTree::<NodesTable, _>::load(&sm, second);
                for i in 0..second {
                    let desc = format!("reused-tree first={first} second={second} i={i}");
                    let want = r::audit_path(i as usize, &hashes);
                    let mut got: Vec<(&str, Option<(B32, Vec<B32>)>)> = vec![("reset", mem.prove(i))];
                    if let Ok(t) = &loaded { got.push(("load", t.prove(i).ok())); }
                    for (how, pr) in got {
                        match pr {
                            None => ctx.oracle_fail("reused-tree-prove-refused-in-range", &desc, how),
                            Some((root, proof)) => {
                                if root != want_root || proof != want { ctx.oracle_fail("reused-tree-proof-differs-from-rfc6962-audit-path", &desc, how); }
                                let v = verify_case(ctx, "reused-tree", &root, &leaves[i as usize], i, second, &proof);
                                if v != Some(true) { ctx.oracle_fail("reused-tree-own-proof-does-not-verify", &desc, how); }
                            }
                        }
                    }
                    ctx.count("reused-tree.proofs");
                }
            }
        }
    }
    // ---- sampled larger trees: 2^k-1, 2^k, 2^k+1, random; boundary indices ----
    let maxk = if ctx.thorough() { 15 } else { 11 };
    let mut counts: Vec<u64> = vec![];
    for k in 6..=maxk { counts.extend([(1u64 << k) - 1, 1 << k, (1 << k) + 1, (1u64 << k) + ctx.rng.below(1 << k)]); }
    for n in counts {
        let b = build(ctx, n, 8, 1, 0);
        let mut idx = vec![0, 1, n / 2, n - 2, n - 1, n, r::split64(n) - 1, r::split64(n), r::split64(n) + 1];
        for _ in 0..ctx.n(6, 40) { idx.push(ctx.rng.below(n)); }
        for i in idx {
            if let Some(p) = prove_case(ctx, &b, None, i) { mutations(ctx, &b, i, &p, 8); }
        }
    }
    // ---- separate malformed stream: arbitrary tuples (boundary-biased counts and indices, any proof length) ----
    for _ in 0..ctx.n(600, 8000) {
        let n = ctx.rng.word();
        let idx = match ctx.rng.below(4) { 0 => ctx.rng.word(), 1 => if n == 0 { 0 } else { ctx.rng.next() % n }, 2 => n.wrapping_sub(1), _ => 0 };
        let plen = match ctx.rng.below(5) { 0 => 0, 1 => ctx.rng.below(4) as usize, 2 => 62 + ctx.rng.below(4) as usize, _ => {
            // the length the reference expects for (idx, n), +-1
            let mut l = 0usize; let (mut m, mut c) = (idx, n);
            while c > 1 && m < c { let k = r::split64(c); if m < k { c = k; } else { m -= k; c -= k; } l += 1; }
            (l as i64 + ctx.rng.below(3) as i64 - 1).max(0) as usize } };
        let proof: Vec<B32> = (0..plen).map(|_| ctx.rng.arr32()).collect();
        let d = ctx.rng.bytes(3);
        let root = if ctx.rng.chance(2, 3) { r::root_from_path(idx, n, r::leaf_hash(&d), &proof).unwrap_or(z) } else { ctx.rng.arr32() };
        verify_case(ctx, "random-tuple", &root, &d, idx, n, &proof);
    }
}
