//! C32 — breakpoints / single-stepping do not change results.
//! (a) `deb` lines: random operation sequences on the real `fuel_vm::state::Debugger` vs the Lean model.
//! (b) `run` lines: generated programs run (1) plainly, (2) stepped by hand through `Interpreter::execute`
//!     with no debugger (reference arrivals), (3) single-stepped and resumed, (4) with random breakpoint
//!     sets (in scripts, callees, loop heads) and resumed, (5) after an abandoned debug session on the same
//!     VM (stale last_state). Oracle (independent of Lean): results of (3)(4)(5) equal (1) — state, receipts,
//!     output tx, storage, registers, memory — and the events are exactly the reference arrivals that hit.
//!     The Lean driver replays `run_program`/`resume` of the model over the reference arrivals and must print
//!     the same events.
use crate::{ctx::Ctx, gen::vm_gen as g, util::hex};
use fuel_asm::RegId;
use fuel_tx::Script;
use fuel_types::ContractId;
use fuel_vm::{
    consts::VM_MAX_RAM,
    interpreter::MemoryInstance,
    prelude::*,
    state::{Breakpoint, DebugEval, Debugger, ExecuteState},
    storage::MemoryStorage,
};
use sha2::{Digest, Sha256};

type Vm = Interpreter<MemoryInstance, MemoryStorage, Script>;
type Loc = (Option<ContractId>, u64);

fn loc_str(c: &ContractId, pc: u64) -> String { format!("{}:{pc}", hex(&c.as_ref()[..4])) }

fn vm_digest(vm: &Vm) -> String {
    let mut h = Sha256::new();
    for r in vm.registers() { h.update(r.to_be_bytes()); }
    let m = vm.memory();
    h.update(m.stack_raw());
    let hp = vm.registers()[RegId::HP] as usize;
    if let Ok(s) = m.read(hp, fuel_vm::consts::MEM_SIZE - hp) { h.update(s); }
    hex(&h.finalize()[..8])
}

struct RunOut { digest: String, vmd: String, term: String, events: Vec<(ContractId, u64)>, resumes: u64 }

fn finish(vm: &Vm, r: &Result<ProgramState, String>) -> (String, String, String) {
    let st = match r { Ok(s) => g::state_str(s), Err(e) => format!("err:{e}") };
    let d = g::digest_result(&st, vm.receipts(), vm.transaction(), vm.as_ref());
    (d, vm_digest(vm), st)
}

/// transact, and resume after every debug event until completion
fn run_resumed(vm: &mut Vm, case: &g::Case, max_events: usize) -> Option<RunOut> {
    let mut events = vec![];
    let mut resumes = 0;
    let mut r: Result<ProgramState, String> = vm.transact(case.ready()).map(ProgramState::from).map_err(|e| g::err_name(&e));
    loop {
        match &r {
            Ok(s) if s.is_debug() => {
                let d = s.debug_ref().unwrap();
                match d {
                    DebugEval::Breakpoint(b) => events.push((*b.contract(), b.pc())),
                    DebugEval::Continue => return None,
                }
                if events.len() > max_events { return None; }
                resumes += 1;
                r = vm.resume().map_err(|e| g::err_name(&e));
            }
            _ => break,
        }
    }
    let (digest, vmd, term) = finish(vm, &r);
    Some(RunOut { digest, vmd, term, events, resumes })
}

/// reference arrivals: step the interpreter by hand, no debugger involved
fn manual_trace(case: &g::Case, max: usize) -> Option<(Vec<Loc>, &'static str)> {
    let mut vm = case.fresh_vm();
    vm.init_script(case.ready()).ok()?;
    let mut tr = vec![];
    loop {
        let regs = vm.registers();
        let (pc, is, ssp, fp) = (regs[RegId::PC], regs[RegId::IS], regs[RegId::SSP], regs[RegId::FP]);
        let in_call = fp != 0;
        let fetch_ok = pc >= is && pc < ssp && pc.checked_add(4).map(|e| e <= VM_MAX_RAM).unwrap_or(false);
        if fetch_ok {
            let c = if in_call { let b: [u8; 32] = vm.memory().read_bytes(fp).ok()?; Some(ContractId::from(b)) } else { None };
            tr.push((c, pc.saturating_sub(is)));
        }
        if tr.len() > max { return None; }
        match vm.execute::<false>() {
            Ok(ExecuteState::Proceed) => continue,
            Ok(ExecuteState::DebugEvent(_)) => return None,
            Ok(ExecuteState::Revert(_)) => return Some((tr, "rvrt")),
            Ok(ExecuteState::Return(_)) => if in_call { continue } else { return Some((tr, "ret")) },
            Ok(ExecuteState::ReturnData(_)) => if in_call { continue } else { return Some((tr, "retd")) },
            Err(e) => return Some((tr, if e.instruction_result().is_some() { "panic" } else { "fatal" })),
        }
    }
}

fn fmt_locs(ids: &[ContractId], tr: &[Loc]) -> String {
    if tr.is_empty() { return "-".into(); }
    tr.iter().map(|(c, pc)| match c {
        None => format!("n:{pc}"),
        Some(c) => format!("{}:{pc}", ids.iter().position(|x| x == c).unwrap()),
    }).collect::<Vec<_>>().join(",")
}

fn vm_case(ctx: &mut Ctx, case: &g::Case, tag: &str) {
    let max = 4000usize;
    // (1) plain
    let mut vm0 = case.fresh_vm();
    let r0 = match ctx.guard(|| { let r = vm0.transact(case.ready()).map(ProgramState::from).map_err(|e| g::err_name(&e)); r }) {
        Ok(r) => r,
        Err(m) => { ctx.oracle_fail("panic-transact-plain", tag, &m); return; }
    };
    let (d0, v0, t0) = finish(&vm0, &r0);
    for r in vm0.receipts() { if let fuel_tx::Receipt::Panic { reason, .. } = r { ctx.count(&format!("run.panic.{:?}", reason.reason())); } }
    // (2) reference arrivals
    let Some((trace, term)) = manual_trace(case, max) else { ctx.count("run.skipped-long"); return; };
    ctx.count(&format!("run.term.{term}"));
    if trace.iter().any(|(c, _)| c.is_some()) { ctx.count("run.with-calls"); }
    let mut ids: Vec<ContractId> = vec![];
    for (c, _) in &trace { if let Some(c) = c { if !ids.contains(c) { ids.push(*c); } } }
    let want = |ss: bool, bps: &[(ContractId, u64)], stale: Option<(ContractId, u64)>| -> Vec<(ContractId, u64)> {
        let mut out = vec![];
        for (i, (c, pc)) in trace.iter().enumerate() {
            let b = (c.unwrap_or_default(), *pc);
            if (ss || bps.contains(&b)) && !(i == 0 && stale == Some(b)) { out.push(b); }
        }
        out
    };
    let mut check = |ctx: &mut Ctx, kind: &str, ss: bool, bps: &[(ContractId, u64)], stale: Option<(ContractId, u64)>, out: Option<RunOut>| {
        let input = format!("{tag} kind={kind} ss={ss} bps={:?}", bps.iter().map(|(c, p)| loc_str(c, *p)).collect::<Vec<_>>());
        let Some(out) = out else { ctx.oracle_fail("debug-run-did-not-finish", &input, "event budget exceeded or Continue event"); return; };
        if out.digest != d0 || out.term != t0 {
            ctx.oracle_fail(&format!("result-differs-{kind}"), &input, &format!("plain {t0} {d0} vs debugged {} {}", out.term, out.digest));
        }
        if out.vmd != v0 { ctx.oracle_fail(&format!("vm-state-differs-{kind}"), &input, "registers/memory differ from the plain run"); }
        let w = want(ss, bps, stale);
        if out.events != w {
            let i = out.events.iter().zip(w.iter()).position(|(a, b)| a != b).unwrap_or(out.events.len().min(w.len()));
            ctx.oracle_fail(&format!("events-differ-{kind}"), &input, &format!("{} events, expected {}; first difference at {i}", out.events.len(), w.len()));
        }
        let bps_s = if bps.is_empty() { "-".to_string() } else {
            bps.iter().map(|(c, pc)| if *c == ContractId::zeroed() { format!("z:{pc}") } else {
                match ids.iter().position(|x| x == c) { Some(i) => format!("{i}:{pc}"), None => format!("x:{pc}") } }).collect::<Vec<_>>().join(",")
        };
        let stale_s = match stale { None => "-".to_string(), Some((c, pc)) => if c == ContractId::zeroed() { format!("z:{pc}") } else { format!("{}:{pc}", ids.iter().position(|x| *x == c).unwrap()) } };
        let ids_s = if ids.is_empty() { "-".to_string() } else { ids.iter().map(|c| hex(c.as_ref())).collect::<Vec<_>>().join(",") };
        let ev_s = if out.events.is_empty() { "-".to_string() } else { out.events.iter().map(|(c, p)| loc_str(c, *p)).collect::<Vec<_>>().join(",") };
        ctx.emit(&format!("run {} {stale_s} {ids_s} {bps_s} {term} {}", ss as u8, fmt_locs(&ids, &trace)),
                 &format!("{} {ev_s} {}", out.resumes, if out.term.starts_with("err:") { "fatal" } else { term }));
        ctx.count(&format!("run.{kind}"));
        ctx.count_n("run.events", out.events.len() as u64);
    };
    // (3) single stepping
    {
        let mut vm = case.fresh_vm();
        vm.set_single_stepping(true);
        let out = ctx.guard(|| run_resumed(&mut vm, case, max + 10));
        match out { Ok(o) => check(ctx, "single-step", true, &[], None, o), Err(m) => ctx.oracle_fail("panic-single-step", tag, &m) }
    }
    // (4) breakpoint sets drawn from the visited locations (+ unvisited ones)
    let visited: Vec<(ContractId, u64)> = { let mut v: Vec<_> = trace.iter().map(|(c, p)| (c.unwrap_or_default(), *p)).collect(); v.sort(); v.dedup(); v };
    let mut key = vec![]; for (c, p) in &trace { key.extend_from_slice(&c.unwrap_or_default().as_ref()[..2]); key.extend_from_slice(&p.to_be_bytes()[6..]); }
    if trace.len() >= 3 { ctx.distinct(&key); }
    let nsets = ctx.n(2, 4);
    for k in 0..nsets {
        let mut bps: Vec<(ContractId, u64)> = vec![];
        let n = ctx.rng.range(1, 4);
        for _ in 0..n {
            if !visited.is_empty() && ctx.rng.chance(5, 6) {
                // prefer callee locations and repeatedly visited ones every other set
                let cands: Vec<&(ContractId, u64)> = if k % 2 == 1 { visited.iter().filter(|b| b.0 != ContractId::zeroed() || trace.iter().filter(|(c, p)| (c.unwrap_or_default(), *p) == **b).count() > 1).collect() } else { vec![] };
                let b = if cands.is_empty() { *ctx.rng.pick(&visited) } else { **ctx.rng.pick(&cands) };
                if !bps.contains(&b) { bps.push(b); }
            } else {
                let b = (ContractId::zeroed(), 4 * ctx.rng.below(64));
                if !bps.contains(&b) { bps.push(b); }
            }
        }
        let mut vm = case.fresh_vm();
        for (c, pc) in &bps { vm.set_breakpoint(Breakpoint::new(*c, pc / 4)); }
        let out = ctx.guard(|| run_resumed(&mut vm, case, max + 10));
        match out { Ok(o) => check(ctx, "breakpoints", false, &bps, None, o), Err(m) => ctx.oracle_fail("panic-breakpoints", tag, &m) }
    }
    // (4b) single stepping AND breakpoints at once (on visited locations: both rules of eval_state apply to one location)
    for k in 0..ctx.n(1, 2) {
        let mut bps: Vec<(ContractId, u64)> = vec![];
        if k == 0 { if let Some((c, p)) = trace.first() { bps.push((c.unwrap_or_default(), *p)); } }
        for _ in 0..ctx.rng.range(1, 3) { if !visited.is_empty() { let b = *ctx.rng.pick(&visited); if !bps.contains(&b) { bps.push(b); } } }
        if bps.is_empty() { continue; }
        let mut vm = case.fresh_vm();
        vm.set_single_stepping(true);
        for (c, pc) in &bps { vm.set_breakpoint(Breakpoint::new(*c, pc / 4)); }
        let out = ctx.guard(|| run_resumed(&mut vm, case, max + 10));
        match out { Ok(o) => check(ctx, "single-step+breakpoints", true, &bps, None, o), Err(m) => ctx.oracle_fail("panic-single-step+breakpoints", tag, &m) }
    }
    // (5) abandoned session first: breakpoint on the first location, stop there, then transact again on the same VM
    if let Some((c0, p0)) = trace.first().map(|(c, p)| (c.unwrap_or_default(), *p)) {
        let mut bps = vec![(c0, p0)];
        if visited.len() > 1 { let b = *ctx.rng.pick(&visited); if !bps.contains(&b) { bps.push(b); } }
        let mut vm = case.fresh_vm();
        for (c, pc) in &bps { vm.set_breakpoint(Breakpoint::new(*c, pc / 4)); }
        let first = ctx.guard(|| vm.transact(case.ready()).map(ProgramState::from).map_err(|e| g::err_name(&e)));
        if let Ok(Ok(s)) = &first { if !s.is_debug() { ctx.oracle_fail("no-event-at-first-location", tag, "breakpoint on the first location did not stop"); } }
        let out = ctx.guard(|| run_resumed(&mut vm, case, max + 10));
        match out { Ok(o) => check(ctx, "stale-session", false, &bps, Some((c0, p0)), o), Err(m) => ctx.oracle_fail("panic-stale-session", tag, &m) }
    }
}

// ---- (a) Debugger API ---------------------------------------------------------------------------

fn st_str(s: &Option<ProgramState>) -> String {
    match s {
        None => "none".into(),
        Some(ProgramState::Return(w)) => format!("ret:{w}"),
        Some(ProgramState::ReturnData(d)) => format!("retd:{}", hex(d.as_ref())),
        Some(ProgramState::Revert(w)) => format!("rvrt:{w}"),
        Some(ProgramState::RunProgram(d)) => format!("run:{}", ev_str(d)),
        Some(ProgramState::VerifyPredicate(d)) => format!("pred:{}", ev_str(d)),
    }
}
fn ev_str(d: &DebugEval) -> String {
    match d { DebugEval::Continue => "continue".into(), DebugEval::Breakpoint(b) => format!("bp:{}:{}", hex(b.contract().as_ref()), b.pc()) }
}

fn debugger_api(ctx: &mut Ctx) {
    let nseq = ctx.n(150, 1500);
    for _ in 0..nseq {
        let mut d = Debugger::default();
        ctx.emit("deb new", &format!("ok a=0 s=0 l=none"));
        // clustered contracts / pcs so that hits and suppressions actually happen
        let cs: Vec<ContractId> = vec![ContractId::zeroed(), ContractId::new(ctx.rng.arr32()), ContractId::new(ctx.rng.arr32())];
        let pcs: Vec<u64> = vec![0, 1, 2, 3, ctx.rng.below(1 << 20)];
        let n = ctx.rng.range(3, 30);
        for _ in 0..n {
            let c = *ctx.rng.pick(&cs);
            let pcw = *ctx.rng.pick(&pcs);
            let (op, res) = match ctx.rng.below(10) {
                0 => { let b = ctx.rng.chance(1, 2); d.set_single_stepping(b); (format!("deb ss {}", b as u8), "ok".to_string()) }
                1 | 2 => { d.set_breakpoint(Breakpoint::new(c, pcw)); (format!("deb bp {} {}", hex(c.as_ref()), pcw * 4), "ok".into()) }
                3 => { d.remove_breakpoint(&Breakpoint::new(c, pcw)); (format!("deb rm {} {}", hex(c.as_ref()), pcw * 4), "ok".into()) }
                4 => { if ctx.rng.chance(1, 4) { d.clear_breakpoints(); ("deb clear".to_string(), "ok".into()) } else {
                    // the resume situation: the last reported state is an event at this very location (with or without a
                    // breakpoint on it, stepping or not); the evaluation follows as the next operation
                    if ctx.rng.chance(1, 2) { d.set_breakpoint(Breakpoint::new(c, pcw)); ctx.emit(&format!("deb bp {} {}", hex(c.as_ref()), pcw * 4), &format!("ok a={} s={} l={}", d.is_active() as u8, d.single_stepping() as u8, st_str(d.last_state()))); }
                    let s = ProgramState::RunProgram(DebugEval::Breakpoint(Breakpoint::new(c, pcw)));
                    d.set_last_state(s);
                    ctx.emit(&format!("deb last {}", st_str(&Some(s))), &format!("ok a={} s={} l={}", d.is_active() as u8, d.single_stepping() as u8, st_str(d.last_state())));
                    let e = d.eval_state(Some(&c), pcw * 4);
                    ctx.count("deb.resume-at-reported-location");
                    ctx.count(if matches!(e, DebugEval::Continue) { "deb.eval.continue" } else { "deb.eval.breakpoint" });
                    (format!("deb eval {} {}", hex(c.as_ref()), pcw * 4), ev_str(&e)) } }
                5 | 6 | 7 => {
                    let none = ctx.rng.chance(1, 4);
                    let e = d.eval_state(if none { None } else { Some(&c) }, pcw * 4);
                    ctx.count(if matches!(e, DebugEval::Continue) { "deb.eval.continue" } else { "deb.eval.breakpoint" });
                    (format!("deb eval {} {}", if none { "none".to_string() } else { hex(c.as_ref()) }, pcw * 4), ev_str(&e))
                }
                _ => {
                    let ev = if ctx.rng.chance(1, 5) { DebugEval::Continue } else { DebugEval::Breakpoint(Breakpoint::new(c, pcw)) };
                    let s = match ctx.rng.below(6) {
                        0 => ProgramState::Return(ctx.rng.word()),
                        1 => ProgramState::Revert(ctx.rng.word()),
                        2 => ProgramState::ReturnData(ctx.rng.arr32().into()),
                        3 => ProgramState::VerifyPredicate(ev),
                        _ => ProgramState::RunProgram(ev),
                    };
                    d.set_last_state(s);
                    (format!("deb last {}", st_str(&Some(s))), "ok".into())
                }
            };
            ctx.emit(&op, &format!("{res} a={} s={} l={}", d.is_active() as u8, d.single_stepping() as u8, st_str(d.last_state())));
            ctx.count("deb.op");
        }
    }
}

pub fn run(ctx: &mut Ctx) {
    debugger_api(ctx);
    // corpus: tight loops and an out-of-gas self loop
    {
        use fuel_asm::op;
        let progs: Vec<Vec<fuel_asm::Instruction>> = vec![
            vec![op::movi(0x20, 5), op::subi(0x20, 0x20, 1), op::jnzb(0x20, RegId::ZERO, 0), op::ret(RegId::ONE)],
            vec![op::ji(0)],
            vec![op::ret(RegId::ONE)],
            vec![op::movi(0x20, 3), op::log(0x20, 0, 0, 0), op::subi(0x20, 0x20, 1), op::jnzb(0x20, RegId::ZERO, 1), op::rvrt(0x20)],
        ];
        for (i, p) in progs.into_iter().enumerate() {
            let mut rng = crate::ctx::Rng(77 + i as u64);
            let bytes: Vec<u8> = p.into_iter().collect();
            let case = g::gen_case(&mut rng, g::Knobs::normal(), 2_000, Some(bytes));
            vm_case(ctx, &case, &format!("corpus{i}"));
        }
    }
    let n = ctx.n(60, 600);
    for i in 0..n {
        let gas = *ctx.rng.pick(&[5_000u64, 30_000, 100_000, 400_000]);
        let mut knobs = g::Knobs::normal();
        if ctx.rng.chance(1, 3) { knobs.fault_pm = 0; }
        let seed_before = ctx.rng.0;
        let case = match ctx.guard(|| { let mut r = crate::ctx::Rng(seed_before); let c = g::gen_case(&mut r, knobs, gas, None); (c, r) }) {
            Ok((c, r)) => { ctx.rng = r; c }
            Err(m) => { ctx.rng.next(); ctx.count("gen.failed"); ctx.note(&format!("generator panicked: {m}")); continue; }
        };
        vm_case(ctx, &case, &format!("case#{i} rng={seed_before:#x} gas={gas} fault_pm={}", knobs.fault_pm));
    }
}
