//! C24 (b) — generated scripts and contracts, single-stepped under a whole-memory write monitor.
//!
//! Each program is a script and two contracts (script → A → B nesting) made of valid blocks (stack grow/shrink/
//! regrow, register push/pop, heap allocation in every frame, stores/clears/copies/hashes into the frame's own
//! stack and heap through pointers derived from `$sp`/`$hp`, loads, logs, calls) and ends, in a random frame, with
//! at most one deliberately faulting WRITER (beyond `$sp`, the stale stack above `$sp`, below `$ssp` into the caller's
//! frame / stack, the code, the call frame, the transaction id and bytes, the gap between the regions, the caller's heap,
//! spanning both regions, beyond the memory size). The writer is any memory-writing opcode driven down a chosen path
//! (`plant_writer`): plain stores and copies, signature recovery with an unrecoverable and with a valid signature, hashes,
//! block hash, coinbase, code root, CCP/BLDD data and zero-fill tails, wide-integer results including the `$err = 1`
//! results, ECOP, storage reads of present and absent slots — so that the FAILURE / ALTERNATIVE write paths are aimed at
//! memory the context does not own, not only the success paths. The whole memory is diffed after a panic as well.
//!
//! After EVERY instruction the whole accessible memory is diffed against the snapshot taken before it.
//! Request line `step <opcode> <sspB> <spB> <hpB> <prevHpB> <fpB> <sspA> <spA> <balLo> <balHi> <txLo> <txHi> <csLo>
//! <csHi> <n> <s1> <e1> …` (changed ranges); the implementation-side answer is the verdict of the property's own
//! rule evaluated here in Rust (`ok` / `bad`): every changed byte is owned by the frame as it was before the
//! instruction, or is one of the VM's own writes (call frame + code for CALL, pushed registers for PSHL/PSHH,
//! loaded code for LDC, balance entries, transaction outputs). The Lean side answers with the verdict of its
//! per-opcode write classification (`Model/WriteClass.lean`, finer: e.g. ALU/loads/jumps must change nothing).
//! For every executed SB/SW/MCL/MCLI a `w` line (as in stream `c24`) compares the panic reason / success with the
//! model of the owner-checked write.
use crate::ctx::Ctx;
use crate::streams::c23::{spec_owned, Own};
use crate::streams::c24::*;
use fuel_vm::{
    consts::VM_MAX_RAM,
    fuel_asm::{op, wideint::{DivArgs, MathArgs, MathOp, MulArgs}, GMArgs, GTFArgs, Instruction, RegId},
};

#[derive(Clone, Copy, PartialEq, Debug)]
enum Fault { None, BeyondSp, BelowSsp, CallFrame, Code, TxBytes, Gap, CallerHeap, Span, Huge, EmptyAtSp, StaleStack, CallerStack, TxId }

struct Body { code: Vec<Instruction>, frame: u64, heap: u64, allocs: u64, external: bool, tro_done: bool, moved_ssp: bool }

const R_AMT: u8 = 0x14;
const R_PTR: u8 = 0x15;
const R_VAL: u8 = 0x16;
const R_LEN: u8 = 0x17;
const R_SRC: u8 = 0x18;
const R_SD: u8 = 0x19;   // script data: [id_A ‖ 16 zero ‖ id_B ‖ 16 zero ‖ 32 zero bytes]
const R_COIN: u8 = 0x1a;
const R_AST: u8 = 0x1b;  // 32 zero bytes = the base asset id
const R_X: u8 = 0x1c;
const R_Y: u8 = 0x1d;
const N_CONTRACTS: usize = 2;
// extra script data (offsets from the start of the script data): a valid secp256k1 signature ‖ its message ‖ a valid
// secp256r1 signature of the same message ‖ the id of a blob in storage ‖ 128 zero bytes (two points at infinity)
const X_SIGK1: u16 = (48 * N_CONTRACTS + 32) as u16;
const X_MSG: u16 = X_SIGK1 + 64;
const X_SIGR1: u16 = X_MSG + 32;
const X_BLOB: u16 = X_SIGR1 + 64;
const X_ZERO: u16 = X_BLOB + 32;
const BLOB_LEN: usize = 24;

fn extra_data() -> (Vec<u8>, Vec<u8>) {
    static CACHE: std::sync::OnceLock<(Vec<u8>, Vec<u8>)> = std::sync::OnceLock::new();
    CACHE.get_or_init(extra_data_compute).clone()
}

fn extra_data_compute() -> (Vec<u8>, Vec<u8>) {
    use fuel_crypto::{Message, SecretKey, Signature};
    use fuel_vm::fuel_tx::BlobIdExt;
    let msg = Message::new(b"c24b");
    let sk = SecretKey::try_from(&[0x11u8; 32][..]).expect("secret key");
    let sig_k1 = Signature::sign(&sk, &msg);
    let sk_r1 = p256::ecdsa::SigningKey::from_slice(&[0x22u8; 32]).expect("p256 key");
    let sig_r1 = fuel_crypto::secp256r1::sign_prehashed(&sk_r1, &msg).expect("p256 signature");
    let blob: Vec<u8> = (0..BLOB_LEN as u8).map(|i| 0xB0 | (i & 0xF)).collect();
    let blob_id = fuel_vm::fuel_types::BlobId::compute(&blob);
    let mut x = vec![];
    x.extend_from_slice(sig_k1.as_ref());
    x.extend_from_slice(msg.as_ref());
    x.extend_from_slice(sig_r1.as_ref());
    x.extend_from_slice(blob_id.as_ref());
    x.extend_from_slice(&[0u8; 128]);
    (x, blob)
}

fn ptr_stack(b: &mut Body, ctx: &mut Ctx, len: u64) -> bool {
    // pointer to `len` owned stack bytes: $sp - off, off in [len, frame]
    if b.frame < len.max(1) || b.frame > 4000 { return false; }
    let off = len.max(1) + ctx.rng.below(b.frame - len.max(1) + 1);
    let off = if ctx.rng.chance(1, 3) { b.frame } else if ctx.rng.chance(1, 3) { len.max(1) } else { off };
    b.code.push(op::subi(R_PTR, RegId::SP, off as u16));
    true
}
fn ptr_heap(b: &mut Body, ctx: &mut Ctx, len: u64) -> bool {
    if b.heap < len.max(1) || b.heap > 4000 { return false; }
    let off = ctx.rng.below(b.heap - len.max(1) + 1);
    let off = if ctx.rng.chance(1, 3) { 0 } else if ctx.rng.chance(1, 3) { b.heap - len.max(1) } else { off };
    b.code.push(op::addi(R_PTR, RegId::HP, off as u16));
    true
}
fn ptr_owned(b: &mut Body, ctx: &mut Ctx, len: u64) -> bool {
    if ctx.rng.chance(1, 2) { ptr_stack(b, ctx, len) || ptr_heap(b, ctx, len) } else { ptr_heap(b, ctx, len) || ptr_stack(b, ctx, len) }
}

/// one valid block
fn block(b: &mut Body, ctx: &mut Ctx, callee: Option<(usize, usize, u64)>) {
    match ctx.rng.below(37) {
        0 | 1 => { let k = *ctx.rng.pick(&[8u64, 16, 24, 64, 200, 256]); if b.frame + k < 3000 { b.code.push(op::cfei(k as u32)); b.frame += k; } }
        2 => { if b.frame >= 8 { let k = 8 * (1 + ctx.rng.below(b.frame / 8)); b.code.push(op::cfsi(k as u32)); b.frame -= k; } }
        3 => {
            // shrink and regrow through registers
            if b.frame >= 16 { let k = 8 * (1 + ctx.rng.below(b.frame / 8)); b.code.push(op::movi(R_AMT, k as u32)); b.code.push(op::cfs(R_AMT)); b.code.push(op::cfe(R_AMT)); }
        }
        4 => {
            let mask = (ctx.rng.next() as u32) & 0x00ff_ffff & if ctx.rng.chance(1, 2) { 0xff } else { 0xffffff };
            let c = mask.count_ones() as u64;
            if b.frame + 8 * c < 3000 {
                if ctx.rng.chance(1, 2) { b.code.push(op::pshl(mask)); } else { b.code.push(op::pshh(mask)); }
                b.frame += 8 * c;
                if ctx.rng.chance(1, 2) {
                    b.code.push(op::popl(mask & 0xffff00));
                    b.frame -= 8 * (mask & 0xffff00).count_ones() as u64;
                    // the pop scrambles the program registers: re-derive the long-lived pointers
                    b.code.push(op::gtf_args(R_SD, 0x00, GTFArgs::ScriptData));
                    b.code.push(op::addi(R_AST, R_SD, (48 * N_CONTRACTS) as u16));
                }
            }
        }
        5 | 6 => { let n = *ctx.rng.pick(&[0u64, 1, 8, 24, 32, 100, 256]); if b.heap + n < 3000 { b.code.push(op::movi(R_AMT, n as u32)); b.code.push(op::aloc(R_AMT)); b.heap += n; b.allocs += n; } }
        7 | 8 => { if ptr_owned(b, ctx, 8) { b.code.push(op::movi(R_VAL, (ctx.rng.next() as u32) & 0x3ffff | 1)); b.code.push(op::sw(R_PTR, R_VAL, 0)); } }
        9 => { if ptr_owned(b, ctx, 1) { b.code.push(op::movi(R_VAL, (ctx.rng.next() as u32) & 0xff | 1)); b.code.push(op::sb(R_PTR, R_VAL, 0)); } }
        10 => { let l = *ctx.rng.pick(&[0u64, 1, 8, 9, 32, 64]); if ptr_owned(b, ctx, l) { b.code.push(op::mcli(R_PTR, l as u32)); } }
        11 => { let l = *ctx.rng.pick(&[0u64, 1, 8, 31, 40]); if ptr_owned(b, ctx, l) { b.code.push(op::movi(R_LEN, l as u32)); b.code.push(op::mcl(R_PTR, R_LEN)); } }
        12 => {
            // copy from the transaction bytes / the code into owned memory
            let l = *ctx.rng.pick(&[1u64, 8, 32, 40]);
            if ptr_owned(b, ctx, l) {
                if ctx.rng.chance(1, 2) { b.code.push(op::move_(R_SRC, RegId::IS)); } else { b.code.push(op::movi(R_SRC, 32 + ctx.rng.below(64) as u32)); }
                if ctx.rng.chance(1, 2) { b.code.push(op::mcpi(R_PTR, R_SRC, l as u16)); } else { b.code.push(op::movi(R_LEN, l as u32)); b.code.push(op::mcp(R_PTR, R_SRC, R_LEN)); }
            }
        }
        13 => {
            if ptr_owned(b, ctx, 32) {
                b.code.push(op::move_(R_SRC, RegId::IS));
                b.code.push(op::movi(R_LEN, *ctx.rng.pick(&[0u32, 4, 20])));
                if ctx.rng.chance(1, 2) { b.code.push(op::s256(R_PTR, R_SRC, R_LEN)); } else { b.code.push(op::k256(R_PTR, R_SRC, R_LEN)); }
            }
        }
        14 => {
            // loads, comparison, logging: no memory change
            b.code.push(op::lw(R_VAL, RegId::IS, 0));
            b.code.push(op::lb(R_VAL, RegId::ZERO, 40));
            b.code.push(op::movi(R_LEN, 8));
            b.code.push(op::meq(R_VAL, RegId::IS, RegId::IS, R_LEN));
            b.code.push(op::log(R_VAL, RegId::SP, RegId::HP, RegId::FP));
        }
        15 => {
            b.code.push(op::add(R_VAL, RegId::SP, RegId::ONE));
            b.code.push(op::sub(R_VAL, RegId::HP, RegId::ONE));
            b.code.push(op::move_(R_VAL, RegId::FP));
            b.code.push(op::noop());
        }
        16 => { if ptr_owned(b, ctx, 32) { b.code.push(op::bhsh(R_PTR, RegId::ZERO)); } }
        17 | 18 | 19 => {
            if let Some((k, n, allocs)) = callee {
                let mut seq = call_seq(k, n);
                if b.external && ctx.rng.chance(1, 2) {
                    // forward coins from the script's free balance: the VM updates the balance entry in memory
                    let call = seq.pop().unwrap();
                    let _ = call;
                    seq.push(op::movi(R_COIN, 1 + ctx.rng.below(9) as u32));
                    seq.push(op::call(0x11, R_COIN, 0x12, 0x13));
                }
                b.code.extend(seq);
                b.heap += allocs;
                b.allocs += allocs;
            }
        }
        20 => { if ptr_owned(b, ctx, 32) { b.code.push(op::cb(R_PTR)); } }
        21 => { if ptr_owned(b, ctx, 32) { b.code.push(op::addi(R_SRC, R_SD, 48 * ctx.rng.below(2) as u16)); b.code.push(op::croo(R_PTR, R_SRC)); } }
        22 => {
            let l = *ctx.rng.pick(&[0u64, 4, 8, 40]);
            if ptr_owned(b, ctx, l) {
                b.code.push(op::addi(R_SRC, R_SD, 48 * ctx.rng.below(2) as u16));
                b.code.push(op::movi(R_LEN, l as u32));
                b.code.push(op::ccp(R_PTR, R_SRC, RegId::ZERO, R_LEN));
            }
        }
        23 => {
            b.code.push(op::addi(R_SRC, R_SD, 48 * ctx.rng.below(2) as u16));
            b.code.push(op::csiz(R_VAL, R_SRC));
            b.code.push(op::bal(R_VAL, R_AST, R_SRC));
            b.code.push(op::bhei(R_VAL));
            b.code.push(op::time(R_VAL, RegId::ZERO));
            b.code.push(op::gm_args(R_VAL, GMArgs::GetChainId));
            b.code.push(op::gtf_args(R_VAL, 0x00, GTFArgs::ScriptLength));
        }
        24 => {
            // wide integers on zero operands (no overflow, no division): destination must be owned
            let quad = ctx.rng.chance(1, 2);
            if ptr_owned(b, ctx, if quad { 32 } else { 16 }) {
                let ma = MathArgs { op: *ctx.rng.pick(&[MathOp::ADD, MathOp::SUB, MathOp::XOR, MathOp::OR, MathOp::AND]), indirect_rhs: true };
                let mu = MulArgs { indirect_lhs: true, indirect_rhs: true };
                match (quad, ctx.rng.chance(1, 2)) {
                    (true, true) => b.code.push(op::wqop_args(R_PTR, R_AST, R_AST, ma)),
                    (true, false) => b.code.push(op::wqml_args(R_PTR, R_AST, R_AST, mu)),
                    (false, true) => b.code.push(op::wdop_args(R_PTR, R_AST, R_AST, ma)),
                    (false, false) => b.code.push(op::wdml_args(R_PTR, R_AST, R_AST, mu)),
                }
            }
        }
        25 => {
            // signature recovery on garbage: fails, sets $err and clears the (owned) destination
            if ptr_owned(b, ctx, 64) { if ctx.rng.chance(1, 2) { b.code.push(op::eck1(R_PTR, R_SD, R_AST)); } else { b.code.push(op::ecr1(R_PTR, R_SD, R_AST)); } }
            b.code.push(op::movi(R_LEN, 8));
            b.code.push(op::ed19(R_AST, R_SD, R_AST, R_LEN));
        }
        26 => {
            // contract storage (internal context only): read a slot into owned memory, write slots, clear
            if !b.external && ptr_owned(b, ctx, 32) {
                b.code.push(op::srwq(R_PTR, R_VAL, R_SD, RegId::ONE));
                b.code.push(op::swwq(R_SD, R_VAL, R_AST, RegId::ONE));
                b.code.push(op::srw(R_VAL, R_LEN, R_SD, 0));
                b.code.push(op::sww(R_SD, R_VAL, RegId::ONE));
                b.code.push(op::srwq(R_PTR, R_VAL, R_SD, RegId::ONE));
                b.code.push(op::scwq(R_SD, R_VAL, RegId::ONE));
                b.code.push(op::mint(RegId::ONE, R_AST));
                b.code.push(op::burn(RegId::ONE, R_AST));
            }
        }
        27 => {
            // LDC: only with an unallocated stack frame ($ssp == $sp)
            if b.frame == 0 && !b.moved_ssp {
                b.code.push(op::addi(R_SRC, R_SD, 48 * ctx.rng.below(2) as u16));
                b.code.push(op::movi(R_LEN, *ctx.rng.pick(&[4u32, 8, 12, 24])));
                b.code.push(op::ldc(R_SRC, RegId::ZERO, R_LEN, 0));
                b.moved_ssp = true;
            }
        }
        28 | 29 => {
            if b.external {
                b.code.push(op::movi(R_COIN, 1 + ctx.rng.below(5) as u32));
                b.code.push(op::addi(R_SRC, R_SD, 48 * ctx.rng.below(2) as u16));
                b.code.push(op::tr(R_SRC, R_COIN, R_AST));
            }
        }
        30 => {
            if b.external && !b.tro_done {
                b.code.push(op::movi(R_COIN, 2));
                b.code.push(op::movi(R_VAL, N_CONTRACTS as u32));
                b.code.push(op::tro(R_SD, R_VAL, R_COIN, R_AST));
                b.tro_done = true;
            }
        }
        31 => {
            if b.external {
                b.code.push(op::movi(R_COIN, ctx.rng.below(3) as u32));
                b.code.push(op::movi(R_LEN, *ctx.rng.pick(&[0u32, 8, 32])));
                b.code.push(op::smo(R_SD, R_SD, R_LEN, R_COIN));
            }
        }
        32 => { b.code.push(op::movi(R_LEN, 16)); b.code.push(op::logd(RegId::ZERO, RegId::ONE, R_SD, R_LEN)); }
        // any memory-writing opcode (success, failure and zero-fill paths) on 64 owned bytes
        33 | 34 | 35 => { if ptr_owned(b, ctx, 64) { plant_writer(b, ctx, true); } }
        _ => {}
    }
}

/// one instruction (preceded by its operand set-up, which leaves `R_PTR` alone) that WRITES memory at `R_PTR`: the plain stores and
/// copies, and every opcode that writes on a failure / alternative path as well as on success. Returns nothing; the run loop
/// recognises the instruction and derives (destination, length) and the specified outcome itself.
fn plant_writer(b: &mut Body, ctx: &mut Ctx, valid: bool) {
    let internal = !b.external;
    let k = ctx.rng.below(if internal { 34 } else { 28 });
    ctx.count(&format!("planted.w{k}"));
    match k {
        0 => { b.code.push(op::movi(R_VAL, 0xAB)); b.code.push(op::sw(R_PTR, R_VAL, 0)); }
        1 => { b.code.push(op::movi(R_VAL, 0xAB)); b.code.push(op::sb(R_PTR, R_VAL, 0)); }
        2 => b.code.push(op::mcli(R_PTR, 8)),
        3 => { b.code.push(op::movi(R_LEN, 8)); b.code.push(op::mcl(R_PTR, R_LEN)); }
        4 => {
            // copy from owned memory (when the frame has 8 bytes of stack) or from the code into the target
            // (in a valid block always from the code, so that source and destination cannot overlap)
            if b.frame >= 8 && !valid { b.code.push(op::subi(R_SRC, RegId::SP, 8)); } else { b.code.push(op::move_(R_SRC, RegId::IS)); }
            b.code.push(op::mcpi(R_PTR, R_SRC, 8));
        }
        5 => {
            if b.frame >= 8 && !valid { b.code.push(op::subi(R_SRC, RegId::SP, 8)); } else { b.code.push(op::move_(R_SRC, RegId::IS)); }
            b.code.push(op::movi(R_LEN, 8));
            b.code.push(op::mcp(R_PTR, R_SRC, R_LEN));
        }
        6 => { b.code.push(op::movi(R_VAL, 0xABCD)); b.code.push(op::sqw(R_PTR, R_VAL, 0)); }
        7 => { b.code.push(op::movi(R_VAL, 0x3ABCD)); b.code.push(op::shw(R_PTR, R_VAL, 0)); }
        // signature recovery: FAILURE path (garbage signature: 64 zero bytes are written, $err = 1) …
        8 => b.code.push(op::eck1(R_PTR, R_SD, R_AST)),
        9 => b.code.push(op::ecr1(R_PTR, R_SD, R_AST)),
        // … and SUCCESS path (the recovered key is written)
        10 => { b.code.push(op::addi(R_SRC, R_SD, X_SIGK1)); b.code.push(op::addi(R_X, R_SD, X_MSG)); b.code.push(op::eck1(R_PTR, R_SRC, R_X)); }
        11 => { b.code.push(op::addi(R_SRC, R_SD, X_SIGR1)); b.code.push(op::addi(R_X, R_SD, X_MSG)); b.code.push(op::ecr1(R_PTR, R_SRC, R_X)); }
        12 | 13 => {
            b.code.push(op::move_(R_SRC, RegId::IS));
            b.code.push(op::movi(R_LEN, *ctx.rng.pick(&[0u32, 4, 20])));
            if k == 12 { b.code.push(op::s256(R_PTR, R_SRC, R_LEN)); } else { b.code.push(op::k256(R_PTR, R_SRC, R_LEN)); }
        }
        // block hash: height 0 and a height in the future (zero hash)
        14 => { if ctx.rng.chance(1, 2) { b.code.push(op::bhsh(R_PTR, RegId::ZERO)); } else { b.code.push(op::movi(R_X, 200_000)); b.code.push(op::bhsh(R_PTR, R_X)); } }
        15 => b.code.push(op::cb(R_PTR)),
        16 => { b.code.push(op::addi(R_SRC, R_SD, 48 * ctx.rng.below(2) as u16)); b.code.push(op::croo(R_PTR, R_SRC)); }
        // code copy: bytes of the code, and the ZERO-FILL tail (offset past the end of the code)
        17 | 18 => {
            b.code.push(op::addi(R_SRC, R_SD, 48 * ctx.rng.below(2) as u16));
            b.code.push(op::movi(R_LEN, *ctx.rng.pick(&[8u32, 40])));
            if k == 17 { b.code.push(op::ccp(R_PTR, R_SRC, RegId::ZERO, R_LEN)); } else { b.code.push(op::movi(R_X, 0x3ffff)); b.code.push(op::ccp(R_PTR, R_SRC, R_X, R_LEN)); }
        }
        // blob data: bytes of the blob, the part past its end (zero fill), and a wholly zero-filled read
        19 | 20 => {
            b.code.push(op::addi(R_SRC, R_SD, X_BLOB));
            b.code.push(op::movi(R_LEN, *ctx.rng.pick(&[8u32, 32])));
            if k == 19 { b.code.push(op::movi(R_X, *ctx.rng.pick(&[0u32, 20]))); } else { b.code.push(op::movi(R_X, 0x3ffff)); }
            b.code.push(op::bldd(R_PTR, R_SRC, R_X, R_LEN));
        }
        // wide integers: ordinary result, and the `$err = 1` results (x / 0, x mod 0 under UNSAFEMATH), and the divisor-0 form of muldiv
        21 => {
            let ma = MathArgs { op: *ctx.rng.pick(&[MathOp::ADD, MathOp::SUB, MathOp::XOR, MathOp::NOT]), indirect_rhs: true };
            if ctx.rng.chance(1, 2) { b.code.push(op::wqop_args(R_PTR, R_AST, R_AST, ma)); } else { b.code.push(op::wdml_args(R_PTR, R_AST, R_AST, MulArgs { indirect_lhs: true, indirect_rhs: true })); }
        }
        22 | 23 | 24 => {
            b.code.push(op::flag(RegId::ONE));      // F_UNSAFEMATH
            match k {
                22 => b.code.push(op::wddv_args(R_PTR, R_AST, R_AST, DivArgs { indirect_rhs: true })),
                23 => b.code.push(op::wqam(R_PTR, R_AST, R_AST, R_AST)),
                _ => b.code.push(op::wdmm(R_PTR, R_AST, R_AST, R_AST)),
            }
            b.code.push(op::flag(RegId::ZERO));
        }
        25 => b.code.push(op::wqmd(R_PTR, R_AST, R_AST, R_AST)),
        // elliptic-curve addition of two points at infinity
        26 | 27 => { b.code.push(op::addi(R_X, R_SD, X_ZERO)); b.code.push(op::ecop(R_PTR, RegId::ZERO, RegId::ZERO, R_X)); }
        // contract storage (internal context): quad-word read of an ABSENT slot (zero fill) and of a PRESENT slot
        28 => { b.code.push(op::addi(R_X, R_SD, X_MSG)); b.code.push(op::srwq(R_PTR, R_VAL, R_X, RegId::ONE)); }
        29 => { b.code.push(op::swwq(R_SD, R_VAL, R_AST, RegId::ONE)); b.code.push(op::srwq(R_PTR, R_VAL, R_SD, RegId::ONE)); }
        // dynamic storage read of a PRESENT slot (register and immediate length); of an ABSENT slot nothing is written
        30 => { b.code.push(op::swwq(R_SD, R_VAL, R_AST, RegId::ONE)); b.code.push(op::movi(R_LEN, 32)); b.code.push(op::srdd(R_PTR, R_SD, RegId::ZERO, R_LEN)); }
        31 => { b.code.push(op::swwq(R_SD, R_VAL, R_AST, RegId::ONE)); b.code.push(op::srdi(R_PTR, R_SD, RegId::ZERO, 32)); }
        32 => { b.code.push(op::addi(R_X, R_SD, X_MSG)); b.code.push(op::movi(R_LEN, 32)); b.code.push(op::srdd(R_PTR, R_X, RegId::ZERO, R_LEN)); }
        _ => { b.code.push(op::addi(R_X, R_SD, X_SIGK1)); let _ = R_Y; b.code.push(op::srwq(R_PTR, R_VAL, R_X, RegId::ONE)); }
    }
}

fn fault(b: &mut Body, ctx: &mut Ctx, f: Fault, in_call: bool) {
    let store = |b: &mut Body, ctx: &mut Ctx| plant_writer(b, ctx, false);
    match f {
        Fault::None => {}
        Fault::BeyondSp => { b.code.push(op::subi(R_PTR, RegId::SP, *ctx.rng.pick(&[0u16, 1, 7]).min(&(b.frame as u16)))); store(b, ctx); }
        Fault::BelowSsp => { b.code.push(op::subi(R_PTR, RegId::SSP, *ctx.rng.pick(&[1u16, 8, 9]))); store(b, ctx); }
        Fault::CallFrame => { if in_call { b.code.push(op::addi(R_PTR, RegId::FP, *ctx.rng.pick(&[0u16, 32, 64, 120, 576]))); } else { b.code.push(op::movi(R_PTR, 0)); } store(b, ctx); }
        Fault::Code => { b.code.push(op::move_(R_PTR, RegId::IS)); store(b, ctx); }
        Fault::TxBytes => { b.code.push(op::movi(R_PTR, *ctx.rng.pick(&[0u32, 32, 64, 400, 1000]))); store(b, ctx); }
        Fault::Gap => { b.code.push(op::subi(R_PTR, RegId::HP, *ctx.rng.pick(&[8u16, 9, 64]))); store(b, ctx); }
        Fault::CallerHeap => { b.code.push(op::addi(R_PTR, RegId::HP, b.heap as u16)); store(b, ctx); }
        Fault::Span => { b.code.push(op::subi(R_PTR, RegId::HP, 4)); b.code.push(op::mcli(R_PTR, 8)); }
        Fault::Huge => { b.code.push(op::not(R_PTR, RegId::ZERO)); b.code.push(op::subi(R_PTR, R_PTR, *ctx.rng.pick(&[0u16, 7, 8, 100]))); store(b, ctx); }
        Fault::EmptyAtSp => { b.code.push(op::move_(R_PTR, RegId::SP)); b.code.push(op::mcli(R_PTR, 0)); }
        // allocated but no longer owned: the stack above `$sp` after a shrink
        Fault::StaleStack => { b.code.push(op::cfei(96)); b.code.push(op::cfsi(96)); b.code.push(op::addi(R_PTR, RegId::SP, *ctx.rng.pick(&[0u16, 8, 24]))); store(b, ctx); }
        // the caller's stack and saved registers, from inside a call: just below the own call frame
        Fault::CallerStack => { if in_call { b.code.push(op::subi(R_PTR, RegId::FP, *ctx.rng.pick(&[64u16, 72, 128, 200]))); } else { b.code.push(op::movi(R_PTR, 344)); } store(b, ctx); }
        // the transaction id at address 0 and the bytes right after it
        Fault::TxId => { b.code.push(op::movi(R_PTR, *ctx.rng.pick(&[0u32, 1, 16, 31]))); store(b, ctx); }
    }
}

fn body(ctx: &mut Ctx, nblocks: u64, callee: Option<(usize, usize, u64)>, f: Fault, in_call: bool, fault_pos: u64) -> Body {
    let mut b = Body { code: vec![], frame: 0, heap: 0, allocs: 0, external: !in_call, tro_done: false, moved_ssp: false };
    b.code.push(op::gtf_args(R_SD, 0x00, GTFArgs::ScriptData));
    b.code.push(op::addi(R_AST, R_SD, (48 * N_CONTRACTS) as u16));
    for i in 0..nblocks {
        if i == fault_pos { fault(&mut b, ctx, f, in_call); }
        block(&mut b, ctx, callee);
    }
    if fault_pos >= nblocks { fault(&mut b, ctx, f, in_call); }
    b.code.push(op::ret(RegId::ONE));
    b
}

const FAULTS: &[Fault] = &[Fault::BeyondSp, Fault::BelowSsp, Fault::CallFrame, Fault::Code, Fault::TxBytes, Fault::Gap, Fault::CallerHeap, Fault::Span, Fault::Huge, Fault::EmptyAtSp,
    Fault::StaleStack, Fault::CallerStack, Fault::TxId, Fault::StaleStack, Fault::CallerStack, Fault::Code, Fault::CallerHeap, Fault::BelowSsp];

fn mnemonic(opc: u8) -> &'static str {
    crate::gen::instr_gen::TABLE.iter().find(|r| r.0 == opc).map(|r| r.1).unwrap_or("?")
}

fn run_program(ctx: &mut Ctx, idx: u64) {
    // which frame faults (0 script, 1 A, 2 B, 3 nobody)
    let who = ctx.rng.below(4);
    let fk = |ctx: &mut Ctx, me: u64| if who == me { *ctx.rng.pick(FAULTS) } else { Fault::None };
    let nb = 4 + ctx.rng.below(10);
    let f2 = fk(ctx, 2);
    let pos2 = ctx.rng.below(nb + 1);
    let b_body = body(ctx, nb, None, f2, true, pos2);
    let nb = 4 + ctx.rng.below(10);
    let f1 = fk(ctx, 1);
    let pos1 = ctx.rng.below(nb + 1);
    let a_body = body(ctx, nb, Some((1, 2, b_body.allocs)), f1, true, pos1);
    let nb = 4 + ctx.rng.below(12);
    let f0 = fk(ctx, 0);
    let pos0 = ctx.rng.below(nb + 1);
    let s_body = body(ctx, nb, Some((0, 2, a_body.allocs)), f0, false, pos0);
    let (extra, blob) = extra_data();
    let prog = Prog { script: s_body.code.clone(), contracts: vec![a_body.code.clone(), b_body.code.clone()], extra_data: extra, blob: Some(blob) };
    let mut built = build(ctx.seed.wrapping_mul(1_000_003).wrapping_add(idx), &prog);
    let replay = || format!("program {idx}: faults script={f0:?}@{pos0} A={f1:?}@{pos1} B={f2:?}@{pos2}; script={:?}; A={:?}; B={:?}",
        s_body.code.iter().map(|i| u32::from(*i)).collect::<Vec<_>>(), a_body.code.iter().map(|i| u32::from(*i)).collect::<Vec<_>>(), b_body.code.iter().map(|i| u32::from(*i)).collect::<Vec<_>>());
    let mut st = start(&mut built);
    let (bal_lo, bal_hi, tx_lo, tx_hi) = (built.bal_lo, built.bal_hi, built.tx_lo, built.tx_hi);
    let vm = &mut built.vm;
    let mut steps = 0u64;
    let mut maxdepth = 0;
    loop {
        if let StepEnd::Finished(_) = st { break; }
        steps += 1;
        if steps > 3000 { ctx.oracle_fail("program-too-long", &replay(), "more than 3000 steps"); break; }
        let regs: Vec<u64> = vm.registers().to_vec();
        let Some(raw) = current_instr(vm) else { break };
        let opc = raw[0];
        let (ssp_b, sp_b, hp_b, fp_b) = (regs[R_SSP], regs[R_SP], regs[R_HP], regs[R_FP]);
        let prev_b = prev_hp_of(vm);
        let before = snapshot(vm, hp_b);
        let depth = if fp_b == 0 { 0 } else {
            let b: [u8; 8] = vm.memory().read_bytes(fp_b + FRAME_REGS + 8 * R_FP as u64).unwrap_or([0; 8]);
            if u64::from_be_bytes(b) == 0 { 1 } else { 2 }
        };
        st = step(vm);
        let finished = matches!(st, StepEnd::Finished(_));
        let outcome = match &st { StepEnd::Finished(Some(r)) => r.clone(), _ => "ok".to_string() };
        let name = mnemonic(opc);
        ctx.count(&format!("op.{name}"));
        maxdepth = maxdepth.max(depth);
        // owner-checked store instructions: outcome against the model of `write`
        let rg = |r: RegId| regs[r.to_u8() as usize];
        // every instruction that writes `len` bytes at `addr` through the owner-checked `write`/`write_bytes` (its source operands
        // are readable in all generated programs, so the destination check decides the outcome)
        let store = match Instruction::try_from(raw) {
            Ok(Instruction::SW(i)) => { let (a, _, imm) = i.unpack(); Some((rg(a) as u128 + 8 * imm.to_u16() as u128, 8u64)) }
            Ok(Instruction::SHW(i)) => { let (a, _, imm) = i.unpack(); Some((rg(a) as u128 + 4 * imm.to_u16() as u128, 4)) }
            Ok(Instruction::SQW(i)) => { let (a, _, imm) = i.unpack(); Some((rg(a) as u128 + 2 * imm.to_u16() as u128, 2)) }
            Ok(Instruction::SB(i)) => { let (a, _, imm) = i.unpack(); Some((rg(a) as u128 + imm.to_u16() as u128, 1)) }
            Ok(Instruction::MCL(i)) => { let (a, b) = i.unpack(); Some((rg(a) as u128, rg(b))) }
            Ok(Instruction::MCLI(i)) => { let (a, imm) = i.unpack(); Some((rg(a) as u128, imm.to_u32() as u64)) }
            Ok(Instruction::ECK1(i)) => { let (a, _, _) = i.unpack(); Some((rg(a) as u128, 64)) }
            Ok(Instruction::ECR1(i)) => { let (a, _, _) = i.unpack(); Some((rg(a) as u128, 64)) }
            Ok(Instruction::S256(i)) => { let (a, _, _) = i.unpack(); Some((rg(a) as u128, 32)) }
            Ok(Instruction::K256(i)) => { let (a, _, _) = i.unpack(); Some((rg(a) as u128, 32)) }
            Ok(Instruction::BHSH(i)) => { let (a, _) = i.unpack(); Some((rg(a) as u128, 32)) }
            Ok(Instruction::CB(i)) => { let a = i.unpack(); Some((rg(a) as u128, 32)) }
            Ok(Instruction::CROO(i)) => { let (a, _) = i.unpack(); Some((rg(a) as u128, 32)) }
            Ok(Instruction::CCP(i)) => { let (a, _, _, d) = i.unpack(); Some((rg(a) as u128, rg(d))) }
            Ok(Instruction::BLDD(i)) => { let (a, _, _, d) = i.unpack(); Some((rg(a) as u128, rg(d))) }
            Ok(Instruction::ECOP(i)) => { let (a, _, _, _) = i.unpack(); Some((rg(a) as u128, 64)) }
            Ok(Instruction::WDOP(i)) => { let (a, _, _, _) = i.unpack(); Some((rg(a) as u128, 16)) }
            Ok(Instruction::WDML(i)) => { let (a, _, _, _) = i.unpack(); Some((rg(a) as u128, 16)) }
            Ok(Instruction::WDDV(i)) => { let (a, _, _, _) = i.unpack(); Some((rg(a) as u128, 16)) }
            Ok(Instruction::WDMD(i)) => { let (a, _, _, _) = i.unpack(); Some((rg(a) as u128, 16)) }
            Ok(Instruction::WDAM(i)) => { let (a, _, _, _) = i.unpack(); Some((rg(a) as u128, 16)) }
            Ok(Instruction::WDMM(i)) => { let (a, _, _, _) = i.unpack(); Some((rg(a) as u128, 16)) }
            Ok(Instruction::WQOP(i)) => { let (a, _, _, _) = i.unpack(); Some((rg(a) as u128, 32)) }
            Ok(Instruction::WQML(i)) => { let (a, _, _, _) = i.unpack(); Some((rg(a) as u128, 32)) }
            Ok(Instruction::WQDV(i)) => { let (a, _, _, _) = i.unpack(); Some((rg(a) as u128, 32)) }
            Ok(Instruction::WQMD(i)) => { let (a, _, _, _) = i.unpack(); Some((rg(a) as u128, 32)) }
            Ok(Instruction::WQAM(i)) => { let (a, _, _, _) = i.unpack(); Some((rg(a) as u128, 32)) }
            Ok(Instruction::WQMM(i)) => { let (a, _, _, _) = i.unpack(); Some((rg(a) as u128, 32)) }
            Ok(Instruction::SRWQ(i)) => { let (a, _, _, d) = i.unpack(); Some((rg(a) as u128, 32 * rg(d))) }
            Ok(Instruction::SRDD(i)) => { let (a, _, _, d) = i.unpack(); Some((rg(a) as u128, rg(d))) }
            Ok(Instruction::SRDI(i)) => { let (a, _, _, d) = i.unpack(); Some((rg(a) as u128, d.to_u8() as u64)) }
            _ => None,
        };
        // SRDD / SRDI of an absent slot write nothing (`$err = 1`) and therefore make no destination check
        let absent_dynamic = matches!(name, "SRDD" | "SRDI") && outcome == "ok" && vm.registers()[8] == 1;
        // SRWQ over several slots checks 32 bytes at a time: the first unwritable slot decides
        let store = if name == "SRWQ" { store.map(|(a, l)| if l > 32 { (a, 32u64) } else { (a, l) }) } else { store };
        let store = if absent_dynamic { ctx.count("store.absent-dynamic-read"); None } else { store };
        if let Some((addr, len)) = store {
            let sl = before.0.len() as u64;
            let line = format!("w {sl} {hp_b} {ssp_b} {sp_b} {hp_b} {prev_b} {addr} {len}");
            let own = Own { ssp: ssp_b, sp: sp_b, hp: hp_b, prev_hp: prev_b };
            let m = VM_MAX_RAM as u128;
            let exp = if addr > m || len as u128 > m || addr + len as u128 > m { "MemoryOverflow" }
                else if !((addr as u64 + len) <= sl || addr as u64 >= hp_b) { "UninitalizedMemoryAccess" }
                else if !spec_owned(&own, addr as u64, addr as u64 + len) { "MemoryOwnership" } else { "ok" };
            if outcome != exp { ctx.oracle_fail("program-store-outcome", &format!("{}; at step {steps}: {name} {line}", replay()), &format!("implementation {outcome}, specification {exp}")); }
            ctx.count(&format!("store.d{depth}.{outcome}"));
            ctx.count(&format!("writer.{name}.{outcome}"));
            ctx.emit(&line, &outcome);
        }
        let copy = match Instruction::try_from(raw) {
            Ok(Instruction::MCP(i)) => { let (a, b2, c) = i.unpack(); Some((regs[a.to_u8() as usize], regs[b2.to_u8() as usize], regs[c.to_u8() as usize])) }
            Ok(Instruction::MCPI(i)) => { let (a, b2, imm) = i.unpack(); Some((regs[a.to_u8() as usize], regs[b2.to_u8() as usize], imm.to_u16() as u64)) }
            _ => None,
        };
        if let Some((dst, src, len)) = copy {
            let sl = before.0.len() as u64;
            let line = format!("mc {sl} {hp_b} {ssp_b} {sp_b} {hp_b} {prev_b} {dst} {src} {len}");
            let own = Own { ssp: ssp_b, sp: sp_b, hp: hp_b, prev_hp: prev_b };
            let m = VM_MAX_RAM as u128;
            let vf = |a: u64| -> Option<&'static str> {
                if a as u128 > m || len as u128 > m || a as u128 + len as u128 > m { Some("MemoryOverflow") }
                else if !((a + len) <= sl || a >= hp_b) { Some("UninitalizedMemoryAccess") } else { None }
            };
            let exp = if let Some(e) = vf(dst) { e } else if let Some(e) = vf(src) { e }
                else if len > 0 && dst < src + len && src < dst + len { "MemoryWriteOverlap" }
                else if !spec_owned(&own, dst, dst + len) { "MemoryOwnership" } else { "ok" };
            if outcome != exp { ctx.oracle_fail("program-copy-outcome", &format!("{}; at step {steps}: {name} {line}", replay()), &format!("implementation {outcome}, specification {exp}")); }
            ctx.count(&format!("copy.d{depth}.{outcome}"));
            ctx.emit(&line, &outcome);
        }
        let store = store.map(|_| ()).or(copy.map(|_| ()));
        if finished {
            if let StepEnd::Finished(Some(r)) = &st {
                ctx.count(&format!("end.panic.{r}"));
                // every generated block is valid: only a planted faulting store (checked above against the
                // specification of the owner-checked write) may panic
                if store.is_none() {
                    ctx.oracle_fail(&format!("unexpected-panic-{name}"), &format!("{}; at step {steps}", replay()),
                        &format!("{name} panicked with {r} (ssp={ssp_b} sp={sp_b} hp={hp_b} prev_hp={prev_b} fp={fp_b})"));
                }
                // a panicking instruction must not have written anything: diff the whole memory, leaving out what the VM itself
                // rewrites when it finalises the reverted transaction (balance table and transaction bytes)
                let after = snapshot(vm, hp_b.min(vm.registers()[R_HP]));
                for (s, e) in diff(&before, &after) {
                    if !(bal_lo <= s && e <= tx_hi) {
                        ctx.oracle_fail(&format!("panic-wrote-memory-{name}"), &format!("{}; at step {steps}", replay()),
                            &format!("{name} panicked with {r} but [{s},{e}) changed (ssp={ssp_b} sp={sp_b} hp={hp_b} prev_hp={prev_b} fp={fp_b})"));
                    }
                }
                ctx.count("panic.memory-diffed");
            } else { ctx.count("end.return"); }
            break; // the VM finalises outputs after the last instruction; not an instruction's write
        }
        let ra: Vec<u64> = vm.registers().to_vec();
        let after = snapshot(vm, ra[R_HP]);
        let ch = diff(&before, &after);
        let (cs_lo, cs_hi) = if fp_b == 0 { (0, 0) } else { (fp_b + FRAME_CODE_SIZE, fp_b + FRAME_CODE_SIZE + 8) };
        // the property's own rule
        let own = Own { ssp: ssp_b, sp: sp_b, hp: hp_b, prev_hp: prev_b };
        let inr = |lo: u64, hi: u64, s: u64, e: u64| lo <= s && e <= hi;
        let mut verdict = "ok";
        for (s, e) in &ch {
            let ok = spec_owned(&own, *s, *e)
                || (matches!(name, "PSHL" | "PSHH") && inr(sp_b, ra[R_SP], *s, *e))
                || (name == "CALL" && (inr(sp_b, ra[R_SSP], *s, *e) || inr(bal_lo, bal_hi, *s, *e)))
                || (name == "LDC" && (inr(ssp_b, ra[R_SSP], *s, *e) || inr(cs_lo, cs_hi, *s, *e)))
                || (matches!(name, "TR" | "SMO" | "TRO") && inr(bal_lo, bal_hi, *s, *e))
                || (name == "TRO" && inr(tx_lo, tx_hi, *s, *e));
            if !ok {
                verdict = "bad";
                ctx.oracle_fail(&format!("unowned-write-{name}"), &format!("{}; at step {steps}", replay()),
                    &format!("{name} changed [{s},{e}) with ssp={ssp_b} sp={sp_b} hp={hp_b} prev_hp={prev_b} fp={fp_b}"));
            }
        }
        if !ch.is_empty() { ctx.count(&format!("write.{name}.d{depth}")); }
        let mut line = format!("step {opc} {ssp_b} {sp_b} {hp_b} {prev_b} {fp_b} {} {} {bal_lo} {bal_hi} {tx_lo} {tx_hi} {cs_lo} {cs_hi} {}", ra[R_SSP], ra[R_SP], ch.len());
        for (s, e) in &ch { line.push_str(&format!(" {s} {e}")); }
        ctx.distinct(format!("{opc} {depth} {} {}", ch.len(), ch.first().map(|c| (c.0 >= hp_b) as u8).unwrap_or(2)).as_bytes());
        ctx.emit(&line, verdict);
    }
    ctx.count(&format!("program.maxdepth{maxdepth}"));
}

pub fn run(ctx: &mut Ctx) {
    let _ = GTFArgs::ScriptData;
    for i in 0..ctx.n(800, 12000) { run_program(ctx, i); }
}
