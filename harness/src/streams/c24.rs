//! C24 (a) — ownership exactness at the instruction level.
//!
//! `OwnershipRegisters` cannot be named outside fuel-vm, so the owner-checked `MemoryInstance::write` is reached
//! through the store instructions of a REAL interpreter whose `$ssp/$sp/$hp` registers are set to chosen values:
//! `MCL`/`MCLI` (`write(owner, a, n)` then fill 0), `SB`/`SW` (`write_bytes(owner, a+imm·size, …)`), and through writers
//! whose write sits on a failure / alternative path: `ECK1`/`ECR1` with an unrecoverable signature (zero fill), `S256`/`K256`,
//! `BHSH` of a future height, `WDDV`/`WQAM` with a zero divisor/modulus under UNSAFEMATH (`$err = 1`). `prev_hp`
//! comes from the interpreter's real call frames: a script-context VM (`prev_hp = VM_MAX_RAM`) and VMs stopped
//! inside a real `CALL` made after the script allocated `H` bytes of heap (`prev_hp = VM_MAX_RAM − H`).
//!
//! Request line: `w <stack_len> <mem_hp> <ssp> <sp> <hp> <prev_hp> <addr> <len>`; answer: `ok` or the PanicReason.
//! Oracle (independent of the Lean model): the answer is the property's precedence (beyond memory → MemoryOverflow;
//! not entirely in one region → UninitalizedMemoryAccess; not owned → MemoryOwnership; else Ok), and a successful
//! store changes no byte outside `[addr, addr+len)`.
//!
//! The program runner at the bottom (`Prog`, `run_stepped`) is shared with stream `c24b`.
use crate::ctx::Ctx;
use crate::streams::c23::{reason_name, spec_owned, Own};
use fuel_vm::{
    consts::{MEM_SIZE, VM_MAX_RAM},
    fuel_asm::{op, GTFArgs, Instruction, PanicReason, RegId},
    fuel_tx::{ConsensusParameters, Receipt, Script},
    fuel_types::ContractId,
    interpreter::{Interpreter, InterpreterParams, MemoryInstance},
    prelude::{InterpreterError, IntoChecked, MemoryStorage, ProgramState},
    util::test_helpers::TestBuilder,
};

pub type Vm = Interpreter<MemoryInstance, MemoryStorage, Script>;

pub const R_SSP: usize = 4;
pub const R_SP: usize = 5;
pub const R_FP: usize = 6;
pub const R_HP: usize = 7;
pub const R_GGAS: usize = 9;
pub const R_CGAS: usize = 10;
pub const R_PC: usize = 3;
pub const R_IS: usize = 12;

/// offset of the saved registers in a serialized call frame (ContractId ‖ AssetId ‖ registers …)
pub const FRAME_REGS: u64 = 64;
pub const FRAME_CODE_SIZE: u64 = 64 + 8 * 64;

/// `$hp` saved in the current call frame (= `prev_hp` of `OwnershipRegisters::new`), `VM_MAX_RAM` outside calls
pub fn prev_hp_of(vm: &Vm) -> u64 {
    let fp = vm.registers()[R_FP];
    if fp == 0 { return VM_MAX_RAM; }
    let b: [u8; 8] = vm.memory().read_bytes(fp + FRAME_REGS + 8 * R_HP as u64).expect("frame readable");
    u64::from_be_bytes(b)
}

/// whole accessible memory as (stack bytes, hp, heap bytes from hp)
pub fn snapshot(vm: &Vm, hp: u64) -> (Vec<u8>, u64, Vec<u8>) {
    let m = vm.memory();
    let sl = m.stack_raw().len();
    let st = if sl > 0 { m.read(0usize, sl).unwrap().to_vec() } else { vec![] };
    let hl = MEM_SIZE - hp as usize;
    let hv = if hl > 0 { m.read(hp as usize, hl).unwrap().to_vec() } else { vec![] };
    (st, hp, hv)
}

/// maximal runs of changed addresses between two snapshots. Addresses accessible only afterwards count as
/// changed when they are non-zero (fresh memory reads zero); addresses accessible only before are ignored.
pub fn diff(b: &(Vec<u8>, u64, Vec<u8>), a: &(Vec<u8>, u64, Vec<u8>)) -> Vec<(u64, u64)> {
    let mut out: Vec<(u64, u64)> = vec![];
    let mut push = |x: u64| { if let Some(l) = out.last_mut() { if l.1 == x { l.1 = x + 1; return; } } out.push((x, x + 1)); };
    for i in 0..a.0.len() {
        let old = if i < b.0.len() { b.0[i] } else { 0 };
        if a.0[i] != old { push(i as u64); }
    }
    for i in 0..a.2.len() {
        let addr = a.1 + i as u64;
        let old = if addr >= b.1 { b.2[(addr - b.1) as usize] } else { 0 };
        if a.2[i] != old { push(addr); }
    }
    out
}

pub fn panic_of<E: std::fmt::Debug>(e: &InterpreterError<E>) -> String {
    match e {
        InterpreterError::PanicInstruction(pi) => reason_name(pi.reason()),
        other => format!("other-error:{other:?}").chars().take(80).collect(),
    }
}

// ---------------------------------------------------------------------------------------------
// program runner (shared with c24b)

pub struct Prog {
    pub script: Vec<Instruction>,
    pub contracts: Vec<Vec<Instruction>>,
    /// bytes appended to the script data after the call structures and the 32 zero bytes
    pub extra_data: Vec<u8>,
    /// a blob to put into storage before the script runs (for BLDD)
    pub blob: Option<Vec<u8>>,
}

pub struct Built {
    pub vm: Vm,
    pub ready: fuel_vm::checked_transaction::Ready<Script>,
    pub ids: Vec<ContractId>,
    pub tx_lo: u64,
    pub tx_hi: u64,
    pub bal_lo: u64,
    pub bal_hi: u64,
}

/// script data layout: for each contract k: `[contract_id(32) ‖ a(8) ‖ b(8)]` at offset 48·k, then 32 zero bytes
/// (an asset id) at offset 48·n
pub fn build(seed: u64, p: &Prog) -> Built {
    let params = ConsensusParameters::standard();
    let mut tb = TestBuilder::new(seed);
    let mut ids = vec![];
    for c in &p.contracts {
        let created = tb.setup_contract(c.clone(), None, None);
        ids.push(created.contract_id);
    }
    let mut data = vec![];
    for id in &ids { data.extend_from_slice(id.as_ref()); data.extend_from_slice(&[0u8; 16]); }
    data.extend_from_slice(&[0u8; 32]);
    data.extend_from_slice(&p.extra_data);
    if let Some(blob) = &p.blob { tb.setup_blob(blob.clone()); }
    tb.start_script(p.script.clone(), data).script_gas_limit(2_000_000);
    for id in &ids { tb.contract_input(*id); }
    tb.fee_input();
    for id in &ids { tb.contract_output(id); }
    tb.variable_output(fuel_vm::fuel_types::AssetId::zeroed());
    let checked = tb.build();
    let tx_size = fuel_vm::fuel_types::canonical::Serialize::size(checked.transaction()) as u64;
    let ready = checked.into_ready(0, params.gas_costs(), params.fee_params(), None).expect("ready");
    let ip = InterpreterParams::new(0, &params);
    let tx_lo = ip.tx_offset as u64;
    let bal_lo = fuel_vm::consts::VM_MEMORY_BALANCES_OFFSET as u64;
    let bal_hi = bal_lo + ip.max_inputs as u64 * 40;
    let vm: Vm = Interpreter::with_storage(MemoryInstance::new(), tb.get_storage().clone(), ip);
    Built { vm, ready, ids, tx_lo, tx_hi: tx_lo + tx_size, bal_lo, bal_hi }
}

/// the standard call sequence: `$0x10` = script data, call contract `k` with no coins
pub fn call_seq(k: usize, n_contracts: usize) -> Vec<Instruction> {
    vec![
        op::gtf_args(0x10, 0x00, GTFArgs::ScriptData),
        op::addi(0x11, 0x10, (48 * k) as u16),
        op::addi(0x12, 0x10, (48 * n_contracts) as u16),
        op::movi(0x13, 200_000),
        op::call(0x11, RegId::ZERO, 0x12, 0x13),
    ]
}

pub enum StepEnd { Running, Finished(Option<String>) }

/// start the transaction in single-stepping mode; returns whether the program is at its first instruction
pub fn start(b: &mut Built) -> StepEnd {
    b.vm.set_single_stepping(true);
    match b.vm.transact(b.ready.clone()) {
        Ok(st) => classify(*st.state(), &[]),
        Err(e) => StepEnd::Finished(Some(panic_of(&e))),
    }
}

fn classify(st: ProgramState, receipts: &[Receipt]) -> StepEnd {
    match st {
        ProgramState::RunProgram(_) | ProgramState::VerifyPredicate(_) => StepEnd::Running,
        _ => StepEnd::Finished(receipts.iter().find_map(|r| match r { Receipt::Panic { reason, .. } => Some(reason_name(reason.reason())), _ => None })),
    }
}

/// execute exactly one instruction
pub fn step(vm: &mut Vm) -> StepEnd {
    match vm.resume() {
        Ok(st) => { let rc = vm.receipts().to_vec(); classify(st, &rc) }
        Err(e) => StepEnd::Finished(Some(panic_of(&e))),
    }
}

/// the instruction word at `$pc`
pub fn current_instr(vm: &Vm) -> Option<[u8; 4]> {
    vm.memory().read_bytes::<_, 4>(vm.registers()[R_PC]).ok()
}

/// a VM stopped at the first instruction of a contract called by a script that first allocated `heap` bytes
pub fn vm_in_call(seed: u64, heap: u64) -> Vm {
    let mut script = vec![op::movi(0x14, heap as u32), op::aloc(0x14)];
    script.extend(call_seq(0, 1));
    script.push(op::ret(RegId::ONE));
    // the callee grows its own stack and heap a little, then idles
    let contract = vec![op::cfei(256), op::movi(0x14, 128), op::aloc(0x14), op::noop(), op::noop(), op::ret(RegId::ONE)];
    let mut b = build(seed, &Prog { script, contracts: vec![contract], extra_data: vec![], blob: None });
    let mut st = start(&mut b);
    let mut guard = 0;
    loop {
        match st {
            StepEnd::Finished(r) => panic!("call setup ended early: {r:?}"),
            StepEnd::Running => {
                // stop at the first NOOP of the callee
                if b.vm.registers()[R_FP] != 0 && current_instr(&b.vm) == Some(op::noop().to_bytes()) { break; }
            }
        }
        st = step(&mut b.vm);
        guard += 1;
        assert!(guard < 100, "call setup did not reach the callee");
    }
    b.vm.set_single_stepping(false);
    b.vm
}

// ---------------------------------------------------------------------------------------------
// instruction-level ownership cases

#[derive(Clone, Copy, Debug)]
enum StoreOp { Mcl, Mcli, Sb, Sw, Eck1Bad, Ecr1Bad, S256, K256, Bhsh, WddvErr, WqamErr }

struct Case { own: Own, addr: u128, len: u64 }

fn spec_outcome(sl: u64, mem_hp: u64, c: &Case) -> &'static str {
    let m = VM_MAX_RAM as u128;
    if c.addr > m || c.len as u128 > m || c.addr + c.len as u128 > m { return "MemoryOverflow"; }
    let (a, e) = (c.addr as u64, c.addr as u64 + c.len);
    if !(e <= sl || a >= mem_hp) { return "UninitalizedMemoryAccess"; }
    if !spec_owned(&c.own, a, e) { return "MemoryOwnership"; }
    "ok"
}

/// run one store on the VM; `None` when this opcode cannot express the case (length / immediate limits)
fn exec_store(vm: &mut Vm, opk: StoreOp, c: &Case, fill: u8) -> Option<Result<(), String>> {
    let mem_hp = vm.registers()[R_HP];
    let saved: Vec<u64> = vm.registers().to_vec();
    let r = vm.registers_mut();
    r[R_SSP] = c.own.ssp; r[R_SP] = c.own.sp; r[R_HP] = c.own.hp;
    r[R_GGAS] = u64::MAX; r[R_CGAS] = u64::MAX;
    r[0x21] = fill as u64;
    let ins = match opk {
        StoreOp::Mcl => { if c.addr > u64::MAX as u128 { return restore(vm, saved, mem_hp, None); } r[0x20] = c.addr as u64; r[0x22] = c.len; op::mcl(0x20, 0x22) }
        StoreOp::Mcli => { if c.addr > u64::MAX as u128 || c.len >= (1 << 18) { return restore(vm, saved, mem_hp, None); } r[0x20] = c.addr as u64; op::mcli(0x20, c.len as u32) }
        StoreOp::Sb => {
            if c.len != 1 { return restore(vm, saved, mem_hp, None); }
            let imm = c.addr.min(4095) as u64;
            let base = c.addr - imm as u128;
            if base > u64::MAX as u128 { return restore(vm, saved, mem_hp, None); }
            r[0x20] = base as u64; op::sb(0x20, 0x21, imm as u16)
        }
        StoreOp::Sw => {
            if c.len != 8 { return restore(vm, saved, mem_hp, None); }
            let k = (c.addr / 8).min(4095) as u64;
            let base = c.addr - (k as u128) * 8;
            if base > u64::MAX as u128 { return restore(vm, saved, mem_hp, None); }
            r[0x20] = base as u64; op::sw(0x20, 0x21, k as u16)
        }
        // writers whose write happens on a failure / alternative path; sources are the readable zero bytes at address 0
        StoreOp::Eck1Bad | StoreOp::Ecr1Bad => {
            // an all-zero signature is unrecoverable: the instruction zero-fills the 64-byte destination and sets $err
            if c.len != 64 || c.addr > u64::MAX as u128 { return restore(vm, saved, mem_hp, None); }
            r[0x20] = c.addr as u64; r[0x22] = 0; r[0x23] = 0;
            if matches!(opk, StoreOp::Eck1Bad) { op::eck1(0x20, 0x22, 0x23) } else { op::ecr1(0x20, 0x22, 0x23) }
        }
        StoreOp::S256 | StoreOp::K256 => {
            if c.len != 32 || c.addr > u64::MAX as u128 { return restore(vm, saved, mem_hp, None); }
            r[0x20] = c.addr as u64; r[0x22] = 0; r[0x23] = 8;
            if matches!(opk, StoreOp::S256) { op::s256(0x20, 0x22, 0x23) } else { op::k256(0x20, 0x22, 0x23) }
        }
        StoreOp::Bhsh => {
            // a block height in the future: the zero hash is written
            if c.len != 32 || c.addr > u64::MAX as u128 { return restore(vm, saved, mem_hp, None); }
            r[0x20] = c.addr as u64; r[0x22] = 1_000_000;
            op::bhsh(0x20, 0x22)
        }
        StoreOp::WddvErr => {
            // 0 / 0 with UNSAFEMATH: $err = 1 and the 16 zero result bytes are written
            if c.len != 16 || c.addr > u64::MAX as u128 { return restore(vm, saved, mem_hp, None); }
            r[0x20] = c.addr as u64; r[0x22] = 0; r[0x23] = 0; r[15] = 1;
            op::wddv_args(0x20, 0x22, 0x23, fuel_vm::fuel_asm::wideint::DivArgs { indirect_rhs: true })
        }
        StoreOp::WqamErr => {
            if c.len != 32 || c.addr > u64::MAX as u128 { return restore(vm, saved, mem_hp, None); }
            r[0x20] = c.addr as u64; r[0x22] = 0; r[0x23] = 0; r[0x24] = 0; r[15] = 1;
            op::wqam(0x20, 0x22, 0x23, 0x24)
        }
    };
    let res = match vm.instruction::<_, false>(ins) {
        Ok(_) => Ok(()),
        Err(e) => Err(panic_of(&e)),
    };
    restore(vm, saved, mem_hp, Some(res))
}

fn restore(vm: &mut Vm, saved: Vec<u64>, _mem_hp: u64, r: Option<Result<(), String>>) -> Option<Result<(), String>> {
    vm.registers_mut().copy_from_slice(&saved);
    r
}

fn one_case(ctx: &mut Ctx, vm: &mut Vm, tag: &str, c: Case) {
    let mem_hp = vm.registers()[R_HP];
    let sl = vm.memory().stack_raw().len() as u64;
    let prev = prev_hp_of(vm);
    debug_assert_eq!(prev, c.own.prev_hp);
    // plain stores first for the small lengths; for 16 / 32 / 64 bytes prefer the writers with a failure / alternative path
    let plain: &[StoreOp] = &[StoreOp::Mcl, StoreOp::Mcli, StoreOp::Sb, StoreOp::Sw];
    let alt: &[StoreOp] = match c.len { 64 => &[StoreOp::Eck1Bad, StoreOp::Ecr1Bad], 32 => &[StoreOp::S256, StoreOp::K256, StoreOp::Bhsh, StoreOp::WqamErr], 16 => &[StoreOp::WddvErr], _ => &[] };
    let mut ops: Vec<StoreOp> = vec![];
    if !alt.is_empty() && ctx.rng.chance(3, 4) { let k = ctx.rng.below(alt.len() as u64) as usize; for i in 0..alt.len() { ops.push(alt[(k + i) % alt.len()]); } }
    let start = ctx.rng.below(4) as usize;
    for i in 0..4 { ops.push(plain[(start + i) % 4]); }
    for opk in ops {
        let before = snapshot(vm, mem_hp);
        let fill = (ctx.rng.next() as u8) | 1;
        let Some(res) = exec_store(vm, opk, &c, fill) else { continue };
        let out = match &res { Ok(()) => "ok".to_string(), Err(e) => e.clone() };
        let exp = spec_outcome(sl, mem_hp, &c);
        let line = format!("w {sl} {mem_hp} {} {} {} {} {} {}", c.own.ssp, c.own.sp, c.own.hp, c.own.prev_hp, c.addr, c.len);
        if out != exp {
            ctx.oracle_fail(&format!("store-outcome-{tag}"), &format!("{opk:?} {line}"), &format!("implementation {out}, specification {exp}"));
        }
        let after = snapshot(vm, mem_hp);
        let ch = diff(&before, &after);
        for (s, e) in &ch {
            let inside = res.is_ok() && (*s as u128) >= c.addr && (*e as u128) <= c.addr + c.len as u128;
            if !inside {
                ctx.oracle_fail(&format!("store-changes-outside-range-{tag}"), &format!("{opk:?} {line}"), &format!("bytes [{s},{e}) changed"));
            }
        }
        if res.is_ok() && c.len > 0 && matches!(opk, StoreOp::Sb | StoreOp::Sw) && ch.is_empty() && fill != 0 {
            // a store of a non-zero value into memory holding other bytes must be visible
            let cur = vm.memory().read(c.addr as u64, c.len).unwrap().to_vec();
            let want: Vec<u8> = if c.len == 1 { vec![fill] } else { (fill as u64).to_be_bytes().to_vec() };
            if cur != want { ctx.oracle_fail(&format!("store-lost-{tag}"), &format!("{opk:?} {line}"), "stored value not in memory"); }
        }
        ctx.count(&format!("{tag}.{opk:?}.{out}"));
        ctx.count(&format!("outcome.{out}{}", if c.len == 0 { ".empty" } else { "" }));
        ctx.distinct(line.as_bytes());
        ctx.emit(&line, &out);
        return;
    }
}

/// boundary-biased choice around a set of anchors
fn near(ctx: &mut Ctx, anchors: &[u64]) -> u64 {
    let a = *ctx.rng.pick(anchors);
    let d = *ctx.rng.pick(&[0u64, 0, 0, 1, 1, 2, 7, 8, 9, 16, 31, 32, 33]);
    if ctx.rng.chance(1, 2) { a.saturating_sub(d) } else { a.saturating_add(d) }
}

fn cases_on(ctx: &mut Ctx, vm: &mut Vm, tag: &str, n: u64) {
    let mem_hp = vm.registers()[R_HP];
    let sl = vm.memory().stack_raw().len() as u64;
    let prev = prev_hp_of(vm);
    let (rssp, rsp) = (vm.registers()[R_SSP], vm.registers()[R_SP]);
    let m = VM_MAX_RAM;
    // make memory non-zero so that MCL's zeroing and stray writes are visible
    let top = sl;
    {
        let mut i = rssp.min(top);
        while i < top { let l = (top - i).min(64); let v: Vec<u8> = (0..l).map(|k| 0x80 | (k as u8)).collect(); vm.memory_mut().write_noownerchecks(i, l as usize).unwrap().copy_from_slice(&v); i += l; }
        let mut i = mem_hp;
        while i < m.min(mem_hp + 4096) { let l = (m - i).min(64); let v: Vec<u8> = (0..l).map(|k| 0x40 | (k as u8)).collect(); vm.memory_mut().write_noownerchecks(i, l as usize).unwrap().copy_from_slice(&v); i += l; }
    }
    let anchors = [0u64, rssp, rsp, sl, mem_hp, prev, m, (rssp + rsp) / 2, mem_hp + (prev.saturating_sub(mem_hp)) / 2];
    for _ in 0..n {
        // ownership registers: the real ones most of the time, otherwise around the anchors
        let mut own = Own { ssp: rssp, sp: rsp, hp: mem_hp, prev_hp: prev };
        match ctx.rng.below(10) {
            0 => own.ssp = near(ctx, &anchors),
            1 => own.sp = near(ctx, &anchors),
            2 => own.hp = near(ctx, &anchors),
            3 => { own.ssp = near(ctx, &anchors); own.sp = near(ctx, &anchors); }
            4 => { own.hp = prev; }                      // frame without a heap region
            5 => { own.ssp = near(ctx, &anchors); own.sp = own.ssp; }
            6 => { own.ssp = ctx.rng.word(); own.sp = ctx.rng.word(); own.hp = ctx.rng.word(); }
            _ => {}
        }
        let len = match ctx.rng.below(10) { 0 => 0, 1 | 2 => 1, 3 | 4 => 8, 5 => *ctx.rng.pick(&[2u64, 7, 9, 16, 32, 33, 64, 255, 256]), 6 => ctx.rng.word(), 7 | 8 => *ctx.rng.pick(&[16u64, 32, 32, 64, 64]), _ => ctx.rng.below(200) };
        let own_anchors = [own.ssp, own.sp, own.hp, own.prev_hp, sl, mem_hp, m, 0];
        let addr: u128 = match ctx.rng.below(12) {
            0 => ctx.rng.word() as u128,
            1 => u64::MAX as u128 + ctx.rng.below(64) as u128,   // base + imm·size overflowing 64 bits
            2..=4 => near(ctx, &own_anchors).saturating_sub(len.min(4096)) as u128,
            _ => near(ctx, &own_anchors) as u128,
        };
        one_case(ctx, vm, tag, Case { own, addr, len });
    }
}

pub fn run(ctx: &mut Ctx) {
    // script context: prev_hp = VM_MAX_RAM; stack 0..4096, heap of 4096 bytes
    let mut vm = crate::streams::c23::new_vm();
    vm.memory_mut().grow_stack(4096).unwrap();
    {
        use fuel_vm::constraints::reg_key::{self, Reg, RegMut};
        let sp = 4096u64; let mut hp = VM_MAX_RAM;
        vm.memory_mut().grow_heap_by(Reg::<{ reg_key::SP }>::new(&sp), RegMut::<{ reg_key::HP }>::new(&mut hp), 4096).unwrap();
        let r = vm.registers_mut();
        r[R_SSP] = 1024; r[R_SP] = 3000; r[R_HP] = hp;
    }
    // fixed boundary corpus (ownership edges of a script frame)
    let hp = vm.registers()[R_HP];
    let o = Own { ssp: 1024, sp: 3000, hp, prev_hp: VM_MAX_RAM };
    for (a, l) in [(1024u128, 1976u64), (1023, 1), (1024, 0), (3000, 0), (2999, 1), (2999, 2), (3000, 1), (4095, 1), (4096, 0), (4096, 1),
                   (hp as u128, 4096), (hp as u128 - 1, 1), (hp as u128, 0), (VM_MAX_RAM as u128, 0), (VM_MAX_RAM as u128 - 1, 1), (VM_MAX_RAM as u128, 1),
                   (VM_MAX_RAM as u128 - 8, 8), (VM_MAX_RAM as u128 - 7, 8), (0, 8), (u64::MAX as u128, 1), (u64::MAX as u128 + 5, 8)] {
        one_case(ctx, &mut vm, "script", Case { own: o, addr: a, len: l });
    }
    let n = ctx.n(6000, 80000);
    cases_on(ctx, &mut vm, "script", n);
    // inside real calls: prev_hp = VM_MAX_RAM - H
    for (i, h) in [0u64, 8, 1000, 65536].iter().enumerate() {
        let mut vm = vm_in_call(ctx.seed.wrapping_add(i as u64), *h);
        let prev = prev_hp_of(&vm);
        if prev != VM_MAX_RAM - h { ctx.oracle_fail("saved-hp-in-frame", &format!("call after ALOC {h}"), &format!("saved $hp in frame is {prev}")); }
        let n = ctx.n(3000, 30000);
        cases_on(ctx, &mut vm, &format!("call-h{h}"), n);
    }
}
