//! C21 — register ALU: every ALU opcode executed as a single instruction on a real `Interpreter`
//! (`Interpreter::instruction`) with preset registers; the registers afterwards and the panic reason are
//! compared with the Lean model (stream `c21`) and, independently, with the arithmetic specification
//! evaluated here in u128 arithmetic (property oracle).
use crate::{ctx::Ctx, gen::{instr_gen as g, vmstep::*}};

const ALU: &[&str] = &[
    "ADD", "ADDI", "AND", "ANDI", "DIV", "DIVI", "EQ", "EXP", "EXPI", "GT", "LT", "MLOG", "MOD", "MODI", "MOVE", "MOVI",
    "MROO", "MUL", "MULI", "MLDV", "NIOP", "NOOP", "NOT", "OR", "ORI", "SLL", "SLLI", "SRL", "SRLI", "SUB", "SUBI", "XOR", "XORI",
];

fn row(name: &str) -> &'static (u8, &'static str, &'static [u8]) {
    g::TABLE.iter().find(|r| r.1 == name).expect("ALU opcode in table")
}

/// b^e with saturation at > u128-safe bound: None = does not fit in `bits` bits
fn pow_fits(b: u64, e: u64, bits: u32) -> Option<u64> {
    let lim: u128 = 1u128 << bits;
    if b == 0 { return Some(if e == 0 { 1 } else { 0 }); }
    if b == 1 { return Some(1); }
    let mut acc: u128 = 1;
    let mut i = 0u64;
    while i < e {
        acc *= b as u128;
        if acc >= lim { return None; }
        i += 1;
    }
    Some(acc as u64)
}
/// v^e <= a ?   (v, a < 2^64, e <= 64)
fn pow_le(v: u64, e: u64, a: u64) -> bool {
    match pow_fits(v, e, 64) { Some(p) => p <= a, None => false }
}

/// largest r with r^c < 2^64
fn max_root(c: u64) -> u64 {
    if c == 1 { return u64::MAX; }
    let (mut lo, mut hi) = (1u64, 1u64 << 32);
    while hi - lo > 1 { let mid = lo + (hi - lo) / 2; if pow_fits(mid, c.min(64), 64).is_some() { lo = mid; } else { hi = mid; } }
    lo
}

enum Exp {
    Panic(&'static str),
    /// dest, of, err
    Ok(u64, u64, u64),
    /// predicate on dest (for MLOG / MROO), with of, err
    OkPred(Box<dyn Fn(u64) -> bool>, u64, u64),
}

/// the specification, independent of the implementation and of the Lean model
fn spec(name: &str, a_vals: (u64, u64, u64), imm: u32, flag: u64) -> Exp {
    let (b, c, d) = a_vals;
    let wrapping = flag & 2 != 0;
    let unsafem = flag & 1 != 0;
    let immw = imm as u64;
    let cap = |full: u128| -> Exp {
        if full > u64::MAX as u128 && !wrapping { Exp::Panic("ArithmeticOverflow") } else { Exp::Ok(full as u64, (full >> 64) as u64, 0) }
    };
    let sub = |x: u64, y: u64| -> Exp {
        if x >= y { Exp::Ok(x - y, 0, 0) } else if wrapping { Exp::Ok(x.wrapping_sub(y), u64::MAX, 0) } else { Exp::Panic("ArithmeticOverflow") }
    };
    let errop = |bad: bool, v: u64| -> Exp {
        if bad { if unsafem { Exp::Ok(0, 0, 1) } else { Exp::Panic("ArithmeticError") } } else { Exp::Ok(v, 0, 0) }
    };
    let boolov = |p: Option<u64>| -> Exp {
        match p { Some(v) => Exp::Ok(v, 0, 0), None => if wrapping { Exp::Ok(0, 1, 0) } else { Exp::Panic("ArithmeticOverflow") } }
    };
    let shl = |x: u64, s: u64| if s >= 64 { 0 } else { x << s };
    let shr = |x: u64, s: u64| if s >= 64 { 0 } else { x >> s };
    match name {
        "ADD" => cap(b as u128 + c as u128),
        "ADDI" => cap(b as u128 + immw as u128),
        "MUL" => cap(b as u128 * c as u128),
        "MULI" => cap(b as u128 * immw as u128),
        "SUB" => sub(b, c),
        "SUBI" => sub(b, immw),
        "AND" => Exp::Ok(b & c, 0, 0), "ANDI" => Exp::Ok(b & immw, 0, 0),
        "OR" => Exp::Ok(b | c, 0, 0), "ORI" => Exp::Ok(b | immw, 0, 0),
        "XOR" => Exp::Ok(b ^ c, 0, 0), "XORI" => Exp::Ok(b ^ immw, 0, 0),
        "NOT" => Exp::Ok(u64::MAX - b, 0, 0),
        "MOVE" => Exp::Ok(b, 0, 0), "MOVI" => Exp::Ok(immw, 0, 0),
        "EQ" => Exp::Ok((b == c) as u64, 0, 0), "GT" => Exp::Ok((b > c) as u64, 0, 0), "LT" => Exp::Ok((b < c) as u64, 0, 0),
        "DIV" => errop(c == 0, if c == 0 { 0 } else { b / c }),
        "DIVI" => errop(immw == 0, if immw == 0 { 0 } else { b / immw }),
        "MOD" => errop(c == 0, if c == 0 { 0 } else { b % c }),
        "MODI" => errop(immw == 0, if immw == 0 { 0 } else { b % immw }),
        "SLL" => Exp::Ok(shl(b, c), 0, 0), "SLLI" => Exp::Ok(shl(b, immw), 0, 0),
        "SRL" => Exp::Ok(shr(b, c), 0, 0), "SRLI" => Exp::Ok(shr(b, immw), 0, 0),
        "EXP" => boolov(pow_fits(b, c, 64)),
        "EXPI" => boolov(pow_fits(b, immw, 64)),
        "MLOG" => {
            if b == 0 || c <= 1 { errop(true, 0) } else {
                // c^r <= b < c^(r+1)
                Exp::OkPred(Box::new(move |r| r < 64 && pow_le(c, r, b) && !pow_le(c, r + 1, b)), 0, 0)
            }
        }
        "MROO" => {
            if c == 0 { errop(true, 0) } else {
                // r^c <= b < (r+1)^c ; for bases >= 2 an exponent above 64 behaves like 64 (the power exceeds 2^64 > b)
                let powc_le = move |v: u128, a: u64| -> bool {
                    if v <= 1 { v <= a as u128 } else if v > u64::MAX as u128 { false } else { pow_le(v as u64, c.min(64), a) }
                };
                Exp::OkPred(Box::new(move |r| powc_le(r as u128, b) && !powc_le(r as u128 + 1, b)), 0, 0)
            }
        }
        "MLDV" => {
            let prod = b as u128 * c as u128;
            if d == 0 { Exp::Ok((prod >> 64) as u64, 0, 0) } else {
                let q = prod / d as u128;
                let hi = (q >> 64) as u64;
                if hi != 0 && !wrapping { Exp::Panic("ArithmeticOverflow") } else { Exp::Ok(q as u64, hi, 0) }
            }
        }
        "NOOP" => Exp::Ok(0, 0, 0),
        "NIOP" => {
            let op = imm & 15;
            let wd = (imm >> 4) & 3;
            if op > 5 || wd > 2 { return Exp::Panic("InvalidImmediateValue"); }
            let bits = 8u32 << wd;
            let mask = (1u64 << bits) - 1;
            let (l, r) = (b & mask, c & mask);
            let (res, of): (u64, u64) = match op {
                0 => { let s = l + r; (s & mask, s >> bits) }
                1 => if l >= r { (l - r, 0) } else { (((1u128 << bits) + l as u128 - r as u128) as u64 & mask, u64::MAX) },
                2 => { let p = l as u128 * r as u128; ((p as u64) & mask, (p >> bits) as u64) }
                3 => match pow_fits(l, r, bits) { Some(v) => (v, 0), None => (0, 1) },
                4 => (if r >= bits as u64 { 0 } else { ((l as u128) << r) as u64 & mask }, 0),
                _ => (!(l ^ r) & mask, 0),
            };
            if of != 0 && !wrapping { Exp::Panic("ArithmeticOverflow") } else { Exp::Ok(res, of, 0) }
        }
        _ => unreachable!(),
    }
}

struct Case { name: &'static str, raw: u32, regs: [u64; NREG], dst: usize, vals: (u64, u64, u64), imm: u32, has_dst: bool }

fn run_case(ctx: &mut Ctx, vm: &mut Vm, cs: &Case) {
    let regs = cs.regs;
    let raw = cs.raw;
    let req = format!("x {} {}", raw, fmt_regs(&regs));
    let r = ctx.guard(|| step(vm, &regs, raw));
    let (st, after) = match r {
        Ok(v) => v,
        Err(msg) => {
            ctx.oracle_fail(&format!("panic-{}", cs.name), &req, &msg);
            *vm = new_vm();
            ctx.emit(&req, "HOST-PANIC");
            return;
        }
    };
    ctx.count(&format!("op.{}", cs.name));
    ctx.count(&format!("st.{}", st));
    // ---- property oracle on the implementation ----
    let flag = regs[FLAG];
    let fp = |k: &str| format!("{}-{}", cs.name.to_lowercase(), k);
    let unchanged_except = |skip: &[usize]| -> Option<usize> {
        (0..NREG).find(|i| !skip.contains(i) && *i != GGAS && *i != CGAS && regs[*i] != after[*i])
    };
    if cs.has_dst && cs.dst < 16 && !(cs.name == "NIOP" && matches!(spec(cs.name, cs.vals, cs.imm, flag), Exp::Panic("InvalidImmediateValue"))) {
        // any attempt to write a reserved register panics and leaves every non-gas register unchanged
        if st != "ReservedRegisterNotWritable" { ctx.oracle_fail(&fp("reserved-not-rejected"), &req, &format!("status {st}")); }
        if let Some(i) = unchanged_except(&[]) { ctx.oracle_fail(&fp("reserved-changed-register"), &req, &format!("register {i} changed")); }
        ctx.count("reserved-write");
    } else {
        match spec(cs.name, cs.vals, cs.imm, flag) {
            Exp::Panic(p) => {
                if st != p { ctx.oracle_fail(&fp("wrong-panic"), &req, &format!("expected {p}, got {st}")); }
                if let Some(i) = unchanged_except(&[]) { ctx.oracle_fail(&fp("panic-changed-register"), &req, &format!("register {i} changed")); }
            }
            e => {
                if st != "ok" { ctx.oracle_fail(&fp("unexpected-panic"), &req, &format!("expected ok, got {st}")); }
                else {
                    let (okd, of, err) = match &e {
                        Exp::Ok(dv, of, err) => (!cs.has_dst || after[cs.dst] == *dv, *of, *err),
                        Exp::OkPred(p, of, err) => (p(after[cs.dst]), *of, *err),
                        _ => unreachable!(),
                    };
                    if !okd { ctx.oracle_fail(&fp("wrong-result"), &req, &format!("dest = {}", after[cs.dst])); }
                    if after[OF] != of { ctx.oracle_fail(&fp("wrong-of"), &req, &format!("$of = {}, expected {of}", after[OF])); }
                    if after[ERR] != err { ctx.oracle_fail(&fp("wrong-err"), &req, &format!("$err = {}, expected {err}", after[ERR])); }
                    if regs[PC] <= u64::MAX - 4 && after[PC] != regs[PC] + 4 { ctx.oracle_fail(&fp("pc-not-advanced"), &req, &format!("$pc = {}", after[PC])); }
                    let skip: Vec<usize> = if cs.has_dst { vec![cs.dst, OF, ERR, PC] } else { vec![OF, ERR, PC] };
                    if let Some(i) = unchanged_except(&skip) { ctx.oracle_fail(&fp("frame"), &req, &format!("register {i} changed")); }
                }
            }
        }
    }
    let mut key = raw.to_be_bytes().to_vec();
    key.extend_from_slice(&cs.vals.0.to_be_bytes()); key.extend_from_slice(&cs.vals.1.to_be_bytes()); key.extend_from_slice(&cs.vals.2.to_be_bytes());
    key.push(flag as u8);
    ctx.distinct(&key);
    ctx.emit(&req, &format!("{st}{}", fmt_diff(&regs, &after)));
}

/// build a case: registers chosen so that operand registers hold `vals`; `dst` may alias operands
fn mk(ctx: &mut Ctx, name: &'static str, dst: usize, vals: (u64, u64, u64), imm: u32, flag: u64, pc: u64) -> Case {
    let r = row(name);
    let shape = r.2;
    let nreg = shape.iter().filter(|k| **k == 0).count();
    let has_dst = nreg >= 1;
    // the immediate as the instruction can carry it
    let imm = match shape.iter().find(|k| **k != 0) { Some(k) => imm & ((1u32 << *k) - 1), None => 0 };
    let mut regs = base_regs();
    regs[FLAG] = flag;
    regs[PC] = pc;
    // junk in the other writable registers so that frame violations are visible
    for i in 16..NREG { if ctx.rng.chance(1, 4) { regs[i] = ctx.rng.word(); } }
    regs[OF] = ctx.rng.below(3); regs[ERR] = ctx.rng.below(2);
    // operand registers: distinct writable registers; sometimes aliasing dst, each other, or $zero/$one
    let nsrc = nreg.saturating_sub(1);
    let mut srcs = [0usize; 3];
    let mut used: Vec<usize> = vec![dst];
    for k in 0..nsrc {
        let want = [vals.0, vals.1, vals.2][k];
        if dst >= 16 && ctx.rng.chance(1, 12) { srcs[k] = dst; }
        else if k > 0 && srcs[0] >= 16 && ctx.rng.chance(1, 12) { srcs[k] = srcs[0]; }
        else if want == 0 && ctx.rng.chance(1, 6) { srcs[k] = 0; continue; }
        else if want == 1 && ctx.rng.chance(1, 6) { srcs[k] = 1; continue; }
        else { loop { let c = 16 + ctx.rng.below(48) as usize; if !used.contains(&c) { srcs[k] = c; break; } } }
        used.push(srcs[k]);
        regs[srcs[k]] = want;
    }
    let mut args: Vec<u32> = vec![];
    let mut ri = 0;
    for k in shape {
        if *k == 0 { if ri == 0 { args.push(dst as u32); } else { args.push(srcs[ri - 1] as u32); } ri += 1; } else { args.push(imm); }
    }
    // operand values actually seen by the instruction (aliasing may have overwritten)
    let get = |i: usize| if i < nsrc { regs[srcs[i]] } else { 0 };
    let vals = (get(0), get(1), get(2));
    Case { name, raw: encode(r.0, shape, &args), regs, dst, vals, imm, has_dst }
}

fn pool(ctx: &mut Ctx) -> Vec<u64> {
    let mut p: Vec<u64> = vec![0, 1, 2, 3, 7, 8, 9, 10, 63, 64, 65, 127, 128, 255, 256, 257, 65535, 65536, 65537,
        u32::MAX as u64 - 1, u32::MAX as u64, u32::MAX as u64 + 1, u32::MAX as u64 + 2, (1 << 63) - 1, 1 << 63, (1 << 63) + 1,
        u64::MAX - 1, u64::MAX, 0xFFFF_FFFF_0000_0000, 0x0000_0001_0000_00FF, 4294967295 * 4294967295, 6074001000, 3037000499, 3037000500, 2642245, 2642246];
    for k in [4u32, 12, 16, 20, 31, 32, 33, 48, 62] { p.push((1 << k) - 1); p.push(1 << k); p.push((1 << k) + 1); }
    for _ in 0..12 { p.push(ctx.rng.next()); }
    p
}

fn dsts(ctx: &mut Ctx) -> usize {
    match ctx.rng.below(10) {
        0 => *ctx.rng.pick(&[0usize, 1, 2, 3, 4, 5, 7, 8, 9, 10, 12, 15]),
        1 => 16,
        2 => 63,
        _ => 16 + ctx.rng.below(48) as usize,
    }
}
fn flags(ctx: &mut Ctx) -> u64 {
    if ctx.rng.chance(1, 40) { ctx.count("flag.junk-high-bits"); (ctx.rng.next() & !3) | ctx.rng.below(4) } else { ctx.rng.below(4) }
}
fn pcs(ctx: &mut Ctx) -> u64 {
    match ctx.rng.below(20) { 0 => u64::MAX - ctx.rng.below(6), 1 => 0, 2 => VM_MAX_RAM - 4, _ => 4 * ctx.rng.below(1 << 20) }
}

pub fn run(ctx: &mut Ctx) {
    if std::env::var("FV_DEBUG").is_ok() { std::panic::set_hook(Box::new(|i| eprintln!("panic: {i}"))); }
    let mut vm = new_vm();
    let names: Vec<&'static str> = ALU.to_vec();
    // 0. regression corpus: boundary cases
    let corpus: &[(&'static str, usize, (u64, u64, u64), u32, u64)] = &[
        ("ADD", 16, (u64::MAX, 1, 0), 0, 0), ("ADD", 16, (u64::MAX, 1, 0), 0, 2), ("ADD", 16, (u64::MAX, u64::MAX, 0), 0, 2),
        ("SUB", 16, (0, 1, 0), 0, 2), ("SUB", 16, (0, 1, 0), 0, 0), ("SUB", 16, (5, 5, 0), 0, 0), ("SUBI", 16, (0, 0, 0), 4095, 2),
        ("MUL", 16, (u64::MAX, u64::MAX, 0), 0, 2), ("MUL", 16, (1 << 32, 1 << 32, 0), 0, 0), ("MULI", 17, (u64::MAX, 0, 0), 4095, 2),
        ("DIV", 16, (7, 0, 0), 0, 0), ("DIV", 16, (7, 0, 0), 0, 1), ("DIVI", 16, (7, 0, 0), 0, 1), ("MOD", 16, (7, 0, 0), 0, 1), ("MODI", 16, (7, 0, 0), 0, 0),
        ("EXP", 16, (2, 63, 0), 0, 0), ("EXP", 16, (2, 64, 0), 0, 0), ("EXP", 16, (2, 64, 0), 0, 2), ("EXP", 16, (0, 0, 0), 0, 0), ("EXP", 16, (1, u64::MAX, 0), 0, 0),
        ("EXP", 16, (0, 1 << 32, 0), 0, 0), ("EXP", 16, (2, 1 << 32, 0), 0, 2), ("EXP", 16, (3, 40, 0), 0, 0), ("EXP", 16, (3, 41, 0), 0, 2), ("EXPI", 16, (2, 0, 0), 64, 2), ("EXPI", 16, (1, 0, 0), 4095, 0),
        ("EXP", 16, (1, u32::MAX as u64, 0), 0, 0), ("EXP", 16, (2, u32::MAX as u64, 0), 0, 2), ("EXP", 16, (u64::MAX, 1, 0), 0, 0), ("EXP", 16, (u64::MAX, 2, 0), 0, 2),
        ("MLOG", 16, (0, 2, 0), 0, 1), ("MLOG", 16, (8, 1, 0), 0, 0), ("MLOG", 16, (8, 0, 0), 0, 1), ("MLOG", 16, (8, 2, 0), 0, 0), ("MLOG", 16, (7, 2, 0), 0, 0),
        ("MLOG", 16, (u64::MAX, 2, 0), 0, 0), ("MLOG", 16, (u64::MAX, u64::MAX, 0), 0, 0), ("MLOG", 16, (u64::MAX - 1, u64::MAX, 0), 0, 0), ("MLOG", 16, (1, 2, 0), 0, 0),
        ("MROO", 16, (0, 0, 0), 0, 1), ("MROO", 16, (8, 0, 0), 0, 0), ("MROO", 16, (8, 3, 0), 0, 0), ("MROO", 16, (7, 3, 0), 0, 0), ("MROO", 16, (9, 3, 0), 0, 0),
        ("MROO", 16, (u64::MAX, 2, 0), 0, 0), ("MROO", 16, (u64::MAX, 64, 0), 0, 0), ("MROO", 16, (u64::MAX, 63, 0), 0, 0), ("MROO", 16, (u64::MAX, 65, 0), 0, 0), ("MROO", 16, (u64::MAX, 1, 0), 0, 0),
        ("MROO", 16, (1 << 63, 63, 0), 0, 0), ("MROO", 16, ((1 << 63) - 1, 63, 0), 0, 0), ("MROO", 16, (4, 4, 0), 0, 0), ("MROO", 16, (4, 5, 0), 0, 0), ("MROO", 16, (1, 7, 0), 0, 0), ("MROO", 16, (0, 7, 0), 0, 0),
        ("MROO", 16, (4294967295 * 4294967295, 2, 0), 0, 0), ("MROO", 16, (4294967296 * 4294967295, 2, 0), 0, 0), ("MROO", 16, (u64::MAX, u64::MAX, 0), 0, 0),
        ("MLDV", 16, (u64::MAX, u64::MAX, 0), 0, 0), ("MLDV", 16, (u64::MAX, u64::MAX, 1), 0, 0), ("MLDV", 16, (u64::MAX, u64::MAX, 1), 0, 2), ("MLDV", 16, (u64::MAX, 4, 2), 0, 2), ("MLDV", 16, (u64::MAX, u64::MAX, u64::MAX), 0, 0),
        ("SLL", 16, (1, 63, 0), 0, 0), ("SLL", 16, (1, 64, 0), 0, 0), ("SLL", 16, (u64::MAX, 1 << 32, 0), 0, 0), ("SLL", 16, (u64::MAX, (1 << 32) + 1, 0), 0, 0), ("SLLI", 16, (u64::MAX, 0, 0), 64, 0), ("SLLI", 16, (u64::MAX, 0, 0), 63, 0),
        ("SRL", 16, (u64::MAX, 63, 0), 0, 0), ("SRL", 16, (u64::MAX, 64, 0), 0, 0), ("SRL", 16, (u64::MAX, 1 << 32, 0), 0, 0), ("SRLI", 16, (u64::MAX, 0, 0), 4095, 0),
        ("NOT", 16, (0, 0, 0), 0, 0), ("NOOP", 0, (0, 0, 0), 0, 0), ("MOVI", 16, (0, 0, 0), 262143, 0), ("MOVE", 0, (5, 0, 0), 0, 0), ("MOVE", 15, (5, 0, 0), 0, 0), ("ADD", 3, (1, 1, 0), 0, 0),
        ("NIOP", 16, (255, 1, 0), 0x00, 0), ("NIOP", 16, (255, 1, 0), 0x00, 2), ("NIOP", 16, (0x1FF, 0x101, 0), 0x00, 0), ("NIOP", 16, (0, 1, 0), 0x01, 2), ("NIOP", 16, (0, 1, 0), 0x21, 2),
        ("NIOP", 16, (u32::MAX as u64, u32::MAX as u64, 0), 0x22, 2), ("NIOP", 16, (2, 8, 0), 0x03, 2), ("NIOP", 16, (2, 7, 0), 0x03, 0), ("NIOP", 16, (2, u32::MAX as u64, 0), 0x23, 2), ("NIOP", 16, (1, u32::MAX as u64, 0), 0x23, 0),
        ("NIOP", 16, (1, 7, 0), 0x04, 0), ("NIOP", 16, (1, 8, 0), 0x04, 0), ("NIOP", 16, (1, 64, 0), 0x24, 0), ("NIOP", 16, (3, 63, 0), 0x24, 0), ("NIOP", 16, (1, 31, 0), 0x24, 0), ("NIOP", 16, (0xF0, 0x0F, 0), 0x05, 0),
        ("NIOP", 16, (1, 1, 0), 0x06, 0), ("NIOP", 16, (1, 1, 0), 0x30, 0), ("NIOP", 5, (1, 1, 0), 0x30, 0), ("NIOP", 5, (1, 1, 0), 0x00, 0), ("NIOP", 16, (u64::MAX, u64::MAX, 0), 0x15, 0),
    ];
    for (n, dst, vals, imm, flag) in corpus {
        let cs = mk(ctx, n, *dst, *vals, *imm, *flag, 400);
        run_case(ctx, &mut vm, &cs);
    }
    // 1. every opcode x boundary pool^2 (sampled) x flags x destinations
    let pl = pool(ctx);
    for &name in &names {
        let n = ctx.n(600, 12_000);
        for _ in 0..n {
            let b = if ctx.rng.chance(3, 4) { *ctx.rng.pick(&pl) } else { ctx.rng.word() };
            let c = if ctx.rng.chance(3, 4) { *ctx.rng.pick(&pl) } else { ctx.rng.word() };
            let d = if ctx.rng.chance(3, 4) { *ctx.rng.pick(&pl) } else { ctx.rng.word() };
            let imm = match ctx.rng.below(4) { 0 => *ctx.rng.pick(&[0u32, 1, 2, 63, 64, 65, 4095, 4094, 262143]), _ => ctx.rng.next() as u32 };
            let (dst, flag, pc) = (dsts(ctx), flags(ctx), pcs(ctx));
            let cs = mk(ctx, name, dst, (b, c, d), imm, flag, pc);
            run_case(ctx, &mut vm, &cs);
        }
    }
    // 2. targeted: EXP / EXPI around the overflow boundary
    for _ in 0..ctx.n(1500, 30_000) {
        let base = match ctx.rng.below(3) { 0 => 2 + ctx.rng.below(20), 1 => ctx.rng.word(), _ => 1 + ctx.rng.below(1 << 17) };
        let mut e = 0u64;
        if base >= 2 { let mut acc: u128 = 1; while acc < (1u128 << 64) { acc *= base as u128; e += 1; } }
        let e = (e + 2).saturating_sub(ctx.rng.below(5));
        let flag = flags(ctx);
        let d_ = 16 + ctx.rng.below(48) as usize; let cs = mk(ctx, "EXP", d_, (base, e, 0), 0, flag, 8);
        run_case(ctx, &mut vm, &cs);
        let d_ = 16 + ctx.rng.below(48) as usize; let cs = mk(ctx, "EXPI", d_, (base, 0, 0), (e & 4095) as u32, flag, 8);
        run_case(ctx, &mut vm, &cs);
    }
    // 3. targeted: MLOG at b^k, b^k ± 1; MROO at r^c, r^c ± 1 for every c in 1..=66
    for _ in 0..ctx.n(1500, 40_000) {
        let base = match ctx.rng.below(3) { 0 => 2 + ctx.rng.below(16), 1 => 2 + ctx.rng.below(1 << 16), _ => ctx.rng.word().max(2) };
        let mut v: u128 = 1; let mut pows = vec![];
        while v <= u64::MAX as u128 { pows.push(v as u64); v *= base as u128; }
        let p = *ctx.rng.pick(&pows);
        let a = match ctx.rng.below(3) { 0 => p, 1 => p.wrapping_sub(1), _ => p.wrapping_add(1) };
        let (d_, f_) = (16 + ctx.rng.below(48) as usize, ctx.rng.below(4)); let cs = mk(ctx, "MLOG", d_, (a, base, 0), 0, f_, 8);
        run_case(ctx, &mut vm, &cs);
    }
    let roots_n = ctx.n(40, 600);
    for c in 1u64..=66 {
        for _ in 0..roots_n {
            let hi = max_root(c);
            let r = match ctx.rng.below(4) { 0 => 1 + ctx.rng.below(hi.min(50)), 1 => hi.saturating_sub(ctx.rng.below(4)), _ => 1 + ctx.rng.below(hi) };
            let p = match pow_fits(r, c.min(64), 64) { Some(p) if c <= 64 || r <= 1 => p, _ => ctx.rng.word() };
            let a = match ctx.rng.below(4) { 0 => p, 1 => p.wrapping_sub(1), 2 => p.wrapping_add(1), _ => ctx.rng.word() };
            let (d_, f_) = (16 + ctx.rng.below(48) as usize, ctx.rng.below(4)); let cs = mk(ctx, "MROO", d_, (a, c, 0), 0, f_, 8);
            run_case(ctx, &mut vm, &cs);
        }
    }
    // 3b. deterministic MROO sweep (quick tier too): exact perfect powers r^c and r^c ± 1 for every degree c in 2..=64
    //     with small r, the largest r whose power fits, and powers of two — the places where the f64 seed of
    //     checked_nth_root is inexact (e.g. 64^(1/3), (10^18)^(1/9), (2^63)^(1/7)); the oracle checks r^c <= a < (r+1)^c
    let mut named: Vec<(u64, u64)> = vec![(64, 3), (1_000_000_000_000_000_000, 9), (1 << 63, 7), (1 << 62, 2), (1 << 60, 3), (1 << 60, 4), (1 << 60, 5), (1 << 60, 6),
        (1 << 60, 10), (1 << 60, 12), (1 << 60, 15), (1 << 60, 20), (1 << 60, 30), (1 << 60, 60), (1 << 63, 3), (1 << 63, 9), (1 << 63, 21), (1 << 63, 63), (1 << 48, 3), (1 << 48, 6),
        (125, 3), (1000, 3), (1_000_000, 3), (1_000_000_000_000_000_000, 3), (1_000_000_000_000_000_000, 6), (1_000_000_000_000_000_000, 18), (3486784401, 20), (12157665459056928801, 40),
        (4052555153018976267, 39), (10000000000000000000, 19), (7450580596923828125, 27), (u64::MAX, 2), (u64::MAX, 3), (18446744065119617025, 2), (18446724184312856125, 3)];
    for c in 2u64..=64 {
        let hi = max_root(c);
        let mut rs: Vec<u64> = vec![2, 3, 4, 5, 6, 7, 8, 9, 10, 16, 100, 1000, 65536, hi, hi.saturating_sub(1), hi / 2 + 1];
        let mut k = 1u64; while k < 64 / c + 1 { rs.push(1 << k); k += 1; }
        for r in rs { if r >= 2 && r <= hi { if let Some(p) = pow_fits(r, c, 64) { named.push((p, c)); } } }
    }
    for (i, (p, c)) in named.iter().enumerate() {
        for a in [*p, p.wrapping_sub(1), p.wrapping_add(1)] {
            let cs = mk(ctx, "MROO", 16 + (i % 48), (a, *c, 0), 0, (i % 4) as u64, 8);
            run_case(ctx, &mut vm, &cs);
        }
    }
    ctx.count_n("mroo.perfect-power-sweep", 3 * named.len() as u64);
    // 3c. results exactly at the u64 boundary for the overflow-capturing instructions (2^64-1 fits, 2^64 does not)
    for _ in 0..ctx.n(150, 3000) {
        let x = ctx.rng.word();
        let d = ctx.rng.below(3);            // sum / product lands on u64::MAX - 1 + d
        let imm = ctx.rng.below(4096) as u32;
        let flag = ctx.rng.below(4);
        let dst = 16 + ctx.rng.below(48) as usize;
        let tgt: u128 = u64::MAX as u128 - 1 + d as u128;
        let cs = mk(ctx, "ADD", dst, (x, tgt.saturating_sub(x as u128).min(u64::MAX as u128) as u64, 0), 0, flag, 8); run_case(ctx, &mut vm, &cs);
        let cs = mk(ctx, "ADDI", dst, (tgt.saturating_sub(imm as u128).min(u64::MAX as u128) as u64, 0, 0), imm, flag, 8); run_case(ctx, &mut vm, &cs);
        let cs = mk(ctx, "SUB", dst, (x, x.wrapping_add(d).wrapping_sub(1), 0), 0, flag, 8); run_case(ctx, &mut vm, &cs);
        let cs = mk(ctx, "SUBI", dst, ((imm.max(1) as u64 + d).saturating_sub(1), 0, 0), imm.max(1), flag, 8); run_case(ctx, &mut vm, &cs);
        // products: divisors of 2^64 - 1 = 3·5·17·257·641·65537·6700417, and powers of two for 2^64
        let f = *ctx.rng.pick(&[3u64, 5, 15, 17, 255, 257, 641, 65535, 65537, 4294967295, 6700417, 1, u64::MAX]);
        let cs = mk(ctx, "MUL", dst, (f, u64::MAX / f, 0), 0, flag, 8); run_case(ctx, &mut vm, &cs);
        let k = ctx.rng.below(65);
        let cs = mk(ctx, "MUL", dst, (1u64.checked_shl(k as u32).unwrap_or(0), 1u64.checked_shl(64 - k as u32).unwrap_or(0), 0), 0, flag, 8); run_case(ctx, &mut vm, &cs);
        let fi = *ctx.rng.pick(&[3u32, 5, 15, 17, 51, 85, 255, 257, 771, 1285, 3855, 1]);
        let mb = (u64::MAX / fi as u64).saturating_add(ctx.rng.below(2)); let cs = mk(ctx, "MULI", dst, (mb, 0, 0), fi, flag, 8); run_case(ctx, &mut vm, &cs);
        // MLDV: quotient exactly 2^64 - 1 / 2^64
        let cs = mk(ctx, "MLDV", dst, (u64::MAX, x.max(1), x.max(1)), 0, flag, 8); run_case(ctx, &mut vm, &cs);
        let cs = mk(ctx, "MLDV", dst, (1 << 63, 2 * x.max(1).min(u64::MAX / 2), x.max(1).min(u64::MAX / 2)), 0, flag, 8); run_case(ctx, &mut vm, &cs);
    }
    // 4. targeted: MLDV with quotients around 2^64
    for _ in 0..ctx.n(1500, 30_000) {
        let b = ctx.rng.word(); let c = ctx.rng.word();
        let prod = b as u128 * c as u128;
        let d = match ctx.rng.below(4) { 0 => ((prod >> 64) as u64).wrapping_add(ctx.rng.below(3)).wrapping_sub(1), 1 => 0, 2 => 1, _ => ctx.rng.word() };
        let (d_, f_) = (dsts(ctx), ctx.rng.below(4)); let cs = mk(ctx, "MLDV", d_, (b, c, d), 0, f_, 8);
        run_case(ctx, &mut vm, &cs);
    }
    // 5. NIOP: all 64 immediates x operands with junk upper bits; thorough: exhaustive over 8-bit operands for the 6 ops
    for imm in 0u32..64 {
        for _ in 0..ctx.n(60, 1500) {
            let wd = 8u32 << ((imm >> 4) & 3).min(2);
            let m = (1u64 << wd) - 1;
            let narrow = |ctx: &mut Ctx| match ctx.rng.below(4) { 0 => ctx.rng.below(10), 1 => m - ctx.rng.below(3), 2 => ctx.rng.below(wd as u64 + 70), _ => ctx.rng.next() & m };
            let b = narrow(ctx) | if ctx.rng.chance(1, 2) { ctx.rng.next() & !m } else { 0 };
            let c = narrow(ctx) | if ctx.rng.chance(1, 2) { ctx.rng.next() & !m } else { 0 };
            let (dst, flag) = (dsts(ctx), ctx.rng.below(4));
            let cs = mk(ctx, "NIOP", dst, (b, c, 0), imm, flag, 8);
            run_case(ctx, &mut vm, &cs);
        }
    }
    if ctx.thorough() {
        for op in 0u32..6 {
            for flag in [0u64, 2] {
                for b in 0u64..256 { for c in 0u64..256 {
                    let hi = if (b ^ c) & 1 == 1 { 0xABCD_EF01_2345_6700u64 } else { 0 };
                    let cs = mk(ctx, "NIOP", 20, (b | hi, c | hi, 0), op, flag, 8);
                    run_case(ctx, &mut vm, &cs);
                } }
            }
        }
        ctx.count_n("niop.exhaustive-8bit", 6 * 2 * 65536);
    }
    // 6. malformed: ALU opcodes with reserved bits set / undefined opcode bytes -> InvalidInstruction
    for _ in 0..ctx.n(300, 3000) {
        let name = *ctx.rng.pick(&names);
        let r = row(name);
        let raw = ((r.0 as u32) << 24) | (ctx.rng.next() as u32 & 0x00FF_FFFF);
        let mut regs = base_regs();
        for i in 16..NREG { regs[i] = ctx.rng.word(); }
        regs[PC] = 64;
        // operands read from the gas registers are outside the model (gas is not modelled)
        if (0..4).any(|k| { let f = (raw >> (18 - 6 * k)) & 63; k < r.2.iter().filter(|x| **x == 0).count() as u32 && (f == 9 || f == 10) }) { continue; }
        let req = format!("x {} {}", raw, fmt_regs(&regs));
        if let Ok((st, after)) = ctx.guard(|| step(&mut vm, &regs, raw)) {
            if st == "InvalidInstruction" { ctx.count("malformed.invalid-instruction"); } else { ctx.count("malformed.valid"); }
            ctx.emit(&req, &format!("{st}{}", fmt_diff(&regs, &after)));
        }
    }
}
