//! C25 — control flow. (A) every jump opcode as a single instruction on a real `Interpreter` with
//! boundary registers/immediates; (B) generated programs with loops / jump-and-link subroutines placed in
//! VM memory and single-stepped with `Interpreter::execute` (fetch + executable-region check + execute);
//! (C) every non-jump opcode with random arguments: whenever it succeeds, `$pc` must advance by 4.
//! A, B are compared with the Lean model (stream `c25`); all three are checked against the property's own
//! predicate computed here in exact (non-saturating) u128 arithmetic.
use crate::{ctx::Ctx, gen::{instr_gen as g, vmstep::*}};

const JUMPS: &[&str] = &["JI", "JNEI", "JNZI", "JMP", "JNE", "JMPF", "JMPB", "JNZF", "JNZB", "JNEF", "JNEB", "JAL"];
/// opcodes that end the context or transfer control by other means (not "advancing")
const ALU: &[&str] = &[
    "ADD", "ADDI", "AND", "ANDI", "DIV", "DIVI", "EQ", "EXP", "EXPI", "GT", "LT", "MLOG", "MOD", "MODI", "MOVE", "MOVI",
    "MROO", "MUL", "MULI", "MLDV", "NIOP", "NOOP", "NOT", "OR", "ORI", "SLL", "SLLI", "SRL", "SRLI", "SUB", "SUBI", "XOR", "XORI",
];
const TERMINAL: &[&str] = &["RET", "RETD", "RVRT", "CALL"];

fn row(name: &str) -> &'static (u8, &'static str, &'static [u8]) {
    g::TABLE.iter().find(|r| r.1 == name).expect("opcode in table")
}
fn row_by_op(op: u8) -> Option<&'static (u8, &'static str, &'static [u8])> {
    g::TABLE.iter().find(|r| r.0 == op)
}
fn args_of(raw: u32, shape: &[u8]) -> Vec<u64> {
    let mut used = 0u32;
    shape.iter().map(|k| { let b = if *k == 0 { 6 } else { *k as u32 }; used += b; ((raw >> (24 - used)) & ((1u32 << b) - 1)) as u64 }).collect()
}

enum Spec { Pc(u64), Panic(&'static str) }

/// the specified effect of a jump instruction on `$pc` (exact arithmetic), plus the JAL return register
fn jump_spec(name: &str, a: &[u64], regs: &[u64; NREG]) -> (Spec, Option<(usize, u64)>) {
    let r = |i: u64| regs[i as usize];
    let (pc, is) = (regs[PC] as u128, regs[IS] as u128);
    let max = VM_MAX_RAM as u128;
    let land = |t: u128| if t < max { Spec::Pc(t as u64) } else { Spec::Panic("MemoryOverflow") };
    let abs = |cond: bool, x: u128| if !cond { Spec::Pc((pc + 4).min(u64::MAX as u128) as u64) } else { land(is + 4 * x) };
    let fwd = |cond: bool, x: u128| if !cond { Spec::Pc((pc + 4).min(u64::MAX as u128) as u64) } else { land(pc + 4 * (x + 1)) };
    let bwd = |cond: bool, x: u128| if !cond { Spec::Pc((pc + 4).min(u64::MAX as u128) as u64) } else {
        let off = 4 * (x + 1);
        if off > pc { Spec::Panic("MemoryOverflow") } else { land(pc - off) }
    };
    match name {
        "JI" => (abs(true, a[0] as u128), None),
        "JNEI" => (abs(r(a[0]) != r(a[1]), a[2] as u128), None),
        "JNZI" => (abs(r(a[0]) != 0, a[1] as u128), None),
        "JMP" => (abs(true, r(a[0]) as u128), None),
        "JNE" => (abs(r(a[0]) != r(a[1]), r(a[2]) as u128), None),
        "JMPF" => (fwd(true, r(a[0]) as u128 + a[1] as u128), None),
        "JMPB" => (bwd(true, r(a[0]) as u128 + a[1] as u128), None),
        "JNZF" => (fwd(r(a[0]) != 0, r(a[1]) as u128 + a[2] as u128), None),
        "JNZB" => (bwd(r(a[0]) != 0, r(a[1]) as u128 + a[2] as u128), None),
        "JNEF" => (fwd(r(a[0]) != r(a[1]), r(a[2]) as u128 + a[3] as u128), None),
        "JNEB" => (bwd(r(a[0]) != r(a[1]), r(a[2]) as u128 + a[3] as u128), None),
        "JAL" => {
            let ret = a[0] as usize;
            if ret != 0 && ret < 16 { return (Spec::Panic("ReservedRegisterNotWritable"), None); }
            let ret_addr = (pc + 4).min(u64::MAX as u128) as u64;
            let stored = if ret == 0 { None } else { Some((ret, ret_addr)) };
            let base = if a[1] as usize == ret && ret != 0 { ret_addr } else { r(a[1]) };
            (land(base as u128 + 4 * a[2] as u128), stored)
        }
        _ => unreachable!(),
    }
}

/// oracle for one executed jump instruction
fn check_jump(ctx: &mut Ctx, name: &str, raw: u32, regs: &[u64; NREG], st: &str, after: &[u64; NREG], req: &str) {
    // the specification speaks about executing instructions: `$pc` was fetched, hence inside memory
    if regs[PC] >= VM_MAX_RAM { ctx.count("jump.unreachable-pc(model-only)"); return; }
    let a = args_of(raw, row(name).2);
    let (spec, stored) = jump_spec(name, &a, regs);
    let fp = |k: &str| format!("{}-{}", name.to_lowercase(), k);
    let changed = |skip: &[usize]| (0..NREG).find(|i| !skip.contains(i) && *i != GGAS && *i != CGAS && regs[*i] != after[*i]);
    let ret_idx = stored.map(|s| s.0);
    match spec {
        Spec::Pc(t) => {
            if st != "ok" { ctx.oracle_fail(&fp("unexpected-panic"), req, &format!("expected $pc = {t}, got {st}")); return; }
            if after[PC] != t { ctx.oracle_fail(&fp("wrong-target"), req, &format!("$pc = {}, specified {t}", after[PC])); }
            if let Some((i, v)) = stored { if after[i] != v { ctx.oracle_fail(&fp("return-address"), req, &format!("reg {i} = {}, specified {v}", after[i])); } }
            let mut skip = vec![PC]; if let Some(i) = ret_idx { skip.push(i); }
            if let Some(i) = changed(&skip) { ctx.oracle_fail(&fp("frame"), req, &format!("register {i} changed")); }
        }
        Spec::Panic(p) => {
            if st != p { ctx.oracle_fail(&fp("wrong-panic"), req, &format!("expected {p}, got {st}")); }
            if after[PC] != regs[PC] { ctx.oracle_fail(&fp("panic-moved-pc"), req, &format!("$pc = {}", after[PC])); }
            // JAL stores the return address before the target is checked; every other register must be intact
            let mut skip = vec![]; if let Some(i) = ret_idx { skip.push(i); }
            if let Some(i) = changed(&skip) { ctx.oracle_fail(&fp("panic-changed-register"), req, &format!("register {i} changed")); }
        }
    }
}

fn single(ctx: &mut Ctx, vm: &mut Vm, name: &'static str, raw: u32, regs: [u64; NREG]) {
    let req = format!("j {} {}", raw, fmt_regs(&regs));
    match ctx.guard(|| step(vm, &regs, raw)) {
        Ok((st, after)) => {
            ctx.count(&format!("jump.{name}"));
            ctx.count(&format!("jump.st.{st}"));
            if st == "ok" { ctx.count(if after[PC] == regs[PC].saturating_add(4) { "jump.fallthrough-or-next" } else { "jump.taken" }); }
            check_jump(ctx, name, raw, &regs, &st, &after, &req);
            let mut key = raw.to_be_bytes().to_vec(); key.extend_from_slice(&regs[PC].to_be_bytes()); key.extend_from_slice(&regs[IS].to_be_bytes());
            for a in args_of(raw, row(name).2).iter().take(3) { if (*a as usize) < NREG { key.extend_from_slice(&regs[*a as usize].to_be_bytes()); } }
            ctx.distinct(&key);
            ctx.emit(&req, &format!("{st}{}", fmt_diff(&regs, &after)));
        }
        Err(msg) => { ctx.oracle_fail(&format!("panic-{name}"), &req, &msg); *vm = new_vm(); ctx.emit(&req, "HOST-PANIC"); }
    }
}

/// boundary-biased value for a register feeding a jump offset
fn offv(ctx: &mut Ctx) -> u64 {
    match ctx.rng.below(10) {
        0 => 0, 1 => 1, 2 => ctx.rng.below(64),
        3 => VM_MAX_RAM / 4 - ctx.rng.below(4), 4 => VM_MAX_RAM / 4 + ctx.rng.below(4), 5 => VM_MAX_RAM - ctx.rng.below(9),
        6 => *ctx.rng.pick(&[1u64 << 62, (1 << 62) - 1, (1 << 62) + 1, 1 << 63, u64::MAX, u64::MAX - 1, u64::MAX / 4, u64::MAX / 4 + 1, u64::MAX - 4095, u64::MAX - 63]),
        7 => ctx.rng.below(1 << 24),
        _ => ctx.rng.word(),
    }
}
fn pcv(ctx: &mut Ctx) -> u64 {
    match ctx.rng.below(8) {
        0 => 0, 1 => 4 * ctx.rng.below(8), 2 => VM_MAX_RAM - 4 * (1 + ctx.rng.below(4)), 3 => VM_MAX_RAM / 2 + 4 * ctx.rng.below(1000),
        4 => *ctx.rng.pick(&[VM_MAX_RAM, VM_MAX_RAM + 4, u64::MAX, u64::MAX - 3, u64::MAX - 4, 1 << 63]),
        5 => ctx.rng.below(VM_MAX_RAM), // possibly unaligned
        _ => 4 * ctx.rng.below(VM_MAX_RAM / 4),
    }
}

fn gen_single(ctx: &mut Ctx, vm: &mut Vm, name: &'static str) {
    let r = row(name);
    let mut regs = base_regs();
    regs[PC] = pcv(ctx);
    regs[IS] = if ctx.rng.chance(1, 2) { pcv(ctx) } else { regs[PC].saturating_sub(4 * ctx.rng.below(64)) };
    regs[SSP] = VM_MAX_RAM; regs[SP] = VM_MAX_RAM; regs[HP] = VM_MAX_RAM;
    regs[FLAG] = ctx.rng.below(4);
    for i in 16..NREG { regs[i] = offv(ctx); }
    // conditions: make equal pairs likely
    if ctx.rng.chance(1, 2) { let v = regs[16 + ctx.rng.below(48) as usize]; regs[16 + ctx.rng.below(48) as usize] = v; }
    let args: Vec<u32> = r.2.iter().enumerate().map(|(pos, k)| {
        if *k == 0 {
            match ctx.rng.below(12) {
                0 => *ctx.rng.pick(&[0u32, 1, 3, 12]),                       // $zero, $one, $pc, $is as operands
                1 if name == "JAL" && pos == 0 => ctx.rng.below(16) as u32,  // reserved return register
                2 if pos > 0 => 16,                                           // aliasing
                _ => 16 + ctx.rng.below(48) as u32,
            }
        } else {
            let m = (1u32 << *k) - 1;
            match ctx.rng.below(5) { 0 => 0, 1 => m, 2 => ctx.rng.below(8) as u32, _ => ctx.rng.next() as u32 & m }
        }
    }).collect();
    let raw = encode(r.0, r.2, &args);
    // operands read from the gas registers are outside the model
    if r.2.iter().zip(&args).any(|(k, a)| *k == 0 && (*a == 9 || *a == 10)) { return; }
    single(ctx, vm, name, raw, regs);
}

// ---------------------------------------------------------------------------------------------
// (B) programs

fn ins(name: &str, args: &[u32]) -> u32 { let r = row(name); encode(r.0, r.2, args) }

/// a generated program: instruction words; every relative/absolute immediate lands inside (or just around) the program
fn gen_program(ctx: &mut Ctx, is: u64) -> Vec<u32> {
    let n = 6 + ctx.rng.below(26) as usize;
    let mut p: Vec<u32> = vec![];
    // prologue: loop counter, subroutine address register
    p.push(ins("MOVI", &[16, 1 + ctx.rng.below(5) as u32]));
    let sub_idx = (n - 1 - ctx.rng.below(3) as usize) as u32;
    p.push(ins("MOVI", &[21, (is as u32).wrapping_add(4 * sub_idx) & 0x3FFFF]));
    while p.len() < n {
        let i = p.len() as u32;
        let tgt = ctx.rng.below(n as u64 + 1) as u32; // may be one past the end
        let rr = |ctx: &mut Ctx| 16 + ctx.rng.below(7) as u32;
        let w = match ctx.rng.below(20) {
            0 => ins("JI", &[tgt]),
            1 => ins("JNZI", &[rr(ctx), tgt]),
            2 => ins("JNEI", &[rr(ctx), rr(ctx), tgt]),
            3 if tgt > i => ins("JMPF", &[0, tgt - i - 1]),
            4 if tgt <= i => ins("JMPB", &[0, i - tgt]),   // i - tgt + 1 instructions back, minus the implicit 1
            5 if tgt > i => ins("JNZF", &[rr(ctx), 0, tgt - i - 1]),
            6 if tgt < i => ins("JNZB", &[16, 0, i - tgt - 1]),
            7 if tgt > i => ins("JNEF", &[rr(ctx), rr(ctx), 0, (tgt - i - 1) & 63]),
            8 if tgt < i => ins("JNEB", &[rr(ctx), rr(ctx), 0, (i - tgt - 1) & 63]),
            9 => ins("JAL", &[20, 21, ctx.rng.below(2) as u32]),          // call subroutine (sometimes one further)
            10 => ins("JAL", &[0, 20, 0]),                                  // return
            11 => { p.push(ins("MOVI", &[22, tgt])); ins("JMP", &[22]) }
            12 => { p.push(ins("MOVI", &[22, tgt])); ins("JNE", &[rr(ctx), rr(ctx), 22]) }
            13 => ins("SUBI", &[16, 16, 1]),
            14 => ins("ADDI", &[rr(ctx), rr(ctx), ctx.rng.below(9) as u32]),
            15 => ins("JAL", &[23, 21, 1 + ctx.rng.below(3) as u32]),
            16 => ins("NOOP", &[]),
            17 => ins("MUL", &[rr(ctx), rr(ctx), rr(ctx)]),
            18 => ins("JAL", &[ctx.rng.below(16) as u32, 21, 0]),           // reserved return register
            _ => ins("MOVI", &[rr(ctx), ctx.rng.below(12) as u32]),
        };
        p.push(w);
    }
    p
}

fn run_program(ctx: &mut Ctx, vm: &mut Vm) {
    let is = match ctx.rng.below(4) { 0 => 0, 1 => 4 * ctx.rng.below(64), _ => 4 * ctx.rng.below(2000) };
    let prog = gen_program(ctx, is);
    let end = is + 4 * prog.len() as u64;
    // memory: stack allocated up to `stack_len` (>= end, sometimes only just), program at `is`
    let stack_len = end + match ctx.rng.below(3) { 0 => 0, 1 => ctx.rng.below(8), _ => 64 + ctx.rng.below(256) };
    vm.memory_mut().reset();
    vm.memory_mut().grow_stack(stack_len).expect("grow_stack");
    let mut bytes = vec![];
    for w in &prog { bytes.extend_from_slice(&w.to_be_bytes()); }
    vm.memory_mut().write_noownerchecks(is, bytes.len()).expect("program area").copy_from_slice(&bytes);
    let mut regs = base_regs();
    // executable region [$is, $ssp): usually the whole program, sometimes cut short or starting late
    regs[IS] = match ctx.rng.below(8) { 0 => is + 4 * ctx.rng.below(3), _ => is };
    regs[SSP] = match ctx.rng.below(6) { 0 => end - 4 * ctx.rng.below(3), 1 => end + ctx.rng.below(5), _ => end };
    regs[SP] = regs[SSP]; regs[HP] = VM_MAX_RAM;
    regs[PC] = is;
    regs[FLAG] = if ctx.rng.chance(1, 3) { 2 } else { 0 };
    let hexprog = crate::util::hex(&bytes);
    let steps = 40 + ctx.rng.below(40);
    ctx.count("program");
    for _ in 0..steps {
        // an unaligned JAL target can make `$pc` point at a word that decodes to an opcode of another family
        // (no Lean execution model in this stream): stop the trace there
        {
            let pc = regs[PC];
            if pc >= regs[IS] && pc < regs[SSP] && pc.checked_add(4).map_or(false, |e| e <= stack_len) {
                let byte_at = |a: u64| -> u8 { if a >= is && ((a - is) as usize) < bytes.len() { bytes[(a - is) as usize] } else { 0 } };
                if let Some(r) = row_by_op(byte_at(pc)) {
                    if !JUMPS.contains(&r.1) && !ALU.contains(&r.1) { ctx.count("prog.stop-other-family-opcode"); break; }
                }
            }
        }
        let req = format!("p {} {} {}:{} {}", stack_len, VM_MAX_RAM, is, hexprog, fmt_regs(&regs));
        let before = regs;
        vm.registers_mut().copy_from_slice(&regs);
        let res = match ctx.guard(|| { let r = vm.execute::<false>(); status(&r) }) {
            Ok(s) => s,
            Err(msg) => { ctx.oracle_fail("panic-execute", &req, &msg); *vm = new_vm(); return; }
        };
        let mut after = [0u64; NREG];
        after.copy_from_slice(vm.registers());
        // ---- oracle: executed only inside [$is, $ssp); non-jump success => +4; jumps per jump_spec ----
        let pc = before[PC];
        let in_region = pc >= before[IS] && pc < before[SSP];
        let readable = pc.checked_add(4).map_or(false, |e| e <= stack_len);
        if !readable {
            if res != "UninitalizedMemoryAccess" && res != "MemoryOverflow" { ctx.oracle_fail("fetch-unreadable-executed", &req, &format!("status {res}")); }
            ctx.count("prog.fetch-unreadable");
        } else if !in_region {
            if res != "MemoryNotExecutable" { ctx.oracle_fail("executed-outside-region", &req, &format!("$pc={pc} $is={} $ssp={} status {res}", before[IS], before[SSP])); }
            if after != before { ctx.oracle_fail("not-executable-changed-state", &req, "registers changed"); }
            ctx.count("prog.not-executable");
        } else {
            let off = (pc - is) as usize;
            let raw = if off + 4 <= bytes.len() { u32::from_be_bytes([bytes[off], bytes[off + 1], bytes[off + 2], bytes[off + 3]]) } else { 0 };
            if let Some(r) = row_by_op((raw >> 24) as u8) {
                if res != "InvalidInstruction" {
                    if JUMPS.contains(&r.1) { check_jump(ctx, r.1, raw, &before, &res, &after, &req); ctx.count("prog.jump"); if res == "ok" && after[PC] < pc { ctx.count("prog.jump-backward-taken"); } }
                    else if res == "ok" {
                        if after[PC] != pc + 4 { ctx.oracle_fail("nonjump-pc-not-advanced", &req, &format!("{} moved $pc {pc} -> {}", r.1, after[PC])); }
                        ctx.count("prog.nonjump-ok");
                    }
                }
            }
        }
        ctx.count(&format!("prog.st.{res}"));
        let mut key = pc.to_be_bytes().to_vec(); key.extend_from_slice(hexprog.as_bytes()); for i in 16..24 { key.extend_from_slice(&before[i].to_be_bytes()); }
        ctx.distinct(&key);
        ctx.emit(&req, &format!("{res}{}", fmt_diff(&before, &after)));
        if res != "ok" { break; }
        regs = after;
        regs[GGAS] = GAS; regs[CGAS] = GAS;
    }
}

// ---------------------------------------------------------------------------------------------
// (D) programs that build a stack frame (and optionally a heap block) with real CFEI / ALOC / MCP, copy valid
// instruction words into [$ssp, $sp) (and the heap) and then jump to: the copied words, $ssp exactly, $sp-4, $sp,
// $ssp-4 (legitimately executable), the heap, below $is, an unaligned address inside the frame.
// Every step is checked on the implementation: the instruction at $pc is executed iff its 4 bytes are allocated
// memory and $is <= $pc < $ssp; otherwise the panic is the specified one and no register changes.
// Steps whose opcode has a Lean execution model (ALU, jumps) and every failing fetch are also compared with the model
// (request `f`: full stack + heap image), so the model's `fetchInstruction` is what answers those lines.

fn frame_program(ctx: &mut Ctx, vm: &mut Vm) {
    let pre_words = ctx.rng.below(4);
    let is = 4 * pre_words;
    let filler = |ctx: &mut Ctx| -> u32 {
        match ctx.rng.below(5) { 0 => ins("NOOP", &[]), 1 => ins("ADDI", &[22, 22, 1]), 2 => ins("MOVI", &[23, 7]), 3 => ins("JI", &[0]), _ => ins("ADD", &[26, 22, 1]) }
    };
    let payload: Vec<u32> = (0..1 + ctx.rng.below(4)).map(|_| filler(ctx)).collect();
    let plen = 4 * payload.len() as u64;
    let off = 4 * ctx.rng.below(3);                       // payload offset inside the frame
    let frame = off + plen + 4 * ctx.rng.below(3);        // frame size in bytes (> 0)
    let heap_len: u64 = if ctx.rng.chance(1, 2) { 0 } else { plen + 8 * ctx.rng.below(3) };
    let variant = ctx.rng.below(9);
    let form = ctx.rng.below(3);
    // code (fixed length per shape, so addresses are known before assembling)
    let n_code = 1 + (if heap_len > 0 { 3 } else { 0 }) + 4 + 2;
    let code_end = is + 4 * n_code;
    let src = code_end;                                   // payload image sits right after the code, inside [$is, $ssp)
    let ssp = code_end + plen;
    let sp = ssp + frame;
    let hp = VM_MAX_RAM - heap_len;
    let target: u64 = match variant {
        0 | 1 => ssp + off,                               // the copied instruction words
        2 => ssp,
        3 => sp - 4,
        4 => sp,
        5 => ssp - 4,                                     // last word of the executable region: executes
        6 if heap_len > 0 => hp,
        7 if pre_words > 0 => is - 4 * (1 + ctx.rng.below(pre_words)),
        8 => ssp + off + 1 + ctx.rng.below(3),            // unaligned, inside the frame
        _ => ssp + 4 * ctx.rng.below(frame / 4 + 1),
    };
    let mut code: Vec<u32> = vec![ins("CFEI", &[frame as u32])];
    if heap_len > 0 { code.push(ins("MOVI", &[25, heap_len as u32])); code.push(ins("ALOC", &[25])); }
    code.push(ins("MOVI", &[17, src as u32]));
    code.push(ins("MOVI", &[18, plen as u32]));
    code.push(ins("ADDI", &[19, SSP as u32, off as u32]));
    code.push(ins("MCP", &[19, 17, 18]));
    if heap_len > 0 { code.push(ins("MCP", &[HP as u32, 17, 18])); }
    // the jump
    let jump_idx = code.len() as u64 + 1;
    let aligned_fwd = target % 4 == 0 && target >= is;
    code.push(ins("MOVI", &[20, if form == 1 && aligned_fwd { ((target - is) / 4) as u32 } else { (target & 0x3FFFF) as u32 }]));
    let jpc = is + 4 * jump_idx;
    code.push(match form {
        1 if aligned_fwd => ins("JMP", &[20]),
        2 if target % 4 == 0 && target > jpc && (target - jpc) / 4 - 1 < (1 << 18) => ins("JMPF", &[0, ((target - jpc) / 4 - 1) as u32]),
        2 if target % 4 == 0 && target < jpc => ins("JMPB", &[0, ((jpc - target) / 4 - 1) as u32]),
        0 if variant == 6 && heap_len > 0 => ins("JAL", &[0, HP as u32, 0]),
        _ => if target == hp && heap_len > 0 { ins("JAL", &[24, HP as u32, 0]) } else { ins("JAL", &[if ctx.rng.chance(1, 2) { 0 } else { 24 }, 20, 0]) },
    });
    while (code.len() as u64) < n_code { code.insert(code.len() - 2, ins("NOOP", &[])); }
    assert_eq!(code.len() as u64, n_code);
    // memory image: words below $is, code, payload image; the stack is allocated exactly up to $ssp (CFEI grows it)
    let mut image: Vec<u8> = vec![];
    for _ in 0..pre_words { image.extend_from_slice(&filler(ctx).to_be_bytes()); }
    for w in code.iter().chain(payload.iter()) { image.extend_from_slice(&w.to_be_bytes()); }
    assert_eq!(image.len() as u64, ssp);
    vm.memory_mut().reset();
    let extra = if ctx.rng.chance(1, 3) { 0 } else { 8 * ctx.rng.below(4) };   // allocated-but-unused stack above $sp
    vm.memory_mut().grow_stack(ssp).expect("grow_stack");
    vm.memory_mut().write_noownerchecks(0u64, image.len()).expect("image").copy_from_slice(&image);
    let mut regs = base_regs();
    regs[IS] = is; regs[PC] = is; regs[SSP] = ssp; regs[SP] = ssp; regs[HP] = VM_MAX_RAM;
    regs[FLAG] = 0;
    ctx.count("frame.program"); ctx.count(&format!("frame.target-variant.{variant}"));
    let mut grown = false;
    for _step in 0..(n_code + 8) {
        // snapshot of the real memory
        let stack: Vec<u8> = vm.memory().stack_raw().to_vec();
        let stack_len = stack.len() as u64;
        let cur_hp = regs[HP];
        let heap: Vec<u8> = if cur_hp < VM_MAX_RAM { vm.memory().read(cur_hp, (VM_MAX_RAM - cur_hp) as usize).map(|b| b.to_vec()).unwrap_or_default() } else { vec![] };
        let pc = regs[PC];
        let byte_at = |a: u64| -> Option<u8> { if a < stack_len { Some(stack[a as usize]) } else if a >= cur_hp && a < VM_MAX_RAM { heap.get((a - cur_hp) as usize).copied() } else { None } };
        let readable = pc.checked_add(4).map_or(false, |e| e <= VM_MAX_RAM && (e <= stack_len || pc >= cur_hp));
        let in_region = pc >= regs[IS] && pc < regs[SSP];
        let raw: Option<u32> = if readable { Some(u32::from_be_bytes([byte_at(pc).unwrap_or(0), byte_at(pc + 1).unwrap_or(0), byte_at(pc + 2).unwrap_or(0), byte_at(pc + 3).unwrap_or(0)])) } else { None };
        let row_here = raw.and_then(|w| row_by_op((w >> 24) as u8));
        let modelled = !(readable && in_region) || row_here.map_or(true, |r| JUMPS.contains(&r.1) || ALU.contains(&r.1));
        let req = format!("f {} {} {} {} {}", stack_len, cur_hp, crate::util::hex(&stack), crate::util::hex(&heap), fmt_regs(&regs));
        let before = regs;
        vm.registers_mut().copy_from_slice(&regs);
        let res = match ctx.guard(|| { let r = vm.execute::<false>(); status(&r) }) {
            Ok(s) => s,
            Err(msg) => { ctx.oracle_fail("panic-execute", &req, &msg); *vm = new_vm(); return; }
        };
        let mut after = [0u64; NREG];
        after.copy_from_slice(vm.registers());
        // ---- oracle on the implementation: executed iff allocated and $is <= $pc < $ssp ----
        let place = if pc >= before[SSP] && pc < before[SP] { "stack-frame" } else if pc >= before[SP] && pc < cur_hp { "above-sp" } else if pc >= cur_hp { "heap" } else if pc < before[IS] { "below-is" } else { "code" };
        if !readable {
            if res != "UninitalizedMemoryAccess" && res != "MemoryOverflow" { ctx.oracle_fail(&format!("fetch-unallocated-executed-{place}"), &req, &format!("$pc={pc} status {res}")); }
            ctx.count(&format!("frame.fetch-unreadable.{place}"));
        } else if !in_region {
            if res != "MemoryNotExecutable" { ctx.oracle_fail(&format!("executed-outside-region-{place}"), &req, &format!("$pc={pc} $is={} $ssp={} $sp={} $hp={} status {res}", before[IS], before[SSP], before[SP], cur_hp)); }
            else if after != before { ctx.oracle_fail("not-executable-changed-state", &req, "registers changed"); }
            ctx.count(&format!("frame.not-executable.{place}"));
        } else {
            if res == "MemoryNotExecutable" { ctx.oracle_fail("executable-region-rejected", &req, &format!("$pc={pc} $is={} $ssp={}", before[IS], before[SSP])); }
            if let (Some(w), Some(r)) = (raw, row_here) {
                if JUMPS.contains(&r.1) && res != "InvalidInstruction" { check_jump(ctx, r.1, w, &before, &res, &after, &req); }
                else if res == "ok" && !TERMINAL.contains(&r.1) && after[PC] != pc + 4 { ctx.oracle_fail("nonjump-pc-not-advanced", &req, &format!("{} moved $pc {pc} -> {}", r.1, after[PC])); }
            }
            ctx.count("frame.executed-in-region");
        }
        if modelled {
            let mut key = pc.to_be_bytes().to_vec(); key.extend_from_slice(&stack); key.extend_from_slice(&before[SSP].to_be_bytes()); key.extend_from_slice(&before[SP].to_be_bytes());
            ctx.distinct(&key);
            ctx.emit(&req, &format!("{res}{}", fmt_diff(&before, &after)));
        } else { ctx.count("frame.setup-step(unmodelled-opcode)"); }
        if res != "ok" { break; }
        regs = after;
        regs[GGAS] = GAS; regs[CGAS] = GAS;
        if !grown && regs[SP] > regs[SSP] {
            grown = true;
            // allocated but unused stack above $sp (so that `$sp` itself can be a readable address)
            if extra > 0 { let _ = vm.memory_mut().grow_stack(regs[SP] + extra); }
        }
    }
}

// ---------------------------------------------------------------------------------------------
// (C) every non-jump opcode: success => $pc + 4 (oracle only; these opcodes have no Lean execution model here)

fn nonjump_sweep(ctx: &mut Ctx, vm: &mut Vm) {
    let n = ctx.n(120, 3000);
    for r in g::TABLE {
        if JUMPS.contains(&r.1) { continue; }
        let t0 = std::time::Instant::now();
        for _ in 0..n {
            vm.memory_mut().reset();
            let _ = vm.memory_mut().grow_stack(4096);
            let mut regs = base_regs();
            regs[PC] = 4 * ctx.rng.below(512); regs[IS] = 0; regs[SSP] = 2048; regs[SP] = 4096; regs[HP] = VM_MAX_RAM;
            regs[FLAG] = ctx.rng.below(4);
            // realistic gas: bounds the work of storage/crypto opcodes whose cost depends on a register operand
            regs[GGAS] = 200_000; regs[CGAS] = 200_000;
            // operands: small values / addresses inside the writable stack so that many instructions succeed
            for i in 16..NREG { regs[i] = match ctx.rng.below(5) { 0 => ctx.rng.below(8), 1 => 2048 + 8 * ctx.rng.below(200), 2 => 2048 + ctx.rng.below(2000), 3 => ctx.rng.below(64), _ => ctx.rng.word() }; }
            let args: Vec<u32> = r.2.iter().map(|k| if *k == 0 { 16 + ctx.rng.below(48) as u32 } else { let m = (1u32 << *k) - 1; if ctx.rng.chance(1, 2) { ctx.rng.below(16) as u32 & m } else { ctx.rng.next() as u32 & m } }).collect();
            let raw = encode(r.0, r.2, &args);
            let req = format!("sweep {} {}", raw, fmt_regs(&regs));
            match ctx.guard(|| step(vm, &regs, raw)) {
                Ok((st, after)) => {
                    if st == "ok" {
                        if TERMINAL.contains(&r.1) { ctx.count(&format!("sweep.terminal-ok.{}", r.1)); }
                        else {
                            ctx.count(&format!("sweep.ok.{}", r.1));
                            if after[PC] != regs[PC] + 4 { ctx.oracle_fail("nonjump-pc-not-advanced", &req, &format!("{} moved $pc {} -> {}", r.1, regs[PC], after[PC])); }
                        }
                    } else { ctx.count("sweep.not-ok"); }
                }
                Err(msg) => {
                    // the sweep runs on a VM without a loaded transaction: Rust panics here are artefacts of that
                    // unreachable state (e.g. GTF `expect("Tx length not in memory")`), recorded, not violations
                    if !ctx.cov.contains_key(&format!("sweep.host-panic.{}", r.1)) { ctx.note(&format!("sweep host panic in {}: {}", r.1, msg)); }
                    ctx.count(&format!("sweep.host-panic.{}", r.1)); *vm = new_vm();
                }
            }
        }
        if std::env::var("FV_TIMING").is_ok() { eprintln!("sweep {} {:?}", r.1, t0.elapsed()); }
    }
}

pub fn run(ctx: &mut Ctx) {
    if std::env::var("FV_DEBUG").is_ok() { std::panic::set_hook(Box::new(|i| eprintln!("panic: {i}"))); }
    let mut vm = new_vm();
    // corpus: boundary cases of each mode
    let m = VM_MAX_RAM;
    let mk = |pc: u64, is: u64, v16: u64, v17: u64, v18: u64| { let mut r = base_regs(); r[PC] = pc; r[IS] = is; r[SSP] = m; r[SP] = m; r[HP] = m; r[16] = v16; r[17] = v17; r[18] = v18; r };
    let corpus: Vec<(&'static str, Vec<u32>, [u64; NREG])> = vec![
        ("JI", vec![0], mk(8, 0, 0, 0, 0)), ("JI", vec![0xFFFFFF], mk(8, 0, 0, 0, 0)), ("JI", vec![0xFFFFFF], mk(8, m - 4, 0, 0, 0)), ("JI", vec![1], mk(8, m - 4, 0, 0, 0)), ("JI", vec![0], mk(8, m - 4, 0, 0, 0)),
        ("JMP", vec![16], mk(8, 0, m / 4 - 1, 0, 0)), ("JMP", vec![16], mk(8, 0, m / 4, 0, 0)), ("JMP", vec![16], mk(8, 4, m / 4 - 1, 0, 0)), ("JMP", vec![16], mk(8, 0, 1 << 62, 0, 0)), ("JMP", vec![16], mk(8, 0, u64::MAX, 0, 0)), ("JMP", vec![16], mk(8, u64::MAX, 0, 0, 0)),
        ("JMP", vec![16], mk(8, 4, (1 << 62) - 1, 0, 0)), ("JMP", vec![16], mk(8, 4, u64::MAX / 4, 0, 0)), ("JMP", vec![16], mk(8, 4, u64::MAX / 4 + 1, 0, 0)),
        ("JNE", vec![16, 17, 18], mk(8, 0, 1, 1, 5)), ("JNE", vec![16, 17, 18], mk(8, 0, 1, 2, 5)), ("JNE", vec![16, 16, 18], mk(u64::MAX - 2, 0, 1, 2, 5)), ("JNEI", vec![16, 17, 4095], mk(8, 0, 1, 2, 0)), ("JNZI", vec![16, 262143], mk(8, 0, 1, 0, 0)), ("JNZI", vec![16, 3], mk(8, 0, 0, 0, 0)),
        ("JMPF", vec![16, 0], mk(8, 0, 0, 0, 0)), ("JMPF", vec![16, 262143], mk(8, 0, 0, 0, 0)), ("JMPF", vec![16, 262143], mk(8, 0, u64::MAX, 0, 0)), ("JMPF", vec![16, 0], mk(8, 0, u64::MAX, 0, 0)), ("JMPF", vec![16, 0], mk(m - 8, 0, 0, 0, 0)), ("JMPF", vec![16, 0], mk(m - 4, 0, 0, 0, 0)),
        ("JMPF", vec![16, 1], mk(8, 0, (1 << 62) - 2, 0, 0)), ("JMPF", vec![16, 0], mk(u64::MAX, 0, u64::MAX, 0, 0)),
        ("JMPB", vec![16, 0], mk(8, 0, 0, 0, 0)), ("JMPB", vec![16, 0], mk(8, 0, 1, 0, 0)), ("JMPB", vec![16, 0], mk(8, 0, 2, 0, 0)), ("JMPB", vec![16, 1], mk(8, 0, 0, 0, 0)), ("JMPB", vec![16, 2], mk(8, 0, 0, 0, 0)), ("JMPB", vec![16, 0], mk(0, 0, 0, 0, 0)),
        ("JMPB", vec![16, 0], mk(u64::MAX, 0, 0, 0, 0)), ("JMPB", vec![16, 0], mk(u64::MAX, 0, u64::MAX, 0, 0)), ("JMPB", vec![16, 0], mk(m + 4, 0, 0, 0, 0)), ("JMPB", vec![16, 0], mk(m + 4, 0, 1, 0, 0)), ("JMPB", vec![16, 0], mk(u64::MAX, 0, (1 << 62) - 2, 0, 0)),
        ("JNZF", vec![16, 17, 4095], mk(8, 0, 1, 0, 0)), ("JNZF", vec![16, 17, 0], mk(8, 0, 0, 9, 0)), ("JNZB", vec![16, 17, 0], mk(80, 0, 1, 3, 0)), ("JNZB", vec![16, 17, 4095], mk(80, 0, 1, 3, 0)),
        ("JNEF", vec![16, 17, 18, 63], mk(8, 0, 1, 2, 3)), ("JNEF", vec![16, 17, 18, 63], mk(8, 0, 1, 1, 3)), ("JNEB", vec![16, 17, 18, 1], mk(80, 0, 1, 2, 3)), ("JNEB", vec![16, 17, 18, 63], mk(80, 0, 1, 2, 3)),
        ("JAL", vec![16, 17, 0], mk(8, 0, 0, 400, 0)), ("JAL", vec![16, 17, 4095], mk(8, 0, 0, 400, 0)), ("JAL", vec![16, 17, 1], mk(8, 0, 0, m - 4, 0)), ("JAL", vec![16, 17, 0], mk(8, 0, 0, m - 1, 0)), ("JAL", vec![16, 17, 0], mk(8, 0, 0, m, 0)),
        ("JAL", vec![0, 17, 0], mk(8, 0, 0, 400, 0)), ("JAL", vec![1, 17, 0], mk(8, 0, 0, 400, 0)), ("JAL", vec![15, 17, 0], mk(8, 0, 0, 400, 0)), ("JAL", vec![3, 17, 0], mk(8, 0, 0, 400, 0)), ("JAL", vec![16, 16, 2], mk(8, 0, 77, 0, 0)),
        ("JAL", vec![16, 17, 0], mk(u64::MAX, 0, 0, 400, 0)), ("JAL", vec![16, 17, 4095], mk(8, 0, 0, u64::MAX, 0)), ("JAL", vec![16, 17, 0], mk(8, 0, 0, 401, 0)), ("JAL", vec![16, 3, 0], mk(8, 0, 0, 0, 0)), ("JAL", vec![16, 0, 5], mk(8, 0, 0, 0, 0)),
    ];
    for (name, args, regs) in corpus { let r = row(name); single(ctx, &mut vm, name, encode(r.0, r.2, &args), regs); }
    // (A) every jump opcode x boundary registers / immediates
    for &name in JUMPS { for _ in 0..ctx.n(1200, 30_000) { gen_single(ctx, &mut vm, name); } }
    // malformed jump words (reserved bits)
    for _ in 0..ctx.n(200, 2000) {
        let name = *ctx.rng.pick(JUMPS); let r = row(name);
        let raw = ((r.0 as u32) << 24) | (ctx.rng.next() as u32 & 0x00FF_FFFF);
        let nregs = r.2.iter().filter(|x| **x == 0).count() as u32;
        if (0..nregs).any(|k| { let f = (raw >> (18 - 6 * k)) & 63; f == 9 || f == 10 }) { continue; }
        let mut regs = base_regs(); for i in 16..NREG { regs[i] = offv(ctx); } regs[PC] = 64; regs[SSP] = m; regs[SP] = m; regs[HP] = m;
        let req = format!("j {} {}", raw, fmt_regs(&regs));
        if let Ok((st, after)) = ctx.guard(|| step(&mut vm, &regs, raw)) {
            ctx.count(if st == "InvalidInstruction" { "malformed.invalid-instruction" } else { "malformed.valid" });
            ctx.emit(&req, &format!("{st}{}", fmt_diff(&regs, &after)));
        }
    }
    // (B) programs
    for _ in 0..ctx.n(400, 8000) { run_program(ctx, &mut vm); }
    // (D) stack-frame / heap / below-$is jump targets
    for _ in 0..ctx.n(600, 12_000) { frame_program(ctx, &mut vm); }
    // (C) non-jump sweep
    nonjump_sweep(ctx, &mut vm);
}
