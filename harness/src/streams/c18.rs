//! C18 — fee and refund arithmetic: `Chargeable::{min_gas,max_gas,min_fee,max_fee,refund_fee}`,
//! `TransactionFee::checked_from_tx`, `Checked::into_ready` of the REAL crates on generated transactions of the
//! five chargeable kinds x randomized gas costs / fee parameters / prices / used-gas values, against
//! (a) the Lean model (`Drv/C18.lean`, same request line) and (b) the property's own predicates evaluated with
//! exact 256-bit integers here (oracle).
//!
//! This file also hosts the structured transaction generator shared with the C19 stream (`pub mod txgen`).
use crate::ctx::Ctx;
use fuel_tx::{
    field::*, Blob, Chargeable, ConsensusParameters, Create, DependentCost, FeeParameters, GasCosts, Input, Script,
    Transaction, TransactionFee, Upgrade, UpgradePurpose, Upload,
};
use fuel_tx::field::UpgradePurpose as UpgradePurposeField;
use fuel_types::canonical::Serialize;
use fuel_vm::checked_transaction::{CheckError, IntoChecked};

// ------------------------------------------------------------------------------------------------
// structured generator of (mostly valid) transactions — shared with c19
// ------------------------------------------------------------------------------------------------
pub mod txgen {
    use crate::ctx::Ctx;
    use fuel_tx::{
        field::*, policies::Policies, BlobBody, BlobIdExt, ConsensusParameters, Contract, ContractParameters,
        FeeParameters, GasCosts, Input, Output, PredicateParameters, ScriptParameters, StorageSlot, Transaction,
        TxParameters, TxPointer, UpgradePurpose, UploadSubsection, UtxoId, Witness,
    };
    use fuel_types::{Address, AssetId, BlobId, Bytes32, ContractId, Nonce, Salt};
    use std::collections::BTreeMap;

    /// the chain-level context a transaction is generated for
    #[derive(Clone)]
    pub struct World {
        pub base: AssetId,
        pub privileged: Address,
        pub height: u32,
    }

    pub const KINDS: [&str; 6] = ["script", "create", "upgrade-consensus", "upgrade-state", "upload", "blob"];

    pub fn world(ctx: &mut Ctx) -> World {
        let base = if ctx.rng.chance(1, 4) { AssetId::zeroed() } else { AssetId::new(ctx.rng.arr32()) };
        World { base, privileged: Address::new(ctx.rng.arr32()), height: (ctx.rng.word() >> 33) as u32 }
    }

    /// consensus parameters with every limit far away, so that only the rule under test can fire
    pub fn lenient_params(w: &World, gas_costs: GasCosts, fee: FeeParameters) -> ConsensusParameters {
        ConsensusParameters::new(
            TxParameters::DEFAULT
                .with_max_inputs(u16::MAX)
                .with_max_outputs(u16::MAX)
                .with_max_witnesses(u32::MAX)
                .with_max_gas_per_tx(u64::MAX)
                .with_max_size(u64::MAX)
                .with_max_bytecode_subsections(u16::MAX),
            PredicateParameters::DEFAULT
                .with_max_predicate_length(u64::MAX)
                .with_max_predicate_data_length(u64::MAX)
                .with_max_message_data_length(u64::MAX)
                .with_max_gas_per_predicate(u64::MAX),
            ScriptParameters::DEFAULT.with_max_script_length(u64::MAX).with_max_script_data_length(u64::MAX),
            ContractParameters::DEFAULT.with_contract_max_size(u64::MAX).with_max_storage_slots(u64::MAX),
            fee,
            Default::default(),
            gas_costs,
            w.base,
            u64::MAX,
            u64::MAX,
            w.privileged,
        )
    }

    fn len_pick(ctx: &mut Ctx) -> usize {
        match ctx.rng.below(6) {
            0 => *ctx.rng.pick(&[1usize, 7, 8, 9, 63, 64, 65]),
            1 => ctx.rng.range(1, 16) as usize,
            2 => ctx.rng.range(1, 300) as usize,
            _ => ctx.rng.range(1, 40) as usize,
        }
    }

    fn amount(ctx: &mut Ctx) -> u64 {
        match ctx.rng.below(5) {
            0 => ctx.rng.below(1000),
            1 => ctx.rng.word() >> 8,
            _ => ctx.rng.next() >> 12,
        }
    }

    /// inputs, outputs, witnesses and the per-asset spendable balance of a valid transaction body
    pub struct Io {
        pub inputs: Vec<Input>,
        pub outputs: Vec<Output>,
        pub witnesses: Vec<Witness>,
        pub balances: BTreeMap<AssetId, u128>,
    }

    /// `multi`: Script (any asset, contracts, message data, variable outputs); otherwise base asset only.
    pub fn gen_io(ctx: &mut Ctx, w: &World, multi: bool, need_privileged: bool) -> Io {
        let nw = ctx.rng.range(1, 3) as usize;
        let witnesses: Vec<Witness> = (0..nw)
            .map(|_| {
                let n = if ctx.rng.chance(2, 3) { 64 } else { ctx.rng.below(100) as usize };
                Witness::from(ctx.rng.bytes(n))
            })
            .collect();
        let mut assets = vec![w.base];
        if multi {
            assets.push(AssetId::new(ctx.rng.arr32()));
            let mut near = *w.base;
            near[31] ^= 1; // an asset id differing from the base asset in the last bit
            assets.push(AssetId::new(near));
        }
        let n_inputs = ctx.rng.range(1, 5) as usize;
        let mut inputs = vec![];
        let mut outputs = vec![];
        let mut balances: BTreeMap<AssetId, u128> = BTreeMap::new();
        for i in 0..n_inputs {
            let owner = if (need_privileged && i == 0) || ctx.rng.chance(1, 8) { w.privileged } else { Address::new(ctx.rng.arr32()) };
            let wi = ctx.rng.below(nw as u64) as u16;
            // the first input is always spendable and of the base asset (pays the fee)
            let kind = if i == 0 { *ctx.rng.pick(&[0u8, 1, 3, 4]) } else if multi { ctx.rng.below(7) as u8 } else { *ctx.rng.pick(&[0u8, 1, 3, 4]) };
            let asset = if i == 0 || !multi { w.base } else { *ctx.rng.pick(&assets) };
            let amt = amount(ctx);
            let utxo = UtxoId::new(Bytes32::new(ctx.rng.arr32()), ctx.rng.below(4) as u16);
            let txp = TxPointer::new((ctx.rng.below(1000) as u32).into(), ctx.rng.below(10) as u16);
            let nonce = Nonce::new(ctx.rng.arr32());
            let sender = Address::new(ctx.rng.arr32());
            let pgas = if ctx.rng.chance(1, 4) { ctx.rng.word() >> 20 } else { ctx.rng.below(100_000) };
            let (plen, pdlen, dlen) = (len_pick(ctx), len_pick(ctx).saturating_sub(1), len_pick(ctx));
            let (pred, pdata, data) = (ctx.rng.bytes(plen), ctx.rng.bytes(pdlen), ctx.rng.bytes(dlen));
            let input = match kind {
                0 => Input::coin_signed(utxo, owner, amt, asset, txp, wi),
                1 => Input::coin_predicate(utxo, owner, amt, asset, txp, pgas, pred, pdata),
                2 => Input::contract(utxo, Bytes32::new(ctx.rng.arr32()), Bytes32::new(ctx.rng.arr32()), txp, ContractId::new(ctx.rng.arr32())),
                3 => Input::message_coin_signed(sender, owner, amt, nonce, wi),
                4 => Input::message_coin_predicate(sender, owner, amt, nonce, pgas, pred, pdata),
                5 => Input::message_data_signed(sender, owner, amt, nonce, wi, data),
                _ => Input::message_data_predicate(sender, owner, amt, nonce, pgas, data, pred, pdata),
            };
            match kind {
                0 | 1 => *balances.entry(asset).or_default() += amt as u128,
                3 | 4 => *balances.entry(w.base).or_default() += amt as u128,
                2 => outputs.push(Output::contract(i as u16, Bytes32::new(ctx.rng.arr32()), Bytes32::new(ctx.rng.arr32()))),
                _ => {}
            }
            inputs.push(input);
        }
        // keep every per-asset sum inside u64 (the generator aims at valid transactions)
        if balances.values().any(|v| *v > u64::MAX as u128) {
            return gen_io(ctx, w, multi, need_privileged);
        }
        Io { inputs, outputs, witnesses, balances }
    }

    /// coin / change / variable outputs and the fee limit, all within the balances
    pub fn gen_spend(ctx: &mut Ctx, w: &World, io: &mut Io, multi: bool) -> u64 {
        let base_bal = *io.balances.get(&w.base).unwrap_or(&0) as u64;
        let max_fee = match ctx.rng.below(4) {
            0 => base_bal,
            1 => 0,
            _ => ctx.rng.below(base_bal.saturating_add(1).max(1)),
        };
        let mut left: BTreeMap<AssetId, u64> = io.balances.iter().map(|(k, v)| (*k, *v as u64)).collect();
        *left.entry(w.base).or_default() -= max_fee.min(base_bal);
        let assets: Vec<AssetId> = left.keys().cloned().collect();
        for a in &assets {
            let n_coin = ctx.rng.below(3);
            for _ in 0..n_coin {
                let l = left[a];
                let amt = match ctx.rng.below(3) { 0 => l, 1 => 0, _ => ctx.rng.below(l.saturating_add(1).max(1)) };
                *left.get_mut(a).unwrap() -= amt;
                io.outputs.push(Output::coin(Address::new(ctx.rng.arr32()), amt, *a));
            }
            if ctx.rng.chance(1, 2) {
                io.outputs.push(Output::change(Address::new(ctx.rng.arr32()), 0, *a));
            }
        }
        if multi {
            for _ in 0..ctx.rng.below(3) {
                io.outputs.push(Output::variable(Address::zeroed(), 0, AssetId::zeroed()));
            }
        }
        // shuffle the outputs except that Output::Contract input indices are positions of inputs, not outputs
        for i in (1..io.outputs.len()).rev() {
            let j = ctx.rng.below(i as u64 + 1) as usize;
            io.outputs.swap(i, j);
        }
        max_fee
    }

    pub fn gen_policies(ctx: &mut Ctx, w: &World, max_fee: u64, inputs: &[Input], witness_dyn: u64) -> Policies {
        let mut p = Policies::new().with_max_fee(max_fee);
        if ctx.rng.chance(1, 2) { p = p.with_tip(if ctx.rng.chance(1, 3) { ctx.rng.word() } else { ctx.rng.below(1000) }); }
        if ctx.rng.chance(2, 3) {
            p = p.with_witness_limit(match ctx.rng.below(3) { 0 => witness_dyn, 1 => witness_dyn + ctx.rng.below(10_000), _ => witness_dyn.saturating_add(ctx.rng.word()) });
        }
        if ctx.rng.chance(1, 3) { p = p.with_maturity((ctx.rng.below(w.height as u64 + 1) as u32).into()); }
        if ctx.rng.chance(1, 3) { p = p.with_expiration((w.height + (ctx.rng.below((u32::MAX - w.height) as u64 + 1) as u32)).into()); }
        if ctx.rng.chance(1, 3) {
            let owners: Vec<usize> = inputs.iter().enumerate().filter(|(_, i)| i.input_owner().is_some()).map(|(k, _)| k).collect();
            if !owners.is_empty() { p = p.with_owner(*ctx.rng.pick(&owners) as u64); }
        }
        p
    }

    pub fn witness_dyn(ws: &[Witness]) -> u64 {
        use fuel_types::canonical::Serialize;
        ws.to_vec().size_dynamic() as u64
    }

    /// a transaction of the given kind (index into `KINDS`) that satisfies every validity rule under lenient limits
    pub fn gen_valid(ctx: &mut Ctx, w: &World, kind: usize) -> Transaction {
        let multi = kind == 0;
        let mut io = gen_io(ctx, w, multi, kind == 2 || kind == 3);
        let max_fee = gen_spend(ctx, w, &mut io, multi);
        match kind {
            0 => {
                let (sl, dl) = (len_pick(ctx) - 1, len_pick(ctx) - 1);
                let gas_limit = if ctx.rng.chance(1, 3) { ctx.rng.word() >> 8 } else { ctx.rng.below(10_000_000) };
                let pol = gen_policies(ctx, w, max_fee, &io.inputs, witness_dyn(&io.witnesses));
                Transaction::script(gas_limit, ctx.rng.bytes(sl), ctx.rng.bytes(dl), pol, io.inputs, io.outputs, io.witnesses).into()
            }
            1 => {
                let code_len = len_pick(ctx) * if ctx.rng.chance(1, 3) { 37 } else { 1 };
                let code = ctx.rng.bytes(code_len);
                let bwi = io.witnesses.len() as u16;
                io.witnesses.push(code.clone().into());
                let mut slots: Vec<StorageSlot> = (0..ctx.rng.below(4)).map(|_| StorageSlot::new(Bytes32::new(ctx.rng.arr32()), Bytes32::new(ctx.rng.arr32()))).collect();
                slots.sort();
                let salt = Salt::new(ctx.rng.arr32());
                let root = Contract::root_from_code(&code);
                let state_root = Contract::initial_state_root(slots.iter());
                let id = Contract::id(&salt, &root, &state_root);
                let pos = ctx.rng.below(io.outputs.len() as u64 + 1) as usize;
                io.outputs.insert(pos, Output::contract_created(id, state_root));
                let pol = gen_policies(ctx, w, max_fee, &io.inputs, witness_dyn(&io.witnesses));
                Transaction::create(bwi, pol, salt, slots, io.inputs, io.outputs, io.witnesses).into()
            }
            2 => {
                let cp = ConsensusParameters::standard();
                let bytes = postcard_like(&cp);
                let checksum = fuel_crypto::Hasher::hash(&bytes);
                let wi = io.witnesses.len() as u16;
                io.witnesses.push(bytes.into());
                let pol = gen_policies(ctx, w, max_fee, &io.inputs, witness_dyn(&io.witnesses));
                Transaction::upgrade(UpgradePurpose::ConsensusParameters { witness_index: wi, checksum }, pol, io.inputs, io.outputs, io.witnesses).into()
            }
            3 => {
                let pol = gen_policies(ctx, w, max_fee, &io.inputs, witness_dyn(&io.witnesses));
                Transaction::upgrade(UpgradePurpose::StateTransition { root: Bytes32::new(ctx.rng.arr32()) }, pol, io.inputs, io.outputs, io.witnesses).into()
            }
            4 => {
                let total = len_pick(ctx) * 3;
                let code = ctx.rng.bytes(total);
                let sub = (total / (1 + ctx.rng.below(6) as usize)).max(1);
                let subs = UploadSubsection::split_bytecode(&code, sub).expect("split");
                let s = subs[ctx.rng.below(subs.len() as u64) as usize].clone();
                // witnesses are fixed before the upload witness is appended by `upload_from_subsection`
                let mut ws = io.witnesses.clone();
                ws.push(s.subsection.clone().into());
                let pol = gen_policies(ctx, w, max_fee, &io.inputs, witness_dyn(&ws));
                Transaction::upload_from_subsection(s, pol, io.inputs, io.outputs, io.witnesses).into()
            }
            _ => {
                let n = len_pick(ctx) * if ctx.rng.chance(1, 3) { 29 } else { 1 };
                let bytes = ctx.rng.bytes(n);
                let wi = io.witnesses.len() as u16;
                io.witnesses.push(bytes.clone().into());
                let pol = gen_policies(ctx, w, max_fee, &io.inputs, witness_dyn(&io.witnesses));
                Transaction::blob(BlobBody { id: BlobId::compute(&bytes), witness_index: wi }, pol, io.inputs, io.outputs, io.witnesses).into()
            }
        }
    }

    /// the serialization `Transaction::upgrade_consensus_parameters` uses, obtained through that very function
    pub fn postcard_like(cp: &ConsensusParameters) -> Vec<u8> {
        let up = Transaction::upgrade_consensus_parameters(cp, Policies::new(), vec![], vec![], vec![]).expect("serialize");
        up.witnesses()[0].as_vec().clone()
    }
}

// ------------------------------------------------------------------------------------------------
// exact arithmetic for the oracle (values up to 2^129 appear: (min_gas + used_gas) * price)
// ------------------------------------------------------------------------------------------------
/// 256-bit unsigned, little-endian 64-bit limbs
#[derive(Clone, Copy, PartialEq, Eq, Debug)]
struct U256([u64; 4]);
impl U256 {
    fn from_u128(x: u128) -> Self { U256([x as u64, (x >> 64) as u64, 0, 0]) }
    fn mul_u64(self, m: u64) -> Self {
        let mut out = [0u64; 4];
        let mut carry: u128 = 0;
        for i in 0..4 { let t = (self.0[i] as u128) * (m as u128) + carry; out[i] = t as u64; carry = t >> 64; }
        assert_eq!(carry, 0);
        U256(out)
    }
    fn add(self, o: U256) -> Self {
        let mut out = [0u64; 4];
        let mut carry = 0u128;
        for i in 0..4 { let t = self.0[i] as u128 + o.0[i] as u128 + carry; out[i] = t as u64; carry = t >> 64; }
        assert_eq!(carry, 0);
        U256(out)
    }
    /// (quotient, remainder) by a non-zero u64
    fn divrem_u64(self, d: u64) -> (Self, u64) {
        let mut out = [0u64; 4];
        let mut rem: u128 = 0;
        for i in (0..4).rev() { let cur = (rem << 64) | self.0[i] as u128; out[i] = (cur / d as u128) as u64; rem = cur % d as u128; }
        (U256(out), rem as u64)
    }
    fn to_u128(self) -> Option<u128> { if self.0[2] == 0 && self.0[3] == 0 { Some(self.0[0] as u128 | (self.0[1] as u128) << 64) } else { None } }
}
/// ceil(gas * price / factor) + tip, exact; None if it does not even fit u128
fn exact_fee(gas: u128, price: u64, factor: u64, tip: u64) -> Option<u128> {
    let t = U256::from_u128(gas).mul_u64(price);
    let (q, r) = t.divrem_u64(factor);
    let c = if r != 0 { q.add(U256::from_u128(1)) } else { q };
    c.add(U256::from_u128(tip as u128)).to_u128()
}

// ------------------------------------------------------------------------------------------------
// the stream
// ------------------------------------------------------------------------------------------------
fn dep(c: &DependentCost) -> String {
    match c {
        DependentCost::LightOperation { base, units_per_gas } => format!("L:{base}:{units_per_gas}"),
        DependentCost::HeavyOperation { base, gas_per_unit } => format!("H:{base}:{gas_per_unit}"),
    }
}
fn opt(o: Option<u64>) -> String { o.map(|v| v.to_string()).unwrap_or_else(|| "-".into()) }

#[derive(Clone)]
pub struct Costs { pub eck1: u64, pub s256: DependentCost, pub contract_root: DependentCost, pub state_root: DependentCost, pub vm_init: DependentCost, pub nspb: u64, pub version: u8 }

macro_rules! build_costs {
    ($ty:ident, $c:expr) => {{
        let mut v = fuel_tx::consensus_parameters::gas::$ty::free();
        v.eck1 = $c.eck1; v.s256 = $c.s256; v.contract_root = $c.contract_root; v.state_root = $c.state_root;
        v.vm_initialization = $c.vm_init; v.new_storage_per_byte = $c.nspb;
        GasCosts::new(v.into())
    }};
}
pub fn gas_costs(c: &Costs) -> GasCosts {
    match c.version {
        1 => build_costs!(GasCostsValuesV1, c), 2 => build_costs!(GasCostsValuesV2, c), 3 => build_costs!(GasCostsValuesV3, c),
        4 => build_costs!(GasCostsValuesV4, c), 5 => build_costs!(GasCostsValuesV5, c), 6 => build_costs!(GasCostsValuesV6, c),
        _ => build_costs!(GasCostsValuesV7, c),
    }
}
fn gen_dep(ctx: &mut Ctx, extreme: bool, allow_zero: bool) -> DependentCost {
    let base = if extreme { ctx.rng.word() } else { ctx.rng.below(5000) };
    if ctx.rng.chance(1, 2) {
        let mut u = if extreme { ctx.rng.word() } else { ctx.rng.range(1, 300) };
        if u == 0 && !allow_zero { u = 1; }
        DependentCost::LightOperation { base, units_per_gas: u }
    } else {
        DependentCost::HeavyOperation { base, gas_per_unit: if extreme { ctx.rng.word() } else { ctx.rng.below(60) } }
    }
}
pub fn gen_costs(ctx: &mut Ctx, extreme: bool, allow_zero: bool) -> Costs {
    Costs {
        eck1: if extreme { ctx.rng.word() } else { ctx.rng.below(3000) },
        s256: gen_dep(ctx, extreme, allow_zero), contract_root: gen_dep(ctx, extreme, allow_zero),
        state_root: gen_dep(ctx, extreme, allow_zero), vm_init: gen_dep(ctx, extreme, allow_zero),
        nspb: if extreme { ctx.rng.word() } else { ctx.rng.below(5) },
        version: ctx.rng.range(1, 7) as u8,
    }
}
pub fn default_costs() -> Costs {
    let g = GasCosts::default();
    Costs { eck1: g.eck1(), s256: g.s256(), contract_root: g.contract_root(), state_root: g.state_root(), vm_init: g.vm_initialization(), nspb: g.new_storage_per_byte(), version: 7 }
}

fn fee_inputs(inputs: &[Input]) -> String {
    let mut s = format!("{}", inputs.len());
    for i in inputs {
        s.push(' ');
        if let Some(w) = i.witness_index() { s.push_str(&format!("s:{w}")); }
        else if let (Some(p), Some(g)) = (i.predicate_len(), i.predicate_gas_used()) { s.push_str(&format!("p:{p}:{g}")); }
        else { s.push('o'); }
    }
    s
}
fn wlen<T: Witnesses>(tx: &T, idx: u16) -> usize { tx.witnesses().get(idx as usize).map(|w| w.as_ref().len()).unwrap_or(0) }

/// the fee summary of a transaction, in the driver's request syntax (kind .. inputs)
pub fn fee_view(tx: &Transaction) -> Option<String> {
    fn common<T: Chargeable + Witnesses + Inputs + fuel_tx::field::Policies>(t: &T) -> String {
        use fuel_tx::policies::PolicyType as P;
        let p = t.policies();
        format!("{} {} {} {} {} {}", t.metered_bytes_size(), t.witnesses().size_dynamic(), opt(p.get(P::WitnessLimit)), opt(p.get(P::Tip)), opt(p.get(P::MaxFee)), fee_inputs(t.inputs()))
    }
    Some(match tx {
        Transaction::Script(t) => format!("script {} {}", t.script_gas_limit(), common(t)),
        Transaction::Create(t) => format!("create {} {} {}", wlen(t, *t.bytecode_witness_index()), t.storage_slots().len(), common(t)),
        Transaction::Upgrade(t) => match *t.upgrade_purpose() {
            UpgradePurpose::ConsensusParameters { witness_index, .. } => format!("upgc {} {}", wlen(t, witness_index), common(t)),
            UpgradePurpose::StateTransition { .. } => format!("upgs {}", common(t)),
        },
        Transaction::Upload(t) => format!("upload {} {} {}", wlen(t, *t.bytecode_witness_index()), t.subsections_number(), common(t)),
        Transaction::Blob(t) => format!("blob {} {}", wlen(t, *t.bytecode_witness_index()), common(t)),
        Transaction::Mint(_) => return None,
    })
}

fn panic_class(msg: &str) -> &'static str {
    if msg.contains("units_per_gas cannot be zero") { "!unitsPerGasZero" }
    else if msg.contains("divide by zero") || msg.contains("division by zero") { "!divByZero" }
    else if msg.contains("Impossible to overflow") { "!mulOverflow" }
    else { "!other" }
}

struct Answers { min_gas: Result<u64, String>, max_gas: Result<u64, String>, min_fee: Result<u128, String>, max_fee: Result<u128, String>,
    refunds: Vec<Result<Option<u64>, String>>, fee: Result<Option<TransactionFee>, String> }

fn compute<T: Chargeable>(ctx: &mut Ctx, t: &T, gc: &GasCosts, fp: &FeeParameters, price: u64, used: &[u64]) -> Answers {
    Answers {
        min_gas: ctx.guard(|| t.min_gas(gc, fp)),
        max_gas: ctx.guard(|| t.max_gas(gc, fp)),
        min_fee: ctx.guard(|| t.min_fee(gc, fp, price)),
        max_fee: ctx.guard(|| t.max_fee(gc, fp, price)),
        refunds: used.iter().map(|u| ctx.guard(|| t.refund_fee(gc, fp, *u, price))).collect(),
        fee: ctx.guard(|| TransactionFee::checked_from_tx(gc, fp, t, price)),
    }
}

fn ready<T: IntoChecked + Chargeable + Clone>(ctx: &mut Ctx, t: &T, height: u32, lenient: &ConsensusParameters, gc: &GasCosts, fp: &FeeParameters, price: u64) -> Option<Result<String, String>> {
    let checked = ctx.guard(|| t.clone().into_checked_basic(height.into(), lenient)).ok()?.ok()?;
    Some(ctx.guard(|| match checked.into_ready(price, gc, fp, None) {
        Ok(_) => "ready".to_string(),
        Err(CheckError::Validity(fuel_tx::ValidityError::BalanceOverflow)) => "balanceOverflow".to_string(),
        Err(CheckError::InsufficientMaxFee { .. }) => "insufficientMaxFee".to_string(),
        Err(_) => "other-error".to_string(),
    }))
}

fn r64(r: &Result<u64, String>) -> String { match r { Ok(v) => v.to_string(), Err(m) => panic_class(m).to_string() } }
fn r128(r: &Result<u128, String>) -> String { match r { Ok(v) => v.to_string(), Err(m) => panic_class(m).to_string() } }

#[allow(clippy::too_many_arguments)]
fn one_case(ctx: &mut Ctx, tx: &Transaction, w: &txgen::World, c: &Costs, factor: u64, gpb: u64, price: u64, used: &mut Vec<u64>) {
    used.sort();
    let gc = gas_costs(c);
    let fp = FeeParameters::V1(fuel_tx::consensus_parameters::FeeParametersV1 { gas_price_factor: factor, gas_per_byte: gpb });
    let view = match fee_view(tx) { Some(v) => v, None => return };
    let req = format!("fee {} {} {} {} {} {} {factor} {gpb} {price} {} {view}", c.eck1, dep(&c.s256), dep(&c.contract_root), dep(&c.state_root), dep(&c.vm_init), c.nspb,
        used.iter().map(|u| u.to_string()).collect::<Vec<_>>().join(","));
    let lenient = txgen::lenient_params(w, GasCosts::free(), FeeParameters::DEFAULT.with_gas_per_byte(0));
    let (a, rdy, size_ok, tip, limit) = match tx {
        Transaction::Script(t) => (compute(ctx, t, &gc, &fp, price, used), ready::<Script>(ctx, t, w.height, &lenient, &gc, &fp, price), t.size() == t.to_bytes().len(), t.tip(), t.max_fee_limit()),
        Transaction::Create(t) => (compute(ctx, t, &gc, &fp, price, used), ready::<Create>(ctx, t, w.height, &lenient, &gc, &fp, price), t.size() == t.to_bytes().len(), t.tip(), t.max_fee_limit()),
        Transaction::Upgrade(t) => (compute(ctx, t, &gc, &fp, price, used), ready::<Upgrade>(ctx, t, w.height, &lenient, &gc, &fp, price), t.size() == t.to_bytes().len(), t.tip(), t.max_fee_limit()),
        Transaction::Upload(t) => (compute(ctx, t, &gc, &fp, price, used), ready::<Upload>(ctx, t, w.height, &lenient, &gc, &fp, price), t.size() == t.to_bytes().len(), t.tip(), t.max_fee_limit()),
        Transaction::Blob(t) => (compute(ctx, t, &gc, &fp, price, used), ready::<Blob>(ctx, t, w.height, &lenient, &gc, &fp, price), t.size() == t.to_bytes().len(), t.tip(), t.max_fee_limit()),
        Transaction::Mint(_) => return,
    };
    let kind = view.split(' ').next().unwrap().to_string();
    ctx.count(&format!("kind.{kind}"));
    ctx.count(&format!("costs.v{}", c.version));
    ctx.distinct(req.as_bytes());
    if !size_ok { ctx.oracle_fail("metered-size-differs-from-encoding", &req, "size() != to_bytes().len()"); }

    // ---- property oracle, on the implementation's answers only ----
    let guards_hold = factor != 0 && [&c.s256, &c.contract_root, &c.state_root, &c.vm_init].iter().all(|d| !matches!(d, DependentCost::LightOperation { units_per_gas: 0, .. }));
    let any_panic = a.min_gas.is_err() || a.max_gas.is_err() || a.min_fee.is_err() || a.max_fee.is_err() || a.fee.is_err() || a.refunds.iter().any(|r| r.is_err()) || matches!(rdy, Some(Err(_)));
    if guards_hold {
        ctx.count("guards.hold");
        if any_panic { ctx.oracle_fail("panic-inside-guards", &req, "a fee computation panicked although factor >= 1 and every units_per_gas >= 1"); }
    } else {
        let d = default_costs();
        if factor != 0 && c.version == 7 && dep(&c.s256) == dep(&d.s256) && dep(&c.contract_root) == dep(&d.contract_root) && dep(&c.state_root) == dep(&d.state_root) && dep(&c.vm_init) == dep(&d.vm_init) {
            // the repository's own default gas costs must be inside the guards
            ctx.oracle_fail("default-gas-costs-outside-guards", &req, "GasCosts::default() has a LightOperation with units_per_gas = 0: fee computations panic");
        }
        ctx.count(if factor == 0 { "guards.factor-zero" } else { "guards.units-per-gas-zero" });
        if any_panic { ctx.count("panic.outside-guards"); }
    }
    if let (Ok(mn), Ok(mx)) = (&a.min_gas, &a.max_gas) {
        if mn > mx { ctx.oracle_fail("min-gas-exceeds-max-gas", &req, &format!("{mn} > {mx}")); }
        if *mx == u64::MAX { ctx.count("maxgas.saturated"); }
        if factor != 0 {
            if let Ok(f) = &a.min_fee { if Some(*f) != exact_fee(*mn as u128, price, factor, tip) { ctx.oracle_fail("min-fee-formula", &req, &format!("min_fee {f}")); } }
            if let Ok(f) = &a.max_fee { if Some(*f) != exact_fee(*mx as u128, price, factor, tip) { ctx.oracle_fail("max-fee-formula", &req, &format!("max_fee {f}")); } }
        }
        if let (Ok(fmin), Ok(fmax)) = (&a.min_fee, &a.max_fee) {
            if fmin > fmax { ctx.oracle_fail("min-fee-exceeds-max-fee", &req, &format!("{fmin} > {fmax}")); }
            match &a.fee {
                Ok(Some(tf)) => {
                    if tf.min_fee() as u128 != *fmin || tf.max_fee() as u128 != *fmax || tf.min_gas() != *mn || tf.max_gas() != *mx { ctx.oracle_fail("transaction-fee-fields", &req, "checked_from_tx fields differ from the Chargeable methods"); }
                    ctx.count("fee.some");
                }
                Ok(None) => { if *fmax <= u64::MAX as u128 { ctx.oracle_fail("transaction-fee-none", &req, "checked_from_tx = None although max_fee fits u64"); } ctx.count("fee.none"); }
                Err(_) => {}
            }
            if let Some(Ok(v)) = &rdy {
                let want = if *fmax > u64::MAX as u128 { "balanceOverflow" } else if *fmax > limit as u128 { "insufficientMaxFee" } else { "ready" };
                if v != want { ctx.oracle_fail("into-ready-verdict", &req, &format!("into_ready = {v}, max_fee {fmax}, limit {limit}")); }
                ctx.count(&format!("ready.{v}"));
            }
        }
        // refund: exact formula, bound, monotonicity
        if factor != 0 {
            let mut prev: Option<Option<u64>> = None;
            for (u, r) in used.iter().zip(a.refunds.iter()) {
                let r = match r { Ok(r) => *r, Err(_) => continue };
                let exact = exact_fee(*mn as u128 + *u as u128, price, factor, tip);
                let want = match exact { Some(e) if e <= limit as u128 => Some(limit - e as u64), _ => None };
                if r != want {
                    let saturated = (*mn as u128 + *u as u128) > u64::MAX as u128;
                    ctx.oracle_fail(if saturated { "refund-total-gas-saturates" } else { "refund-formula" }, &req, &format!("used_gas {u}: refund_fee = {r:?}, fee_limit - (ceil((min_gas + used_gas) * price / factor) + tip) = {want:?}"));
                }
                if let Some(v) = r { if v > limit { ctx.oracle_fail("refund-exceeds-fee-limit", &req, &format!("used_gas {u}: {v} > {limit}")); } }
                if let Some(p) = prev {
                    // None is the least refund
                    let le = match (r, p) { (None, _) => true, (Some(_), None) => false, (Some(x), Some(y)) => x <= y };
                    if !le { ctx.oracle_fail("refund-increases-with-used-gas", &req, &format!("used_gas {u}: {r:?} after {p:?}")); }
                }
                prev = Some(r);
                // the class where the exact formula and any "split" formula (ceil of the parts) differ:
                // used_gas > 0, factor > 1, min_gas*price and used_gas*price both leave a remainder
                if *u > 0 && factor > 1 && (*mn as u128 * price as u128) % factor as u128 != 0 && (*u as u128 * price as u128) % factor as u128 != 0 {
                    ctx.count("refund.checked-exact.nonzero-remainders");
                    if r.is_some() { ctx.count("refund.checked-exact.nonzero-remainders.some"); }
                }
                ctx.count(if r.is_some() { "refund.some" } else { "refund.none" });
                if (*mn as u128 + *u as u128) > u64::MAX as u128 { ctx.count("refund.total-gas-saturated"); }
            }
        }
    }
    let refunds = a.refunds.iter().map(|r| match r { Ok(Some(v)) => v.to_string(), Ok(None) => "-".into(), Err(m) => panic_class(m).into() }).collect::<Vec<_>>().join(",");
    let fee = match &a.fee { Ok(Some(f)) => format!("{}:{}:{}:{}", f.min_fee(), f.max_fee(), f.min_gas(), f.max_gas()), Ok(None) => "-".into(), Err(m) => panic_class(m).into() };
    let out = format!("{} {} {} {} {} {}", r64(&a.min_gas), r64(&a.max_gas), r128(&a.min_fee), r128(&a.max_fee), refunds, fee);
    ctx.emit(&req, &out);
    if let Some(r) = rdy {
        let v = match r { Ok(v) => v, Err(m) => panic_class(&m).to_string() };
        ctx.emit(&format!("ready {}", &req[4..]), &v);
    } else { ctx.count("ready.not-reached"); }
}

fn pick_factor(ctx: &mut Ctx, allow_zero: bool) -> u64 {
    let f = match ctx.rng.below(8) { 0 => 1, 1 => 2, 2 => 92, 3 => 1_000_000_000, 4 => u64::MAX, 5 => u64::MAX - 1, _ => ctx.rng.word() };
    if f == 0 && !allow_zero { 1 } else { f }
}
fn pick_price(ctx: &mut Ctx) -> u64 {
    match ctx.rng.below(9) { 0 => 0, 1 => 1, 2 => 1 << 32, 3 => u64::MAX - 1, 4 => u64::MAX, 5 => ctx.rng.below(10_000), _ => ctx.rng.word() }
}

/// set the fee-relevant fields of a valid transaction to boundary values (it may stop being valid; the
/// `Chargeable` methods do not require validity)
fn widen(ctx: &mut Ctx, tx: &mut Transaction) {
    use fuel_tx::policies::PolicyType as P;
    fn pol(ctx: &mut Ctx, p: &mut fuel_tx::policies::Policies) {
        if ctx.rng.chance(1, 2) { let v = if ctx.rng.chance(1, 4) { None } else { Some(ctx.rng.word()) }; p.set(P::Tip, v); }
        if ctx.rng.chance(1, 2) { let v = if ctx.rng.chance(1, 4) { None } else { Some(ctx.rng.word()) }; p.set(P::WitnessLimit, v); }
        if ctx.rng.chance(1, 2) { let v = if ctx.rng.chance(1, 6) { None } else { Some(ctx.rng.word()) }; p.set(P::MaxFee, v); }
    }
    fn preds(ctx: &mut Ctx, inputs: &mut Vec<Input>) {
        for i in inputs.iter_mut() {
            if ctx.rng.chance(1, 3) { if let Some(g) = i.predicate_gas_used() { let _ = g; let v = ctx.rng.word(); i.set_predicate_gas_used(v); } }
        }
        // more signed inputs sharing / not sharing witness indices
        if ctx.rng.chance(1, 3) {
            for _ in 0..ctx.rng.range(1, 6) {
                let wi = *ctx.rng.pick(&[0u16, 0, 1, 2, 7, u16::MAX]);
                inputs.push(Input::message_coin_signed(Default::default(), Default::default(), 1, fuel_types::Nonce::new(ctx.rng.arr32()), wi));
            }
        }
    }
    match tx {
        Transaction::Script(t) => { pol(ctx, t.policies_mut()); preds(ctx, t.inputs_mut()); if ctx.rng.chance(1, 2) { *t.script_gas_limit_mut() = ctx.rng.word(); } }
        Transaction::Create(t) => { pol(ctx, t.policies_mut()); preds(ctx, t.inputs_mut()); if ctx.rng.chance(1, 8) { *t.bytecode_witness_index_mut() = ctx.rng.below(6) as u16; } }
        Transaction::Upgrade(t) => { pol(ctx, t.policies_mut()); preds(ctx, t.inputs_mut()); }
        Transaction::Upload(t) => { pol(ctx, t.policies_mut()); preds(ctx, t.inputs_mut()); if ctx.rng.chance(1, 4) { *t.subsections_number_mut() = ctx.rng.word() as u16; } if ctx.rng.chance(1, 8) { *t.bytecode_witness_index_mut() = ctx.rng.below(6) as u16; } }
        Transaction::Blob(t) => { pol(ctx, t.policies_mut()); preds(ctx, t.inputs_mut()); if ctx.rng.chance(1, 8) { *t.bytecode_witness_index_mut() = ctx.rng.below(6) as u16; } }
        Transaction::Mint(_) => {}
    }
}

fn used_values(ctx: &mut Ctx, extreme: bool) -> Vec<u64> {
    (0..4).map(|k| if extreme || k == 3 { ctx.rng.word() } else { ctx.rng.below(20_000_000) }).collect()
}

pub fn run(ctx: &mut Ctx) {
    // 0. the generated default tables against the crate's own defaults
    {
        let d = default_costs();
        let fp = FeeParameters::DEFAULT;
        let cp = ConsensusParameters::standard();
        let t = cp.tx_params(); let p = cp.predicate_params(); let s = cp.script_params(); let c = cp.contract_params();
        ctx.emit("defaults", &format!("{} {} {} {} {} {} {} {} | {} {} {} {} {} {} | {} {} {} {} | {} {} | {} {}",
            d.eck1, dep(&d.s256), dep(&d.contract_root), dep(&d.state_root), dep(&d.vm_init), d.nspb, fp.gas_price_factor(), fp.gas_per_byte(),
            t.max_inputs(), t.max_outputs(), t.max_witnesses(), t.max_gas_per_tx(), t.max_size(), t.max_bytecode_subsections(),
            p.max_predicate_length(), p.max_predicate_data_length(), p.max_message_data_length(), p.max_gas_per_predicate(),
            s.max_script_length(), s.max_script_data_length(), c.contract_max_size(), c.max_storage_slots()));
    }
    // 1. regression corpus: the saturated-refund witness of Props/C18 and boundary prices/factors on a fixed transaction
    {
        let w = txgen::World { base: Default::default(), privileged: Default::default(), height: 0 };
        let free = Costs { eck1: 1, s256: DependentCost::free(), contract_root: DependentCost::free(), state_root: DependentCost::free(), vm_init: DependentCost::free(), nspb: 0, version: 7 };
        let inp = Input::coin_signed(Default::default(), Default::default(), 100, Default::default(), Default::default(), 0);
        let tx: Transaction = Transaction::script(0, vec![], vec![], fuel_tx::policies::Policies::new().with_max_fee(10), vec![inp.clone()], vec![], vec![vec![0u8; 64].into()]).into();
        one_case(ctx, &tx, &w, &free, u64::MAX, 0, 1, &mut vec![0, 1, u64::MAX - 1, u64::MAX]);
        let tx2: Transaction = Transaction::script(1_000_000, vec![1, 2, 3], vec![], fuel_tx::policies::Policies::new().with_max_fee(100_000).with_tip(7).with_witness_limit(10_000), vec![inp], vec![], vec![vec![0u8; 64].into()]).into();
        for factor in [1u64, 2, 92, 1_000_000_000, u64::MAX] {
            for price in [0u64, 1, 1 << 32, u64::MAX - 1, u64::MAX] {
                one_case(ctx, &tx2, &w, &default_costs(), factor, 4, price, &mut vec![0, 1000, 400_000, u64::MAX]);
            }
        }
        // refund against the exact formula with non-zero remainders of min_gas*price and used_gas*price (factor 10, price 1,
        // used_gas 1 and neighbours; min_gas of tx2 under the default costs is not a multiple of 10, 7 or 3)
        let tx3: Transaction = Transaction::script(1_000_000, vec![1, 2, 3], vec![], fuel_tx::policies::Policies::new().with_max_fee(u64::MAX).with_tip(7).with_witness_limit(10_000),
            vec![Input::coin_signed(Default::default(), Default::default(), 100, Default::default(), Default::default(), 0)], vec![], vec![vec![0u8; 64].into()]).into();
        for (factor, price) in [(10u64, 1u64), (10, 3), (7, 1), (3, 2), (1_000_000_000, 999_999_937), (u64::MAX, u64::MAX - 1)] {
            one_case(ctx, &tx3, &w, &default_costs(), factor, 4, price, &mut vec![1, 2, 9, 11]);
            one_case(ctx, &tx2, &w, &default_costs(), factor, 3, price, &mut vec![1, 7, 13, 10_001]);
            one_case(ctx, &tx3, &w, &free, factor, 1, price, &mut vec![1, 3, 5, 8]);
        }
        // outside the guards: factor 0 and units_per_gas 0 (expected panics, compared with the model's panic sites)
        one_case(ctx, &tx2, &w, &default_costs(), 0, 4, 5, &mut vec![0, 1, 2, 3]);
        let mut z = default_costs(); z.s256 = DependentCost::LightOperation { base: 1, units_per_gas: 0 };
        one_case(ctx, &tx2, &w, &z, 1, 4, 5, &mut vec![0, 1, 2, 3]);
    }
    // 2. generated transactions
    let n = ctx.n(6000, 150_000);
    for case in 0..n {
        let w = txgen::world(ctx);
        let kind = (case % 6) as usize;
        let mut tx = txgen::gen_valid(ctx, &w, kind);
        let wide = ctx.rng.chance(1, 2);
        if wide { widen(ctx, &mut tx); ctx.count("tx.widened"); } else { ctx.count("tx.valid-shape"); }
        let reps = 2;
        for _ in 0..reps {
            // inside the guards in 15 of 16 cases
            let outside = ctx.rng.chance(1, 16);
            let extreme = ctx.rng.chance(1, 3);
            let costs = if ctx.rng.chance(1, 5) { default_costs() } else { gen_costs(ctx, extreme, outside) };
            let mut costs = costs;
            let mut factor = pick_factor(ctx, false);
            if outside { if ctx.rng.chance(1, 2) { factor = 0; } else { costs.s256 = DependentCost::LightOperation { base: ctx.rng.below(10), units_per_gas: 0 }; } }
            let gpb = match ctx.rng.below(5) { 0 => 0, 1 => 1, 2 => 4, 3 => 63, _ => ctx.rng.word() };
            let price = pick_price(ctx);
            let mut used = used_values(ctx, extreme);
            one_case(ctx, &tx, &w, &costs, factor, gpb, price, &mut used);
        }
    }
}
