//! C19 — `IntoChecked::into_checked_basic` of the REAL crates on generated transactions of all six kinds:
//! valid ones (under lenient limits and under limits exactly equal to the transaction's own quantities), every
//! single-rule violation, and pairs of violations; against (a) the Lean model (`Drv/C19.lean`) fed with the
//! validity summary printed here and (b) the property's own predicates evaluated here on the implementation:
//! generated-valid => accepted, one violated rule => rejected with that rule's error, recorded free balances =
//! sum(spendable inputs) - sum(coin outputs) - fee limit (base asset) with exact integers, overspending => rejected.
use super::c18::{self, txgen, Costs};
use crate::{ctx::Ctx, util::hex};
use fuel_tx::{
    field::*, policies::PolicyType, BlobIdExt, Chargeable, ConsensusParameters, ContractParameters, CreateMetadata,
    FeeParameters, Input, Output, PredicateParameters, ScriptParameters, StorageSlot, Transaction, TxParameters,
    TxPointer, UpgradeMetadata, UpgradePurpose, UtxoId, ValidityError, Witness,
};
use fuel_tx::field::UpgradePurpose as UpgradePurposeField;
use fuel_tx::field::BlobId as BlobIdField;
use fuel_types::{canonical::Serialize, Address, AssetId, BlobId, Bytes32, ContractId, Nonce};
use fuel_vm::checked_transaction::{CheckError, CheckedMetadata, IntoChecked};
use std::collections::BTreeMap;

#[derive(Clone)]
pub struct Limits {
    pub max_inputs: u16, pub max_outputs: u16, pub max_witnesses: u32, pub max_gas_per_tx: u64, pub max_size: u64,
    pub max_subsections: u16, pub max_pred_len: u64, pub max_pred_data: u64, pub max_msg_data: u64,
    pub max_script: u64, pub max_script_data: u64, pub contract_max_size: u64, pub max_slots: u64,
    pub factor: u64, pub gpb: u64, pub costs: Costs, pub base: AssetId, pub privileged: Address,
}
impl Limits {
    pub fn lenient(w: &txgen::World, costs: Costs, gpb: u64) -> Self {
        Limits { max_inputs: u16::MAX, max_outputs: u16::MAX, max_witnesses: u32::MAX, max_gas_per_tx: u64::MAX, max_size: u64::MAX,
            max_subsections: u16::MAX, max_pred_len: u64::MAX, max_pred_data: u64::MAX, max_msg_data: u64::MAX, max_script: u64::MAX,
            max_script_data: u64::MAX, contract_max_size: u64::MAX, max_slots: u64::MAX, factor: 92, gpb, costs, base: w.base, privileged: w.privileged }
    }
    pub fn build(&self) -> ConsensusParameters {
        ConsensusParameters::new(
            TxParameters::DEFAULT.with_max_inputs(self.max_inputs).with_max_outputs(self.max_outputs).with_max_witnesses(self.max_witnesses)
                .with_max_gas_per_tx(self.max_gas_per_tx).with_max_size(self.max_size).with_max_bytecode_subsections(self.max_subsections),
            PredicateParameters::DEFAULT.with_max_predicate_length(self.max_pred_len).with_max_predicate_data_length(self.max_pred_data)
                .with_max_message_data_length(self.max_msg_data).with_max_gas_per_predicate(u64::MAX),
            ScriptParameters::DEFAULT.with_max_script_length(self.max_script).with_max_script_data_length(self.max_script_data),
            ContractParameters::DEFAULT.with_contract_max_size(self.contract_max_size).with_max_storage_slots(self.max_slots),
            FeeParameters::DEFAULT.with_gas_price_factor(self.factor).with_gas_per_byte(self.gpb),
            Default::default(), c18::gas_costs(&self.costs), self.base, u64::MAX, u64::MAX, self.privileged)
    }
    pub fn line(&self) -> String {
        let c = &self.costs;
        format!("{} {} {} {} {} {} {} {} {} {} {} {} {} {} {} {} {} {} {} {} {} {} {}",
            self.max_inputs, self.max_outputs, self.max_witnesses, self.max_gas_per_tx, self.max_size, self.max_subsections,
            self.max_pred_len, self.max_pred_data, self.max_msg_data, self.max_script, self.max_script_data, self.contract_max_size, self.max_slots,
            self.factor, self.gpb, c.eck1, dep(&c.s256), dep(&c.contract_root), dep(&c.state_root), dep(&c.vm_init), c.nspb, hex(&*self.base), hex(&*self.privileged))
    }
}
fn dep(c: &fuel_tx::DependentCost) -> String {
    match c {
        fuel_tx::DependentCost::LightOperation { base, units_per_gas } => format!("L:{base}:{units_per_gas}"),
        fuel_tx::DependentCost::HeavyOperation { base, gas_per_unit } => format!("H:{base}:{gas_per_unit}"),
    }
}
fn opt(o: Option<u64>) -> String { o.map(|v| v.to_string()).unwrap_or_else(|| "-".into()) }
fn utxo_hex(u: &UtxoId) -> String { let mut b = u.tx_id().to_vec(); b.extend_from_slice(&u.output_index().to_be_bytes()); hex(&b) }

/// run `$body` with `$t` bound to the concrete chargeable transaction
macro_rules! with_tx {
    ($tx:expr, $t:ident => $body:expr) => {
        match $tx {
            Transaction::Script($t) => $body, Transaction::Create($t) => $body, Transaction::Upgrade($t) => $body,
            Transaction::Upload($t) => $body, Transaction::Blob($t) => $body, Transaction::Mint(_) => unreachable!("mint"),
        }
    };
}

fn input_tok(i: &Input) -> String {
    match i {
        Input::CoinSigned(c) => format!("cs:{}:{}:{}:{}:{}", utxo_hex(&c.utxo_id), hex(&*c.owner), c.amount, hex(&*c.asset_id), c.witness_index),
        Input::CoinPredicate(c) => format!("cp:{}:{}:{}:{}:{}:{}:{}", utxo_hex(&c.utxo_id), hex(&*c.owner), c.amount, hex(&*c.asset_id), c.predicate.len(), c.predicate_data.len(), c.predicate_gas_used),
        Input::Contract(c) => format!("ct:{}:{}", utxo_hex(&c.utxo_id), hex(&*c.contract_id)),
        Input::MessageCoinSigned(m) => format!("ms:{}:{}:{}:{}", hex(&*m.nonce), hex(&*m.recipient), m.amount, m.witness_index),
        Input::MessageCoinPredicate(m) => format!("mp:{}:{}:{}:{}:{}:{}", hex(&*m.nonce), hex(&*m.recipient), m.amount, m.predicate.len(), m.predicate_data.len(), m.predicate_gas_used),
        Input::MessageDataSigned(m) => format!("ds:{}:{}:{}:{}:{}", hex(&*m.nonce), hex(&*m.recipient), m.amount, m.witness_index, m.data.len()),
        Input::MessageDataPredicate(m) => format!("dp:{}:{}:{}:{}:{}:{}:{}", hex(&*m.nonce), hex(&*m.recipient), m.amount, m.data.len(), m.predicate.len(), m.predicate_data.len(), m.predicate_gas_used),
    }
}

/// the RAW summary of a chargeable transaction in the driver's syntax (body .. witnesses): the bytes the four hash-based
/// sub-checks read are printed as they are (root, proof set, subsection index; salt, storage slots, the ids of every
/// ContractCreated output; blob id; upgrade checksum; the DATA of every witness) — the driver computes the verdicts itself
/// through the Lean models of C10 / C15 and SHA-256. Only the postcard deserialisation verdict of Upgrade (third-party
/// decoder) is still evaluated here by the real `UpgradeMetadata::compute`.
pub fn summary(tx: &Transaction) -> String {
    let list = |v: Vec<String>| if v.is_empty() { "-".to_string() } else { v.join(",") };
    let body = match tx {
        Transaction::Script(t) => format!("script:{}:{}:{}", t.script_gas_limit(), t.script().len(), t.script_data().len()),
        Transaction::Create(t) => {
            let slots = t.storage_slots().iter().map(|s| format!("{}={}", hex(&**s.key()), hex(&**s.value()))).collect::<Vec<_>>();
            format!("create:{}:{}:{}", t.bytecode_witness_index(), hex(&**t.salt()), list(slots))
        }
        Transaction::Upgrade(t) => match *t.upgrade_purpose() {
            UpgradePurpose::ConsensusParameters { witness_index, checksum } => {
                let d = !matches!(UpgradeMetadata::compute(t), Err(ValidityError::TransactionUpgradeConsensusParametersDeserialization));
                format!("upgc:{witness_index}:{}:{}", hex(&*checksum), d as u8)
            }
            UpgradePurpose::StateTransition { .. } => "upgs".to_string(),
        },
        Transaction::Upload(t) => format!("upload:{}:{}:{}:{}:{}", t.bytecode_witness_index(), t.subsections_number(), hex(&**t.bytecode_root()),
            list(t.proof_set().iter().map(|p| hex(&**p)).collect()), t.subsection_index()),
        Transaction::Blob(t) => format!("blob:{}:{}", t.bytecode_witness_index(), hex(&**t.blob_id())),
        Transaction::Mint(_) => unreachable!(),
    };
    with_tx!(tx, t => {
        let p = t.policies();
        let mut s = format!("{body} {} {} {} {} {} {} {}", t.size(), opt(p.get(PolicyType::Tip)), opt(p.get(PolicyType::WitnessLimit)), opt(p.get(PolicyType::Maturity)),
            opt(p.get(PolicyType::MaxFee)), opt(p.get(PolicyType::Expiration)), opt(p.get(PolicyType::Owner)));
        s.push_str(&format!(" {}", t.inputs().len()));
        for i in t.inputs() { s.push(' '); s.push_str(&input_tok(i)); }
        s.push_str(&format!(" {}", t.outputs().len()));
        for o in t.outputs() {
            s.push(' ');
            s.push_str(&match o {
                Output::Coin { asset_id, amount, .. } => format!("coin:{}:{amount}", hex(&**asset_id)),
                Output::Contract(c) => format!("contract:{}", c.input_index),
                Output::Change { asset_id, .. } => format!("change:{}", hex(&**asset_id)),
                Output::Variable { .. } => "variable".to_string(),
                Output::ContractCreated { contract_id, state_root } => format!("cc:{}:{}", hex(&**contract_id), hex(&**state_root)),
            });
        }
        s.push_str(&format!(" {}", t.witnesses().len()));
        for w in t.witnesses() { s.push(' '); s.push_str(&hex(w.as_ref())); }
        s
    })
}

fn err_name(e: &ValidityError) -> String {
    let d = format!("{e:?}");
    d.split(|c: char| !c.is_alphanumeric()).next().unwrap_or("").to_string()
}

/// exact per-asset accounting of a transaction, straight from its inputs and outputs
struct Account { spend: BTreeMap<AssetId, u128>, out: BTreeMap<AssetId, u128>, retry: u128, keys: Vec<AssetId> }
fn account(inputs: &[Input], outputs: &[Output], base: &AssetId) -> Account {
    let mut a = Account { spend: BTreeMap::new(), out: BTreeMap::new(), retry: 0, keys: vec![*base] };
    for i in inputs {
        match i {
            Input::CoinSigned(_) | Input::CoinPredicate(_) => { let id = *i.asset_id(base).unwrap(); *a.spend.entry(id).or_default() += i.amount().unwrap() as u128; a.keys.push(id); }
            Input::MessageCoinSigned(_) | Input::MessageCoinPredicate(_) => { *a.spend.entry(*base).or_default() += i.amount().unwrap() as u128; }
            Input::MessageDataSigned(_) | Input::MessageDataPredicate(_) => { a.retry += i.amount().unwrap() as u128; }
            Input::Contract(_) => {}
        }
    }
    for o in outputs { if let Output::Coin { asset_id, amount, .. } = o { *a.out.entry(*asset_id).or_default() += *amount as u128; } }
    a.keys.sort(); a.keys.dedup();
    a
}

pub struct Case { pub tx: Transaction, pub limits: Limits, pub height: u32 }

/// run the real check, print the line, evaluate the oracle. `expect`: None = no expectation,
/// Some(None) = must be accepted, Some(Some(name)) = must be rejected with that variant.
fn run_case(ctx: &mut Ctx, case: &Case, label: &str, expect: Option<Option<&str>>) {
    let cp = case.limits.build();
    let req = format!("chk {} {} {}", case.height, case.limits.line(), summary(&case.tx));
    ctx.distinct(req.as_bytes());
    let (inputs, outputs, fee_limit) = with_tx!(&case.tx, t => (t.inputs().clone(), t.outputs().clone(), t.policies().get(PolicyType::MaxFee)));
    let gc = c18::gas_costs(&case.limits.costs);
    let fp = *cp.fee_params();
    let gases = ctx.guard(|| with_tx!(&case.tx, t => (t.min_gas(&gc, &fp), t.max_gas(&gc, &fp))));
    let res = ctx.guard(|| case.tx.clone().into_checked_basic(case.height.into(), &cp));
    let acc = account(&inputs, &outputs, &case.limits.base);
    let out = match &res {
        Err(m) => { ctx.oracle_fail("panic-into_checked_basic", &req, m); format!("panic {}", m.chars().take(40).collect::<String>()) }
        Ok(Err(CheckError::Validity(e))) => { let n = err_name(e); ctx.count(&format!("err.{n}")); format!("err {n}") }
        Ok(Err(_)) => "err other".to_string(),
        Ok(Ok(checked)) => {
            ctx.count("ok");
            let (bal, retry, mn, mx): (BTreeMap<AssetId, u64>, u64, u64, u64) = match checked.metadata() {
                CheckedMetadata::Script(m) => ((*m.non_retryable_balances).clone(), *m.retryable_balance, m.min_gas, m.max_gas),
                CheckedMetadata::Create(m) => ((*m.free_balances).clone(), 0, m.min_gas, m.max_gas),
                CheckedMetadata::Upgrade(m) => ((*m.free_balances).clone(), 0, m.min_gas, m.max_gas),
                CheckedMetadata::Upload(m) => ((*m.free_balances).clone(), 0, m.min_gas, m.max_gas),
                CheckedMetadata::Blob(m) => ((*m.free_balances).clone(), 0, m.min_gas, m.max_gas),
                CheckedMetadata::Mint(_) => unreachable!(),
            };
            // ---- oracle: the balances formula with exact integers ----
            let fee = fee_limit.unwrap_or(0) as u128;
            if bal.keys().cloned().collect::<Vec<_>>() != acc.keys { ctx.oracle_fail("balance-keys", &req, "recorded assets differ from {coin input assets} + {base asset}"); }
            for (a, v) in &bal {
                let want = *acc.spend.get(a).unwrap_or(&0) as i128 - *acc.out.get(a).unwrap_or(&0) as i128 - if *a == case.limits.base { fee as i128 } else { 0 };
                if want != *v as i128 { ctx.oracle_fail("balance-formula", &req, &format!("asset {}: recorded {v}, inputs - coin outputs - fee = {want}", hex(&**a))); }
            }
            if retry as u128 != acc.retry { ctx.oracle_fail("retryable-formula", &req, &format!("recorded {retry}, sum of message-data amounts {}", acc.retry)); }
            if let Ok((g1, g2)) = &gases { if (*g1, *g2) != (mn, mx) { ctx.oracle_fail("metadata-gas", &req, "recorded min_gas/max_gas differ from Chargeable::min_gas/max_gas"); } }
            let bs = bal.iter().map(|(a, v)| format!("{}={v}", hex(&**a))).collect::<Vec<_>>().join(",");
            format!("ok {mn} {mx} {retry} {}", if bs.is_empty() { "-".into() } else { bs })
        }
    };
    // ---- oracle: overspending is always rejected ----
    let overspend = acc.out.iter().any(|(a, o)| *o + if *a == case.limits.base { fee_limit.unwrap_or(0) as u128 } else { 0 } > *acc.spend.get(a).unwrap_or(&0))
        || fee_limit.unwrap_or(0) as u128 > *acc.spend.get(&case.limits.base).unwrap_or(&0);
    if overspend { ctx.count("overspend"); if matches!(res, Ok(Ok(_))) { ctx.oracle_fail("overspend-accepted", &req, "coin outputs + fee limit exceed the spendable inputs of some asset, yet accepted"); } }
    // ---- oracle: accepted exactly when no rule is violated (by construction of the case) ----
    match expect {
        Some(None) => if !matches!(res, Ok(Ok(_))) { ctx.oracle_fail(&format!("valid-rejected-{label}"), &req, &format!("a transaction built to satisfy every rule is rejected: {out}")); },
        Some(Some(name)) => if out != format!("err {name}") { ctx.oracle_fail(&format!("violation-{label}"), &req, &format!("one violated rule ({label}); expected err {name}, got {out}")); },
        None => {}
    }
    ctx.count(&format!("case.{label}"));
    ctx.emit(&req, &out);
}

// ------------------------------------------------------------------------------------------------
// single-rule violations
// ------------------------------------------------------------------------------------------------
fn coin_in(ctx: &mut Ctx, asset: AssetId, amt: u64, wi: u16) -> Input {
    Input::coin_signed(UtxoId::new(Bytes32::new(ctx.rng.arr32()), 0), Address::new(ctx.rng.arr32()), amt, asset, TxPointer::default(), wi)
}
fn forget_unsorted(t: &mut fuel_tx::Create, f: impl FnOnce(&mut Vec<StorageSlot>)) {
    // `StorageSlotRef` sorts on drop; the decoder does not, so unsorted slots are reachable from bytes
    let mut r = t.storage_slots_mut();
    f(r.as_mut());
    std::mem::forget(r);
}

/// which byte of a 32-byte id a violation flips: the first, the last, or a random one (a comparison that drops either end is seen)
fn flip32(ctx: &mut Ctx, b: &mut [u8; 32]) { let k = match ctx.rng.below(3) { 0 => 0, 1 => 31, _ => ctx.rng.below(32) as usize }; b[k] ^= 1 << ctx.rng.below(8); }

pub const N_MUT: usize = 65;
/// violations whose applicability depends on the random shape (not on the kind) of the transaction
const KIND_DEPENDENT_SHAPE: [usize; 21] = [4, 8, 10, 13, 16, 17, 18, 19, 20, 21, 23, 24, 25, 26, 37, 38, 58, 59, 60, 61, 64];
/// the violations that change a consensus-parameter limit and leave the transaction alone
const LIMIT_MUTS: [usize; 14] = [0, 5, 9, 10, 11, 20, 21, 26, 31, 32, 35, 36, 47, 51];

/// apply violation number `k` to a valid case; returns (label, expected error) or None when not applicable
fn mutate(ctx: &mut Ctx, k: usize, case: &mut Case) -> Option<(&'static str, &'static str)> {
    let base = case.limits.base;
    let height = case.height;
    let kind = match &case.tx { Transaction::Script(_) => 0, Transaction::Create(_) => 1, Transaction::Upgrade(_) => 2, Transaction::Upload(_) => 4, Transaction::Blob(_) => 5, _ => 9 };
    let (gc, fp) = (c18::gas_costs(&case.limits.costs), *case.limits.build().fee_params());
    let lim = &mut case.limits;
    macro_rules! tx { ($t:ident => $b:expr) => { with_tx!(&mut case.tx, $t => $b) }; }
    Some(match k {
        0 => { let s = tx!(t => t.size()) as u64; lim.max_size = s - 1; ("size", "TransactionSizeLimitExceeded") }
        1 => { tx!(t => t.policies_mut().set(PolicyType::Maturity, Some(u32::MAX as u64 + 1 + ctx.rng.below(5)))); ("policy-maturity-u32", "TransactionPoliciesAreInvalid") }
        2 => { tx!(t => t.policies_mut().set(PolicyType::Expiration, Some(u32::MAX as u64 + 1))); ("policy-expiration-u32", "TransactionPoliciesAreInvalid") }
        3 => { tx!(t => t.policies_mut().set(PolicyType::Owner, Some(u32::MAX as u64 + 1))); ("policy-owner-u32", "TransactionPoliciesAreInvalid") }
        4 => { let d = tx!(t => t.witnesses().size_dynamic()) as u64; if d == 0 { return None; } tx!(t => t.policies_mut().set(PolicyType::WitnessLimit, Some(d - 1))); ("witness-limit", "TransactionWitnessLimitExceeded") }
        5 => { let g = tx!(t => t.max_gas(&gc, &fp)); if g == 0 { return None; } lim.max_gas_per_tx = g - 1; ("max-gas", "TransactionMaxGasExceeded") }
        6 => { tx!(t => t.policies_mut().set(PolicyType::MaxFee, None)); ("max-fee-unset", "TransactionMaxFeeNotSet") }
        7 => { if height == u32::MAX { return None; } tx!(t => t.policies_mut().set(PolicyType::Maturity, Some(height as u64 + 1))); ("maturity", "TransactionMaturity") }
        8 => { if height == 0 { return None; } tx!(t => t.policies_mut().set(PolicyType::Expiration, Some(height as u64 - 1))); ("expiration", "TransactionExpiration") }
        9 => { lim.max_inputs = tx!(t => t.inputs().len()) as u16 - 1; ("inputs-max", "TransactionInputsMax") }
        10 => { let n = tx!(t => t.outputs().len()); if n == 0 { return None; } lim.max_outputs = n as u16 - 1; ("outputs-max", "TransactionOutputsMax") }
        11 => { let n = tx!(t => t.witnesses().len()); if n == 0 { return None; } lim.max_witnesses = n as u32 - 1; ("witnesses-max", "TransactionWitnessesMax") }
        12 => { let n = tx!(t => t.inputs().len()); tx!(t => t.policies_mut().set(PolicyType::Owner, Some(n as u64 + ctx.rng.below(3)))); ("owner-out-of-bounds", "TransactionOwnerIndexOutOfBounds") }
        13 => { let idx = tx!(t => t.inputs().iter().position(|i| i.is_contract()))?; tx!(t => t.policies_mut().set(PolicyType::Owner, Some(idx as u64))); ("owner-is-contract", "TransactionOwnerInputHasNoOwner") }
        14 => {
            // every spendable input becomes a message-data input of the same amount
            tx!(t => for i in t.inputs_mut().iter_mut() { if i.is_coin() || i.is_message_coin_signed() || i.is_message_coin_predicate() {
                *i = Input::message_data_signed(Address::default(), *i.input_owner().unwrap(), i.amount().unwrap(), Nonce::new(ctx.rng.arr32()), 0, vec![1, 2, 3]); } });
            ("no-spendable", "NoSpendableInput")
        }
        15 => { let to = Address::new(ctx.rng.arr32()); tx!(t => { t.outputs_mut().retain(|o| !matches!(o, Output::Change { asset_id, .. } if *asset_id == base)); t.outputs_mut().push(Output::change(to, 0, base)); t.outputs_mut().insert(0, Output::change(to, 0, base)); }); ("change-duplicated", "TransactionOutputChangeAssetIdDuplicated") }
        16 => { let u = tx!(t => t.inputs().iter().find_map(|i| if i.is_coin() { i.utxo_id().cloned() } else { None }))?; tx!(t => t.inputs_mut().push(Input::coin_signed(u, Address::default(), 1, base, TxPointer::default(), 0))); ("utxo-duplicated", "DuplicateInputUtxoId") }
        17 => {
            if kind != 0 { return None; }
            let c = tx!(t => t.inputs().iter().find_map(|i| i.contract_id().cloned()))?;
            tx!(t => { let n = t.inputs().len() as u16; t.inputs_mut().push(Input::contract(UtxoId::new(Bytes32::new(ctx.rng.arr32()), 1), Bytes32::zeroed(), Bytes32::zeroed(), TxPointer::default(), c)); t.outputs_mut().push(Output::contract(n, Bytes32::zeroed(), Bytes32::zeroed())); });
            ("contract-duplicated", "DuplicateInputContractId")
        }
        18 => { let n = tx!(t => t.inputs().iter().find_map(|i| i.nonce().cloned()))?; tx!(t => t.inputs_mut().push(Input::message_coin_signed(Address::default(), Address::default(), 1, n, 0))); ("nonce-duplicated", "DuplicateInputNonce") }
        19 => { let idx = tx!(t => t.inputs().iter().position(|i| i.is_coin_predicate()))?; tx!(t => if let Input::CoinPredicate(c) = &mut t.inputs_mut()[idx] { c.predicate = Default::default(); }); ("predicate-empty", "InputPredicateEmpty") }
        20 => { let m = tx!(t => t.inputs().iter().filter_map(|i| i.predicate_len()).max())?; if m == 0 { return None; } lim.max_pred_len = m as u64 - 1; ("predicate-length", "InputPredicateLength") }
        21 => { let m = tx!(t => t.inputs().iter().filter_map(|i| i.predicate_data_len()).max())?; if m == 0 { return None; } lim.max_pred_data = m as u64 - 1; ("predicate-data-length", "InputPredicateDataLength") }
        22 => { let n = tx!(t => t.witnesses().len()) as u16; let idx = tx!(t => t.inputs().iter().position(|i| i.witness_index().is_some()))?;
            tx!(t => match &mut t.inputs_mut()[idx] { Input::CoinSigned(c) => c.witness_index = n, Input::MessageCoinSigned(m) => m.witness_index = n, Input::MessageDataSigned(m) => m.witness_index = n, _ => {} }); ("witness-index", "InputWitnessIndexBounds") }
        23 => { let idx = tx!(t => t.inputs().iter().position(|i| i.is_contract()))?; tx!(t => t.outputs_mut().retain(|o| !matches!(o, Output::Contract(c) if c.input_index as usize == idx))); ("contract-output-missing", "InputContractAssociatedOutputContract") }
        24 => { let idx = tx!(t => t.inputs().iter().position(|i| i.is_contract()))?; tx!(t => t.outputs_mut().push(Output::contract(idx as u16, Bytes32::zeroed(), Bytes32::zeroed()))); ("contract-output-twice", "InputContractAssociatedOutputContract") }
        25 => { let idx = tx!(t => t.inputs().iter().position(|i| i.is_message_data_signed()))?; tx!(t => if let Input::MessageDataSigned(m) = &mut t.inputs_mut()[idx] { m.data = Default::default(); }); ("message-data-empty", "InputMessageDataLength") }
        26 => { let m = tx!(t => t.inputs().iter().filter_map(|i| i.input_data_len()).max())?; if m == 0 { return None; } lim.max_msg_data = m as u64 - 1; ("message-data-length", "InputMessageDataLength") }
        27 => { let idx = tx!(t => t.inputs().iter().position(|i| !i.is_contract()))?; tx!(t => t.outputs_mut().push(Output::contract(idx as u16, Bytes32::zeroed(), Bytes32::zeroed()))); ("output-contract-index", "OutputContractInputIndex") }
        28 => { let n = tx!(t => t.inputs().len()); tx!(t => t.outputs_mut().push(Output::contract(n as u16, Bytes32::zeroed(), Bytes32::zeroed()))); ("output-contract-index-oob", "OutputContractInputIndex") }
        29 => { let a = AssetId::new(ctx.rng.arr32()); tx!(t => t.outputs_mut().push(Output::change(Address::default(), 0, a))); ("change-asset-unknown", "TransactionOutputChangeAssetIdNotFound") }
        30 => { let a = AssetId::new(ctx.rng.arr32()); tx!(t => t.outputs_mut().push(Output::coin(Address::default(), 0, a))); ("coin-asset-unknown", "TransactionOutputCoinAssetIdNotFound") }
        // ---- kind specific ----
        31 => { if let Transaction::Script(t) = &case.tx { if t.script().is_empty() { return None; } lim.max_script = t.script().len() as u64 - 1; ("script-length", "TransactionScriptLength") } else { return None } }
        32 => { if let Transaction::Script(t) = &case.tx { if t.script_data().is_empty() { return None; } lim.max_script_data = t.script_data().len() as u64 - 1; ("script-data-length", "TransactionScriptDataLength") } else { return None } }
        33 => { if !matches!(kind, 0 | 2 | 4 | 5) { return None; } tx!(t => t.outputs_mut().push(Output::contract_created(ContractId::zeroed(), Bytes32::zeroed()))); ("contract-created-output", "TransactionOutputContainsContractCreated") }
        34 => { if let Transaction::Create(t) = &mut case.tx { *t.bytecode_witness_index_mut() = t.witnesses().len() as u16; ("create-witness-index", "TransactionCreateBytecodeWitnessIndex") } else { return None } }
        35 => { if let Transaction::Create(t) = &case.tx { let l = t.witnesses()[*t.bytecode_witness_index() as usize].as_ref().len(); if l == 0 { return None; } lim.contract_max_size = l as u64 - 1; ("create-bytecode-length", "TransactionCreateBytecodeLen") } else { return None } }
        36 => { if let Transaction::Create(t) = &case.tx { let n = t.storage_slots().len(); if n == 0 { return None; } lim.max_slots = n as u64 - 1; ("create-slots-max", "TransactionCreateStorageSlotMax") } else { return None } }
        37 => { if let Transaction::Create(t) = &mut case.tx { if t.storage_slots().len() < 2 { return None; } forget_unsorted(t, |v| v.swap(0, 1)); ("create-slots-unsorted", "TransactionCreateStorageSlotOrder") } else { return None } }
        38 => { if let Transaction::Create(t) = &mut case.tx { if t.storage_slots().is_empty() { return None; } forget_unsorted(t, |v| { let k = *v[0].key(); v.insert(1, StorageSlot::new(k, Bytes32::new([7; 32]))); }); ("create-slots-duplicate-key", "TransactionCreateStorageSlotOrder") } else { return None } }
        39 => { if kind == 0 { return None; } let a = AssetId::new(ctx.rng.arr32()); let i = coin_in(ctx, a, 5, 0); tx!(t => t.inputs_mut().push(i)); ("non-base-input", "TransactionInputContainsNonBaseAssetId") }
        40 => { if kind == 0 { return None; } tx!(t => { let n = t.inputs().len() as u16; t.inputs_mut().push(Input::contract(UtxoId::new(Bytes32::new([9; 32]), 0), Bytes32::zeroed(), Bytes32::zeroed(), TxPointer::default(), ContractId::new([5; 32]))); t.outputs_mut().push(Output::contract(n, Bytes32::zeroed(), Bytes32::zeroed())); }); ("contract-input", "TransactionInputContainsContract") }
        41 => { if kind == 0 { return None; } tx!(t => t.inputs_mut().push(Input::message_data_signed(Address::default(), Address::default(), 3, Nonce::new([3; 32]), 0, vec![1]))); ("message-data-input", "TransactionInputContainsMessageData") }
        42 => { if kind == 0 { return None; } tx!(t => t.outputs_mut().push(Output::variable(Address::default(), 0, AssetId::default()))); ("variable-output", "TransactionOutputContainsVariable") }
        43 => { if let Transaction::Create(t) = &mut case.tx { for o in t.outputs_mut().iter_mut() { if let Output::ContractCreated { contract_id, .. } = o { let mut b = **contract_id; flip32(ctx, &mut b); *contract_id = ContractId::new(b); } } ("create-contract-id", "TransactionCreateOutputContractCreatedDoesntMatch") } else { return None } }
        44 => { if let Transaction::Create(t) = &mut case.tx { for o in t.outputs_mut().iter_mut() { if let Output::ContractCreated { state_root, .. } = o { let mut b = **state_root; flip32(ctx, &mut b); *state_root = Bytes32::new(b); } } ("create-state-root", "TransactionCreateOutputContractCreatedDoesntMatch") } else { return None } }
        45 => { if let Transaction::Create(t) = &mut case.tx { let o = t.outputs().iter().find(|o| o.is_contract_created()).cloned()?; t.outputs_mut().push(o); ("create-two-created", "TransactionCreateOutputContractCreatedMultiple") } else { return None } }
        46 => { if let Transaction::Create(t) = &mut case.tx { t.outputs_mut().retain(|o| !o.is_contract_created()); ("create-none-created", "TransactionOutputDoesntContainContractCreated") } else { return None } }
        47 => { if kind != 2 { return None; } lim.privileged = Address::new(ctx.rng.arr32()); ("upgrade-privileged", "TransactionUpgradeNoPrivilegedAddress") }
        48 => { if let Transaction::Upgrade(t) = &mut case.tx { if let UpgradePurpose::ConsensusParameters { checksum, .. } = t.upgrade_purpose_mut() { let mut b = **checksum; flip32(ctx, &mut b); *checksum = Bytes32::new(b); ("upgrade-checksum", "TransactionUpgradeConsensusParametersChecksumMismatch") } else { return None } } else { return None } }
        49 => { if let Transaction::Upgrade(t) = &mut case.tx { let n = t.witnesses().len() as u16; if let UpgradePurpose::ConsensusParameters { witness_index, .. } = t.upgrade_purpose_mut() { *witness_index = n; ("upgrade-witness-index", "InputWitnessIndexBounds") } else { return None } } else { return None } }
        50 => { if let Transaction::Upgrade(t) = &mut case.tx { let junk = ctx.rng.bytes(40); let sum = fuel_crypto::Hasher::hash(&junk);
            let wi = if let UpgradePurpose::ConsensusParameters { witness_index, checksum } = t.upgrade_purpose_mut() { *checksum = sum; *witness_index } else { return None };
            // same length class is not needed: the witness limit policy may now be exceeded, so drop it
            t.witnesses_mut()[wi as usize] = Witness::from(junk); t.policies_mut().set(PolicyType::WitnessLimit, None);
            ("upgrade-deserialization", "TransactionUpgradeConsensusParametersDeserialization") } else { return None } }
        51 => { if let Transaction::Upload(t) = &case.tx { let n = *t.subsections_number(); if n == 0 { return None; } lim.max_subsections = n - 1; ("upload-subsections", "TransactionUploadTooManyBytecodeSubsections") } else { return None } }
        52 => { if let Transaction::Upload(t) = &mut case.tx { *t.bytecode_witness_index_mut() = t.witnesses().len() as u16; ("upload-witness-index", "InputWitnessIndexBounds") } else { return None } }
        53 => { if let Transaction::Upload(t) = &mut case.tx { let mut b = **t.bytecode_root(); flip32(ctx, &mut b); *t.bytecode_root_mut() = Bytes32::new(b); ("upload-root", "TransactionUploadRootVerificationFailed") } else { return None } }
        54 => { if let Transaction::Blob(t) = &mut case.tx { *t.bytecode_witness_index_mut() = t.witnesses().len() as u16; ("blob-witness-index", "InputWitnessIndexBounds") } else { return None } }
        55 => { if let Transaction::Blob(t) = &mut case.tx { let mut b = **t.blob_id(); flip32(ctx, &mut b); *t.blob_id_mut() = BlobId::new(b); ("blob-id", "TransactionBlobIdVerificationFailed") } else { return None } }
        // ---- balances ----
        56 => {
            // the fee limit exceeds the base-asset inputs by one (needs headroom below u64::MAX)
            let (i, o) = tx!(t => (t.inputs().clone(), t.outputs().clone())); let a = account(&i, &o, &base);
            let b = *a.spend.get(&base).unwrap_or(&0); if b >= u64::MAX as u128 { return None; }
            tx!(t => t.policies_mut().set(PolicyType::MaxFee, Some(b as u64 + 1)));
            ("fee-exceeds-inputs", "InsufficientFeeAmount")
        }
        57 => {
            // a coin output that exceeds what is left of an asset by one
            let (i, o, fee) = tx!(t => (t.inputs().clone(), t.outputs().clone(), t.policies().get(PolicyType::MaxFee).unwrap_or(0))); let a = account(&i, &o, &base);
            let asset = *ctx.rng.pick(&a.keys);
            let left = *a.spend.get(&asset).unwrap_or(&0) - *a.out.get(&asset).unwrap_or(&0) - if asset == base { fee as u128 } else { 0 };
            if left >= u64::MAX as u128 { return None; }
            tx!(t => t.outputs_mut().push(Output::coin(Address::default(), left as u64 + 1, asset)));
            ("coin-exceeds-inputs", "InsufficientInputAmount")
        }
        // ---- the bytes the hash-based sub-checks read (the Lean side recomputes the verdicts from them) ----
        58 => { if let Transaction::Upload(t) = &mut case.tx { if t.proof_set().is_empty() { return None; } let k = ctx.rng.below(t.proof_set().len() as u64) as usize; let mut b = *t.proof_set()[k]; flip32(ctx, &mut b); t.proof_set_mut()[k] = Bytes32::new(b); ("upload-proof-element", "TransactionUploadRootVerificationFailed") } else { return None } }
        59 => { if let Transaction::Upload(t) = &mut case.tx { let n = *t.subsections_number(); if n < 2 { return None; } let i = *t.subsection_index(); *t.subsection_index_mut() = if ctx.rng.chance(1, 2) { (i + 1) % n } else { n + ctx.rng.below(3) as u16 }; ("upload-subsection-index", "TransactionUploadRootVerificationFailed") } else { return None } }
        60 => { if let Transaction::Upload(t) = &mut case.tx { if t.proof_set().is_empty() { return None; } if ctx.rng.chance(1, 2) { t.proof_set_mut().pop(); } else { let e = t.proof_set()[0]; t.proof_set_mut().push(e); } t.policies_mut().set(PolicyType::WitnessLimit, None); ("upload-proof-length", "TransactionUploadRootVerificationFailed") } else { return None } }
        61 => { let wi = match &case.tx { Transaction::Upload(t) => *t.bytecode_witness_index(), Transaction::Blob(t) => *t.bytecode_witness_index(), _ => return None } as usize;
            let is_upload = matches!(case.tx, Transaction::Upload(_));
            let ok = tx!(t => { let mut d = t.witnesses()[wi].as_vec().clone(); if d.is_empty() { false } else { let k = ctx.rng.below(d.len() as u64) as usize; d[k] ^= 1 << ctx.rng.below(8); t.witnesses_mut()[wi] = Witness::from(d); true } });
            if !ok { return None; }
            if is_upload { ("upload-witness-byte", "TransactionUploadRootVerificationFailed") } else { ("blob-witness-byte", "TransactionBlobIdVerificationFailed") } }
        62 => { if let Transaction::Create(t) = &mut case.tx { let wi = *t.bytecode_witness_index() as usize; let mut d = t.witnesses()[wi].as_vec().clone(); if d.is_empty() { d.push(1); t.policies_mut().set(PolicyType::WitnessLimit, None); } else { let k = ctx.rng.below(d.len() as u64) as usize; d[k] ^= 1 << ctx.rng.below(8); } t.witnesses_mut()[wi] = Witness::from(d); ("create-bytecode-byte", "TransactionCreateOutputContractCreatedDoesntMatch") } else { return None } }
        63 => { if let Transaction::Create(t) = &mut case.tx { let mut b = **t.salt(); flip32(ctx, &mut b); *t.salt_mut() = fuel_types::Salt::new(b); ("create-salt", "TransactionCreateOutputContractCreatedDoesntMatch") } else { return None } }
        64 => { if let Transaction::Create(t) = &mut case.tx { if t.storage_slots().is_empty() { return None; } forget_unsorted(t, |v| { let k = *v[0].key(); let mut x = **v[0].value(); x[31] ^= 1; v[0] = StorageSlot::new(k, Bytes32::new(x)); }); ("create-slot-value", "TransactionCreateOutputContractCreatedDoesntMatch") } else { return None } }
        _ => return None,
    })
}

/// balance overflow: two inputs of one asset whose amounts sum to more than u64::MAX
fn overflow_case(ctx: &mut Ctx, case: &mut Case) -> (&'static str, &'static str) {
    let base = case.limits.base;
    let which = ctx.rng.below(3);
    with_tx!(&mut case.tx, t => {
        let multi = t.inputs().iter().any(|i| i.is_message_data_signed() || i.is_message_data_predicate());
        match which {
            0 => { let (x, y) = (u64::MAX - ctx.rng.below(3), 3 + ctx.rng.below(5)); let a = coin_in(ctx, base, x, 0); t.inputs_mut().push(a); let b = coin_in(ctx, base, y, 0); t.inputs_mut().push(b); }
            1 => { t.inputs_mut().push(Input::message_coin_signed(Address::default(), Address::default(), 1, Nonce::new(ctx.rng.arr32()), 0)); t.inputs_mut().push(Input::message_coin_signed(Address::default(), Address::default(), u64::MAX, Nonce::new(ctx.rng.arr32()), 0)); }
            _ => if multi { for _ in 0..2 { t.inputs_mut().push(Input::message_data_signed(Address::default(), Address::default(), u64::MAX / 2 + 1, Nonce::new(ctx.rng.arr32()), 0, vec![1])); } }
                 else { let a = coin_in(ctx, base, u64::MAX, 0); t.inputs_mut().push(a); let b = coin_in(ctx, base, 1, 0); t.inputs_mut().push(b); },
        }
        // the owner policy may point past inserted inputs; keep it valid
        if t.policies().get(PolicyType::Owner).is_some() { t.policies_mut().set(PolicyType::Owner, None); }
    });
    ("balance-overflow", "BalanceOverflow")
}

/// limits exactly equal to the transaction's own quantities: every `>` comparison is at its boundary
fn tighten(case: &mut Case) {
    let (gc, fp) = (c18::gas_costs(&case.limits.costs), *case.limits.build().fee_params());
    let l = &mut case.limits;
    with_tx!(&case.tx, t => {
        l.max_size = t.size() as u64; l.max_inputs = t.inputs().len() as u16; l.max_outputs = t.outputs().len() as u16; l.max_witnesses = t.witnesses().len() as u32;
        l.max_gas_per_tx = t.max_gas(&gc, &fp);
        l.max_pred_len = t.inputs().iter().filter_map(|i| i.predicate_len()).max().unwrap_or(0) as u64;
        l.max_pred_data = t.inputs().iter().filter_map(|i| i.predicate_data_len()).max().unwrap_or(0) as u64;
        l.max_msg_data = t.inputs().iter().filter_map(|i| i.input_data_len()).max().unwrap_or(0) as u64;
    });
    match &case.tx {
        Transaction::Script(t) => { l.max_script = t.script().len() as u64; l.max_script_data = t.script_data().len() as u64; }
        Transaction::Create(t) => { l.contract_max_size = t.witnesses().get(*t.bytecode_witness_index() as usize).map(|w| w.as_ref().len()).unwrap_or(0) as u64; l.max_slots = t.storage_slots().len() as u64; }
        Transaction::Upload(t) => { l.max_subsections = *t.subsections_number(); }
        _ => {}
    }
}

fn gen_case(ctx: &mut Ctx, kind: usize) -> Case {
    let w = txgen::world(ctx);
    let tx = txgen::gen_valid(ctx, &w, kind);
    let costs = if ctx.rng.chance(1, 2) { c18::default_costs() } else { c18::gen_costs(ctx, false, false) };
    let gpb = *ctx.rng.pick(&[0u64, 1, 4, 63]);
    Case { tx, limits: Limits::lenient(&w, costs, gpb), height: w.height }
}

fn mint_case(ctx: &mut Ctx) {
    let w = txgen::world(ctx);
    let height = w.height;
    let which = ctx.rng.below(6);
    let ptr_h = if which == 1 { height.wrapping_add(1 + ctx.rng.below(3) as u32) } else { height };
    let idx = if which == 2 { 1 + ctx.rng.below(3) as u16 } else { 0 };
    let asset = if which == 3 { AssetId::new(ctx.rng.arr32()) } else { w.base };
    let mint = Transaction::mint(TxPointer::new(ptr_h.into(), ctx.rng.below(5) as u16),
        fuel_tx::input::contract::Contract { utxo_id: UtxoId::new(Bytes32::new(ctx.rng.arr32()), 0), balance_root: Bytes32::zeroed(), state_root: Bytes32::zeroed(), tx_pointer: TxPointer::default(), contract_id: ContractId::new(ctx.rng.arr32()) },
        fuel_tx::output::contract::Contract { input_index: idx, balance_root: Bytes32::zeroed(), state_root: Bytes32::zeroed() },
        ctx.rng.word(), asset, ctx.rng.word());
    let size = mint.size() as u64;
    let max_size = match which { 4 => size - 1, 5 => size, _ => u64::MAX };
    let mut l = Limits::lenient(&w, c18::default_costs(), 4);
    l.max_size = max_size;
    let cp = l.build();
    let req = format!("mint {height} {max_size} {} {size} {ptr_h} {idx} {}", hex(&*w.base), hex(&*asset));
    let res = ctx.guard(|| mint.into_checked_basic(height.into(), &cp));
    let out = match &res { Ok(Ok(_)) => "ok".to_string(), Ok(Err(CheckError::Validity(e))) => format!("err {}", err_name(e)), Ok(Err(_)) => "err other".into(), Err(m) => { ctx.oracle_fail("panic-mint", &req, m); "panic".into() } };
    let want = match which { 1 => "err TransactionMintIncorrectBlockHeight", 2 => "err TransactionMintIncorrectOutputIndex", 3 => "err TransactionMintNonBaseAsset", 4 => "err TransactionSizeLimitExceeded", _ => "ok" };
    if out != want { ctx.oracle_fail("mint-rule", &req, &format!("expected {want}, got {out}")); }
    ctx.count(&format!("mint.{}", want.replace("err ", "")));
    ctx.distinct(req.as_bytes());
    ctx.emit(&req, &out);
}

/// hand-made interacting cases (DESIGN §5.F): the base asset present only through message inputs
fn corpus(ctx: &mut Ctx) {
    use fuel_tx::policies::Policies;
    let w = txgen::World { base: AssetId::new([0xb5; 32]), privileged: Address::new([9; 32]), height: 7 };
    let x = AssetId::new([0x11; 32]);
    let wit = vec![Witness::from(vec![0u8; 64])];
    let coin = |a: AssetId, amt: u64, n: u8| Input::coin_signed(UtxoId::new(Bytes32::new([n; 32]), 0), Address::new([n; 32]), amt, a, TxPointer::default(), 0);
    let mdata = |amt: u64, n: u8| Input::message_data_signed(Address::default(), Address::new([n; 32]), amt, Nonce::new([n; 32]), 0, vec![1, 2, 3]);
    let mcoin = |amt: u64, n: u8| Input::message_coin_signed(Address::default(), Address::new([n; 32]), amt, Nonce::new([n; 32]), 0);
    let to = Address::new([3; 32]);
    let mk = |fee: u64, inputs: Vec<Input>, outputs: Vec<Output>| -> Case {
        let tx: Transaction = Transaction::script(1000, vec![1, 2, 3, 4], vec![], Policies::new().with_max_fee(fee), inputs, outputs, wit.clone()).into();
        Case { tx, limits: Limits::lenient(&w, c18::default_costs(), 4), height: w.height }
    };
    // spendable input of another asset; the base asset appears only in a message-DATA input
    run_case(ctx, &mk(0, vec![coin(x, 100, 1), mdata(50, 2)], vec![Output::change(to, 0, w.base), Output::coin(to, 0, w.base), Output::coin(to, 100, x)]), "corpus-base-via-message-data", Some(None));
    run_case(ctx, &mk(0, vec![coin(x, 100, 1), mdata(50, 2)], vec![Output::coin(to, 1, w.base)]), "corpus-base-coin-from-retryable", Some(Some("InsufficientInputAmount")));
    run_case(ctx, &mk(1, vec![coin(x, 100, 1), mdata(50, 2)], vec![]), "corpus-fee-from-retryable", Some(Some("InsufficientFeeAmount")));
    // duplicate change outputs for the base asset when it comes from message inputs only
    run_case(ctx, &mk(5, vec![mcoin(10, 1)], vec![Output::change(to, 0, w.base), Output::change(to, 0, w.base)]), "corpus-change-duplicated-message", Some(Some("TransactionOutputChangeAssetIdDuplicated")));
    run_case(ctx, &mk(0, vec![coin(x, 1, 1), mdata(10, 2)], vec![Output::change(to, 0, w.base), Output::change(to, 0, w.base)]), "corpus-change-duplicated-message-data", Some(Some("TransactionOutputChangeAssetIdDuplicated")));
    // exact spending: fee + coins = inputs, message coin and coin of the base asset together
    run_case(ctx, &mk(60, vec![coin(w.base, 100, 1), mcoin(10, 2)], vec![Output::coin(to, 50, w.base), Output::change(to, 0, w.base)]), "corpus-exact-spend", Some(None));
    run_case(ctx, &mk(61, vec![coin(w.base, 100, 1), mcoin(10, 2)], vec![Output::coin(to, 50, w.base)]), "corpus-exact-spend-plus-one", Some(Some("InsufficientInputAmount")));
    // the sum of one asset is exactly u64::MAX / one above
    run_case(ctx, &mk(0, vec![coin(w.base, u64::MAX - 5, 1), mcoin(5, 2)], vec![Output::coin(to, u64::MAX, w.base)]), "corpus-sum-u64-max", Some(None));
    run_case(ctx, &mk(0, vec![coin(w.base, u64::MAX - 5, 1), mcoin(6, 2)], vec![]), "corpus-sum-u64-max-plus-one", Some(Some("BalanceOverflow")));
    // zero inputs
    run_case(ctx, &mk(0, vec![], vec![]), "corpus-no-inputs", Some(Some("NoSpendableInput")));
}

pub fn run(ctx: &mut Ctx) {
    if std::env::var("FV_PANIC_TRACE").is_ok() { std::panic::set_hook(Box::new(|i| eprintln!("panic: {i}"))); }
    corpus(ctx);
    let rounds = ctx.n(40, 1500);
    for round in 0..rounds {
        for kind in 0..6usize {
            // valid, lenient limits
            let case = gen_case(ctx, kind);
            run_case(ctx, &case, &format!("valid-{}", txgen::KINDS[kind]), Some(None));
            // valid, every limit at its boundary
            let mut tight = Case { tx: case.tx.clone(), limits: case.limits.clone(), height: case.height };
            tighten(&mut tight);
            run_case(ctx, &tight, "valid-tight-limits", Some(None));
            // every single-rule violation applicable to a fresh valid transaction of this kind
            for k in 0..N_MUT {
                // a fresh valid transaction per violation; retried a few times when the violation needs a shape
                // (a contract input, a message-data input, two storage slots ..) this one does not have
                for _try in 0..12 {
                    let mut c = gen_case(ctx, kind);
                    // violations that only move a limit are applied to a transaction whose other limits are already at
                    // their boundary; violations that edit the transaction get the boundary limits of the edited one
                    let limit_only = LIMIT_MUTS.contains(&k);
                    let tight = ctx.rng.chance(1, 3);
                    if tight && limit_only { tighten(&mut c); }
                    if let Some((label, err)) = mutate(ctx, k, &mut c) {
                        if tight && !limit_only { let keep = c.limits.privileged; tighten(&mut c); c.limits.privileged = keep; }
                        run_case(ctx, &c, label, Some(Some(err)));
                        break;
                    }
                    if !KIND_DEPENDENT_SHAPE.contains(&k) { break; }
                }
            }
            let mut c = gen_case(ctx, kind);
            let (label, err) = overflow_case(ctx, &mut c);
            run_case(ctx, &c, label, Some(Some(err)));
            // pairs of violations (which error comes first is compared with the model; no oracle expectation)
            for _ in 0..(if ctx.thorough() { 40 } else { 12 }) {
                let mut c = gen_case(ctx, kind);
                let (a, b) = (ctx.rng.below(N_MUT as u64) as usize, ctx.rng.below(N_MUT as u64) as usize);
                let ra = mutate(ctx, a, &mut c).is_some();
                // the second mutation may assume shapes the first one destroyed (index arithmetic): guard it
                let rb = std::panic::catch_unwind(std::panic::AssertUnwindSafe(|| mutate(ctx, b, &mut c).is_some())).unwrap_or(false);
                if ra || rb { run_case(ctx, &c, "pair", None); }
            }
        }
        for _ in 0..6 { mint_case(ctx); }
        let _ = round;
    }
}
