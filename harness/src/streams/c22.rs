//! C22 — wide-integer instructions: each of the 14 W* opcodes executed as a single instruction on a real
//! `Interpreter` whose memory (stack + heap) and registers are laid out by the harness. Compared with the
//! Lean model (stream `c22`: status, changed registers, changed memory span) and, independently, with an
//! arbitrary-precision reference written here (property oracle: operands read big-endian, result / $of /
//! $err / panic exactly as specified, nothing else in memory touched).
use crate::{ctx::Ctx, gen::{instr_gen as g, vmstep::*}, util::hex};

const WIDE: &[&str] = &["WDCM", "WQCM", "WDOP", "WQOP", "WDML", "WQML", "WDDV", "WQDV", "WDMD", "WQMD", "WDAM", "WQAM", "WDMM", "WQMM"];

fn row(name: &str) -> &'static (u8, &'static str, &'static [u8]) {
    g::TABLE.iter().find(|r| r.1 == name).expect("opcode in table")
}

// ---- minimal arbitrary-precision naturals (little-endian u32 limbs), independent of the libraries fuel-vm uses ----
#[derive(Clone, PartialEq, Eq, Debug)]
struct Big(Vec<u32>);
impl Big {
    fn norm(mut self) -> Big { while self.0.last() == Some(&0) { self.0.pop(); } self }
    fn zero() -> Big { Big(vec![]) }
    fn from_u64(v: u64) -> Big { Big(vec![v as u32, (v >> 32) as u32]).norm() }
    fn from_be(bs: &[u8]) -> Big {
        let mut limbs = vec![0u32; (bs.len() + 3) / 4];
        for (i, b) in bs.iter().rev().enumerate() { limbs[i / 4] |= (*b as u32) << (8 * (i % 4)); }
        Big(limbs).norm()
    }
    fn to_be(&self, n: usize) -> Vec<u8> {
        (0..n).rev().map(|i| self.0.get(i / 4).map_or(0, |l| (l >> (8 * (i % 4))) as u8)).collect()
    }
    fn is_zero(&self) -> bool { self.0.is_empty() }
    fn bits(&self) -> usize { match self.0.last() { None => 0, Some(l) => 32 * self.0.len() - l.leading_zeros() as usize } }
    fn bit(&self, i: usize) -> bool { self.0.get(i / 32).map_or(false, |l| (l >> (i % 32)) & 1 == 1) }
    fn cmp(&self, o: &Big) -> std::cmp::Ordering {
        if self.0.len() != o.0.len() { return self.0.len().cmp(&o.0.len()); }
        for i in (0..self.0.len()).rev() { if self.0[i] != o.0[i] { return self.0[i].cmp(&o.0[i]); } }
        std::cmp::Ordering::Equal
    }
    fn add(&self, o: &Big) -> Big {
        let mut r = vec![]; let mut c = 0u64;
        for i in 0..self.0.len().max(o.0.len()) + 1 { let s = *self.0.get(i).unwrap_or(&0) as u64 + *o.0.get(i).unwrap_or(&0) as u64 + c; r.push(s as u32); c = s >> 32; }
        Big(r).norm()
    }
    /// self - o, requires self >= o
    fn sub(&self, o: &Big) -> Big {
        let mut r = vec![]; let mut br = 0i64;
        for i in 0..self.0.len() { let mut d = self.0[i] as i64 - *o.0.get(i).unwrap_or(&0) as i64 - br; if d < 0 { d += 1 << 32; br = 1; } else { br = 0; } r.push(d as u32); }
        Big(r).norm()
    }
    fn mul(&self, o: &Big) -> Big {
        let mut r = vec![0u32; self.0.len() + o.0.len() + 1];
        for i in 0..self.0.len() { let mut c = 0u64; for j in 0..o.0.len() { let t = self.0[i] as u64 * o.0[j] as u64 + r[i + j] as u64 + c; r[i + j] = t as u32; c = t >> 32; } let mut k = i + o.0.len(); while c != 0 { let t = r[k] as u64 + c; r[k] = t as u32; c = t >> 32; k += 1; } }
        Big(r).norm()
    }
    fn shl(&self, s: usize) -> Big {
        let mut r = vec![0u32; self.0.len() + s / 32 + 1];
        for i in 0..self.0.len() { let v = (self.0[i] as u64) << (s % 32); r[i + s / 32] |= v as u32; r[i + s / 32 + 1] |= (v >> 32) as u32; }
        Big(r).norm()
    }
    fn shr(&self, s: usize) -> Big {
        let mut r = vec![];
        for i in s / 32..self.0.len() { let lo = self.0[i] >> (s % 32); let hi = if s % 32 == 0 { 0 } else { self.0.get(i + 1).map_or(0, |l| l << (32 - s % 32)) }; r.push(lo | hi); }
        Big(r).norm()
    }
    /// low `w` bits
    fn low(&self, w: usize) -> Big { let mut r: Vec<u32> = self.0.iter().take((w + 31) / 32).cloned().collect(); if w % 32 != 0 { if let Some(l) = r.get_mut(w / 32) { *l &= (1u32 << (w % 32)) - 1; } } Big(r).norm() }
    /// (quotient, remainder) by binary long division; divisor non-zero
    fn divrem(&self, d: &Big) -> (Big, Big) {
        let mut q = vec![0u32; self.0.len()]; let mut r = Big::zero();
        for i in (0..self.bits()).rev() {
            r = r.shl(1); if self.bit(i) { if r.0.is_empty() { r.0.push(1); } else { r.0[0] |= 1; } }
            if r.cmp(d) != std::cmp::Ordering::Less { r = r.sub(d); q[i / 32] |= 1 << (i % 32); }
        }
        (Big(q).norm(), r)
    }
    fn bitop(&self, o: &Big, f: impl Fn(u32, u32) -> u32, w: usize) -> Big { Big((0..(w + 31) / 32).map(|i| f(*self.0.get(i).unwrap_or(&0), *o.0.get(i).unwrap_or(&0))).collect()).low(w) }
}

// ---- memory layout shared with the Lean driver: stack [0, stack.len()), heap [hp, MEM_SIZE) ----
struct Lay { stack: Vec<u8>, heap: Vec<u8>, hp: u64 }
impl Lay {
    fn readable(&self, a: u64, n: u64) -> Result<(), &'static str> {
        if a > VM_MAX_RAM || a + n > VM_MAX_RAM { return Err("MemoryOverflow"); }
        if a + n <= self.stack.len() as u64 || a >= self.hp { Ok(()) } else { Err("UninitalizedMemoryAccess") }
    }
    fn get(&self, a: u64, n: u64) -> Vec<u8> {
        (a..a + n).map(|x| if (x as usize) < self.stack.len() { self.stack[x as usize] } else { self.heap[(x - self.hp) as usize] }).collect()
    }
}
/// `prev` = the `$hp` saved in the innermost call frame (`VM_MAX_RAM` in a script)
fn owned(regs: &[u64; NREG], a: u64, n: u64, prev: u64) -> bool {
    let (ssp, sp, hp) = (regs[SSP], regs[SP], regs[HP]);
    let e = a + n;
    let st = a >= ssp && a < sp && e <= VM_MAX_RAM && e >= ssp && e <= sp;
    let hpo = a >= hp && hp != prev && e <= prev;
    st || hpo
}

struct Expect { status: &'static str, dest_reg: Option<(usize, u64)>, of: Option<u64>, err: Option<u64>, write: Option<(u64, Vec<u8>)> }

/// reference semantics of one wide instruction
fn reference(name: &str, a: &[u32], regs: &[u64; NREG], lay: &Lay, prev: u64) -> Expect {
    let n: u64 = if name.as_bytes()[1] == b'D' { 16 } else { 32 };
    let w = (8 * n) as usize;
    let kind = &name[2..];
    let r = |i: u32| regs[i as usize];
    let wrapping = regs[FLAG] & 2 != 0; let unsafem = regs[FLAG] & 1 != 0;
    let panic = |p: &'static str| Expect { status: p, dest_reg: None, of: None, err: None, write: None };
    let rd = |addr: u64| -> Result<Big, &'static str> { lay.readable(addr, n)?; Ok(Big::from_be(&lay.get(addr, n))) };
    let opnd = |ind: bool, v: u64| -> Result<Big, &'static str> { if ind { rd(v) } else { Ok(Big::from_u64(v)) } };
    let imm = *a.last().unwrap();
    macro_rules! tryp { ($e:expr) => { match $e { Ok(v) => v, Err(p) => return panic(p) } } }
    // result to memory, with $of/$err already set; the write may still fail
    let finish = |res: Big, of: u64, err: u64| -> Expect {
        let dest = r(a[0]);
        let wr: Result<(), &'static str> = lay.readable(dest, n).and_then(|_| if owned(regs, dest, n, prev) { Ok(()) } else { Err("MemoryOwnership") });
        match wr {
            Ok(()) => Expect { status: "ok", dest_reg: None, of: Some(of), err: Some(err), write: Some((dest, res.to_be(n as usize))) },
            // the implementation updates $of/$err before the write is attempted; the specification only fixes the panic
            Err(p) => Expect { status: p, dest_reg: None, of: None, err: None, write: None },
        }
    };
    match kind {
        "CM" => {
            let ind = (imm >> 5) & 1 == 1;
            if (imm >> 3) & 3 != 0 || imm & 7 > 6 { return panic("InvalidImmediateValue"); }
            if a[0] < 16 { return panic("ReservedRegisterNotWritable"); }
            let l = tryp!(rd(r(a[1]))); let rh = tryp!(opnd(ind, r(a[2])));
            use std::cmp::Ordering::*;
            let c = l.cmp(&rh);
            let v = match imm & 7 { 0 => (c == Equal) as u64, 1 => (c != Equal) as u64, 2 => (c == Less) as u64, 3 => (c == Greater) as u64, 4 => (c != Greater) as u64, 5 => (c != Less) as u64, _ => (w - l.bits()) as u64 };
            Expect { status: "ok", dest_reg: Some((a[0] as usize, v)), of: Some(0), err: Some(0), write: None }
        }
        "OP" => {
            let ind = (imm >> 5) & 1 == 1;
            if imm & 31 > 7 { return panic("InvalidImmediateValue"); }
            let l = tryp!(rd(r(a[1]))); let rh = tryp!(opnd(ind, r(a[2])));
            let modw = Big(vec![1]).shl(w);
            let (res, ov) = match imm & 31 {
                0 => { let s = l.add(&rh); (s.low(w), s.bits() > w) }
                1 => if l.cmp(&rh) != std::cmp::Ordering::Less { (l.sub(&rh), false) } else { (modw.add(&l).sub(&rh).low(w), true) },
                2 => (modw.sub(&Big(vec![1])).sub(&l), false),
                3 => (l.bitop(&rh, |x, y| x | y, w), false), 4 => (l.bitop(&rh, |x, y| x ^ y, w), false), 5 => (l.bitop(&rh, |x, y| x & y, w), false),
                6 => (if rh.bits() > 16 || rh.0.get(0).map_or(0, |x| *x as usize) >= w { Big::zero() } else { l.shl(rh.0.get(0).map_or(0, |x| *x as usize)).low(w) }, false),
                _ => (if rh.bits() > 16 || rh.0.get(0).map_or(0, |x| *x as usize) >= w { Big::zero() } else { l.shr(rh.0.get(0).map_or(0, |x| *x as usize)) }, false),
            };
            if ov && !wrapping { return panic("ArithmeticOverflow"); }
            finish(res, ov as u64, 0)
        }
        "ML" => {
            if imm & 15 != 0 { return panic("InvalidImmediateValue"); }
            let l = tryp!(opnd((imm >> 4) & 1 == 1, r(a[1]))); let rh = tryp!(opnd((imm >> 5) & 1 == 1, r(a[2])));
            let p = l.mul(&rh); let ov = p.bits() > w;
            if ov && !wrapping { return panic("ArithmeticOverflow"); }
            finish(p.low(w), ov as u64, 0)
        }
        "DV" => {
            if imm & 31 != 0 { return panic("InvalidImmediateValue"); }
            let l = tryp!(rd(r(a[1]))); let rh = tryp!(opnd((imm >> 5) & 1 == 1, r(a[2])));
            if rh.is_zero() { if unsafem { finish(Big::zero(), 0, 1) } else { panic("ArithmeticError") } } else { finish(l.divrem(&rh).0, 0, 0) }
        }
        "AM" | "MM" => {
            let l = tryp!(rd(r(a[1]))); let rh = tryp!(rd(r(a[2]))); let m = tryp!(rd(r(a[3])));
            if m.is_zero() { if unsafem { finish(Big::zero(), 0, 1) } else { panic("ArithmeticError") } }
            else { let x = if kind == "AM" { l.add(&rh) } else { l.mul(&rh) }; finish(x.divrem(&m).1, 0, 0) }
        }
        "MD" => {
            let l = tryp!(rd(r(a[1]))); let rh = tryp!(rd(r(a[2]))); let d = tryp!(rd(r(a[3])));
            let p = l.mul(&rh);
            let q = if d.is_zero() { p.shr(w) } else { p.divrem(&d).0 };
            let ov = q.bits() > w;
            if ov && !wrapping { return panic("ArithmeticOverflow"); }
            finish(q.low(w), ov as u64, 0)
        }
        _ => unreachable!(),
    }
}

/// boundary-biased wide integer of `n` bytes
fn wide_val(ctx: &mut Ctx, n: usize) -> Vec<u8> {
    let w = 8 * n;
    let mut v = vec![0u8; n];
    let set_bit = |v: &mut Vec<u8>, k: usize| { if k < w { v[n - 1 - k / 8] |= 1 << (k % 8); } };
    match ctx.rng.below(12) {
        0 => {}
        1 => v[n - 1] = ctx.rng.below(4) as u8,
        2 => v.iter_mut().for_each(|b| *b = 0xFF),
        3 => { v.iter_mut().for_each(|b| *b = 0xFF); v[n - 1] = 0xFF - ctx.rng.below(3) as u8; }
        4 => { let k = ctx.rng.below(w as u64) as usize; set_bit(&mut v, k); }                       // 2^k
        5 => { let k = ctx.rng.below(w as u64) as usize; for i in 0..k { set_bit(&mut v, i); } }      // 2^k - 1
        6 => { let k = 1 + ctx.rng.below(w as u64 - 1) as usize; set_bit(&mut v, k); v[n - 1] |= 1; } // 2^k + 1
        7 => { let k = *ctx.rng.pick(&[63usize, 64, 65, 127, 128, 129, 191, 192, 255]); if k < w { set_bit(&mut v, k); if ctx.rng.chance(1, 2) { for i in 0..k { set_bit(&mut v, i); } } } }
        8 => { let x = ctx.rng.word().to_be_bytes(); v[n - 8..].copy_from_slice(&x); }                 // fits a register
        9 => { let k = 1 + ctx.rng.below(n as u64) as usize; for i in n - k..n { v[i] = ctx.rng.next() as u8; } }
        _ => v.iter_mut().for_each(|b| *b = ctx.rng.next() as u8),
    }
    v
}

/// `prev`: `None` = script context (`prev_hp = VM_MAX_RAM`, request `w …`); `Some(p)` = executed on a VM stopped inside a real
/// CALL whose frame saved `$hp = p` (request `v <p> …`)
struct Case { name: &'static str, raw: u32, args: Vec<u32>, regs: [u64; NREG], lay: Lay, prev: Option<u64> }

/// returns false when the VM had to be discarded (host panic)
fn run_case(ctx: &mut Ctx, vm: &mut Vm, cs: &Case) -> bool {
    let lay = &cs.lay;
    // lay out the real VM's memory
    let setup = ctx.guard(|| {
        vm.memory_mut().reset();
        vm.memory_mut().grow_stack(lay.stack.len() as u64).expect("grow_stack");
        if !lay.stack.is_empty() { vm.memory_mut().write_noownerchecks(0u64, lay.stack.len()).expect("stack").copy_from_slice(&lay.stack); }
        if !lay.heap.is_empty() {
            let mut r = base_regs(); r[SP] = lay.stack.len() as u64; r[SSP] = r[SP]; r[HP] = VM_MAX_RAM; r[16] = lay.heap.len() as u64;
            let aloc = row("ALOC");
            let (st, after) = step(vm, &r, encode(aloc.0, aloc.2, &[16]));
            assert!(st == "ok" && after[HP] == lay.hp, "ALOC setup failed: {st}");
            vm.memory_mut().write_noownerchecks(lay.hp, lay.heap.len()).expect("heap").copy_from_slice(&lay.heap);
        }
    });
    if let Err(msg) = setup { ctx.oracle_fail("panic-setup", cs.name, &msg); *vm = new_vm(); return false; }
    let head = match cs.prev { None => "w".to_string(), Some(p) => format!("v {p}") };
    let prev = cs.prev.unwrap_or(VM_MAX_RAM);
    let req = format!("{head} {} {} {} {} {} {}", cs.raw, lay.stack.len(), lay.hp, hex(&lay.stack), hex(&lay.heap), fmt_regs(&cs.regs));
    let regs = cs.regs; let raw = cs.raw;
    let (st, after) = match ctx.guard(|| step(vm, &regs, raw)) {
        Ok(v) => v,
        Err(msg) => { ctx.oracle_fail(&format!("panic-{}", cs.name), &req, &msg); *vm = new_vm(); ctx.emit(&req, "HOST-PANIC"); return false; }
    };
    let stack_after: Vec<u8> = vm.memory().stack_raw()[..lay.stack.len()].to_vec();
    let heap_after: Vec<u8> = if lay.heap.is_empty() { vec![] } else { vm.memory().read(lay.hp, lay.heap.len()).expect("heap readable").to_vec() };
    // changed memory span (addresses), over stack then heap
    let mut changed: Vec<u64> = vec![];
    for i in 0..lay.stack.len() { if stack_after[i] != lay.stack[i] { changed.push(i as u64); } }
    for i in 0..lay.heap.len() { if heap_after[i] != lay.heap[i] { changed.push(lay.hp + i as u64); } }
    let after_lay = Lay { stack: stack_after, heap: heap_after, hp: lay.hp };
    let memdiff = match (changed.first(), changed.last()) {
        (Some(lo), Some(hi)) if (*hi < lay.stack.len() as u64) == (*lo < lay.stack.len() as u64) => format!(" m{}:{}", lo, hex(&after_lay.get(*lo, hi - lo + 1))),
        (Some(_), Some(_)) => " m-split".to_string(),
        _ => String::new(),
    };
    ctx.count(&format!("op.{}", cs.name)); ctx.count(&format!("st.{st}"));
    if cs.prev.is_some() { ctx.count(&format!("in-call.st.{st}")); }
    // ---- property oracle ----
    let fp = |k: &str| format!("{}-{}", cs.name.to_lowercase(), k);
    let e = reference(cs.name, &cs.args, &regs, lay, prev);
    if st != e.status { ctx.oracle_fail(&fp("wrong-status"), &req, &format!("expected {}, got {st}", e.status)); }
    else if st == "ok" {
        if let Some((i, v)) = e.dest_reg { if after[i] != v { ctx.oracle_fail(&fp("wrong-register-result"), &req, &format!("reg {i} = {}, expected {v}", after[i])); } }
        if Some(after[OF]) != e.of { ctx.oracle_fail(&fp("wrong-of"), &req, &format!("$of = {}", after[OF])); }
        if Some(after[ERR]) != e.err { ctx.oracle_fail(&fp("wrong-err"), &req, &format!("$err = {}", after[ERR])); }
        if regs[PC] <= u64::MAX - 4 && after[PC] != regs[PC] + 4 { ctx.oracle_fail(&fp("pc-not-advanced"), &req, &format!("$pc = {}", after[PC])); }
        let mut skip = vec![OF, ERR, PC, GGAS, CGAS]; if let Some((i, _)) = e.dest_reg { skip.push(i); }
        if let Some(i) = (0..NREG).find(|i| !skip.contains(i) && regs[*i] != after[*i]) { ctx.oracle_fail(&fp("register-frame"), &req, &format!("register {i} changed")); }
        match &e.write {
            Some((addr, bytes)) => {
                if &after_lay.get(*addr, bytes.len() as u64) != bytes { ctx.oracle_fail(&fp("wrong-memory-result"), &req, &format!("dest = {}", hex(&after_lay.get(*addr, bytes.len() as u64)))); }
                if changed.iter().any(|x| *x < *addr || *x >= addr + bytes.len() as u64) { ctx.oracle_fail(&fp("memory-frame"), &req, "bytes outside the destination changed"); }
            }
            None => if !changed.is_empty() { ctx.oracle_fail(&fp("memory-frame"), &req, "compare wrote memory"); }
        }
    } else {
        if !changed.is_empty() { ctx.oracle_fail(&fp("panic-wrote-memory"), &req, "memory changed although the instruction panicked"); }
        // registers other than $of/$err (set before the failing write) and gas must be intact
        if let Some(i) = (0..NREG).find(|i| ![OF, ERR, GGAS, CGAS].contains(i) && regs[*i] != after[*i]) { ctx.oracle_fail(&fp("panic-changed-register"), &req, &format!("register {i} changed")); }
        if (after[OF] != regs[OF] || after[ERR] != regs[ERR]) && !["MemoryOwnership", "MemoryOverflow", "UninitalizedMemoryAccess"].contains(&st.as_str()) { ctx.oracle_fail(&fp("panic-changed-of-err"), &req, "flags registers changed"); }
        if after[OF] != regs[OF] || after[ERR] != regs[ERR] { ctx.count("panic-after-of-err-update"); }
    }
    let mut key = cs.raw.to_be_bytes().to_vec(); key.extend_from_slice(&lay.stack); key.extend_from_slice(&lay.heap); key.push(regs[FLAG] as u8);
    if let Some(p) = cs.prev {
        key.extend_from_slice(&p.to_be_bytes());
        // destination class relative to the caller's heap: the discriminating cases of `prev_hp`
        if &cs.name[2..] != "CM" {
            let n: u64 = if cs.name.as_bytes()[1] == b'D' { 16 } else { 32 };
            let d = regs[cs.args[0] as usize];
            if d >= regs[HP] && d.saturating_add(n) <= VM_MAX_RAM { ctx.count(if d + n <= p { "in-call.dest-own-heap" } else if d >= p { "in-call.dest-caller-heap" } else { "in-call.dest-straddles-prev-hp" }); }
        }
    }
    ctx.distinct(&key);
    ctx.emit(&req, &format!("{st}{}{}", fmt_diff(&regs, &after), memdiff));
    true
}

/// operands placed in memory; registers point to them (or hold direct values); dest chosen among owned / unowned / unreadable places
fn gen_case(ctx: &mut Ctx, name: &'static str, imm_force: Option<u32>) -> Case {
    let r = row(name);
    let n: usize = if name.as_bytes()[1] == b'D' { 16 } else { 32 };
    let stack_len = 4 * n + 64 + 8 * ctx.rng.below(8) as usize;
    let heap_len = match ctx.rng.below(4) { 0 => 0, _ => 2 * n + 8 * ctx.rng.below(6) as usize };
    let hp = VM_MAX_RAM - heap_len as u64;
    let mut lay = Lay { stack: vec![0; stack_len], heap: vec![0; heap_len], hp };
    if ctx.rng.chance(1, 3) { for b in lay.stack.iter_mut() { *b = ctx.rng.next() as u8; } for b in lay.heap.iter_mut() { *b = ctx.rng.next() as u8; } }
    let mut regs = base_regs();
    regs[FLAG] = ctx.rng.below(4); regs[PC] = 4 * ctx.rng.below(64); regs[OF] = ctx.rng.below(3); regs[ERR] = ctx.rng.below(2);
    // writable stack window [ssp, sp) in the upper part of the stack
    let ssp = (stack_len - 2 * n - 8 * ctx.rng.below(4) as usize) as u64;
    regs[SSP] = ssp; regs[SP] = match ctx.rng.below(14) { 0 => ssp + n as u64 - 1, 1 => ssp, _ => stack_len as u64 }; regs[HP] = hp;
    // an address for an operand: mostly readable places
    let addr = |ctx: &mut Ctx, lay: &Lay| -> u64 {
        match ctx.rng.below(48) {
            0 => lay.stack.len() as u64 - n as u64 + 1 + ctx.rng.below(n as u64),   // straddles the end of the stack
            1 => lay.stack.len() as u64 + ctx.rng.below(64),                          // unallocated gap
            2 => VM_MAX_RAM - ctx.rng.below(n as u64),                                // runs past the end of memory
            3 => *ctx.rng.pick(&[VM_MAX_RAM, VM_MAX_RAM + 1, u64::MAX, u64::MAX - 31, 1 << 32, 1 << 63]),
            4..=12 if lay.heap.len() >= n => lay.hp + ctx.rng.below((lay.heap.len() - n) as u64 + 1),
            13 if lay.heap.len() >= n => lay.hp - 1 - ctx.rng.below(n as u64),      // straddles into the heap from the gap
            _ => ctx.rng.below((lay.stack.len() - n) as u64 + 1),
        }
    };
    let put = |lay: &mut Lay, a: u64, v: &[u8]| { for (i, b) in v.iter().enumerate() { let x = a.saturating_add(i as u64); if x < lay.stack.len() as u64 { lay.stack[x as usize] = *b; } else if x >= lay.hp && x < VM_MAX_RAM { lay.heap[(x - lay.hp) as usize] = *b; } } };
    let shape = r.2;
    let four_regs = shape.iter().all(|k| *k == 0);
    let imm = imm_force.unwrap_or_else(|| match ctx.rng.below(6) { 0 => ctx.rng.below(64) as u32, _ => {
        let k = &name[2..];
        let ind = (ctx.rng.below(4) != 0) as u32;
        match k { "CM" => ctx.rng.below(7) as u32 | ind << 5, "OP" => ctx.rng.below(8) as u32 | ind << 5, "ML" => (ctx.rng.below(2) as u32) << 4 | ind << 5, _ => ind << 5 }
    } });
    // operand registers 17, 18, 19 (b, c, d); 16 = a
    let mut vals: Vec<Vec<u8>> = vec![];
    for k in 0..3usize {
        let v = wide_val(ctx, n);
        // related operands: equal, off by one, divisor/modulus zero
        let v = if k > 0 && ctx.rng.chance(1, 6) { vals[0].clone() } else if k == 2 && ctx.rng.chance(1, 6) { vec![0; n] } else { v };
        let a = addr(ctx, &lay);
        put(&mut lay, a, &v);
        regs[17 + k] = a;
        vals.push(v);
    }
    // direct (register) operands: the register holds the value itself
    let kind = &name[2..];
    let direct_rhs = !four_regs && (imm >> 5) & 1 == 0;
    let direct_lhs = kind == "ML" && (imm >> 4) & 1 == 0;
    if direct_rhs { regs[18] = match ctx.rng.below(5) { 0 => ctx.rng.below(300), _ => ctx.rng.word() }; }
    if direct_lhs { regs[17] = ctx.rng.word(); }
    if (kind == "OP") && (imm & 31 == 6 || imm & 31 == 7) && ctx.rng.chance(3, 4) {
        // shift amounts around the width
        let s = *ctx.rng.pick(&[0u64, 1, 7, 8, 63, 64, 65, 127, 128, 129, 255, 256, 257, (1 << 32) - 1, 1 << 32, (1 << 32) + 1]);
        if direct_rhs { regs[18] = s; } else { let mut v = vec![0u8; n]; v[n - 8..].copy_from_slice(&s.to_be_bytes()); if ctx.rng.chance(1, 8) { v[0] = 1; } let a = regs[18]; put(&mut lay, a, &v); }
    }
    // destination
    let (ra, dst_reg_val): (u32, u64) = if kind == "CM" {
        (match ctx.rng.below(10) { 0 => ctx.rng.below(16) as u32, _ => 16 + ctx.rng.below(48) as u32 }, 0)
    } else {
        let d = match ctx.rng.below(12) {
            0 => ssp.saturating_sub(1 + ctx.rng.below(n as u64)),                   // below / straddling $ssp: not owned
            1 => regs[SP].saturating_sub(ctx.rng.below(n as u64)),                  // straddling $sp
            2 => addr(ctx, &lay),
            3 | 4 if heap_len >= n => hp + ctx.rng.below((heap_len - n) as u64 + 1),
            5 => regs[17], 6 => regs[18],                                            // aliasing an operand
            _ => ssp + ctx.rng.below(((stack_len as u64 - ssp).saturating_sub(n as u64)) + 1),
        };
        (16, d)
    };
    let mut args: Vec<u32> = vec![ra, 17, 18];
    if four_regs { args.push(19); } else { args.push(imm); }
    if kind == "CM" {
        // the compare destination register may alias an operand register
        if ra >= 16 && ra != 17 && ra != 18 { regs[ra as usize] = ctx.rng.word(); }
    } else { regs[16] = dst_reg_val; }
    let raw = encode(r.0, shape, &args);
    // decoded immediate as carried
    let args: Vec<u32> = if four_regs { args } else { vec![args[0], args[1], args[2], imm & 63] };
    Case { name, raw, args, regs, lay, prev: None }
}

fn ctx_seed(i: u64) -> u64 { 0xC22 + i }

pub fn run(ctx: &mut Ctx) {
    if std::env::var("FV_DEBUG").is_ok() { std::panic::set_hook(Box::new(|i| eprintln!("panic: {i}"))); }
    let mut vm = new_vm();
    // 1. all 14 opcodes x all 64 immediates (the 6 with an immediate) x operand pool
    for &name in WIDE {
        let has_imm = row(name).2.last() == Some(&6);
        if has_imm {
            for imm in 0u32..64 { for _ in 0..ctx.n(12, 300) { let cs = gen_case(ctx, name, Some(imm)); run_case(ctx, &mut vm, &cs); } }
        }
        for _ in 0..ctx.n(700, 15_000) { let cs = gen_case(ctx, name, None); run_case(ctx, &mut vm, &cs); }
    }
    // 3. inside a real CALL: `prev_hp` is the `$hp` the caller had when it called (saved in the call frame), so the part of the
    //    heap above it belongs to the caller. The VM is stopped in the callee (`c24::vm_in_call`); memory and registers are then
    //    laid out as in part 1 (the interpreter's `frames` stay).
    for (i, h) in [8u64, 40, 64].iter().enumerate() {
        let saved = VM_MAX_RAM - h;
        let mut cvm = match ctx.guard(|| crate::streams::c24::vm_in_call(ctx_seed(i as u64), *h)) { Ok(v) => v, Err(m) => { ctx.oracle_fail("panic-call-setup", "vm_in_call", &m); continue; } };
        if crate::streams::c24::prev_hp_of(&cvm) != saved { ctx.oracle_fail("saved-hp-in-frame", &format!("call after ALOC {h}"), "unexpected saved $hp"); continue; }
        for &name in WIDE {
            for _ in 0..ctx.n(60, 1500) {
                let mut cs = gen_case(ctx, name, None);
                cs.prev = Some(saved);
                if !run_case(ctx, &mut cvm, &cs) { cvm = crate::streams::c24::vm_in_call(ctx_seed(i as u64), *h); }
            }
        }
    }
    // 2. malformed: reserved bits in the 4-register forms cannot exist (all 24 bits used); undefined neighbours of the W* block
    for op in [0x9fu32, 0xae, 0xaf] {
        let mut regs = base_regs(); regs[PC] = 8;
        let raw = op << 24 | (ctx.rng.next() as u32 & 0xFFFFFF);
        let lay = Lay { stack: vec![0; 64], heap: vec![], hp: VM_MAX_RAM };
        let cs = Case { name: "WDCM", raw, args: vec![], regs, lay, prev: None };
        // executed only for the correspondence (no reference semantics for undefined opcodes)
        let req = format!("w {} {} {} {} {} {}", cs.raw, 64, VM_MAX_RAM, hex(&cs.lay.stack), "-", fmt_regs(&cs.regs));
        vm.memory_mut().reset(); let _ = vm.memory_mut().grow_stack(64);
        if let Ok((st, after)) = ctx.guard(|| step(&mut vm, &regs, raw)) { ctx.count("malformed"); ctx.emit(&req, &format!("{st}{}", fmt_diff(&regs, &after))); }
    }
}
