//! C11 — binary Merkle trees behave like fresh trees across reset and reload.
//! Histories of push / reset / load(storage, k) / root / prove / leaves_count on the REAL
//! `binary::in_memory::MerkleTree` (`M` lines) and storage-backed `binary::MerkleTree` (`T` lines).
//! Oracle (independent of the Lean model): after every observation the answer must equal that of a
//! freshly built tree holding exactly the leaves pushed since the last reset (or the first k leaves
//! after `load k`), and the RFC 6962 root / audit path of those leaves (`gen::bmt_ref`); proofs must be
//! refused for indices ≥ the current number of leaves.
use crate::{ctx::Ctx, gen::{bmt_ref as r, bmt_shared::Shared}, util::hex};
use fuel_merkle::binary::{self, in_memory::{self, NodesTable}, MerkleTreeError};

type STree = binary::MerkleTree<NodesTable, Shared>;

#[derive(Clone, Debug)]
enum Op { Push(Vec<u8>), Reset, Load(u64), Root, Prove(u64), Count }

struct Case {
    mem: in_memory::MerkleTree,
    st: STree,
    shared: Shared,
    cur_mem: Vec<Vec<u8>>,
    cur_st: Vec<Vec<u8>>,
    had_reset: bool,
    had_load: bool,
    t_off: bool,
    history: Vec<String>,
}

fn err_name<E>(e: &MerkleTreeError<E>) -> &'static str {
    match e {
        MerkleTreeError::InvalidProofIndex(_) => "InvalidProofIndex",
        MerkleTreeError::LoadError(_) => "LoadError",
        MerkleTreeError::StorageError(_) => "StorageError",
        MerkleTreeError::TooLarge => "TooLarge",
    }
}

fn fmt_proof(tag: &str, root: &[u8; 32], p: &[[u8; 32]]) -> String {
    let mut s = format!("{tag} {}", hex(root));
    for x in p { s.push(' '); s.push_str(&hex(x)); }
    s
}

impl Case {
    fn new(ctx: &mut Ctx) -> Self {
        ctx.emit("new", "ok");
        let shared = Shared::new();
        Case { mem: in_memory::MerkleTree::new(), st: STree::new(shared.clone()), shared, cur_mem: vec![], cur_st: vec![],
               had_reset: false, had_load: false, t_off: false, history: vec![] }
    }
    fn suffix(&self) -> &'static str { if self.had_reset { "-after-reset" } else if self.had_load { "-after-load" } else { "" } }
    fn fail(&self, ctx: &mut Ctx, what: &str, detail: &str) {
        let fp = format!("{what}{}", self.suffix());
        ctx.oracle_fail(&fp, &self.history.join("; "), detail);
    }
    /// expected (root, proof) of a fresh tree over `cur` — by the RFC reference and by a really fresh tree
    fn expect_proof(&self, ctx: &mut Ctx, cur: &[Vec<u8>], i: u64) -> Option<([u8; 32], Vec<[u8; 32]>)> {
        if i >= cur.len() as u64 { return None; }
        let hs: Vec<[u8; 32]> = cur.iter().map(|d| r::leaf_hash(d)).collect();
        let want = (r::mth_hashes(&hs), r::audit_path(i as usize, &hs));
        let mut fresh = in_memory::MerkleTree::new();
        for d in cur { fresh.push(d); }
        match fresh.prove(i) {
            Some((fr, fp)) if fr == want.0 && fp == want.1 => {}
            other => self.fail(ctx, "fresh-tree-proof-differs-from-rfc6962", &format!("i={i} n={} fresh={:?}", cur.len(), other.map(|x| x.1.len()))),
        }
        Some(want)
    }
    fn apply(&mut self, ctx: &mut Ctx, op: &Op) {
        match op {
            Op::Push(d) => {
                self.history.push(format!("push {}", hex(d)));
                let m = &mut self.mem; let s = &mut self.st;
                let res = ctx.guard(|| { m.push(d); s.push(d) });
                ctx.emit(&format!("M push {}", hex(d)), "ok");
                self.cur_mem.push(d.clone());
                match res {
                    Ok(Ok(())) => { ctx.emit(&format!("T push {}", hex(d)), "ok"); self.cur_st.push(d.clone()); }
                    Ok(Err(e)) => { ctx.emit(&format!("T push {}", hex(d)), &format!("err:{}", err_name(&e))); self.fail(ctx, "push-error", err_name(&e)); }
                    Err(p) => { ctx.emit(&format!("T push {}", hex(d)), "panic"); self.fail(ctx, "panic-push", &p); }
                }
                ctx.count("op-push");
            }
            Op::Reset => {
                self.history.push("reset".into());
                self.mem.reset(); self.st.reset();
                self.cur_mem.clear(); self.cur_st.clear();
                self.had_reset = true;
                ctx.emit("M reset", "ok"); ctx.emit("T reset", "ok");
                ctx.count("op-reset");
            }
            Op::Load(k) => {
                self.history.push(format!("load {k}"));
                let within = *k <= self.cur_st.len() as u64;
                let sh = self.shared.clone();
                let res = ctx.guard(|| STree::load(sh, *k));
                match res {
                    Ok(Ok(t)) => {
                        self.st = t;
                        ctx.emit(&format!("T load {k}"), "ok");
                        if within { self.cur_st.truncate(*k as usize); self.had_load = true; }
                        else { ctx.count("op-load-beyond-count-ok"); self.cur_st.clear(); self.history.push("(load beyond the recorded count: oracle off for T)".into()); self.cur_st_off(); }
                    }
                    Ok(Err(e)) => {
                        ctx.emit(&format!("T load {k}"), &format!("err:{}", err_name(&e)));
                        if within { self.fail(ctx, "load-refused-within-count", &format!("k={k} n={} {}", self.cur_st.len(), err_name(&e))); }
                        else { ctx.count("op-load-beyond-count-err"); }
                    }
                    Err(p) => { ctx.emit(&format!("T load {k}"), "panic"); self.fail(ctx, "panic-load", &p); }
                }
                ctx.count("op-load");
            }
            Op::Root => {
                self.history.push("root".into());
                let (m, s) = (self.mem.root(), self.st.root());
                ctx.emit("M root", &hex(&m)); ctx.emit("T root", &hex(&s));
                if m != r::mth(&self.cur_mem) { self.fail(ctx, "root-differs-from-fresh-tree-inmem", &format!("n={}", self.cur_mem.len())); }
                if !self.t_off && s != r::mth(&self.cur_st) { self.fail(ctx, "root-differs-from-fresh-tree", &format!("n={}", self.cur_st.len())); }
                ctx.count("op-root");
            }
            Op::Count => {
                self.history.push("count".into());
                let c = self.st.leaves_count();
                ctx.emit("T count", &c.to_string());
                if !self.t_off && c != self.cur_st.len() as u64 { self.fail(ctx, "leaves-count-differs-from-fresh-tree", &format!("leaves_count()={c} leaves since reset/load={}", self.cur_st.len())); }
                ctx.count("op-count");
            }
            Op::Prove(i) => {
                self.history.push(format!("prove {i}"));
                let m = &self.mem; let s = &self.st;
                let res = ctx.guard(|| (m.prove(*i), s.prove(*i)));
                match res {
                    Err(p) => { ctx.emit(&format!("M prove {i}"), "panic"); ctx.emit(&format!("T prove {i}"), "panic"); self.fail(ctx, "panic-prove", &p); }
                    Ok((pm, ps)) => {
                        ctx.emit(&format!("M prove {i}"), &match &pm { Some((rt, p)) => fmt_proof("some", rt, p), None => "none".into() });
                        ctx.emit(&format!("T prove {i}"), &match &ps { Ok((rt, p)) => fmt_proof("ok", rt, p), Err(e) => format!("err:{}", err_name(e)) });
                        let cm = self.cur_mem.clone();
                        let want_m = self.expect_proof(ctx, &cm, *i);
                        match (&pm, &want_m) {
                            (None, None) => ctx.count("prove-refused-oob"),
                            (Some(_), None) => self.fail(ctx, "prove-accepts-index-beyond-count-inmem", &format!("i={i} n={}", cm.len())),
                            (None, Some(_)) => self.fail(ctx, "prove-refused-in-range-inmem", &format!("i={i} n={}", cm.len())),
                            (Some(a), Some(b)) => { if a != b { self.fail(ctx, "proof-differs-from-fresh-tree-inmem", &format!("i={i} n={}", cm.len())); } ctx.count("prove-ok"); ctx.distinct(&[&a.0[..], &i.to_be_bytes()].concat()); }
                        }
                        if !self.t_off {
                            let cs = self.cur_st.clone();
                            let want_s = self.expect_proof(ctx, &cs, *i);
                            match (&ps, &want_s) {
                                (Err(MerkleTreeError::InvalidProofIndex(_)), None) => {}
                                (Err(e), None) => self.fail(ctx, "prove-oob-wrong-error", &format!("i={i} n={} {}", cs.len(), err_name(e))),
                                (Ok(_), None) => self.fail(ctx, "prove-accepts-index-beyond-count", &format!("i={i} n={}", cs.len())),
                                (Err(e), Some(_)) => self.fail(ctx, "prove-refused-in-range", &format!("i={i} n={} {}", cs.len(), err_name(e))),
                                (Ok(a), Some(b)) => if a != b { self.fail(ctx, "proof-differs-from-fresh-tree", &format!("i={i} n={}", cs.len())); },
                            }
                        }
                    }
                }
                ctx.count("op-prove");
            }
        }
    }
}

// `t_off`: after a load beyond the recorded count the property says nothing about T; only the model comparison remains
impl Case { fn cur_st_off(&mut self) { self.t_off = true; } }

fn run_case(ctx: &mut Ctx, ops: &[Op]) {
    let mut c = Case::new(ctx);
    for op in ops { c.apply(ctx, op); }
    // closing observations: root, count, every proof index up to count+2 (refusal beyond the count)
    c.apply(ctx, &Op::Root);
    c.apply(ctx, &Op::Count);
    let n = c.cur_mem.len().max(c.cur_st.len()) as u64;
    let idx: Vec<u64> = if n <= 12 { (0..n + 3).collect() } else { vec![0, 1, n / 2, n - 2, n - 1, n, n + 1] };
    for i in idx { c.apply(ctx, &Op::Prove(i)); }
}

fn leaf(ctx: &mut Ctx) -> Vec<u8> {
    let len = *ctx.rng.pick(&[0usize, 1, 2, 8, 32, 33]);
    ctx.rng.bytes(len)
}

fn pushes(ctx: &mut Ctx, n: usize) -> Vec<Op> { (0..n).map(|_| Op::Push(leaf(ctx))).collect() }

pub fn run(ctx: &mut Ctx) {
    // ---- regression corpus (boundary cases; F4 witness first) ----
    // F4: push x3, reset, push x1: proofs must be those of a 1-leaf tree
    { let mut o = pushes(ctx, 3); o.push(Op::Reset); o.extend(pushes(ctx, 1)); o.extend([Op::Count, Op::Prove(0), Op::Prove(3), Op::Prove(1)]); run_case(ctx, &o); }
    run_case(ctx, &[Op::Reset]);
    run_case(ctx, &[Op::Reset, Op::Reset, Op::Root, Op::Prove(0)]);
    run_case(ctx, &[Op::Load(0), Op::Root, Op::Count]);
    { let mut o = pushes(ctx, 1); o.push(Op::Reset); o.extend([Op::Count, Op::Root, Op::Prove(0)]); run_case(ctx, &o); }
    { let mut o = pushes(ctx, 4); o.push(Op::Reset); o.extend(pushes(ctx, 4)); o.push(Op::Reset); o.extend(pushes(ctx, 5)); run_case(ctx, &o); }
    // reload at every recorded count, then keep pushing
    for n in 0..=9usize {
        for k in 0..=n {
            let mut o = pushes(ctx, n); o.push(Op::Load(k as u64)); o.extend([Op::Root, Op::Count]);
            for i in 0..=(k as u64) { o.push(Op::Prove(i)); }
            o.extend(pushes(ctx, 1 + (n + k) % 3));
            run_case(ctx, &o);
        }
    }
    // reset after every count up to 9, then push a different number
    for n in 0..=9usize { for m in [0usize, 1, 2, 3, 5, 8] { let mut o = pushes(ctx, n); o.push(Op::Reset); o.extend(pushes(ctx, m)); run_case(ctx, &o); } }
    // ---- random interleavings ----
    let cases = ctx.n(250, 3000);
    for _ in 0..cases {
        let maxlen = *ctx.rng.pick(&[10u64, 30, 60, 150]);
        let len = ctx.rng.range(1, maxlen);
        let reset_w = *ctx.rng.pick(&[0u64, 2, 5, 10]);
        let load_w = *ctx.rng.pick(&[0u64, 3, 8]);
        let mut ops = vec![];
        let mut n = 0u64; // leaves currently in T (tracked to aim the indices)
        for _ in 0..len {
            let x = ctx.rng.below(100);
            if x < reset_w { ops.push(Op::Reset); n = 0; }
            else if x < reset_w + load_w { let k = if n == 0 { 0 } else { let w = ctx.rng.word(); if ctx.rng.chance(1, 3) { n } else { w % (n + 1) } }; ops.push(Op::Load(k)); n = k; }
            else if x < reset_w + load_w + 12 { let i = if ctx.rng.chance(1, 4) { n + ctx.rng.below(3) } else if n == 0 { 0 } else { ctx.rng.below(n) }; ops.push(Op::Prove(i)); }
            else if x < reset_w + load_w + 17 { ops.push(Op::Root); }
            else if x < reset_w + load_w + 20 { ops.push(Op::Count); }
            else { ops.push(Op::Push(leaf(ctx))); n += 1; }
        }
        run_case(ctx, &ops);
    }
    // ---- separate malformed class: reload beyond the recorded count (oracle: no panic; model comparison only) ----
    for _ in 0..ctx.n(30, 300) {
        let n = ctx.rng.range(0, 20) as usize;
        let mut o = pushes(ctx, n);
        let k = n as u64 + 1 + ctx.rng.below(6);
        o.push(Op::Load(k));
        o.extend([Op::Root, Op::Count, Op::Prove(0)]);
        run_case(ctx, &o);
    }
}
