//! C13 — sparse Merkle state persists completely in its node storage.
//! Crash-point enumeration: for every history and EVERY position p, the prefix is run, the in-memory tree
//! is dropped and `MerkleTree::load`ed from the node storage (`StorageMap`) at the current root, proofs are
//! taken, the suffix is run, proofs are taken again — compared with the never-reloaded run (ORACLE), the
//! reference compact root (ORACLE) and the Lean storage-level model (correspondence). Also: load from
//! `nodes_from_set`, load at the empty root over a non-empty storage, load at a missing root, and trees
//! whose storage lost a node (an `Ok` answer must never differ from the reference).
use crate::{ctx::Ctx, gen::smt::*, util::hex};
use fuel_merkle::{
    common::StorageMap,
    sparse::{self, in_memory, proof::Proof, MerkleTreeError, Primitive},
    storage::{StorageInspect, StorageMutate},
};
use std::{borrow::Cow, cell::RefCell, collections::BTreeMap, rc::Rc};
use super::c12::{err_name, Op};

/// storage shared with the harness so that nodes can be dropped behind the tree's back
#[derive(Clone, Default)]
pub struct Shared(pub Rc<RefCell<BTreeMap<B32, Primitive>>>);
impl StorageInspect<NodesTable> for Shared {
    type Error = core::convert::Infallible;
    fn get(&self, key: &B32) -> Result<Option<Cow<'_, Primitive>>, Self::Error> { Ok(self.0.borrow().get(key).map(|p| Cow::Owned(*p))) }
    fn contains_key(&self, key: &B32) -> Result<bool, Self::Error> { Ok(self.0.borrow().contains_key(key)) }
}
impl StorageMutate<NodesTable> for Shared {
    fn replace(&mut self, key: &B32, value: &Primitive) -> Result<Option<Primitive>, Self::Error> { Ok(self.0.borrow_mut().insert(*key, *value)) }
    fn take(&mut self, key: &B32) -> Result<Option<Primitive>, Self::Error> { Ok(self.0.borrow_mut().remove(key)) }
}
pub trait Stor: StorageMutate<NodesTable, Error = core::convert::Infallible> + Clone + Default { fn count(&self) -> usize; }
impl Stor for StorageMap<NodesTable> { fn count(&self) -> usize { self.len() } }
impl Stor for Shared { fn count(&self) -> usize { self.0.borrow().len() } }
impl Stor for ObsStore { fn count(&self) -> usize { self.map.len() } }

type T<S> = sparse::MerkleTree<NodesTable, S>;

fn fmt_proof(p: &Proof) -> String { super::c14::fmt_proof_pub(p) }

struct Sc<S: Stor> { t: T<S>, map: BTreeMap<B32, Vec<u8>>, trace: Vec<String>, strict: bool }

impl<S: Stor> Sc<S> {
    fn new(ctx: &mut Ctx) -> Self { ctx.emit("new", "ok"); Sc { t: T::new(S::default()), map: BTreeMap::new(), trace: vec!["new".into()], strict: true } }
    fn input(&self) -> String { self.trace.join(" ; ") }
    /// one op; `strict`: an error is an oracle failure (intact storage); otherwise only a wrong `Ok` is
    fn op(&mut self, ctx: &mut Ctx, op: &Op) -> Option<B32> {
        let line = match op { Op::Ins(k, v) => format!("ins {} {}", hex(k), hex(v)), Op::Del(k) => format!("del {}", hex(k)) };
        self.trace.push(line.clone());
        let res = { let t = &mut self.t; ctx.guard(|| match op { Op::Ins(k, v) => t.insert(tkey(k), v), Op::Del(k) => t.delete(tkey(k)) }) };
        let mut ok = false;
        let res_s = match &res {
            Ok(Ok(())) => { ok = true; "ok".to_string() }
            Ok(Err(e)) => { if self.strict { ctx.oracle_fail("op-returned-error", &self.input(), err_name(e)); } ctx.count(&format!("op.err.{}", err_name(e))); err_name(e).to_string() }
            Err(p) => { ctx.oracle_fail("panic-op", &self.input(), p); "panic".into() }
        };
        if ok {
            match op { Op::Ins(k, v) => { self.map.insert(*k, v.clone()); } Op::Del(k) => { self.map.remove(k); } }
            let want = ref_root(&self.map);
            if self.t.root() != want {
                ctx.oracle_fail(if self.strict { "root-differs-from-compact-root-after-reload" } else { "wrong-root-with-missing-node" }, &self.input(), &format!("root {} expected {}", hex(&self.t.root()), hex(&want)));
            }
        }
        ctx.emit(&line, &format!("{res_s} {} {}", hex(&self.t.root()), self.t.storage().count()));
        if ok { Some(self.t.root()) } else { None }
    }
    fn prove(&mut self, ctx: &mut Ctx, q: &B32) -> Option<Proof> {
        let line = format!("prove {}", hex(q));
        let got = { let t = &self.t; ctx.guard(|| t.generate_proof(&tkey(q))) };
        match got {
            Ok(Ok(p)) => {
                // an Ok proof must be the reference walk of the reference map
                let (sides, _) = ref_path(&self.map, q);
                if *p.proof_set() != sides || p.is_inclusion() != self.map.contains_key(q) {
                    ctx.oracle_fail(if self.strict { "proof-after-reload-differs-from-compact-tree-walk" } else { "wrong-proof-with-missing-node" }, &format!("{} ; {line}", self.input()), &fmt_proof(&p));
                }
                ctx.emit(&line, &fmt_proof(&p)); Some(p)
            }
            Ok(Err(e)) => { if self.strict { ctx.oracle_fail("generate_proof-returned-error", &format!("{} ; {line}", self.input()), err_name(&e)); } ctx.count(&format!("prove.err.{}", err_name(&e))); ctx.emit(&line, err_name(&e)); None }
            Err(p) => { ctx.oracle_fail("panic-generate_proof", &format!("{} ; {line}", self.input()), &p); ctx.emit(&line, "panic"); None }
        }
    }
    /// drop the in-memory tree and load it from the storage at `root` (None = the current root)
    fn load(&mut self, ctx: &mut Ctx, root: Option<B32>) -> Result<(), String> {
        let line = match root { None => "reload".to_string(), Some(r) => format!("loadat {}", hex(&r)) };
        self.trace.push(line.clone());
        let r = root.unwrap_or(self.t.root());
        let st = self.t.storage().clone();
        let got = ctx.guard(|| T::load(st, &r));
        match got {
            Ok(Ok(t)) => { self.t = t; ctx.emit(&line, &format!("ok {} {}", hex(&self.t.root()), self.t.storage().count())); Ok(()) }
            Ok(Err(e)) => { ctx.count(&format!("load.err.{}", err_name(&e))); ctx.emit(&line, err_name(&e)); Err(err_name(&e).to_string()) }
            Err(p) => { ctx.oracle_fail("panic-load", &self.input(), &p); ctx.emit(&line, "panic"); Err("panic".into()) }
        }
    }
}

fn gen_history(ctx: &mut Ctx, pool: &[B32], n: usize) -> Vec<Op> {
    let mut present: Vec<B32> = vec![];
    (0..n).map(|_| {
        if present.is_empty() || ctx.rng.chance(6, 10) { let k = *ctx.rng.pick(pool); if !present.contains(&k) { present.push(k); } Op::Ins(k, value(&mut ctx.rng)) }
        else if ctx.rng.chance(3, 4) { let i = ctx.rng.below(present.len() as u64) as usize; Op::Del(present.swap_remove(i)) }
        else { Op::Del(*ctx.rng.pick(pool)) }
    }).collect()
}

/// A. reload at every position of the history
fn crash_points(ctx: &mut Ctx, pool: &[B32], ops: &[Op]) {
    // the never-reloaded run: roots after each op and final proofs
    let mut a = T::<StorageMap<NodesTable>>::new(StorageMap::new());
    let mut roots = vec![];
    for op in ops { let _ = match op { Op::Ins(k, v) => a.insert(tkey(k), v), Op::Del(k) => a.delete(tkey(k)) }; roots.push(a.root()); }
    let mut qs: Vec<B32> = pool.iter().take(5).copied().collect();
    qs.push(ctx.rng.arr32());
    let final_proofs: Vec<Option<Proof>> = qs.iter().map(|q| a.generate_proof(&tkey(q)).ok()).collect();
    for p in 0..=ops.len() {
        let mut s = Sc::<StorageMap<NodesTable>>::new(ctx);
        // never-reloaded twin advanced to p for the proofs at the crash point
        let mut twin = T::<StorageMap<NodesTable>>::new(StorageMap::new());
        for op in &ops[..p] { s.op(ctx, op); let _ = match op { Op::Ins(k, v) => twin.insert(tkey(k), v), Op::Del(k) => twin.delete(tkey(k)) }; }
        let before = s.t.root();
        match s.load(ctx, None) {
            Ok(()) => {
                if s.t.root() != before { ctx.oracle_fail("reload-changed-root", &s.input(), &format!("{} -> {}", hex(&before), hex(&s.t.root()))); }
                if s.t.root() == ZERO { ctx.count("reload.at-empty-root"); } else { ctx.count("reload.at-nonempty-root"); }
            }
            Err(e) => ctx.oracle_fail("reload-at-current-root-failed", &s.input(), &e),
        }
        for q in &qs {
            let got = s.prove(ctx, q);
            let want = twin.generate_proof(&tkey(q)).ok();
            if got != want { ctx.oracle_fail("proof-after-reload-differs-from-original", &format!("{} ; prove {}", s.input(), hex(q)), "reloaded tree vs never-reloaded tree"); }
        }
        for (i, op) in ops[p..].iter().enumerate() {
            let r = s.op(ctx, op);
            if r != Some(roots[p + i]) { ctx.oracle_fail("root-after-reload-differs-from-original", &s.input(), &format!("expected {}", hex(&roots[p + i]))); }
        }
        for (q, want) in qs.iter().zip(final_proofs.iter()) {
            let got = s.prove(ctx, q);
            if got != *want { ctx.oracle_fail("final-proof-after-reload-differs-from-original", &format!("{} ; prove {}", s.input(), hex(q)), "reloaded tree vs never-reloaded tree"); }
        }
        ctx.distinct(&[&before[..], &(p as u32).to_be_bytes()[..], &(ops.len() as u32).to_be_bytes()[..]].concat());
        ctx.count("crash-point");
    }
}

/// B. load from the nodes returned by nodes_from_set, then continue
fn from_nodes(ctx: &mut Ctx, pool: &[B32]) {
    let n = ctx.rng.below(pool.len() as u64 + 1) as usize;
    let set: Vec<(B32, Vec<u8>)> = pool.iter().take(n).map(|k| (*k, value(&mut ctx.rng))).collect();
    let line = format!("fromnodes {}", pairs_arg(&set));
    let (root, nodes) = in_memory::MerkleTree::nodes_from_set(set.iter().map(|(k, v)| (tkey(k), v.clone())));
    let mut st = StorageMap::<NodesTable>::new();
    for (k, p) in &nodes { let _ = st.insert(k, p); }
    let mut map = BTreeMap::new(); for (k, v) in &set { map.insert(*k, v.clone()); }
    match T::load(st, &root) {
        Ok(t) => {
            ctx.emit(&line, &format!("ok {} {}", hex(&t.root()), t.storage().count()));
            let mut s = Sc { t, map, trace: vec![line.clone()], strict: true };
            if s.t.root() != ref_root(&s.map) { ctx.oracle_fail("nodes_from_set-load-root-differs", &line, "root of loaded tree != compact root"); }
            for q in pool.iter().take(4) { s.prove(ctx, q); }
            let ops = gen_history(ctx, pool, 4);
            for op in &ops { s.op(ctx, op); }
            for q in pool.iter().take(4) { s.prove(ctx, q); }
            ctx.count(if n == 0 { "fromnodes.empty" } else if n == 1 { "fromnodes.single" } else { "fromnodes.many" });
        }
        Err(e) => { ctx.oracle_fail("nodes_from_set-load-failed", &line, err_name(&e)); ctx.emit(&line, err_name(&e)); }
    }
}

/// C/D. load at the empty root over a non-empty storage; load at missing roots
fn special_roots(ctx: &mut Ctx, pool: &[B32], ops: &[Op]) {
    let mut s = Sc::<StorageMap<NodesTable>>::new(ctx);
    for op in ops { s.op(ctx, op); }
    // D: roots that are not stored: random, the root with one bit flipped, a value hash, the key of a leaf
    let mut bad = vec![ctx.rng.arr32(), { let mut r = s.t.root(); r[0] ^= 0x80; r }, sha(&[b"DATA"])];
    if let Some(k) = s.map.keys().next() { bad.push(*k); }
    for r in bad {
        if r == ZERO { continue; }
        let before = s.t.root();
        match s.load(ctx, Some(r)) {
            Err(e) if e == "LoadError" => ctx.count("loadat.missing-root.LoadError"),
            Err(e) => ctx.oracle_fail("load-at-missing-root-wrong-error", &s.input(), &e),
            Ok(()) => { ctx.oracle_fail("load-at-missing-root-succeeded", &s.input(), &hex(&s.t.root())); }
        }
        if s.t.root() != before { ctx.oracle_fail("failed-load-changed-tree", &s.input(), ""); }
    }
    // C: the empty root over whatever the storage holds: an empty tree
    match s.load(ctx, Some(ZERO)) {
        Ok(()) => { if s.t.root() != ZERO { ctx.oracle_fail("load-at-empty-root-not-empty", &s.input(), &hex(&s.t.root())); } ctx.count("loadat.empty-root"); }
        Err(e) => ctx.oracle_fail("load-at-empty-root-failed", &s.input(), &e),
    }
    s.map.clear();
    for q in pool.iter().take(2) { s.prove(ctx, q); }
    let more = gen_history(ctx, pool, 4);
    for op in &more { s.op(ctx, op); }
    for q in pool.iter().take(3) { s.prove(ctx, q); }
}

/// E. a node is lost from the storage: reload and operations either fail or answer as the reference
fn missing_nodes(ctx: &mut Ctx, pool: &[B32], ops: &[Op]) {
    let mut s = Sc::<Shared>::new(ctx);
    for op in ops { s.op(ctx, op); }
    let keys: Vec<B32> = s.t.storage().0.borrow().keys().copied().collect();
    if keys.is_empty() { return; }
    let root = s.t.root();
    let victim = if ctx.rng.chance(1, 4) { root } else { *ctx.rng.pick(&keys) };
    s.t.storage().0.borrow_mut().remove(&victim);
    s.trace.push(format!("drop {}", hex(&victim)));
    ctx.emit(&format!("drop {}", hex(&victim)), &format!("ok {}", s.t.storage().count()));
    s.strict = false;
    let r = s.load(ctx, None);
    if victim == root {
        ctx.count("missing.root");
        match r { Err(e) if e == "LoadError" => {}, Err(e) => ctx.oracle_fail("load-at-missing-root-wrong-error", &s.input(), &e), Ok(()) => ctx.oracle_fail("load-at-missing-root-succeeded", &s.input(), "") }
    } else {
        ctx.count("missing.inner-or-leaf");
        if let Err(e) = r { ctx.oracle_fail("reload-failed-though-root-stored", &s.input(), &e); }
    }
    for q in pool.iter().take(4) { s.prove(ctx, q); }
    let more = gen_history(ctx, pool, 5);
    for op in &more { s.op(ctx, op); }
    for q in pool.iter().take(4) { s.prove(ctx, q); }
}

pub fn run(ctx: &mut Ctx) {
    // corpus: last-bit twins with deletes (reload inside the 255-level chain), the all-zero key
    let mut last1 = ZERO; last1[31] = 1; let mut first1 = ZERO; first1[0] = 0x80;
    let corpus: Vec<(Vec<B32>, Vec<Op>)> = vec![
        (vec![ZERO, last1, first1], vec![Op::Ins(ZERO, b"a".to_vec()), Op::Ins(last1, b"b".to_vec()), Op::Ins(first1, vec![]), Op::Del(last1), Op::Ins(ZERO, b"c".to_vec()), Op::Del(first1), Op::Del(ZERO)]),
        (vec![first1, ZERO], vec![Op::Ins(first1, b"x".to_vec()), Op::Del(ZERO), Op::Ins(first1, b"x".to_vec()), Op::Del(first1)]),
    ];
    for (pool, ops) in &corpus { crash_points(ctx, pool, ops); ctx.count("history.corpus"); }
    for _ in 0..ctx.n(50, 700) {
        let size = 2 + ctx.rng.below(7) as usize;
        let pool = key_pool(&mut ctx.rng, size);
        let n = 2 + ctx.rng.below(11) as usize;
        let ops = gen_history(ctx, &pool, n);
        crash_points(ctx, &pool, &ops);
        ctx.count("history.crash-enumerated");
    }
    for _ in 0..ctx.n(60, 800) {
        let size = 1 + ctx.rng.below(9) as usize;
        let pool = key_pool(&mut ctx.rng, size);
        from_nodes(ctx, &pool);
    }
    for _ in 0..ctx.n(40, 500) {
        let size = 2 + ctx.rng.below(7) as usize;
        let pool = key_pool(&mut ctx.rng, size);
        let n = 1 + ctx.rng.below(9) as usize;
        let ops = gen_history(ctx, &pool, n);
        special_roots(ctx, &pool, &ops);
    }
    for _ in 0..ctx.n(80, 1000) {
        let size = 2 + ctx.rng.below(7) as usize;
        let pool = key_pool(&mut ctx.rng, size);
        let n = 2 + ctx.rng.below(9) as usize;
        let ops = gen_history(ctx, &pool, n);
        missing_nodes(ctx, &pool, &ops);
    }
}
