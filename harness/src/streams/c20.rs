//! C20 (signatures) — `FormatValidityChecks::check_signatures`, `Input::check_signature` (with and without
//! the recovery cache) on real transactions with mixed signed / predicate / contract inputs, shared witnesses,
//! wrong keys, malformed witnesses, out-of-range witness indices; plus byte-level tampering of accepted
//! transactions. The ECDSA recovery of each witness over the real id and the predicate root of each predicate
//! are sent to the Lean driver as the tables of its abstract `recover` / `predOwner` parameters; the oracle
//! recomputes both independently (sha2 + fuel_crypto directly).
use crate::{ctx::Ctx, util::hex};
use fuel_crypto::{Message, SecretKey, Signature};
use fuel_tx::{
    field::{Inputs, Witnesses},
    policies::Policies,
    Cacheable, Create, Input, PrepareSign, Script, Transaction, TxPointer, UniqueIdentifier, UtxoId, ValidityError, Witness,
};
use fuel_tx::{FormatValidityChecks, Output};
use fuel_types::{canonical::{Deserialize, Serialize}, Address, AssetId, Bytes32, ChainId, ContractId, Nonce, Salt};
use sha2::{Digest, Sha256};

fn key(ctx: &mut Ctx) -> SecretKey {
    loop {
        let b = ctx.rng.arr32();
        if let Ok(k) = SecretKey::try_from(&b[..]) { return k; }
    }
}
fn owner_of(k: &SecretKey) -> Address { Input::owner(&k.public_key()) }
fn b32(ctx: &mut Ctx) -> Bytes32 { Bytes32::new(ctx.rng.arr32()) }
fn utxo(ctx: &mut Ctx) -> UtxoId { UtxoId::new(b32(ctx), ctx.rng.below(4) as u16) }
fn txp(ctx: &mut Ctx) -> TxPointer { TxPointer::new((ctx.rng.below(1000) as u32).into(), ctx.rng.below(100) as u16) }

/// signed bytes of the id preimage: canonical encoding after `prepare_sign` with witnesses cleared
fn signed_bytes<T: PrepareSign + Witnesses + Serialize + Clone>(tx: &T) -> Vec<u8> {
    let mut c = tx.clone();
    c.prepare_sign();
    c.witnesses_mut().clear();
    c.to_bytes()
}
fn sha_id(chain: &ChainId, signed: &[u8]) -> [u8; 32] {
    let mut h = Sha256::new();
    h.update(u64::from(*chain).to_be_bytes());
    h.update(signed);
    h.finalize().into()
}
/// independent recovery: fuel_crypto directly, not through `Witness::recover_witness`
fn recover_indep(w: &[u8], id: &[u8; 32]) -> Option<Address> {
    let bytes: [u8; 64] = w.try_into().ok()?;
    let sig = Signature::from_bytes(bytes);
    let pk = sig.recover(&Message::from_bytes(*id)).ok()?;
    let h: [u8; 32] = pk.hash().into();
    Some(Address::from(h))
}

fn err_name(e: &ValidityError) -> String {
    match e {
        ValidityError::InputWitnessIndexBounds { index } => format!("InputWitnessIndexBounds {index}"),
        ValidityError::InputInvalidSignature { index } => format!("InputInvalidSignature {index}"),
        ValidityError::InputPredicateOwner { index } => format!("InputPredicateOwner {index}"),
        other => format!("other:{}", format!("{other:?}").split(|c: char| !c.is_alphanumeric()).next().unwrap_or("")),
    }
}

enum Slot { Signed(usize), Pred, Contract }

/// one generated case: inputs with the key (index into `keys`) that is supposed to sign each
struct Case { inputs: Vec<Input>, slots: Vec<Slot>, nwit: usize, keys: Vec<SecretKey>, wit_key: Vec<usize>, dishonest: bool }

fn gen_case(ctx: &mut Ctx) -> Case {
    let nkeys = 1 + ctx.rng.below(3) as usize;
    let keys: Vec<SecretKey> = (0..nkeys).map(|_| key(ctx)).collect();
    // witness j is (to be) signed by key wit_key[j]; several witnesses may carry the same key
    let nwit = 1 + ctx.rng.below(4) as usize;
    let wit_key: Vec<usize> = (0..nwit).map(|_| ctx.rng.below(nkeys as u64) as usize).collect();
    let n = 1 + ctx.rng.below(7) as usize;
    let mut inputs = vec![];
    let mut slots = vec![];
    for _ in 0..n {
        let kind = ctx.rng.below(10);
        match kind {
            0..=4 => {
                let wi = ctx.rng.below(nwit as u64) as usize;
                let owner = owner_of(&keys[wit_key[wi]]);
                let inp = match ctx.rng.below(3) {
                    0 => Input::coin_signed(utxo(ctx), owner, ctx.rng.word(), AssetId::new(ctx.rng.arr32()), txp(ctx), wi as u16),
                    1 => Input::message_coin_signed(Address::new(ctx.rng.arr32()), owner, ctx.rng.word(), Nonce::new(ctx.rng.arr32()), wi as u16),
                    _ => { let n = 1 + ctx.rng.below(20) as usize; let d = ctx.rng.bytes(n);
                           Input::message_data_signed(Address::new(ctx.rng.arr32()), owner, ctx.rng.word(), Nonce::new(ctx.rng.arr32()), wi as u16, d) }
                };
                inputs.push(inp); slots.push(Slot::Signed(wi));
            }
            5..=7 => {
                let n = 4 * (1 + ctx.rng.below(6) as usize);
                let code = ctx.rng.bytes(n);
                let owner = Input::predicate_owner(&code);
                let n = ctx.rng.below(12) as usize;
                let data = ctx.rng.bytes(n);
                let inp = match ctx.rng.below(3) {
                    0 => Input::coin_predicate(utxo(ctx), owner, ctx.rng.word(), AssetId::new(ctx.rng.arr32()), txp(ctx), ctx.rng.word(), code, data),
                    1 => Input::message_coin_predicate(Address::new(ctx.rng.arr32()), owner, ctx.rng.word(), Nonce::new(ctx.rng.arr32()), ctx.rng.word(), code, data),
                    _ => Input::message_data_predicate(Address::new(ctx.rng.arr32()), owner, ctx.rng.word(), Nonce::new(ctx.rng.arr32()), ctx.rng.word(), vec![1, 2, 3], code, data),
                };
                inputs.push(inp); slots.push(Slot::Pred);
            }
            _ => {
                inputs.push(Input::contract(utxo(ctx), b32(ctx), b32(ctx), txp(ctx), ContractId::new(ctx.rng.arr32())));
                slots.push(Slot::Contract);
            }
        }
    }
    // the attack the owner comparison exists for: an input owned by someone else points at a witness the
    // transaction's author signed (decided BEFORE signing, so every signature is over the right id). Placed on an
    // input that shares its witness with an earlier one when possible (recovery-cache hit).
    let mut dishonest = false;
    if ctx.rng.chance(1, 4) {
        let signed: Vec<(usize, usize)> = slots.iter().enumerate().filter_map(|(x, s)| if let Slot::Signed(w) = s { Some((x, *w)) } else { None }).collect();
        let later: Vec<usize> = signed.iter().filter(|(x, w)| signed.iter().any(|(y, w2)| y < x && w2 == w)).map(|(x, _)| *x).collect();
        let target = if !later.is_empty() { Some(*ctx.rng.pick(&later)) } else { signed.last().map(|x| x.0) };
        if let Some(x) = target {
            let victim = if ctx.rng.chance(1, 2) { Address::new(ctx.rng.arr32()) } else { owner_of(&key(ctx)) };
            set_owner(&mut inputs[x], victim);
            dishonest = true;
            ctx.count(if later.is_empty() { "dishonest.foreign-owner" } else { "dishonest.foreign-owner-on-cached-witness" });
        }
    }
    Case { inputs, slots, nwit, keys, wit_key, dishonest }
}

fn set_owner(inp: &mut Input, a: Address) {
    match inp {
        Input::CoinSigned(c) => c.owner = a,
        Input::CoinPredicate(c) => c.owner = a,
        Input::MessageCoinSigned(m) => m.recipient = a,
        Input::MessageCoinPredicate(m) => m.recipient = a,
        Input::MessageDataSigned(m) => m.recipient = a,
        Input::MessageDataPredicate(m) => m.recipient = a,
        Input::Contract(_) => {}
    }
}
fn set_widx(inp: &mut Input, w: u16) {
    match inp {
        Input::CoinSigned(c) => c.witness_index = w,
        Input::MessageCoinSigned(m) => m.witness_index = w,
        Input::MessageDataSigned(m) => m.witness_index = w,
        _ => {}
    }
}

trait TxLike: FormatValidityChecks + UniqueIdentifier + PrepareSign + Inputs + Witnesses + Serialize + Deserialize + Clone + Cacheable + Into<Transaction> {}
impl TxLike for Script {}
impl TxLike for Create {}

/// runs the real checks on `tx`, emits the line for the driver, evaluates the oracles. Returns Ok/Err of check_signatures.
fn observe<T: TxLike>(ctx: &mut Ctx, tx: &T, chain: &ChainId, tag: &str) -> bool {
    let signed = signed_bytes(tx);
    let id_sha = sha_id(chain, &signed);
    let id = match ctx.guard(|| tx.id(chain)) { Ok(i) => i, Err(m) => { ctx.oracle_fail("panic-id", tag, &m); return false; } };
    if *id != id_sha {
        ctx.oracle_fail("id-differs-from-sha256-of-signed-bytes", &format!("{tag} tx={}", hex(&tx.to_bytes())), "UniqueIdentifier::id != sha256(chain_id ‖ prepare_sign'd bytes)");
    }
    let res = match ctx.guard(|| tx.check_signatures(chain)) { Ok(r) => r, Err(m) => { ctx.oracle_fail("panic-check_signatures", &format!("{tag} tx={}", hex(&tx.to_bytes())), &m); return false; } };
    let out = match &res { Ok(()) => "ok".to_string(), Err(e) => err_name(e) };
    // tables of the abstract functions, computed by the real code under test's own helpers
    let wits: Vec<String> = tx.witnesses().iter().enumerate().map(|(j, w)| match w.recover_witness(&id, j) { Ok(a) => hex(a.as_ref()), Err(_) => "x".into() }).collect();
    let ins: Vec<String> = tx.inputs().iter().map(|i| match i {
        Input::Contract(_) => "c".to_string(),
        i if i.is_coin_signed() || i.is_message_coin_signed() || i.is_message_data_signed() =>
            format!("s,{},{}", hex(i.input_owner().unwrap().as_ref()), i.witness_index().unwrap()),
        i => format!("p,{},{}", hex(i.input_owner().unwrap().as_ref()), hex(Input::predicate_owner(i.input_predicate().unwrap()).as_ref())),
    }).collect();
    ctx.emit(&format!("sig W {} I {}", wits.join(" "), ins.join(" ")).replace("  ", " "), &out);
    ctx.count(&format!("sig.{}", out.split(' ').next().unwrap()));

    // (1) cache transparency on the implementation: per-input calls with no cache
    let mut first_nocache: Result<(), ValidityError> = Ok(());
    for (index, input) in tx.inputs().iter().enumerate() {
        if let Err(e) = input.check_signature(index, &id, tx.witnesses(), &mut None) { first_nocache = Err(e); break; }
    }
    if first_nocache != res {
        ctx.oracle_fail("cache-not-transparent", &format!("{tag} tx={}", hex(&tx.to_bytes())), &format!("cached {:?} vs uncached {:?}", res, first_nocache));
    }
    // (2) accepted <=> every signed input's witness recovers (independently) to its owner over sha id, predicates owned by root
    let mut all_auth = true;
    let mut detail = String::new();
    for (index, i) in tx.inputs().iter().enumerate() {
        if let Some(wi) = i.witness_index() {
            let rec = tx.witnesses().get(wi as usize).and_then(|w| recover_indep(w.as_ref(), &id_sha));
            if rec.as_ref() != i.input_owner() { all_auth = false; detail = format!("signed input {index}: witness {wi} recovers to {:?}", rec.map(|a| hex(a.as_ref()))); }
        } else if let Some(p) = i.input_predicate() {
            if &Input::predicate_owner(p) != i.input_owner().unwrap() { all_auth = false; detail = format!("predicate input {index}: owner is not the predicate root"); }
        }
    }
    if res.is_ok() && !all_auth {
        ctx.oracle_fail("accepted-unauthorised-input", &format!("{tag} chain={} tx={}", u64::from(*chain), hex(&tx.to_bytes())), &detail);
    }
    if res.is_err() && all_auth {
        ctx.oracle_fail("rejected-authorised-inputs", &format!("{tag} chain={} tx={}", u64::from(*chain), hex(&tx.to_bytes())), &format!("{res:?}"));
    }
    res.is_ok()
}

/// flip bytes of the canonical encoding of an ACCEPTED transaction; if the signed content changed and a signed
/// input remains, `check_signatures` must fail
fn tamper<T: TxLike>(ctx: &mut Ctx, tx: &T, chain: &ChainId, n: u64) {
    let bytes = tx.to_bytes();
    let signed0 = signed_bytes(tx);
    for _ in 0..n {
        let mut b = bytes.clone();
        let pos = ctx.rng.below(b.len() as u64) as usize;
        let bit = 1u8 << ctx.rng.below(8);
        b[pos] ^= bit;
        let Ok(Ok(t2)) = ctx.guard(|| T::from_bytes(&b)) else { ctx.count("tamper.undecodable"); continue; };
        let signed1 = signed_bytes(&t2);
        let has_signed = t2.inputs().iter().any(|i| i.witness_index().is_some());
        let wit_same = t2.witnesses() == tx.witnesses();
        let r = ctx.guard(|| t2.check_signatures(chain));
        let Ok(r) = r else { ctx.oracle_fail("panic-check_signatures", &format!("tamper tx={}", hex(&b)), "panic"); continue; };
        if signed1 != signed0 {
            if has_signed && wit_same {
                ctx.count("tamper.signed-content");
                ctx.distinct(&b);
                if r.is_ok() {
                    ctx.oracle_fail("tamper-not-detected", &format!("chain={} original={} flipped_byte={pos} bit={bit}", u64::from(*chain), hex(&bytes)), "signed content changed but check_signatures still succeeds");
                }
            } else { ctx.count("tamper.signed-content.no-signed-input-left-or-witness-changed"); }
        } else if wit_same {
            ctx.count("tamper.malleable-field");
            if r.is_err() {
                ctx.oracle_fail("malleable-change-rejected", &format!("chain={} original={} flipped_byte={pos} bit={bit}", u64::from(*chain), hex(&bytes)), "only malleable content changed but check_signatures fails");
            }
        } else {
            ctx.count("tamper.witness");
        }
    }
    // another chain id: the id changes, every signature is over the wrong message
    let other = ChainId::new(u64::from(*chain) ^ (1 << ctx.rng.below(64)));
    let mut t3 = tx.clone();
    // drop any cached id: decode from bytes
    if let Ok(t) = T::from_bytes(&bytes) { t3 = t; }
    if t3.inputs().iter().any(|i| i.witness_index().is_some()) {
        ctx.count("tamper.chain-id");
        if t3.check_signatures(&other).is_ok() {
            ctx.oracle_fail("tamper-not-detected", &format!("chain={} other_chain={} original={}", u64::from(*chain), u64::from(other), hex(&bytes)), "chain id changed but check_signatures still succeeds");
        }
    }
}

fn build<T: TxLike>(ctx: &mut Ctx, mk: &dyn Fn(Vec<Input>, Vec<Witness>) -> T, chain: &ChainId) {
    let case = gen_case(ctx);
    let mut tx = mk(case.inputs.clone(), vec![Witness::default(); case.nwit]);
    // sign: witness j = signature of key wit_key[j] over the id (the id does not depend on witnesses)
    let id = tx.id(chain);
    let msg = Message::from_bytes(*id);
    for j in 0..case.nwit {
        let sig = Signature::sign(&case.keys[case.wit_key[j]], &msg);
        tx.witnesses_mut()[j] = Witness::from(sig.as_ref().to_vec());
    }
    if ctx.rng.chance(1, 3) { let _ = tx.precompute(chain); ctx.count("with-cached-metadata"); }
    let nsigned = case.slots.iter().filter(|s| matches!(s, Slot::Signed(_))).count();
    let shared = { let mut ws: Vec<usize> = case.slots.iter().filter_map(|s| if let Slot::Signed(w) = s { Some(*w) } else { None }).collect(); let n = ws.len(); ws.sort(); ws.dedup(); ws.len() < n };
    if shared { ctx.count("shared-witness"); }
    ctx.distinct(&tx.to_bytes());
    let ok = observe(ctx, &tx, chain, "valid");
    if !ok && !case.dishonest { ctx.oracle_fail("honest-transaction-rejected", &format!("chain={} tx={}", u64::from(*chain), hex(&tx.to_bytes())), "every input was signed with its owner's key"); }
    if ok && case.dishonest { ctx.oracle_fail("foreign-owned-input-accepted", &format!("chain={} tx={}", u64::from(*chain), hex(&tx.to_bytes())), "an input whose owner did not sign its witness was accepted"); }
    if ok && nsigned > 0 { let n = ctx.n(6, 30); tamper(ctx, &tx, chain, n); }

    // one defect per variant
    let nmut = 1 + ctx.rng.below(3);
    for _ in 0..nmut {
        let mut t = tx.clone();
        // stale metadata must not hide the mutation: rebuild from bytes
        if let Ok(fresh) = T::from_bytes(&t.to_bytes()) { t = fresh; }
        let k = ctx.rng.below(9);
        let ni = t.inputs().len();
        let i = ctx.rng.below(ni as u64) as usize;
        let nw = t.witnesses().len();
        let j = ctx.rng.below(nw as u64) as usize;
        let what = match k {
            0 => { let other = key(ctx); let sig = Signature::sign(&other, &Message::from_bytes(*t.id(chain))); t.witnesses_mut()[j] = Witness::from(sig.as_ref().to_vec()); "wrong-key" }
            1 => { let l = *ctx.rng.pick(&[0usize, 1, 63, 65, 128]); t.witnesses_mut()[j] = Witness::from(ctx.rng.bytes(l)); "witness-length" }
            2 => { let w = *ctx.rng.pick(&[nw as u16, nw as u16 + 1, u16::MAX, 255, 256]); set_widx(&mut t.inputs_mut()[i], w); "witness-index-out-of-bounds" }
            3 => { let a = Address::new(ctx.rng.arr32()); set_owner(&mut t.inputs_mut()[i], a); "owner-changed" }
            4 => { let bad = Message::from_bytes(ctx.rng.arr32()); let sig = Signature::sign(&case.keys[case.wit_key[j % case.nwit]], &bad); t.witnesses_mut()[j] = Witness::from(sig.as_ref().to_vec()); "signature-over-other-message" }
            5 => { let mut w = t.witnesses()[j].as_ref().to_vec(); if !w.is_empty() { let p = ctx.rng.below(w.len() as u64) as usize; w[p] ^= 1 << ctx.rng.below(8); } t.witnesses_mut()[j] = Witness::from(w); "witness-bit-flip" }
            6 => { t.witnesses_mut().pop(); "witness-removed" }
            7 => { let w = ctx.rng.below(nw as u64) as u16; set_widx(&mut t.inputs_mut()[i], w); "witness-index-to-other-witness" }
            _ => { let dup = t.inputs()[i].clone(); t.inputs_mut().push(dup); "input-duplicated" }
        };
        ctx.count(&format!("mut.{what}"));
        ctx.distinct(&t.to_bytes());
        observe(ctx, &t, chain, what);
    }
}

// ------------------------------------------------------------------ in-memory re-check of transaction OBJECTS
/// An accepted transaction object that carries metadata (after `finalize`, or after `into_checked` + `into()`) is
/// changed through the public field mutators WITHOUT re-signing, then goes through `into_checked_basic` +
/// `check_signatures` (and `into_checked`) again. The mutators do not invalidate the cached id; the checked entry must.
fn recheck(ctx: &mut Ctx) {
    use fuel_tx::field::{Outputs, Policies as PoliciesField, ReceiptsRoot, Script as ScriptField, ScriptData, ScriptGasLimit};
    use fuel_tx::{ConsensusParameters, Finalizable, TransactionBuilder};
    use fuel_vm::checked_transaction::{CheckError, IntoChecked};
    use fuel_tx::policies::PolicyType;
    let cp = ConsensusParameters::standard();
    let chain = cp.chain_id();
    let base = *cp.base_asset_id();
    let other_asset = AssetId::new(ctx.rng.arr32());
    let mut b = TransactionBuilder::script(vec![0x24, 0x04, 0, 0], ctx.rng.bytes(8));
    b.with_params(cp.clone());
    b.script_gas_limit(1000 + ctx.rng.below(1000)).max_fee_limit(0);
    let nkeys = 1 + ctx.rng.below(2) as usize;
    let keys: Vec<SecretKey> = (0..nkeys).map(|_| key(ctx)).collect();
    let nin = 1 + ctx.rng.below(3) as usize;
    for k in 0..nin {
        let sk = keys[k % nkeys];
        let asset = if k == 0 { base } else { *ctx.rng.pick(&[base, other_asset]) };
        if ctx.rng.chance(1, 4) { b.add_unsigned_message_input(sk, Address::new(ctx.rng.arr32()), Nonce::new(ctx.rng.arr32()), 1_000_000, vec![]); }
        else { b.add_unsigned_coin_input(sk, utxo(ctx), 1_000_000 + ctx.rng.below(1000), asset, txp(ctx)); }
    }
    b.add_output(Output::coin(Address::new(ctx.rng.arr32()), 1 + ctx.rng.below(1000), base));
    b.add_output(Output::change(Address::new(ctx.rng.arr32()), 0, base));
    if ctx.rng.chance(1, 2) { b.add_output(Output::variable(Address::zeroed(), 0, AssetId::zeroed())); }
    let tx0: Script = b.finalize();
    // flow A: the finalized object (metadata from the builder); flow B: fully checked once, taken back out
    let flow_b = ctx.rng.chance(1, 2);
    let obj: Script = if flow_b {
        match tx0.clone().into_checked(0u32.into(), &cp) {
            Ok(c) => { let (t, _m): (Script, _) = c.into(); t }
            Err(e) => { ctx.oracle_fail("honest-transaction-rejected", &format!("recheck tx={}", hex(&tx0.to_bytes())), &format!("{e:?}")); return; }
        }
    } else { tx0.clone() };
    ctx.count(if flow_b { "recheck.flow.checked-then-into" } else { "recheck.flow.finalized" });
    if !obj.is_computed() { ctx.count("recheck.object-without-metadata"); }
    let id0 = sha_id(&chain, &signed_bytes(&obj));
    for round in 0..5u64 {
        let mut t = obj.clone();
        let kind = if round == 0 { 0 } else { 1 + ctx.rng.below(13) };
        let i = ctx.rng.below(t.inputs().len() as u64) as usize;
        let what = match kind {
            0 => "unchanged",
            1 => { if let Output::Coin { to, .. } = &mut t.outputs_mut()[0] { *to = Address::new(ctx.rng.arr32()); } "output-coin-to" }
            2 => { if let Output::Coin { amount, .. } = &mut t.outputs_mut()[0] { *amount += 1; } "output-coin-amount" }
            3 => { if let Output::Change { to, .. } = &mut t.outputs_mut()[1] { *to = Address::new(ctx.rng.arr32()); } "output-change-to" }
            4 => { match &mut t.inputs_mut()[i] { Input::CoinSigned(c) => c.amount -= 1, Input::MessageCoinSigned(m) => m.amount -= 1, _ => {} } "input-amount" }
            5 => { match &mut t.inputs_mut()[i] { Input::CoinSigned(c) => c.utxo_id = utxo(ctx), Input::MessageCoinSigned(m) => m.nonce = Nonce::new(ctx.rng.arr32()), _ => {} } "input-utxo-or-nonce" }
            6 => { t.script_data_mut().push(7); "script-data" }
            7 => { *t.script_mut() = vec![0x24, 0x04, 0, 0, 0x24, 0x04, 0, 0]; "script" }
            8 => { *t.script_gas_limit_mut() += 1; "script-gas-limit" }
            9 => { t.policies_mut().set(PolicyType::Tip, Some(ctx.rng.below(5))); "policy-tip" }
            10 => { t.policies_mut().set(PolicyType::Maturity, Some(0)); "policy-maturity" }
            11 => { let o = t.outputs()[0]; t.outputs_mut().push(o); "output-added" }
            // malleable content: the id must not change, the object must still be accepted
            12 => { *t.receipts_root_mut() = b32(ctx); "malleable-receipts-root" }
            _ => { match &mut t.inputs_mut()[i] { Input::CoinSigned(c) => c.tx_pointer = txp(ctx), _ => {} }
                   if let Output::Change { amount, .. } = &mut t.outputs_mut()[1] { *amount = ctx.rng.word(); } "malleable-tx-pointer-change-amount" }
        };
        ctx.count(&format!("recheck.{what}"));
        let signed = signed_bytes(&t);
        let id_now = sha_id(&chain, &signed);
        let content_changed = id_now != id0;
        let cache_state = if !t.is_computed() { "n" } else if content_changed { "s" } else { "f" };
        let desc = format!("recheck flow={} mutation={what} object-bytes={}", if flow_b { "checked-then-into" } else { "finalized" }, hex(&t.to_bytes()));
        let basic = match ctx.guard(|| t.clone().into_checked_basic(0u32.into(), &cp)) { Ok(r) => r, Err(m) => { ctx.oracle_fail("panic-into_checked_basic", &desc, &m); continue; } };
        let checked = match basic {
            Err(e) => { ctx.count(&format!("recheck.basic-rejected.{}", format!("{e:?}").chars().filter(|c| c.is_alphanumeric()).take(40).collect::<String>())); continue; }
            Ok(c) => c,
        };
        if *checked.id() != id_now {
            ctx.oracle_fail("checked-id-is-not-the-id-of-the-content", &desc, &format!("Checked::id() = {}, sha256(chain ‖ prepared bytes) = {}", hex(checked.id().as_ref()), hex(&id_now)));
        }
        let id_tag = if *checked.id() == id_now { "cur" } else { "stale" };
        let res = checked.check_signatures(&chain);
        let out = match &res { Ok(_) => format!("ok id={id_tag}"), Err(CheckError::Validity(e)) => err_name(e), Err(e) => format!("other:{e:?}").chars().take(30).collect() };
        // the model's tables, computed over the id of the CURRENT content
        let idb = Bytes32::new(id_now);
        let wits: Vec<String> = t.witnesses().iter().enumerate().map(|(j, w)| match w.recover_witness(&idb, j) { Ok(a) => hex(a.as_ref()), Err(_) => "x".into() }).collect();
        let ins: Vec<String> = t.inputs().iter().map(|i| match i.witness_index() { Some(w) => format!("s,{},{}", hex(i.input_owner().unwrap().as_ref()), w), None => "c".into() }).collect();
        ctx.emit(&format!("chk {cache_state} W {} I {}", wits.join(" "), ins.join(" ")), &out);
        ctx.distinct(&t.to_bytes());
        if res.is_ok() && content_changed {
            ctx.oracle_fail("recheck-accepts-changed-signed-content", &desc, &format!("signed content changed through the field mutators without re-signing ({what}), yet into_checked_basic + check_signatures accept it"));
        }
        if res.is_err() && !content_changed {
            ctx.oracle_fail("recheck-rejects-unchanged-signed-content", &desc, &format!("{what}: only malleable content (or nothing) changed"));
        }
        // the full entry point as well
        let full = ctx.guard(|| t.clone().into_checked(0u32.into(), &cp));
        if let Ok(Ok(c)) = &full {
            if content_changed { ctx.oracle_fail("recheck-accepts-changed-signed-content", &desc, "into_checked accepts it"); }
            if *c.id() != id_now { ctx.oracle_fail("checked-id-is-not-the-id-of-the-content", &desc, "into_checked"); }
        }
    }
}

pub fn run(ctx: &mut Ctx) {
    if std::env::var("FV_DEBUG_PANIC").is_ok() { std::panic::set_hook(Box::new(|i| eprintln!("{i}"))); }
    for _ in 0..ctx.n(60, 800) { recheck(ctx); }
    let n = ctx.n(220, 3000);
    for c in 0..n {
        let chain = ChainId::new(match c % 4 { 0 => 0, 1 => 1, 2 => u64::MAX, _ => ctx.rng.word() });
        if c % 3 == 0 {
            let salt = Salt::new(ctx.rng.arr32());
            build::<Create>(ctx, &move |ins, mut ws| {
                // bytecode witness is appended after the signature witnesses
                let bi = ws.len() as u16;
                ws.push(Witness::from(vec![0u8; 8]));
                Transaction::create(bi, Policies::new().with_max_fee(0), salt, vec![], ins, vec![Output::contract_created(ContractId::zeroed(), Bytes32::zeroed())], ws)
            }, &chain);
            ctx.count("kind.create");
        } else {
            let gas = ctx.rng.word();
            let script = ctx.rng.bytes(4 * (c as usize % 4));
            let data = ctx.rng.bytes(c as usize % 7);
            build::<Script>(ctx, &move |ins, ws| Transaction::script(gas, script.clone(), data.clone(), Policies::new().with_max_fee(0), ins, vec![], ws), &chain);
            ctx.count("kind.script");
        }
    }
}
