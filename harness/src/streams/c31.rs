//! C31 — determinism / independence of instance reuse.
//! (a) `m …` lines: random histories of `MemoryInstance::{reset, grow_stack, grow_heap_by, read, write_noownerchecks}`
//!     on the real type vs the Lean model (results, stack length, hp, heap allocation length); oracle: after every
//!     `reset` the dirty instance equals (`PartialEq`) and behaves like `MemoryInstance::new()` run with the same suffix.
//! (b) `reuse` lines: target transaction on a fresh interpreter vs on one interpreter (and one `Transactor`) that first ran
//!     a history of other transactions (large heaps, deep stacks, warm slot caches, panics incl. ContractNotInInputs,
//!     abandoned debug sessions); oracle: state, receipts, output tx, storage digest, registers and memory identical;
//!     and the same target twice on fresh instances (determinism).
//! (c) `pred` lines: predicate checking/estimation with fresh, reused-dirty and pool (`DummyPool`) memory.
use crate::{ctx::Ctx, gen::vm_gen as g, util::hex};
use fuel_asm::{op, RegId};
use fuel_tx::{ConsensusParameters, Input, Script, TransactionBuilder};
use fuel_vm::{
    checked_transaction::{CheckPredicateParams, EstimatePredicates, IntoChecked},
    constraints::reg_key::{Reg, RegMut},
    interpreter::{MemoryInstance, NotSupportedEcal},
    prelude::*,
    state::Breakpoint,
    storage::{predicate::EmptyStorage, MemoryStorage},
};

type Vm = Interpreter<MemoryInstance, MemoryStorage, Script>;

// ---------------- (a) memory histories ------------------------------------------------------------

#[derive(Clone, Debug)]
enum MOp { Reset, GrowStack(u64), GrowHeap(u64, u64), Read(u64, u64), Write(u64, Vec<u8>) }

fn apply(m: &mut MemoryInstance, hp: &mut u64, op: &MOp) -> Result<Vec<u8>, String> {
    match op {
        MOp::Reset => { m.reset(); *hp = fuel_vm::consts::VM_MAX_RAM; Ok(vec![]) }
        MOp::GrowStack(n) => m.grow_stack(*n).map(|_| vec![]).map_err(|e| format!("{e:?}")),
        MOp::GrowHeap(sp, n) => { let sp = *sp; m.grow_heap_by(Reg::<{ 0x05 }>::new(&sp), RegMut::<{ 0x07 }>::new(hp), *n).map(|_| vec![]).map_err(|e| format!("{e:?}")) }
        MOp::Read(s, n) => m.read(*s, *n).map(|b| b.to_vec()).map_err(|e| format!("{e:?}")),
        MOp::Write(s, d) => m.write_noownerchecks(*s, d.len()).map(|b| { b.copy_from_slice(d); vec![] }).map_err(|e| format!("{e:?}")),
    }
}

fn line(op: &MOp) -> String {
    match op {
        MOp::Reset => "m reset".into(),
        MOp::GrowStack(n) => format!("m gs {n}"),
        MOp::GrowHeap(sp, n) => format!("m gh {sp} {n}"),
        MOp::Read(s, n) => format!("m rd {s} {n}"),
        MOp::Write(s, d) => format!("m wr {s} {}", hex(d)),
    }
}

fn gen_op(ctx: &mut Ctx, stack_len: u64, hp: u64, giant: bool) -> MOp {
    const M: u64 = fuel_vm::consts::VM_MAX_RAM;
    let small = |c: &mut Ctx| *c.rng.pick(&[0u64, 1, 7, 8, 9, 31, 32, 33, 64, 100, 255, 256, 257, 300, 1000, 4096]);
    match ctx.rng.below(12) {
        0 => MOp::Reset,
        1 | 2 => { let d = small(ctx); MOp::GrowStack(if giant && ctx.rng.chance(1, 6) { *ctx.rng.pick(&[M, M + 1, hp, hp + 1, hp.saturating_sub(1)]) } else { stack_len.saturating_add(d) }) }
        3 | 4 | 5 => { let n = if ctx.rng.chance(1, 12) { if giant { *ctx.rng.pick(&[hp, hp + 1, hp.saturating_sub(stack_len), hp.saturating_sub(stack_len) + 1, u64::MAX]) } else { *ctx.rng.pick(&[hp + 1, hp.saturating_sub(stack_len) + 1, u64::MAX]) } } else { small(ctx) }; MOp::GrowHeap(if ctx.rng.chance(1, 8) { ctx.rng.below(hp + 2) } else { stack_len }, n) }
        6 | 7 | 8 => {
            let n = small(ctx).min(300);
            let s = match ctx.rng.below(5) { 0 => ctx.rng.below(stack_len + 2), 1 => hp.saturating_add(ctx.rng.below(M - hp + 2)), 2 => stack_len.saturating_sub(n), 3 => M.saturating_sub(n), _ => hp.saturating_sub(ctx.rng.below(4)) };
            MOp::Read(s, n)
        }
        _ => {
            let n = small(ctx).min(64) as usize;
            let s = match ctx.rng.below(4) { 0 => ctx.rng.below(stack_len + 2), 1 => hp.saturating_add(ctx.rng.below(M - hp + 2)), 2 => stack_len.saturating_sub(n as u64), _ => M.saturating_sub(n as u64) };
            let d: Vec<u8> = (0..n).map(|_| 1 + (ctx.rng.next() % 255) as u8).collect();
            MOp::Write(s, d)
        }
    }
}

/// scripted histories (added after seeded change C31-1: `grow_heap_by` re-allocation keeping dirty bytes when a
/// small in-place allocation preceded it): dirty heap of `a` bytes, reset, small allocation served in place,
/// then an allocation that forces re-allocation, then reads of the whole heap region
fn mem_scripted(ctx: &mut Ctx) {
    const M: u64 = fuel_vm::consts::VM_MAX_RAM;
    for (hi, (a, small, big)) in [(1024u64, 8u64, 2048u64), (300, 1, 300), (4096, 64, 4097), (256, 255, 2), (1000, 8, 100_000), (70_000, 32, 70_000), (513, 512, 8)].iter().enumerate() {
        let mut ops: Vec<MOp> = vec![MOp::GrowHeap(0, *a)];
        let mut off = 0u64;
        while off < *a { let n = (*a - off).min(64); ops.push(MOp::Write(M - *a + off, vec![0xAA; n as usize])); off += n; }
        ops.push(MOp::Reset);
        ops.push(MOp::GrowHeap(0, *small));
        ops.push(MOp::Read(M - *small, *small));
        ops.push(MOp::GrowHeap(0, *big));
        let total = *small + *big;
        let mut off = 0u64;
        while off < total { let n = (total - off).min(300); ops.push(MOp::Read(M - total + off, n)); off += n; }
        let mut m = MemoryInstance::new();
        let mut hp = M;
        ctx.emit("m new", &format!("ok - sl=0 hp={hp} hl=0"));
        let mut done = vec![];
        let mut last_reset = None;
        for op in ops {
            let r = apply(&mut m, &mut hp, &op);
            if matches!(op, MOp::Reset) { last_reset = Some(done.len()); ctx.count("mem.scripted.reset-with-dirty-heap"); }
            let st = format!("sl={} hp={hp} hl={}", m.stack_raw().len(), m.heap_raw().len());
            let ans = match &r { Ok(b) => format!("ok {} {st}", hex(b)), Err(e) => format!("err {e} {st}") };
            ctx.emit(&line(&op), &ans);
            done.push((op, r));
        }
        if let Some(k) = last_reset {
            let mut f = MemoryInstance::new();
            let mut fhp = M;
            for (i, (op, r)) in done[k + 1..].iter().enumerate() {
                let rf = apply(&mut f, &mut fhp, op);
                if &rf != r { ctx.oracle_fail("reset-memory-differs-from-new", &format!("scripted#{hi} op {} {}", k + 1 + i, line(op)), &format!("reused {r:?} vs fresh {rf:?}")); break; }
            }
            if f != m || fhp != hp { ctx.oracle_fail("reset-memory-not-equal-new", &format!("scripted#{hi}"), "final memories differ (PartialEq)"); }
            ctx.distinct(format!("scripted{hi}").as_bytes());
        }
    }
}

fn mem_histories(ctx: &mut Ctx) {
    mem_scripted(ctx);
    let nh = ctx.n(80, 1500);
    for hi in 0..nh {
        let mut m = MemoryInstance::new();
        let mut hp = fuel_vm::consts::VM_MAX_RAM;
        ctx.emit("m new", &format!("ok - sl=0 hp={hp} hl=0"));
        let n = ctx.rng.range(5, 40);
        let giant = ctx.rng.chance(1, 16);
        if giant { ctx.count("mem.history-with-64MiB-boundary-ops"); }
        let mut ops = vec![];
        let mut last_reset = None;
        for _ in 0..n {
            let op = gen_op(ctx, m.stack_raw().len() as u64, hp, giant);
            let r = apply(&mut m, &mut hp, &op);
            if matches!(op, MOp::Reset) { last_reset = Some(ops.len()); ctx.count("mem.reset"); if m.heap_raw().len() > 0 { ctx.count("mem.reset-with-dirty-heap"); } }
            let st = format!("sl={} hp={hp} hl={}", m.stack_raw().len(), m.heap_raw().len());
            let ans = match &r { Ok(b) => format!("ok {} {st}", hex(b)), Err(e) => format!("err {e} {st}") };
            ctx.count(match (&op, r.is_ok()) { (MOp::GrowHeap(..), true) => "mem.gh.ok", (MOp::GrowHeap(..), false) => "mem.gh.err", (MOp::GrowStack(_), true) => "mem.gs.ok", (MOp::GrowStack(_), false) => "mem.gs.err",
                (MOp::Read(..), true) => "mem.rd.ok", (MOp::Read(..), false) => "mem.rd.err", (MOp::Write(..), true) => "mem.wr.ok", (MOp::Write(..), false) => "mem.wr.err", _ => "mem.other" });
            ctx.emit(&line(&op), &ans);
            ops.push((op, r));
        }
        // oracle: the suffix after the last reset, replayed on a NEW memory, observes the same and ends equal
        if let Some(k) = last_reset {
            let mut f = MemoryInstance::new();
            let mut fhp = fuel_vm::consts::VM_MAX_RAM;
            for (i, (op, r)) in ops[k + 1..].iter().enumerate() {
                let rf = apply(&mut f, &mut fhp, op);
                if &rf != r { ctx.oracle_fail("reset-memory-differs-from-new", &format!("history#{hi} op {} {}", k + 1 + i, line(op)), &format!("reused {r:?} vs fresh {rf:?}")); break; }
            }
            if f != m || fhp != hp { ctx.oracle_fail("reset-memory-not-equal-new", &format!("history#{hi}"), "final memories differ (PartialEq)"); }
            ctx.distinct(format!("{:?}", &ops[k..].iter().map(|x| line(&x.0)).collect::<Vec<_>>()).as_bytes());
        }
    }
}

// ---------------- (b) interpreter reuse -----------------------------------------------------------

fn vm_digest(vm: &Vm) -> String {
    use sha2::{Digest, Sha256};
    let mut h = Sha256::new();
    for r in vm.registers() { h.update(r.to_be_bytes()); }
    h.update(vm.memory().stack_raw());
    let hp = vm.registers()[RegId::HP] as usize;
    if let Ok(s) = vm.memory().read(hp, fuel_vm::consts::MEM_SIZE - hp) { h.update(s); }
    hex(&h.finalize()[..8])
}

fn run_on(vm: &mut Vm, case: &g::Case) -> (String, String) {
    *vm.as_mut() = case.storage.clone();
    let r = vm.transact(case.ready()).map(ProgramState::from).map_err(|e| g::err_name(&e));
    let st = match &r { Ok(s) => g::state_str(s), Err(e) => format!("err:{e}") };
    (format!("{st} {}", g::digest_result(&st, vm.receipts(), vm.transaction(), vm.as_ref())), vm_digest(vm))
}

fn reuse(ctx: &mut Ctx) {
    let n = ctx.n(40, 400);
    for i in 0..n {
        let mk = |ctx: &mut Ctx, unlisted: bool| -> Option<g::Case> {
            let gas = *ctx.rng.pick(&[5_000u64, 50_000, 300_000]);
            let mut knobs = g::Knobs::normal();
            knobs.fault_pm = *ctx.rng.pick(&[0, 30, 100]);
            knobs.code_ops = ctx.rng.chance(1, 2);     // storage / balance / code instructions: warm slot caches
            if unlisted { knobs.unlisted_pm = 300; }
            let seed = ctx.rng.0;
            match ctx.guard(|| { let mut r = crate::ctx::Rng(seed); let c = g::gen_case(&mut r, knobs, gas, None); (c, r) }) {
                Ok((c, r)) => { ctx.rng = r; Some(c) }
                Err(_) => { ctx.rng.next(); ctx.count("gen.failed"); None }
            }
        };
        // half of the time target and history share ONE world (same contracts, different contract-input sets / orders):
        // anything initialisation accumulates instead of assigning (allowed contracts, input->output index map) shows up
        let shared: Vec<g::Case> = if ctx.rng.chance(1, 2) {
            let mut knobs = g::Knobs::normal(); knobs.fault_pm = 0; knobs.unlisted_pm = 500; knobs.code_ops = true; knobs.max_blocks = 6;
            let k = ctx.rng.range(2, 4) as usize;
            let seed = ctx.rng.0;
            match ctx.guard(|| { let mut r = crate::ctx::Rng(seed); let c = g::gen_world_cases(&mut r, knobs, 60_000, k); (c, r) }) {
                Ok((c, r)) => { ctx.rng = r; c }
                Err(_) => { ctx.rng.next(); vec![] }
            }
        } else { vec![] };
        let (target, shared_hist) = if shared.len() >= 2 { let mut s = shared; let t = s.pop().unwrap(); (t, s) } else if i % 3 == 1 {
            // a target that takes every arm of MemoryInstance::memcopy (stack->stack, stack->heap, heap->heap, heap->stack)
            // and logs what arrived: which arm runs must not depend on what the instance's buffers looked like before
            let s: Vec<u8> = vec![
                op::cfei(64), op::subi(0x20, RegId::SP, 64), op::movi(0x10, 42), op::sw(0x20, 0x10, 0),
                op::addi(0x21, 0x20, 32), op::mcpi(0x21, 0x20, 8), op::lw(0x11, 0x21, 0), op::log(0x11, RegId::ZERO, RegId::ZERO, RegId::ZERO),
                op::movi(0x12, 64), op::aloc(0x12), op::mcpi(RegId::HP, 0x20, 8), op::lw(0x13, RegId::HP, 0), op::log(0x13, RegId::ZERO, RegId::ZERO, RegId::ZERO),
                op::addi(0x22, RegId::HP, 16), op::mcpi(0x22, RegId::HP, 8), op::lw(0x14, 0x22, 0), op::log(0x14, RegId::ZERO, RegId::ZERO, RegId::ZERO),
                op::addi(0x23, 0x20, 48), op::mcpi(0x23, 0x22, 8), op::lw(0x15, 0x23, 0), op::log(0x15, RegId::ZERO, RegId::ZERO, RegId::ZERO),
                op::ret(RegId::ONE)].into_iter().collect();
            let seed = ctx.rng.next();
            match ctx.guard(|| g::gen_case(&mut crate::ctx::Rng(seed), g::Knobs::normal(), 100_000, Some(s))) { Ok(c) => { ctx.count("reuse.target.memcopy-arms"); (c, vec![]) } Err(_) => continue }
        } else {
            let Some(t) = mk(ctx, false) else { continue }; (t, vec![]) };
        let tag = format!("reuse#{i}");
        // fresh, twice (determinism)
        let mut f1 = target.fresh_vm();
        let a = match ctx.guard(|| run_on(&mut f1, &target)) { Ok(a) => a, Err(m) => { ctx.oracle_fail("panic-fresh", &tag, &m); continue; } };
        let mut f2 = target.fresh_vm();
        let b = run_on(&mut f2, &target);
        if a != b { ctx.oracle_fail("nondeterministic-fresh", &tag, &format!("{} vs {}", a.0, b.0)); }
        // history on one instance
        let hist_len = ctx.rng.range(1, 4);
        let mut vm = target.fresh_vm();
        let mut kinds = vec![];
        for h in &shared_hist { let _ = ctx.guard(|| run_on(&mut vm, h)); kinds.push("same-world-other-inputs"); }
        for _ in 0..hist_len {
            let unl = ctx.rng.chance(1, 3);
            let Some(h) = mk(ctx, unl) else { continue };
            let forced = i % 3 == 1 && shared_hist.is_empty() && kinds.is_empty();   // the memcopy-arms target: always after a big heap
            match if forced { 1 } else { ctx.rng.below(4) } {
                0 => {
                    // abandoned debug session
                    vm.set_breakpoint(Breakpoint::script(ctx.rng.below(4)));
                    let _ = ctx.guard(|| run_on(&mut vm, &h));
                    vm.clear_breakpoints();
                    vm.set_single_stepping(false);
                    kinds.push("debug-abandoned");
                }
                1 => {
                    // a script leaving a large heap and a deep stack behind
                    // heap sizes on both sides of the heap vector's power-of-two capacities, up to more than half of the
                    // memory (the vector then spans all 64 MiB and stays allocated after `reset`)
                    let sizes = [40u64 << 20, 200_000, 1 << 20, (16 << 20) + 8];
                    let heap = if forced { sizes[(i as usize / 3) % 4] } else { *ctx.rng.pick(&sizes) };
                    ctx.count(&format!("reuse.history.heap-left-behind.{}KiB", heap >> 10));
                    let big: Vec<u8> = vec![op::movi(0x10, (heap >> 10) as u32), op::slli(0x10, 0x10, 10), op::addi(0x10, 0x10, (heap & 0x3ff) as u16), op::aloc(0x10), op::sw(RegId::HP, RegId::ONE, 0), op::cfei(100_000), op::not(0x11, RegId::ZERO), op::sw(RegId::SSP, 0x11, 0), op::ret(RegId::ONE)].into_iter().collect();
                    let seed = ctx.rng.next();
                    if let Ok(c) = ctx.guard(|| g::gen_case(&mut crate::ctx::Rng(seed), g::Knobs::normal(), 20_000_000, Some(big))) { let _ = ctx.guard(|| run_on(&mut vm, &c)); }
                    kinds.push("big-heap-deep-stack");
                }
                _ => { let _ = ctx.guard(|| run_on(&mut vm, &h)); kinds.push(if unl { "tx-unlisted" } else { "tx" }); }
            }
        }
        // the target itself first (then its storage is put back): a slot cache that survives initialisation would
        // serve the first run's values and hot-read prices to the second run
        if ctx.rng.chance(1, 2) { let _ = ctx.guard(|| run_on(&mut vm, &target)); kinds.push("same-tx-before"); }
        for k in &kinds { ctx.count(&format!("reuse.history.{k}")); }
        if vm.receipts().iter().any(|r| matches!(r, fuel_tx::Receipt::Panic { contract_id: Some(_), .. })) { ctx.count("reuse.history-ended-with-panic-contract-id"); }
        let c = match ctx.guard(|| run_on(&mut vm, &target)) { Ok(c) => c, Err(m) => { ctx.oracle_fail("panic-reused", &tag, &m); continue; } };
        if c.0 != a.0 { ctx.oracle_fail("reused-result-differs", &format!("{tag} history={kinds:?}"), &format!("fresh {} vs reused {}", a.0, c.0)); }
        if c.1 != a.1 { ctx.oracle_fail("reused-vm-state-differs", &format!("{tag} history={kinds:?}"), "registers / accessible memory differ"); }
        if f1.memory() != vm.memory() { ctx.oracle_fail("reused-memory-not-equal", &format!("{tag} history={kinds:?}"), "MemoryInstance PartialEq"); }
        ctx.distinct(format!("{tag}{kinds:?}{}", a.0).as_bytes());
        ctx.emit(&format!("reuse {i} {}", kinds.join(",")), if c == a && a == b { "same" } else { "differs" });
        // the same through a Transactor that is reused
        let mut t = Transactor::<_, _, Script>::new(MemoryInstance::new(), target.storage.clone(), target.iparams());
        if let Some(h) = mk(ctx, false) { *t.as_mut() = h.storage.clone(); let _ = ctx.guard(|| { t.transact_ready_tx(h.ready()); }); }
        *t.as_mut() = target.storage.clone();
        let tr = ctx.guard(|| { t.transact_ready_tx(target.ready()); t.state_transition().map(|s| (g::state_str(s.state()), s.receipts().to_vec(), s.tx().clone())) });
        match tr {
            Ok(Some((st, rec, tx))) => {
                let d = format!("{st} {}", g::digest_result(&st, &rec, &tx, t.as_ref()));
                if d != a.0 { ctx.oracle_fail("transactor-reused-differs", &tag, &format!("fresh {} vs transactor {}", a.0, d)); }
                ctx.count("reuse.transactor");
            }
            Ok(None) => { if !a.0.starts_with("err:") { ctx.oracle_fail("transactor-error-vs-fresh-ok", &tag, &a.0); } }
            Err(m) => ctx.oracle_fail("panic-transactor", &tag, &m),
        }
    }
}

// ---------------- (c) predicates with fresh / dirty / pooled memory ----------------------------------

fn predicates(ctx: &mut Ctx) {
    let n = ctx.n(40, 400);
    let params = ConsensusParameters::standard();
    let cp: CheckPredicateParams = (&params).into();
    for i in 0..n {
        // predicate programs that use stack and heap, some failing
        let mut code = vec![];
        let k = ctx.rng.range(0, 5);
        g::alu(&mut ctx.rng, k, &mut code);
        if ctx.rng.chance(1, 2) { code.extend([op::movi(0x10, *ctx.rng.pick(&[8u32, 64, 1024, 5000])), op::aloc(0x10), op::lw(0x11, RegId::HP, 0), op::jnzf(0x11, RegId::ZERO, 0), op::sw(RegId::HP, RegId::ONE, 0)]); }
        if ctx.rng.chance(1, 2) { code.extend([op::move_(0x12, RegId::SP), op::cfei(*ctx.rng.pick(&[8u32, 64, 4096])), op::lw(0x13, 0x12, 0), op::jnzf(0x13, RegId::ZERO, 0), op::sw(0x12, RegId::ONE, 0)]); }
        code.push(match ctx.rng.below(8) { 0 => op::ret(RegId::ZERO), 1 => op::rvrt(RegId::ONE), _ => op::ret(RegId::ONE) });
        let bytes: Vec<u8> = code.into_iter().collect();
        let owner = Input::predicate_owner(&bytes);
        let npred = ctx.rng.range(1, 3);
        let mut b = TransactionBuilder::script(vec![], vec![]);
        b.script_gas_limit(10_000);
        for _ in 0..npred {
            b.add_input(Input::coin_predicate(fuel_tx::UtxoId::new(ctx.rng.arr32().into(), 0), owner, ctx.rng.below(100), Default::default(), Default::default(), 0, bytes.clone(), { let l = ctx.rng.below(40) as usize; ctx.rng.bytes(l) }));
        }
        let tx0 = b.finalize();
        // estimation with fresh and with dirty memory
        let mut dirty = MemoryInstance::new();
        { let mut hp = fuel_vm::consts::VM_MAX_RAM; let _ = dirty.grow_stack(20_000); if let Ok(s) = dirty.write_noownerchecks(0usize, 20_000usize) { s.fill(0xEE); }
          let sp = 20_000u64; let _ = dirty.grow_heap_by(Reg::<{ 0x05 }>::new(&sp), RegMut::<{ 0x07 }>::new(&mut hp), 30_000);
          if let Ok(s) = dirty.write_noownerchecks(hp, 30_000usize) { s.fill(0xDD); } }
        let mut t1 = tx0.clone();
        let e1 = ctx.guard(|| t1.estimate_predicates(&cp, MemoryInstance::new(), &EmptyStorage).map(|_| ()).map_err(|e| format!("{e:?}")));
        let mut t2 = tx0.clone();
        let e2 = ctx.guard(|| t2.estimate_predicates(&cp, &mut dirty, &EmptyStorage).map(|_| ()).map_err(|e| format!("{e:?}")));
        let tag = format!("pred#{i}");
        if e1 != e2 || t1 != t2 { ctx.oracle_fail("estimate-differs-with-dirty-memory", &tag, &format!("{e1:?} vs {e2:?}")); }
        if !matches!(e1, Ok(Ok(()))) { ctx.count("pred.estimate-failed"); ctx.emit(&format!("pred {i} est-failed"), "same"); continue; }
        let Ok(checked) = t1.clone().into_checked_basic(Default::default(), &params) else { ctx.count("pred.check-basic-failed"); continue; };
        use fuel_vm::interpreter::predicates::check_predicates;
        let c1 = ctx.guard(|| check_predicates(&checked, &cp, MemoryInstance::new(), &EmptyStorage, NotSupportedEcal).map(|c| c.gas_used()).map_err(|e| format!("{e:?}")));
        let c2 = ctx.guard(|| check_predicates(&checked, &cp, &mut dirty, &EmptyStorage, NotSupportedEcal).map(|c| c.gas_used()).map_err(|e| format!("{e:?}")));
        // and once more on the same, now twice-used, memory
        let c3 = ctx.guard(|| check_predicates(&checked, &cp, &mut dirty, &EmptyStorage, NotSupportedEcal).map(|c| c.gas_used()).map_err(|e| format!("{e:?}")));
        if c1 != c2 || c1 != c3 { ctx.oracle_fail("check-differs-with-reused-memory", &tag, &format!("{c1:?} / {c2:?} / {c3:?}")); }
        ctx.count(match &c1 { Ok(Ok(_)) => "pred.check.ok", _ => "pred.check.failed" });
        ctx.distinct(&bytes);
        ctx.emit(&format!("pred {i} {npred}"), if c1 == c2 && c1 == c3 { "same" } else { "differs" });
    }
}

pub fn run(ctx: &mut Ctx) {
    mem_histories(ctx);
    reuse(ctx);
    predicates(ctx);
}
